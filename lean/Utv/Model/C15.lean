import Utv.Model.JsonSchema
/-!
C15 — types built from a JSON Schema (`utype/specs/json_schema/parser.py`, as repaired by
`fixes/C15-*.patch`).

* `Ty`              the types the parser can build (builtin classes, `Rule.annotate` results, logical
                    combinations, `Schema` subclasses with their fields and options).
* `parse res s`     `JsonSchemaParser(s)()`  — `parse_type / parse_array / parse_object / parse_field /
                    get_constraints / infer_type / get_attname / annotate`, branch for branch, with the
                    declaration checks of `Rule` (`Constraints.validate_constraints`, rule.py:777-841) that make a
                    build raise `ConfigError`.  `none` = the build raises.
* `conforms R T j`  the *contract* of a built type: what the JSON form `j` of a value returned by a
                    successful parse at `T` looks like (C01/C05's conclusion, JSON side).  It is the hypothesis
                    of the soundness theorem and is evaluated on every value the real code returns.
* `inFragment`      the schemas the property quantifies over.
* `KnownDefect.*`   decidable predicates naming where the unchanged code is known to depart.

The specification side is `Utv.JsonSchema.validate` (shared with C13).
Schemas are `Utv.JsonSchema.Json` values; an object keeps the member order of the document (Python dicts
are ordered, and `list(schema) == ['type']`, the order of `properties` and of `required` matter to the parser).
A JSON number written without fraction/exponent (`exp = 0`) is a Python `int`, any other a `float`.
-/
namespace Utv.C15
open Utv.JsonSchema

/-! ## tables of `constant.py` (compared with the source text on every run: `harness/c15.py: extra_static`) -/

/-- `CONSTRAINTS_MAP` (constant.py:59-80) -/
def constraintsMap : List (String × String) :=
  [("multipleOf", "multiple_of"), ("maximum", "le"), ("minimum", "ge"), ("exclusiveMaximum", "lt"),
   ("exclusiveMinimum", "gt"), ("decimalPlaces", "decimal_places"), ("maxDigits", "max_digits"),
   ("enum", "enum"), ("const", "const"), ("maxItems", "max_length"), ("minItems", "min_length"),
   ("uniqueItems", "unique_items"), ("maxContains", "max_contains"), ("minContains", "min_contains"),
   ("contains", "contains"), ("maxProperties", "max_length"), ("minProperties", "min_length"),
   ("minLength", "min_length"), ("maxLength", "max_length"), ("pattern", "regex")]

/-- `TYPE_CONSTRAINTS_MAP` (constant.py:82-114): per group of primitive types, the keywords that apply
(the values of the group's map, in source order) -/
def typeGroups : List (List String × List String) :=
  [(["integer", "number"], ["multipleOf", "maximum", "exclusiveMaximum", "minimum", "exclusiveMinimum",
                            "decimalPlaces", "maxDigits", "enum", "const"]),
   (["array"], ["maxItems", "minItems", "uniqueItems", "maxContains", "minContains", "contains", "enum", "const"]),
   (["object"], ["maxProperties", "minProperties", "enum", "const"]),
   (["string"], ["pattern", "maxLength", "minLength", "enum", "const"]),
   (["boolean", "null"], ["enum", "const"])]

/-- `DEFAULT_CONSTRAINTS_MAP` keys -/
def defaultKeywords : List String := ["enum", "const"]

/-- `JsonSchemaParser.TYPE_KEYWORDS` (parser.py, fix C15-3) -/
def typeKeywords : List (String × List String) :=
  [("object", ["properties", "required", "additionalProperties", "dependentRequired", "propertyNames", "patternProperties"]),
   ("array", ["items", "prefixItems"])]

/-! ## the types the parser builds -/

inductive Prim where
  | null | str | bool | int | float | dict | list | tuple
  | decimal                    -- `Decimal` (TYPE_MAP['decimal']): published as a JSON number
  | sfmt (name : String)       -- bytes / datetime / date / time / timedelta / UUID / IPv4Address / IPv6Address: published as a string
  deriving Repr, DecidableEq, Inhabited

/-- `TYPE_MAP` (constant.py:16-37) -/
def typeMap (name : String) : Option Prim :=
  if name == "null" then some .null
  else if name == "string" then some .str
  else if name == "boolean" || name == "bool" then some .bool
  else if name == "object" then some .dict
  else if name == "array" then some .list
  else if name == "integer" || name == "int" || name == "bigint" then some .int
  else if name == "number" || name == "float" then some .float
  else if name == "decimal" then some .decimal
  else if name == "binary" then some (.sfmt "bytes")
  else if name == "ipv4" then some (.sfmt "IPv4Address")
  else if name == "ipv6" then some (.sfmt "IPv6Address")
  else if name == "date-time" then some (.sfmt "datetime")
  else if name == "date" then some (.sfmt "date")
  else if name == "time" then some (.sfmt "time")
  else if name == "duration" then some (.sfmt "timedelta")
  else if name == "uuid" then some (.sfmt "UUID")
  else none

/-- `JsonSchemaParser.get_primitive` over `PRIMITIVE_MAP` (constant.py:8-15); default `'string'` -/
def primitiveOf : Prim → String
  | .null => "null"
  | .bool => "boolean"
  | .dict => "object"
  | .list => "array"
  | .tuple => "array"
  | .int => "integer"
  | .float => "number"
  | .decimal => "number"
  | .str => "string"
  | .sfmt _ => "string"

inductive Op where
  | all | any | one | neg
  deriving Repr, DecidableEq, Inhabited

/-- what happens to members / items the declaration does not name -/
inductive AddK where
  | free       -- nothing is promised about them (tuple without `items`; `Options(addition=True)`)
  | reject     -- there are none (`addition=False`)
  | typed      -- they are converted to `addTy`
  deriving Repr, DecidableEq, Inhabited

abbrev Cons := List (String × Json)

mutual
inductive Ty where
  | any                                   -- `typing.Any`
  | anyRule                               -- the bare `Rule` class (what `Rule.annotate(Any, …)` and an absorbed combination return)
  | prim (p : Prim)
  | rule (base : Ty) (cons : Cons)        -- `Rule.annotate(base…, constraints=cons)`, cons ≠ []
  | arr (args : List Ty)                  -- origin `list` with 0 or 1 item type
  | tup (items : List Ty) (add : AddK) (addTy : Ty)   -- origin `tuple`, `Options(addition=…)`
  | map (val : Ty)                        -- `Rule.annotate(dict, str, val)`
  | logic (op : Op) (ts : List Ty)
  | data (fields : List Fld) (add : AddK) (addTy : Ty) (minP maxP : Option Num)   -- a `Schema` subclass
inductive Fld where
  | mk (attname name : String) (ty : Ty) (required : Bool) (deps : List String)
end

instance : Inhabited Ty := ⟨.any⟩

def Fld.attname : Fld → String | .mk a _ _ _ _ => a
def Fld.name : Fld → String | .mk _ n _ _ _ => n
def Fld.ty : Fld → Ty | .mk _ _ t _ _ => t
def Fld.required : Fld → Bool | .mk _ _ _ r _ => r
def Fld.deps : Fld → List String | .mk _ _ _ _ d => d

/-- `Not(Any)`: accepts nothing -/
def Ty.never : Ty := .logic .neg [.any]

/-! ## `LogicalType.combine` (rule.py:241-272) -/

/-- `arg in __args` compares classes by identity: only builtin classes and `Rule` itself can repeat -/
def sameObj : Ty → Ty → Bool
  | .prim a, .prim b => a == b
  | .anyRule, .anyRule => true
  | _, _ => false

def isAny : Ty → Bool
  | .any => true
  | _ => false

/-- the loop of `combine`: `none` = returned `Rule` early (Any inside `|` / `^`) -/
def combineArgs (op : Op) : List Ty → List Ty → Option (List Ty)
  | [], acc => some acc
  | t :: rest, acc =>
    if isAny t then
      (if op == .any || op == .one then none
       else if op == .all then combineArgs op rest acc
       else combineArgs op rest (if acc.any (sameObj t) then acc else acc ++ [t]))
    else combineArgs op rest (if acc.any (sameObj t) then acc else acc ++ [t])

def combine (op : Op) (ts : List Ty) : Ty :=
  match combineArgs op ts [] with
  | none => .anyRule
  | some [] => .anyRule
  | some [t] => if op == .neg then .logic op [t] else t
  | some acc => .logic op acc

/-! ## constraints -/

def isPyInt (n : Num) : Bool := n.exp == 0

def cmapOf (k : String) : Option String := constraintsMap.lookup k

/-- the keywords that are constraints for primitive type `ty` (`get_constraints`, fix C15-3):
the last group that lists the type; every mapped keyword when no group does -/
def groupKeywords (ty : Option String) : Option (List String) :=
  match ty with
  | none => none
  | some t => (typeGroups.filter fun g => g.1.contains t).getLast?.map (·.2)

def getConstraints (kvs : Obj) (ty : Option String) : Cons :=
  let kws := groupKeywords ty
  kvs.filterMap fun (k, v) =>
    match cmapOf k with
    | some name => (match kws with
      | some l => if l.contains k then some (name, v) else none
      | none => some (name, v))
    | none => none

/-- `infer_type` (fix C15-3) -/
def inferType (kvs : Obj) : Option String :=
  match typeGroups.find? fun g => g.2.any fun k => hasKey k kvs && !defaultKeywords.contains k with
  | some g => g.1.getLast?
  | none => (typeKeywords.find? fun g => g.2.any fun k => hasKey k kvs).map (·.1)

def numOf : Json → Option Num
  | .num n => some n
  | _ => none

/-- Python truthiness of a JSON value -/
def truthy : Json → Bool
  | .null => false
  | .bool b => b
  | .num n => n.mant != 0
  | .str s => s != ""
  | .arr xs => !xs.isEmpty
  | .obj o => !o.isEmpty

def isFalse : Json → Bool
  | .bool false => true
  | _ => false

/-- `valid_bounds` (rule.py:610-725) on a numeric origin; `true` = accepted -/
def checkBoundsCore (p : Prim) (gt ge lt le : Option Num) : Bool :=
  if gt.isSome && ge.isSome then false                       -- "gt/ge cannot assign together"
  else if lt.isSome && le.isSome then false                  -- "lt/le cannot assign together"
  else
    let mn := gt <|> ge
    let mx := lt <|> le
    (match mn, mx with
     | some a, some b => isPyInt a == isPyInt b              -- "gt/ge type must equal to lt/le type"
     | _, _ => true) &&
    (match mx <|> mn with
     | some b => !(p == .decimal && !isPyInt b)               -- {Decimal, float} is not a tolerated pair (a tuple sits in the table)
     | none => true) &&
    (match mn, mx with
     | some a, some b =>
       a.lt b &&                                              -- "lt/le must > gt/ge"
       !(isPyInt a && isPyInt b &&
         (match gt, lt with
          | some g, some l => g.mant != 0 && l.mant != 0 && decide (l.mant - g.mant < 2)   -- `if gt and lt: _max - _min < 2`
          | _, _ => false))
     | _, _ => true)

def checkBounds (p : Prim) (cons : Cons) : Bool :=
  checkBoundsCore p ((cons.lookup "gt").bind numOf) ((cons.lookup "ge").bind numOf)
    ((cons.lookup "lt").bind numOf) ((cons.lookup "le").bind numOf)

/-- `valid_length` (rule.py:546-608); `true` = accepted -/
def checkLengthCore (mn mx : Option Num) : Bool :=
  (match mn with
   | some a => isPyInt a && decide (0 ≤ a.mant)
   | none => true) &&
  (match mx with
   | some b => isPyInt b && decide (0 < b.mant) &&
     (match mn with
      | some a => a.mant == 0 || decide (a.mant ≤ b.mant)     -- min_length 0 is dropped before the comparison
      | none => true)
   | none => true)

def checkLength (cons : Cons) : Bool :=
  checkLengthCore ((cons.lookup "min_length").bind numOf) ((cons.lookup "max_length").bind numOf)

/-- `isinstance(const, origin)` or an exact-tolerance pair (rule.py:778-792, `TYPE_EXACT_TOLERANCE`) -/
def constFits (p : Prim) (v : Json) : Bool :=
  match p, v with
  | .null, .null => true
  | .str, .str _ => true
  | .bool, .bool _ => true
  | .int, .num _ => true                 -- int, or float through {int, float}
  | .int, .bool _ => true                -- bool is a subclass of int
  | .float, .num _ => true
  | .decimal, .num n => isPyInt n        -- {int, Decimal}; (float, Decimal) is a tuple in the table and never equals a set
  | .dict, .obj _ => true
  | .list, .arr _ => true
  | _, _ => false

/-- the origin class a `Rule` over `t` validates its constraints against -/
def originOf : Ty → Option Prim
  | .prim p => some p
  | .arr _ => some .list
  | .tup _ _ _ => some .tuple
  | .map _ => some .dict
  | _ => none

/-- `Rule.annotate(t…, constraints=cons)`: the class is created and `generate_validators` runs
`validate_constraints`; `none` = `ConfigError` -/
def mkRule (t : Ty) (cons : Cons) : Option Ty :=
  match t with
  | .any => some .anyRule                                     -- rule.py:1355-1361: constraints on Any are dropped with a warning
  | _ =>
    if cons.isEmpty then some t
    else match cons.lookup "const" with
      | some v =>
        (match originOf t with
         | some p => if constFits p v then some (.rule t cons) else none
         | none => none)                                       -- "const cannot apply to LogicalType" / not an instance of a data class
      | none =>
        if (cons.lookup "enum").isSome then some (.rule t cons)
        else
          let p := (originOf t).getD .str
          if checkBounds p cons && checkLength cons then some (.rule t cons) else none

/-- `Option.mapM`-style: all or nothing -/
def allSome {α : Type} : List (Option α) → Option (List α)
  | [] => some []
  | none :: _ => none
  | some a :: rest => (allSome rest).map (a :: ·)

/-- the origin alone (what the extra `const` / `enum` rules of `annotate` are built over) -/
def bareOrigin : Ty → Ty
  | .arr _ => .prim .list
  | .tup _ _ _ => .prim .tuple
  | .map _ => .prim .dict
  | t => t

/-- `JsonSchemaParser.annotate` (fix C15-4): const and enum get a rule of their own, all have to hold.
`hasArgs`: the first rule is built even without constraints (item / value types, tuple options).
(A Python dict has one entry per name; the document's member names are distinct, so each filter finds at most one.) -/
def annotate (t : Ty) (hasArgs : Bool) (cons : Cons) : Option Ty :=
  let singles := (cons.filter fun c => c.1 == "const") ++ (cons.filter fun c => c.1 == "enum")
  let rest := cons.filter fun c => !(c.1 == "const" || c.1 == "enum")
  let first := if !rest.isEmpty || hasArgs || singles.isEmpty then [mkRule t rest] else []
  match allSome (first ++ singles.map fun c => mkRule (bareOrigin t) [c]) with
  | some rules => some (combine .all rules)
  | none => none

/-! ## attribute names (`get_attname`, parser.py; `valid_attr`, utils/functional.py) -/

/-- Python's keyword list (`keyword.kwlist`, 3.12) -/
def pyKeywords : List String :=
  ["False", "None", "True", "and", "as", "assert", "async", "await", "break", "class", "continue", "def", "del",
   "elif", "else", "except", "finally", "for", "from", "global", "if", "import", "in", "is", "lambda", "nonlocal",
   "not", "or", "pass", "raise", "return", "try", "while", "with", "yield"]

def isAlnum (c : Char) : Bool := c.isAlphanum
def isIdentChar (c : Char) : Bool := c.isAlphanum || c == '_'

/-- `re.sub('[^A-Za-z0-9]+', '_', name)`: every maximal run of other characters becomes one `_` -/
def subRuns : List Char → Bool → List Char
  | [], _ => []
  | c :: rest, inRun =>
    if isAlnum c then c :: subRuns rest false
    else if inRun then subRuns rest true
    else '_' :: subRuns rest true

def stripL : List Char → List Char
  | '_' :: rest => stripL rest
  | cs => cs

def strip (cs : List Char) : List Char := (stripL (stripL cs).reverse).reverse

/-- the name before the collision loop -/
def sanitize (name : String) : String :=
  let cs := strip (subRuns name.toList false)
  let cs := match cs with
    | [] => "field_".toList
    | c :: _ => if c.isDigit then "field_".toList ++ cs else cs
  let s := String.ofList cs
  if pyKeywords.contains s then s ++ "_value" else s

/-- the collision loop: `origin`, `origin_1`, `origin_2`, … until one is free (`sfx i` = `'_' + str(i)`).
At most `excludes.length` candidates can be taken, so the fuel never runs out. -/
def firstFree (sfx : Nat → String) (origin : String) (excludes : List String) : Nat → Nat → String
  | 0, i => origin ++ sfx i
  | fuel + 1, i =>
    let cand := origin ++ sfx i
    if excludes.contains cand then firstFree sfx origin excludes fuel (i + 1) else cand

def getAttname (sfx : Nat → String) (name : String) (excludes : List String) : String :=
  let origin := sanitize name
  if excludes.contains origin then firstFree sfx origin excludes excludes.length 1 else origin

/-- what is not the parser's business about names: `str.isidentifier` on the original key
(Unicode tables), the attribute names of the base class, and `'_' + str(i)` -/
structure Names where
  isIdent : String → Bool
  reserved : List String          -- `dir(Schema)`
  sfx : Nat → String

def validAttr (N : Names) (name : String) : Bool := N.isIdent name && !pyKeywords.contains name

/-- the attribute name of property `key` given the attributes taken so far and all property names
(parse_object, fix C15-2) -/
def attnameFor (N : Names) (taken : List String) (allKeys : List String) (key : String) : String :=
  let excludes := taken ++ allKeys.filter (· != key) ++ N.reserved
  if !validAttr N key || key.startsWith "_" || excludes.contains key then getAttname N.sfx key excludes else key

def assignAttnames (N : Names) (allKeys : List String) : List String → List String → List String
  | [], _ => []
  | key :: rest, taken =>
    let a := attnameFor N taken allKeys key
    a :: assignAttnames N allKeys rest (taken ++ [a])

/-! ## the parser -/

/-- what the recursive calls on the members of one schema object returned -/
inductive Sub where
  | one (t : Option Ty)                          -- items, additionalProperties
  | many (ts : List (Option Ty))                 -- prefixItems, anyOf, oneOf, allOf
  | props (ps : List (String × Option Ty))       -- properties
  | skip
  deriving Inhabited

abbrev Subs := List (String × Sub)

def subOne (subs : Subs) (k : String) : Option Ty :=
  match subs.lookup k with
  | some (.one t) => t
  | _ => none

def subMany (subs : Subs) (k : String) : List (Option Ty) :=
  match subs.lookup k with
  | some (.many ts) => ts
  | _ => []

def subProps (subs : Subs) : List (String × Option Ty) :=
  match subs.lookup "properties" with
  | some (.props ps) => ps
  | _ => []

def strsOf : Json → List String
  | .arr xs => xs.filterMap strOf
  | _ => []

def lookupStr (k : String) (kvs : Obj) : Option String := (lookup k kvs).bind strOf

/-- `typeOfValue v` = `type(v)` of the Python value of a JSON document -/
def typeOfValue : Json → Prim
  | .null => .null
  | .bool _ => .bool
  | .num n => if isPyInt n then .int else .float
  | .str _ => .str
  | .arr _ => .list
  | .obj _ => .dict

/-- `min(v, n)`; the existing value wins a tie -/
def minJ (v : Json) (n : Num) : Json :=
  match v with
  | .num m => if n.lt m then .num n else .num m
  | _ => .num n

/-- `constraints['max_length'] = min(constraints.get('max_length', n), n)` (a dict has one entry per name) -/
def capLength (cons : Cons) (n : Nat) : Cons :=
  if (cons.lookup "max_length").isSome
  then cons.map fun c => if c.1 == "max_length" then (c.1, minJ c.2 (Num.ofNat n)) else c
  else cons ++ [("max_length", .num (Num.ofNat n))]

/-- `parse_array` (parser.py) -/
def parseArray (kvs : Obj) (subs : Subs) (cons : Cons) : Option Ty :=
  if keys kvs == ["type"] && cons.isEmpty then some (.prim .list) else
  let items := lookup "items" kvs
  let prefixOk := match lookup "prefixItems" kvs with
    | some v => truthy v
    | none => false
  if prefixOk then
    match allSome (subMany subs "prefixItems") with
    | none => none
    | some args =>
      (match items with
       | some v =>
         if isFalse v then
           -- fix C15-8: no further items is also `max_length = min(max_length, len(prefixItems))`
           annotate (.tup args .reject .any) true (capLength cons args.length)
         else if truthy v then (match subOne subs "items" with
           | some t => annotate (.tup args .typed t) true cons
           | none => none)
         else annotate (.tup args .free .any) true cons
       | none => annotate (.tup args .free .any) true cons)
  else
    match items with
    | some v =>
      -- fix C15-9: `items: false` without prefixItems is an item type too (the one nothing meets)
      if truthy v || isFalse v then (match subOne subs "items" with
        | some t => annotate (.arr [t]) true cons
        | none => none)
      else annotate (.arr []) false cons
    | none => annotate (.arr []) false cons

/-- `schema.get('required') or []` -/
def requiredNames (kvs : Obj) : List String :=
  match lookup "required" kvs with
  | some v => strsOf v
  | none => []

/-- `schema.get('dependentRequired') or {}` -/
def depsObj (kvs : Obj) : Obj :=
  match lookup "dependentRequired" kvs with
  | some (.obj d) => d
  | _ => []

/-- the names `required` / `dependentRequired` mention, in the order the parser visits them -/
def mentioned (kvs : Obj) : List String :=
  requiredNames kvs ++ (depsObj kvs).map (·.1) ++ ((depsObj kvs).map fun d => strsOf d.2).flatten

def dedupStr : List String → List String → List String
  | [], _ => []
  | x :: rest, seen => if seen.contains x then dedupStr rest seen else x :: dedupStr rest (seen ++ [x])

/-- the type of a property that is only mentioned: the additional type, nothing when additional members are
forbidden, anything otherwise (fix C15-5) -/
def implicitTy (kvs : Obj) (subs : Subs) : Option Ty :=
  match lookup "additionalProperties" kvs with
  | some (.obj _) => subOne subs "additionalProperties"
  | some (.bool false) => some Ty.never
  | _ => some .any

def depsOf (deps : Obj) (n : String) : List String :=
  match lookup n deps with
  | some v => strsOf v
  | none => []

def mkFields (props : List (String × Ty)) (attnames : List String) (req : List String) (deps : Obj) : List Fld :=
  match props, attnames with
  | (n, t) :: ps, a :: as => .mk a n t (req.contains n) (depsOf deps n) :: mkFields ps as req deps
  | _, _ => []

def optNum (kvs : Obj) (k : String) : Option Num := (lookup k kvs).bind numOf

/-- the declared properties with the types built for them -/
def declaredProps (kvs : Obj) (subs : Subs) : List (String × Option Ty) :=
  match lookup "properties" kvs with
  | some v => if truthy v then subProps subs else []
  | none => []

/-- the names that are only mentioned by `required` / `dependentRequired` -/
def implicitNames (kvs : Obj) (subs : Subs) : List String :=
  dedupStr (mentioned kvs) ((declaredProps kvs subs).map (·.1))

/-- `Options(addition=…)` of the class (fix C15-5: kept when the keyword is absent) -/
def additionOf (kvs : Obj) (subs : Subs) : Option (AddK × Ty) :=
  match lookup "additionalProperties" kvs with
  | some (.obj _) => (subOne subs "additionalProperties").map fun t => (.typed, t)
  | some (.bool false) => some (.reject, .any)
  | _ => some (.free, .any)

/-- the value type of a plain mapping -/
def mapValue (kvs : Obj) (subs : Subs) : Option Ty :=
  match lookup "additionalProperties" kvs with
  | some (.obj _) => subOne subs "additionalProperties"
  | _ => some .any

/-- const / enum of an object: a rule over the class each, compared as a dict (in the order of the document) -/
def layerEnums (cons : Cons) (cls : Ty) : Ty :=
  cons.foldl (fun c kv =>
    if kv.1 == "const" then Ty.rule c [("enum", .arr [kv.2])]
    else if kv.1 == "enum" then Ty.rule c [("enum", kv.2)]
    else c) cls

/-- the `Schema` subclass for the properties `props` -/
def objectClass (N : Names) (kvs : Obj) (props : List (String × Ty)) (addK : AddK) (addTy : Ty) : Ty :=
  let names := props.map (·.1)
  Ty.data (mkFields props (assignAttnames N names names []) (requiredNames kvs) (depsObj kvs)) addK addTy
    (optNum kvs "minProperties") (optNum kvs "maxProperties")

/-- `parse_object` (parser.py) -/
def parseObject (N : Names) (kvs : Obj) (subs : Subs) (cons : Cons) : Option Ty :=
  if keys kvs == ["type"] && cons.isEmpty then some (.prim .dict) else
  let declared := declaredProps kvs subs
  let implicit := implicitNames kvs subs
  if declared.isEmpty && implicit.isEmpty && !((lookup "additionalProperties" kvs).map isFalse).getD false then
    -- a plain mapping
    match mapValue kvs subs with
    | some v => annotate (.map v) true cons
    | none => none
  else
    match additionOf kvs subs with
    | none => none
    | some (addK, addTy) =>
      match allSome ((declared ++ implicit.map fun n => (n, implicitTy kvs subs)).map fun p => p.2.map fun t => (p.1, t)) with
      | none => none
      | some props => some (layerEnums cons (objectClass N kvs props addK addTy))

/-- the class a `format` names, when it is of primitive type `t` (fix C15-3) -/
def formatClass (kvs : Obj) (t : String) : Option Prim :=
  match lookupStr "format" kvs with
  | some f => (match typeMap f with
    | some p => if primitiveOf p == t then some p else none
    | none => none)
  | none => none

/-- the class of a scalar schema: by format / type, else the class of the const / first enum value, else Any -/
def scalarClass (kvs : Obj) (ty : Option String) : Ty :=
  match ty with
  | some t => (match formatClass kvs t <|> typeMap t with
    | some p => .prim p
    | none => .any)
  | none => (match lookup "const" kvs with
    | some v => .prim (typeOfValue v)
    | none => (match lookup "enum" kvs with
      | some (.arr (v :: _)) => .prim (typeOfValue v)
      | _ => .any))

/-- null passes const / enum (fix C15-7: a Rule returns None before it looks at its constraints) -/
def nullPasses (cons : Cons) : Bool :=
  cons.all fun c =>
    if c.1 == "const" then (match c.2 with
      | .null => true
      | _ => false)
    else if c.1 == "enum" then (match c.2 with
      | .arr vs => vs.any fun v => match v with
        | .null => true
        | _ => false
      | _ => false)
    else true

/-- the constraints on a scalar class -/
def constrain (t0 : Ty) (cons : Cons) : Option Ty :=
  if cons.isEmpty then some t0
  else match t0 with
    | .prim .null => some (if nullPasses cons then t0 else Ty.never)
    | _ => annotate t0 false cons

/-- the type for the schema itself, before the combinators (parse_type, the part after `type` is known) -/
def baseType (N : Names) (kvs : Obj) (subs : Subs) (ty : Option String) : Option Ty :=
  let ty := ty <|> inferType kvs
  let cons := getConstraints kvs ty
  if ty == some "array" then parseArray kvs subs cons
  else if ty == some "object" then parseObject N kvs subs cons
  else constrain (scalarClass kvs ty) cons

/-- the condition one combinator keyword adds (fix C15-4): nothing when the keyword is absent (or empty) -/
def condGroup (kvs : Obj) (subs : Subs) (k : String) (op : Op) : Option (List Ty) :=
  match lookup k kvs with
  | some v => if truthy v then (allSome (subMany subs k)).map fun ts => [combine op ts] else some []
  | none => some []

/-- the conditions anyOf / oneOf / allOf add -/
def conditions (kvs : Obj) (subs : Subs) : Option (List Ty) :=
  match condGroup kvs subs "anyOf" .any, condGroup kvs subs "oneOf" .one, condGroup kvs subs "allOf" .all with
  | some a, some b, some c => some (a ++ b ++ c)
  | _, _, _ => none

/-- parse_type once the primitive type (or its absence) is fixed -/
def assembleWith (N : Names) (kvs : Obj) (subs : Subs) (ty : Option String) : Option Ty :=
  match baseType N kvs subs ty with
  | none => none
  | some t =>
    (match conditions kvs subs with
     | none => none
     | some [] => some t
     | some cs => some (combine .all (t :: cs)))

def emptyEnum (kvs : Obj) : Bool :=
  match lookup "enum" kvs with
  | some (.arr []) => true
  | _ => false

/-- parse_type of a schema object whose members have been parsed -/
def assemble (N : Names) (kvs : Obj) (subs : Subs) : Option Ty :=
  if emptyEnum kvs then some Ty.never else      -- fix C15-9: an empty enum accepts nothing
  match lookup "type" kvs with
  | some (.arr ts) =>
    -- fix C15-6: the same schema with any one of the types
    (allSome ((ts.filterMap strOf).map fun t => assembleWith N kvs subs (some t))).map (combine .any)
  | some (.str t) => assembleWith N kvs subs (if t == "" then none else some t)
  | _ => assembleWith N kvs subs none

def oneKeywords : List String := ["items", "additionalProperties"]
def manyKeywords : List String := ["prefixItems", "anyOf", "oneOf", "allOf"]

mutual
/-- `JsonSchemaParser(s)()`; `none` = raises -/
def parse (N : Names) (s : Json) : Option Ty :=
  match s with
  | .obj kvs => assemble N kvs (parseKws N kvs)
  | .bool true => some .any            -- fix C15-9: the boolean schemas
  | .bool false => some Ty.never
  | _ => none
termination_by structural s
def parseKws (N : Names) (kws : List (String × Json)) : Subs :=
  match kws with
  | [] => []
  | (k, v) :: rest =>
    (k, if oneKeywords.contains k then .one (parse N v)
        else if manyKeywords.contains k then (match v with
          | .arr ss => .many (parseList N ss)
          | _ => .skip)
        else if k == "properties" then (match v with
          | .obj ps => .props (parseProps N ps)
          | _ => .skip)
        else .skip) :: parseKws N rest
termination_by structural kws
def parseList (N : Names) (ss : List Json) : List (Option Ty) :=
  match ss with
  | [] => []
  | s :: rest => parse N s :: parseList N rest
termination_by structural ss
def parseProps (N : Names) (ps : List (String × Json)) : List (String × Option Ty) :=
  match ps with
  | [] => []
  | (n, s) :: rest => (n, parse N s) :: parseProps N rest
termination_by structural ps
end

/-! ## the contract of a built type on the JSON form of what it returns -/

structure Rx where
  full : String → String → Bool          -- `re.fullmatch(p, s)` (Constraints.regex, rule.py:1008-1011)
  search : String → String → Bool        -- JSON Schema `pattern`

def sizeOf? : Json → Option Nat
  | .str s => some s.length
  | .arr xs => some xs.length
  | .obj o => some o.length
  | _ => none

def numSat (rel : Num → Num → Bool) (bound j : Json) : Bool :=
  match bound, j with
  | .num b, .num n => rel b n
  | _, _ => true

def lenSat (rel : Num → Num → Bool) (bound j : Json) : Bool :=
  match bound with
  | .num b => (match sizeOf? j with
    | some n => rel b (Num.ofNat n)
    | none => true)
  | _ => true

/-- one constraint of a `Rule`, in its documented (strict) sense, on the JSON form of the value -/
def sat (R : Rx) (c : String × Json) (j : Json) : Bool :=
  if c.1 == "gt" then numSat (fun b n => b.lt n) c.2 j
  else if c.1 == "ge" then numSat (fun b n => b.le n) c.2 j
  else if c.1 == "lt" then numSat (fun b n => n.lt b) c.2 j
  else if c.1 == "le" then numSat (fun b n => n.le b) c.2 j
  else if c.1 == "multiple_of" then numSat (fun d n => n.divisible d) c.2 j
  else if c.1 == "min_length" then lenSat (fun b n => b.le n) c.2 j
  else if c.1 == "max_length" then lenSat (fun b n => n.le b) c.2 j
  else if c.1 == "regex" then (match c.2, j with
    | .str p, .str s => R.full p s
    | _, _ => true)
  else if c.1 == "enum" then (match c.2 with
    | .arr vs => memEqv j vs
    | _ => true)
  else if c.1 == "const" then c.2.eqv j
  else if c.1 == "unique_items" then (match c.2, j with
    | .bool true, .arr xs => allDistinct xs
    | _, _ => true)
  else true

def primOk (p : Prim) (j : Json) : Bool :=
  match p, j with
  | .null, .null => true
  | .str, .str _ => true
  | .bool, .bool _ => true
  | .int, .num n => n.isInt
  | .float, .num _ => true
  | .decimal, .num _ => true
  | .sfmt _, .str _ => true
  | .dict, .obj _ => true
  | .list, .arr _ => true
  | .tuple, .arr _ => true
  | _, _ => false

def fieldNames (fs : List Fld) : List String := fs.map Fld.name

def countOk (lo hi : Option Num) (n : Nat) : Bool :=
  (match lo with
   | some a => a.le (Num.ofNat n)
   | none => true) &&
  (match hi with
   | some b => (Num.ofNat n).le b
   | none => true)

mutual
def conforms (R : Rx) (t : Ty) (j : Json) : Bool :=
  match t with
  | .any => true
  | .anyRule => true
  | .prim p => primOk p j
  | .rule base cons => conforms R base j && cons.all fun c => sat R c j
  | .arr args => (match j with
    | .arr xs => conformsEach R args xs
    | _ => false)
  | .tup items add addTy => (match j with
    | .arr xs =>
      conformsZip R items xs && (match add with
        | .free => true
        | .reject => decide (xs.length ≤ items.length)
        | .typed => (xs.drop items.length).all fun x => conforms R addTy x)
    | _ => false)
  | .map val => (match j with
    | .obj o => o.all fun m => conforms R val m.2
    | _ => false)
  | .logic op ts => (match op with
    | .all => conformsAll R ts j
    | .any => conformsAny R ts j
    | .one => conformsAny R ts j          -- the value is the output of the one condition that accepted the input
    | .neg => !conformsAny R ts j)
  | .data fields add addTy minP maxP => (match j with
    | .obj o =>
      strDistinct (keys o) &&          -- a published dict has one member per name
      conformsFields R fields o &&
      (o.all fun m => (fieldNames fields).contains m.1 || (match add with
        | .free => true
        | .reject => false
        | .typed => conforms R addTy m.2)) &&
      countOk minP maxP o.length
    | _ => false)
termination_by structural t
/-- every element conforms to every (0 or 1) item type -/
def conformsEach (R : Rx) (ts : List Ty) (xs : List Json) : Bool :=
  match ts with
  | [] => true
  | t :: rest => (xs.all fun x => conforms R t x) && conformsEach R rest xs
termination_by structural ts
/-- every declared prefix item is there and conforms -/
def conformsZip (R : Rx) (ts : List Ty) (xs : List Json) : Bool :=
  match ts with
  | [] => true
  | t :: rest => (match xs with
    | [] => false
    | x :: xs' => conforms R t x && conformsZip R rest xs')
termination_by structural ts
def conformsAll (R : Rx) (ts : List Ty) (j : Json) : Bool :=
  match ts with
  | [] => true
  | t :: rest => conforms R t j && conformsAll R rest j
termination_by structural ts
def conformsAny (R : Rx) (ts : List Ty) (j : Json) : Bool :=
  match ts with
  | [] => false
  | t :: rest => conforms R t j || conformsAny R rest j
termination_by structural ts
/-- a present member of a field conforms to the field's type and has its dependencies; a required one is present -/
def conformsFields (R : Rx) (fs : List Fld) (o : Obj) : Bool :=
  match fs with
  | [] => true
  | .mk _ name ty required deps :: rest =>
    (match lookup name o with
     | some x => conforms R ty x && deps.all fun d => hasKey d o
     | none => !required) && conformsFields R rest o
termination_by structural fs
end

/-! ## the schemas the property quantifies over -/

def fragmentKeywords : List String :=
  ["type", "format", "multipleOf", "maximum", "exclusiveMaximum", "minimum", "exclusiveMinimum", "maxLength",
   "minLength", "pattern", "enum", "const", "items", "prefixItems", "maxItems", "minItems", "uniqueItems",
   "properties", "required", "additionalProperties", "dependentRequired", "maxProperties", "minProperties",
   "anyOf", "oneOf", "allOf"]

def isNum : Json → Bool
  | .num _ => true
  | _ => false

/-- a size: a non-negative integer (however it is written: `3.0` is one, and `Rule` refuses it) -/
def isSize : Json → Bool
  | .num n => n.isNonNegInt
  | _ => false

def nonEmptyStr : Json → Bool
  | .str s => s != ""
  | _ => false

def nonEmptyNames : Json → Bool
  | .arr xs => allDistinct xs && xs.all nonEmptyStr
  | _ => false

/-- keywords whose value is not a schema -/
def fragSimple (_all : Obj) (k : String) (v : Json) : Bool :=
  if k == "type" then (match v with
    | .str t => primitiveNames.contains t
    | .arr ts => !ts.isEmpty && wfType v
    | _ => false)
  else if k == "format" then (strOf v).isSome
  else if k == "multipleOf" then (match v with
    | .num n => n.isPos
    | _ => false)
  else if k == "maximum" || k == "exclusiveMaximum" || k == "minimum" || k == "exclusiveMinimum" then isNum v
  else if k == "maxLength" || k == "minLength" || k == "maxItems" || k == "minItems" || k == "maxProperties"
      || k == "minProperties" then isSize v
  else if k == "pattern" then (strOf v).isSome
  else if k == "uniqueItems" then (match v with
    | .bool _ => true
    | _ => false)
  else if k == "enum" then (match v with
    | .arr _ => true
    | _ => false)
  else if k == "const" then true
  else if k == "required" then nonEmptyNames v
  else if k == "dependentRequired" then (match v with
    | .obj deps => strDistinct (keys deps) && deps.all fun d => d.1 != "" && nonEmptyNames d.2
    | _ => false)
  else false

mutual
def inFragment (s : Json) : Bool :=
  match s with
  | .obj kvs => strDistinct (keys kvs) && fragKws kvs kvs
  | .bool _ => true            -- the boolean schemas, wherever a schema is expected
  | _ => false
termination_by structural s
def fragKws (all : Obj) (kws : List (String × Json)) : Bool :=
  match kws with
  | [] => true
  | (k, v) :: rest =>
    (fragmentKeywords.contains k &&
     (if k == "items" || k == "additionalProperties" then inFragment v
      else if manyKeywords.contains k then (match v with
        | .arr (s :: ss) => inFragment s && fragList ss
        | _ => false)
      else if k == "properties" then (match v with
        | .obj ps => strDistinct (keys ps) && !(keys ps).contains "" && fragProps ps
        | _ => false)
      else fragSimple all k v)) && fragKws all rest
termination_by structural kws
def fragList (ss : List Json) : Bool :=
  match ss with
  | [] => true
  | s :: rest => inFragment s && fragList rest
termination_by structural ss
def fragProps (ps : List (String × Json)) : Bool :=
  match ps with
  | [] => true
  | (_, s) :: rest => inFragment s && fragProps rest
termination_by structural ps
end

/-! ### the fragment without the one restriction that hides a defect: property names may be empty.
`inFragmentW s ∧ ¬KnownDefect.emptyName s → inFragment s` (`Lemmas/C15Wide.lean`); the theorems are stated over
`inFragmentW` with `emptyName` as a listed known finding (`Field(alias='')` cannot name a member). -/

def isStr : Json → Bool
  | .str _ => true
  | _ => false

def uniqueStrs : Json → Bool
  | .arr xs => allDistinct xs && xs.all isStr
  | _ => false

def fragSimpleW (all : Obj) (k : String) (v : Json) : Bool :=
  if k == "required" then uniqueStrs v
  else if k == "dependentRequired" then (match v with
    | .obj deps => strDistinct (keys deps) && deps.all fun d => uniqueStrs d.2
    | _ => false)
  else fragSimple all k v

mutual
def inFragmentW (s : Json) : Bool :=
  match s with
  | .obj kvs => strDistinct (keys kvs) && fragKwsW kvs kvs
  | .bool _ => true
  | _ => false
termination_by structural s
def fragKwsW (all : Obj) (kws : List (String × Json)) : Bool :=
  match kws with
  | [] => true
  | (k, v) :: rest =>
    (fragmentKeywords.contains k &&
     (if k == "items" || k == "additionalProperties" then inFragmentW v
      else if manyKeywords.contains k then (match v with
        | .arr (s :: ss) => inFragmentW s && fragListW ss
        | _ => false)
      else if k == "properties" then (match v with
        | .obj ps => strDistinct (keys ps) && fragPropsW ps
        | _ => false)
      else fragSimpleW all k v)) && fragKwsW all rest
termination_by structural kws
def fragListW (ss : List Json) : Bool :=
  match ss with
  | [] => true
  | s :: rest => inFragmentW s && fragListW rest
termination_by structural ss
def fragPropsW (ps : List (String × Json)) : Bool :=
  match ps with
  | [] => true
  | (_, s) :: rest => inFragmentW s && fragPropsW rest
termination_by structural ps
end

/-! ## known departures -/

namespace KnownDefect

/-- a list of names with an empty one -/
def hasEmptyStr : Json → Bool
  | .arr xs => xs.any fun x => !nonEmptyStr x
  | _ => false

mutual
/-- `empty-property-name`: a property (declared, required or mentioned by dependentRequired) named `""`:
`Field(alias='')` is no alias, so the field is named after its attribute (`field_`) and the member `""` is an
additional one — not converted, and never found when it is required -/
def emptyName (s : Json) : Bool :=
  match s with
  | .obj kvs => emptyNameKws kvs
  | _ => false
termination_by structural s
def emptyNameKws (kws : List (String × Json)) : Bool :=
  match kws with
  | [] => false
  | (k, v) :: rest =>
    (if k == "properties" then (match v with
        | .obj ps => (keys ps).contains "" || emptyNameProps ps
        | _ => false)
      else if k == "required" then hasEmptyStr v
      else if k == "dependentRequired" then (match v with
        | .obj deps => (keys deps).contains "" || deps.any fun d => hasEmptyStr d.2
        | _ => false)
      else if oneKeywords.contains k then emptyName v
      else if manyKeywords.contains k then (match v with
        | .arr ss => emptyNameList ss
        | _ => false)
      else false) || emptyNameKws rest
termination_by structural kws
def emptyNameList (ss : List Json) : Bool :=
  match ss with
  | [] => false
  | s :: rest => emptyName s || emptyNameList rest
termination_by structural ss
def emptyNameProps (ps : List (String × Json)) : Bool :=
  match ps with
  | [] => false
  | (_, s) :: rest => emptyName s || emptyNameProps rest
termination_by structural ps
end


mutual
/-- `oneof-branch-stricter`: at every `oneOf` the instance meets, at most one branch schema validates it.
(The parser's `^` counts the branch *types* that accept; a built type is stricter than its schema — it
rejects what the schema does not talk about — so the count can be 1 where the schema's count is 2.) -/
def oneOfAtMost (C : Ctx) (s j : Json) : Bool :=
  match s with
  | .obj kvs => oneOfKws C kvs kvs j
  | _ => true
termination_by structural s
def oneOfKws (C : Ctx) (all : Obj) (kws : List (String × Json)) (j : Json) : Bool :=
  match kws with
  | [] => true
  | (k, v) :: rest =>
    (if k == "oneOf" then (match v with
        | .arr ss => decide (validateCount C ss j ≤ 1) && oneOfList C ss j
        | _ => true)
      else if k == "anyOf" || k == "allOf" then (match v with
        | .arr ss => oneOfList C ss j
        | _ => true)
      else if k == "items" then (match j with
        | .arr xs => (xs.drop (prefixLen all)).all fun x => oneOfAtMost C v x
        | _ => true)
      else if k == "prefixItems" then (match v, j with
        | .arr ss, .arr xs => oneOfZip C ss xs
        | _, _ => true)
      else if k == "properties" then (match v, j with
        | .obj ps, .obj o => oneOfProps C ps o
        | _, _ => true)
      else if k == "additionalProperties" then (match j with
        | .obj o => o.all fun m => oneOfAtMost C v m.2
        | _ => true)
      else true) && oneOfKws C all rest j
termination_by structural kws
def oneOfList (C : Ctx) (ss : List Json) (j : Json) : Bool :=
  match ss with
  | [] => true
  | s :: rest => oneOfAtMost C s j && oneOfList C rest j
termination_by structural ss
def oneOfZip (C : Ctx) (ss : List Json) (xs : List Json) : Bool :=
  match ss with
  | [] => true
  | s :: rest => (match xs with
    | [] => true
    | x :: xs' => oneOfAtMost C s x && oneOfZip C rest xs')
termination_by structural ss
def oneOfProps (C : Ctx) (ps : List (String × Json)) (o : Obj) : Bool :=
  match ps with
  | [] => true
  | (n, s) :: rest => (match lookup n o with
    | some x => oneOfAtMost C s x
    | none => true) && oneOfProps C rest o
termination_by structural ps
end

def oneOfOverlap (C : Ctx) (s j : Json) : Bool := !oneOfAtMost C s j

/-! `degenerate-constraints`, exactly: some `Rule` the parser declares for a schema object it reaches is refused by
`Rule`'s declaration checks (`checkBoundsCore`, `checkLengthCore`, `constFits`: rule.py:546-725, 777-792).
`C15_builds_iff` proves that this — and nothing else — makes a build of a fragment schema raise. -/

/-- a member, whatever it builds to -/
def stubOf (k : String) (v : Json) : Sub :=
  if oneKeywords.contains k then .one (some .any)
  else if manyKeywords.contains k then (match v with
    | .arr ss => .many (ss.map fun _ => some .any)
    | _ => .skip)
  else if k == "properties" then (match v with
    | .obj ps => .props (ps.map fun p => (p.1, some .any))
    | _ => .skip)
  else .skip

def stubKws : List (String × Json) → Subs
  | [] => []
  | (k, v) :: rest => (k, stubOf k v) :: stubKws rest

def noNames : Names := ⟨fun _ => true, [], fun _ => ""⟩

/-- the Rules declared for this schema object, built for primitive type `ty`, are accepted (its members stubbed:
they do not matter to the checks) -/
def declares (kvs : Obj) (ty : Option String) : Bool := (baseType noNames kvs (stubKws kvs) ty).isSome

/-- the primitive types a schema object is built for: the declared one(s), else none (then inferred) -/
def typesBuilt (kvs : Obj) : List (Option String) :=
  match lookup "type" kvs with
  | some (.arr ts) => (ts.filterMap strOf).map some
  | some (.str t) => [if t == "" then none else some t]
  | _ => [none]

def builtAs (kvs : Obj) (t : String) : Bool :=
  (typesBuilt kvs).any fun ty => (ty <|> inferType kvs) == some t

def prefixTruthy (kvs : Obj) : Bool :=
  match lookup "prefixItems" kvs with
  | some v => truthy v
  | none => false

/-- the parser builds a type for this member (of a schema object that is not cut short by an empty enum) -/
def reached (all : Obj) (k : String) (v : Json) : Bool :=
  if k == "prefixItems" then builtAs all "array" && truthy v
  else if k == "items" then builtAs all "array" &&
    (if prefixTruthy all then !isFalse v && truthy v else truthy v || isFalse v)
  else if k == "properties" then builtAs all "object" && truthy v
  else if k == "additionalProperties" then builtAs all "object" && (match v with
    | .obj _ => true
    | _ => false)
  else if k == "anyOf" || k == "oneOf" || k == "allOf" then truthy v
  else false

def refusedHere (kvs : Obj) : Bool := (typesBuilt kvs).any fun ty => !declares kvs ty

mutual
def degenerate (s : Json) : Bool :=
  match s with
  | .obj kvs => !emptyEnum kvs && (refusedHere kvs || degenerateKws kvs kvs)
  | _ => false
termination_by structural s
def degenerateKws (all : Obj) (kws : List (String × Json)) : Bool :=
  match kws with
  | [] => false
  | (k, v) :: rest =>
    (reached all k v &&
      (if oneKeywords.contains k then degenerate v
       else if manyKeywords.contains k then (match v with
         | .arr ss => degenerateList ss
         | _ => false)
       else if k == "properties" then (match v with
         | .obj ps => degenerateProps ps
         | _ => false)
       else false)) || degenerateKws all rest
termination_by structural kws
def degenerateList (ss : List Json) : Bool :=
  match ss with
  | [] => false
  | s :: rest => degenerate s || degenerateList rest
termination_by structural ss
def degenerateProps (ps : List (String × Json)) : Bool :=
  match ps with
  | [] => false
  | (_, s) :: rest => degenerate s || degenerateProps rest
termination_by structural ps
end

/-! ### where the run-time is known to break the contract `conforms` (predicates on the built type) -/

inductive Kind where
  | null | bool | num | str | arr | obj
  deriving Repr, DecidableEq, Inhabited

def allKinds : List Kind := [.null, .bool, .num, .str, .arr, .obj]

def primKind : Prim → Kind
  | .null => .null | .str => .str | .bool => .bool | .int => .num | .float => .num | .decimal => .num
  | .sfmt _ => .str | .dict => .obj | .list => .arr | .tuple => .arr

def unionKinds (a b : List Kind) : List Kind := a ++ b.filter fun k => !a.contains k

mutual
/-- the JSON kinds a type can publish (an over-approximation) -/
def kindsOf (t : Ty) : List Kind :=
  match t with
  | .any => allKinds
  | .anyRule => allKinds
  | .prim p => [primKind p]
  | .rule b _ => kindsOf b
  | .arr _ => [.arr]
  | .tup _ _ _ => [.arr]
  | .map _ => [.obj]
  | .logic op ts => if op == .neg then allKinds else kindsOfList ts
  | .data _ _ _ _ _ => [.obj]
termination_by structural t
def kindsOfList (ts : List Ty) : List Kind :=
  match ts with
  | [] => []
  | t :: rest => unionKinds (kindsOf t) (kindsOfList rest)
termination_by structural ts
end

def universal (ks : List Kind) : Bool := allKinds.all ks.contains

def stripRule : Ty → Ty
  | .rule b _ => stripRule b
  | t => t

mutual
/-- the class of one listed value, with the classes of its items / members -/
def tyOfJson (v : Json) : Ty :=
  match v with
  | .null => .prim .null
  | .bool _ => .prim .bool
  | .num n => if isPyInt n then .prim .int else .prim .float
  | .str _ => .prim .str
  | .arr xs => .tup (tysOfJson xs) .reject .any
  | .obj o => .data (fldsOfJson o) .reject .any none none
termination_by structural v
def tysOfJson (xs : List Json) : List Ty :=
  match xs with
  | [] => []
  | x :: rest => tyOfJson x :: tysOfJson rest
termination_by structural xs
def fldsOfJson (o : List (String × Json)) : List Fld :=
  match o with
  | [] => []
  | (n, x) :: rest => .mk n n (tyOfJson x) true [] :: fldsOfJson rest
termination_by structural o
end

/-- the values a `const` / `enum` rule lists -/
def listedValues (cons : Cons) : Option (List Json) :=
  match cons.lookup "const" with
  | some v => some [v]
  | none => (match cons.lookup "enum" with
    | some (.arr vs) => some vs
    | _ => none)

def isContainer : Ty → Bool
  | .prim .list => true
  | .prim .tuple => true
  | .prim .dict => true
  | .arr _ => true
  | .tup _ _ _ => true
  | .map _ => true
  | .data _ _ _ _ _ => true
  | _ => false

/-- what a conjunct says about the places inside a value: a `const` / `enum` rule over a container says what its
listed values hold there, any other rule what its base says -/
def shapeOf : Ty → Ty
  | .rule b cons =>
    if isContainer (stripRule b) then (match listedValues cons with
      | some vs => .logic .any (tysOfJson vs)
      | none => shapeOf b)
    else shapeOf b
  | t => t

/-- two conjuncts of one `&` that can hold values of different JSON kinds at the same place (the place is followed
through items, values, members of the same name and the values a `const` / `enum` over a container lists — a member that is a field of one class and an additional
member of the other is typed by the field there and by the additional type here; `fuel` bounds the descent) -/
def mixedPair : Nat → Ty → Ty → Bool
  | 0, _, _ => false
  | fuel + 1, a, b =>
    match shapeOf a, shapeOf b with
    | .arr xs, .arr ys => xs.any fun x => ys.any fun y => mixedPair fuel x y
    | .arr xs, .tup ys _ addTy => xs.any fun x => (ys.any fun y => mixedPair fuel x y) || mixedPair fuel x addTy
    | .tup xs _ addTy, .arr ys => ys.any fun y => (xs.any fun x => mixedPair fuel x y) || mixedPair fuel addTy y
    | .tup xs _ _, .tup ys _ _ => (xs.zip ys).any fun p => mixedPair fuel p.1 p.2
    | .map v, .map w => mixedPair fuel v w
    | .data fs ka a _ _, .data gs kb b _ _ =>
      -- the type each class gives a member: the field of that name, else its additional type (when it has one)
      (fs.any fun f => gs.any fun g => f.name == g.name && mixedPair fuel f.ty g.ty) ||
      (ka == .typed && gs.any fun g => !(fieldNames fs).contains g.name && mixedPair fuel a g.ty) ||
      (kb == .typed && fs.any fun f => !(fieldNames gs).contains f.name && mixedPair fuel f.ty b) ||
      (ka == .typed && kb == .typed && mixedPair fuel a b)
    | .data fs ka a _ _, .map w => (fs.any fun f => mixedPair fuel f.ty w) || (ka == .typed && mixedPair fuel a w)
    | .map v, .data gs kb b _ _ => (gs.any fun g => mixedPair fuel v g.ty) || (kb == .typed && mixedPair fuel v b)
    | .logic op ts, b' => op != .neg && ts.any fun t => mixedPair fuel t b'
    | a', .logic op ts => op != .neg && ts.any fun t => mixedPair fuel a' t
    | a', b' =>
      let ka := kindsOf a'
      let kb := kindsOf b'
      (!universal ka && !universal kb && ka.any fun x => kb.any fun y => x != y) ||
      -- same kind, lossy class: inside a data class (its own, lax options) the later `int` truncates what the
      -- earlier float / Decimal condition accepted (-0.5 -> 0)
      ((match a' with
        | .prim .float => true
        | .prim .decimal => true
        | _ => false) && (match b' with
        | .prim .int => true
        | _ => false))

def mixedConj : List Ty → Bool
  | [] => false
  | t :: rest => rest.any (mixedPair 8 t) || mixedConj rest

def hasStrCons (cons : Cons) : Bool := cons.any fun c => c.1 == "regex" || c.1 == "min_length" || c.1 == "max_length"

def hasBoolMember : Json → Bool
  | .arr vs => vs.any fun v => match v with
    | .bool _ => true
    | _ => false
  | _ => false

def hasBitMember : Json → Bool
  | .arr vs => vs.any fun v => match v with
    | .num n => n.eq (Num.ofNat 0) || n.eq (Num.ofNat 1)
    | _ => false
  | _ => false

mutual
/-- a boolean or a 0 / 1 somewhere inside a document -/
def deepBit (v : Json) : Bool :=
  match v with
  | .bool _ => true
  | .num n => n.eq (Num.ofNat 0) || n.eq (Num.ofNat 1)
  | .arr xs => deepBitList xs
  | .obj o => deepBitObj o
  | _ => false
termination_by structural v
def deepBitList (xs : List Json) : Bool :=
  match xs with
  | [] => false
  | x :: rest => deepBit x || deepBitList rest
termination_by structural xs
def deepBitObj (o : List (String × Json)) : Bool :=
  match o with
  | [] => false
  | (_, x) :: rest => deepBit x || deepBitObj rest
termination_by structural o
end

/-- an enum that Python membership (`True == 1`, also inside lists and dicts) reads differently from JSON equality -/
def enumConflates (base : Ty) (cons : Cons) : Bool :=
  match cons.lookup "enum" with
  | some vs =>
    let ks := kindsOf base
    (ks.contains .num && hasBoolMember vs) || (ks.contains .bool && hasBitMember vs) ||
    ((ks.contains .arr || ks.contains .obj) && (match vs with
      | .arr ms => ms.any fun m => match m with
        | .arr xs => deepBitList xs
        | .obj o => deepBitObj o
        | _ => false
      | _ => false))
  | none => false

mutual
/-- `conj-converts-kind`: some `&` has conjuncts of different JSON kinds, or a float condition before an `int` one:
a later conjunct converts what an earlier one accepted (True -> 1.0, [] -> {}, '{}' -> {}, 0 -> "0" for a member
that is additional in one class and a field of the other, -0.5 -> 0), so the result no longer meets the earlier one -/
def kindMix (t : Ty) : Bool :=
  match t with
  | .rule b _ => kindMix b
  | .arr args => kindMixList args
  | .tup items _ addTy => kindMixList items || kindMix addTy
  | .map v => kindMix v
  | .logic op ts => (op == .all && mixedConj ts) || kindMixList ts
  | .data fields _ addTy _ _ => kindMixFields fields || kindMix addTy
  | _ => false
termination_by structural t
def kindMixList (ts : List Ty) : Bool :=
  match ts with
  | [] => false
  | t :: rest => kindMix t || kindMixList rest
termination_by structural ts
def kindMixFields (fs : List Fld) : Bool :=
  match fs with
  | [] => false
  | .mk _ _ ty _ _ :: rest => kindMix ty || kindMixFields rest
termination_by structural fs
end

mutual
/-- `format-string-constraints`: length / pattern constraints on a class published as a formatted string are
checked on the Python value (`len(bytes)`, `str(timedelta)`), not on the published string -/
def fmtStrCons (t : Ty) : Bool :=
  match t with
  | .rule b cons => (hasStrCons cons && (match b with
      | .prim (.sfmt _) => true
      | _ => false)) || fmtStrCons b
  | .arr args => fmtStrConsList args
  | .tup items _ addTy => fmtStrConsList items || fmtStrCons addTy
  | .map v => fmtStrCons v
  | .logic _ ts => fmtStrConsList ts
  | .data fields _ addTy _ _ => fmtStrConsFields fields || fmtStrCons addTy
  | _ => false
termination_by structural t
def fmtStrConsList (ts : List Ty) : Bool :=
  match ts with
  | [] => false
  | t :: rest => fmtStrCons t || fmtStrConsList rest
termination_by structural ts
def fmtStrConsFields (fs : List Fld) : Bool :=
  match fs with
  | [] => false
  | .mk _ _ ty _ _ :: rest => fmtStrCons ty || fmtStrConsFields rest
termination_by structural fs
end

mutual
/-- `enum-bool-number`: an enum over a numeric class that lists a boolean, or over `bool` that lists 0 / 1 -/
def enumBoolNum (t : Ty) : Bool :=
  match t with
  | .rule b cons => enumConflates b cons || enumBoolNum b
  | .arr args => enumBoolNumList args
  | .tup items _ addTy => enumBoolNumList items || enumBoolNum addTy
  | .map v => enumBoolNum v
  | .logic _ ts => enumBoolNumList ts
  | .data fields _ addTy _ _ => enumBoolNumFields fields || enumBoolNum addTy
  | _ => false
termination_by structural t
def enumBoolNumList (ts : List Ty) : Bool :=
  match ts with
  | [] => false
  | t :: rest => enumBoolNum t || enumBoolNumList rest
termination_by structural ts
def enumBoolNumFields (fs : List Fld) : Bool :=
  match fs with
  | [] => false
  | .mk _ _ ty _ _ :: rest => enumBoolNum ty || enumBoolNumFields rest
termination_by structural fs
end

mutual
/-- `tuple-rest-in-object`: the type of the items after `prefixItems` lives in the Rule's own options, which only
count when the Rule is parsed on its own; inside a data class the class's addition policy is applied to them -/
def tupleRest (inData : Bool) (t : Ty) : Bool :=
  match t with
  | .rule b _ => tupleRest inData b
  | .arr args => tupleRestList inData args
  | .tup items add addTy => (inData && add == .typed) || tupleRestList inData items || tupleRest inData addTy
  | .map v => tupleRest inData v
  | .logic _ ts => tupleRestList inData ts
  | .data fields _ addTy _ _ => tupleRestFields fields || tupleRest true addTy
  | _ => false
termination_by structural t
def tupleRestList (inData : Bool) (ts : List Ty) : Bool :=
  match ts with
  | [] => false
  | t :: rest => tupleRest inData t || tupleRestList inData rest
termination_by structural ts
def tupleRestFields (fs : List Fld) : Bool :=
  match fs with
  | [] => false
  | .mk _ _ ty _ _ :: rest => tupleRest true ty || tupleRestFields rest
termination_by structural fs
end

mutual
/-- the attribute names a built type gave to properties whose own name it could not use -/
def renamedAttrs (t : Ty) : List String :=
  match t with
  | .rule b _ => renamedAttrs b
  | .arr args => renamedAttrsList args
  | .tup items _ addTy => renamedAttrsList items ++ renamedAttrs addTy
  | .map v => renamedAttrs v
  | .logic _ ts => renamedAttrsList ts
  | .data fields _ addTy _ _ => renamedAttrsFields fields ++ renamedAttrs addTy
  | _ => []
termination_by structural t
def renamedAttrsList (ts : List Ty) : List String :=
  match ts with
  | [] => []
  | t :: rest => renamedAttrs t ++ renamedAttrsList rest
termination_by structural ts
def renamedAttrsFields (fs : List Fld) : List String :=
  match fs with
  | [] => []
  | .mk a n ty _ _ :: rest => (if a != n then [a] else []) ++ renamedAttrs ty ++ renamedAttrsFields rest
termination_by structural fs
end

mutual
/-- a member named `k ∈ names` somewhere in a document -/
def hasMemberIn (names : List String) (v : Json) : Bool :=
  match v with
  | .arr xs => hasMemberInList names xs
  | .obj o => hasMemberInObj names o
  | _ => false
termination_by structural v
def hasMemberInList (names : List String) (xs : List Json) : Bool :=
  match xs with
  | [] => false
  | x :: rest => hasMemberIn names x || hasMemberInList names rest
termination_by structural xs
def hasMemberInObj (names : List String) (o : List (String × Json)) : Bool :=
  match o with
  | [] => false
  | (k, x) :: rest => names.contains k || hasMemberIn names x || hasMemberInObj names rest
termination_by structural o
end

/-- `member-name-clash`: an *input* member named like an attribute of the built class — a method of `Schema`
(dropped, or stored over the method so that the instance can no longer be published) or the attribute name chosen
for a property with an unusable name (read as that property) -/
def memberNameClash (N : Names) (t : Ty) (input : Json) : Bool :=
  hasMemberIn (N.reserved ++ renamedAttrs t) input

mutual
/-- `max-properties-zero`: `Options(max_params=0)` is read as "no limit" (base.py:375 `if options.max_params:`) -/
def maxPropsZero (t : Ty) : Bool :=
  match t with
  | .rule b _ => maxPropsZero b
  | .arr args => maxPropsZeroList args
  | .tup items _ addTy => maxPropsZeroList items || maxPropsZero addTy
  | .map v => maxPropsZero v
  | .logic _ ts => maxPropsZeroList ts
  | .data fields _ addTy _ maxP => (match maxP with
      | some n => n.mant == 0
      | none => false) || maxPropsZeroFields fields || maxPropsZero addTy
  | _ => false
termination_by structural t
def maxPropsZeroList (ts : List Ty) : Bool :=
  match ts with
  | [] => false
  | t :: rest => maxPropsZero t || maxPropsZeroList rest
termination_by structural ts
def maxPropsZeroFields (fs : List Fld) : Bool :=
  match fs with
  | [] => false
  | .mk _ _ ty _ _ :: rest => maxPropsZero ty || maxPropsZeroFields rest
termination_by structural fs
end

end KnownDefect

end Utv.C15
