import Utv.Lemmas.C15Main
/-! Building succeeds: the declaration checks of `Rule` pass on schemas that are not degenerate. -/
set_option linter.unusedSimpArgs false
set_option linter.unusedVariables false
namespace Utv.C15
open Utv.JsonSchema
open KnownDefect

theorem lookup_mem' : (l : List (String × Json)) → ∀ k v, l.lookup k = some v → (k, v) ∈ l
  | [], k, v, h => by simp [List.lookup] at h
  | (k', v') :: rest, k, v, h => by
    simp only [List.lookup] at h
    split at h
    · rename_i hk
      have : k = k' := by simpa using hk
      subst this; cases h; simp
    · exact List.mem_cons_of_mem _ (lookup_mem' rest k v h)

/-- a constraint found in (a part of) the kept constraints comes from a member of the schema -/
theorem rest_source (kvs : Obj) (ty : Option String) (f : String × Json → Bool) (name : String) (v : Json)
    (h : ((getConstraints kvs ty).filter f).lookup name = some v) :
    ∃ k, (k, v) ∈ kvs ∧ cmapOf k = some name ∧ kept ty k = true := by
  have hm := lookup_mem' _ _ _ h
  have hm2 := (List.mem_filter.mp hm).1
  exact getConstraints_mem kvs ty (name, v) hm2

theorem numAt_of (kvs : Obj) (hd : strDistinct (keys kvs) = true) (k : String) (v : Json) (a : Num) (hm : (k, v) ∈ kvs)
    (hn : numOf v = some a) : numAt kvs k = some a := by
  simp [numAt, lookup_of_mem_distinct kvs hd k v hm, hn]

/-- the keyword a numeric bound of the built type comes from -/
theorem bound_source (kvs : Obj) (hd : strDistinct (keys kvs) = true) (hf : fragKws kvs kvs = true) (ty : Option String)
    (f : String × Json → Bool) (name kw : String)
    (hk : (name, kw) ∈ [("gt", "exclusiveMinimum"), ("ge", "minimum"), ("lt", "exclusiveMaximum"), ("le", "maximum")])
    (a : Num) (h : (((getConstraints kvs ty).filter f).lookup name).bind numOf = some a) : numAt kvs kw = some a := by
  cases hl : ((getConstraints kvs ty).filter f).lookup name with
  | none => simp [hl] at h
  | some v =>
    simp [hl] at h
    obtain ⟨k, hkv, hck, _⟩ := rest_source kvs ty f name v hl
    have hfe := fragKws_mem kvs kvs hf k v hkv
    have hfk : fragmentKeywords.contains k = true := by
      simp only [fragEntry, Bool.and_eq_true] at hfe; exact hfe.1
    have hs := frag_cmap_simple k name hfk hck
    simp at hk
    rcases hk with ⟨rfl, rfl⟩ | ⟨rfl, rfl⟩ | ⟨rfl, rfl⟩ | ⟨rfl, rfl⟩ <;> simp [simpleKws] at hs <;> subst hs <;>
      exact numAt_of kvs hd _ v a hkv h

theorem checkBoundsCore_ok (p : Prim) (gt ge lt le : Option Num)
    (H1 : ¬(gt.isSome = true ∧ ge.isSome = true)) (H2 : ¬(lt.isSome = true ∧ le.isSome = true))
    (H3 : ∀ a b, (gt = some a ∨ ge = some a) → (lt = some b ∨ le = some b) →
      a.lt b = true ∧ isPyInt a = isPyInt b ∧ (isPyInt a = false ∨ 2 ≤ b.mant - a.mant))
    (H4 : p = .decimal → ∀ a, (gt = some a ∨ ge = some a ∨ lt = some a ∨ le = some a) → isPyInt a = true) :
    checkBoundsCore p gt ge lt le = true := by
  have H4' : ∀ a, (gt = some a ∨ ge = some a ∨ lt = some a ∨ le = some a) → ¬p = Prim.decimal ∨ isPyInt a = true := by
    intro a ha
    by_cases hp : p = .decimal
    · exact Or.inr (H4 hp a ha)
    · exact Or.inl hp
  rcases gt with _ | g <;> rcases ge with _ | g' <;> rcases lt with _ | l <;> rcases le with _ | l' <;>
    simp [checkBoundsCore] at H1 H2 ⊢
  all_goals (try (have h3 := H3 _ _ (by first | exact Or.inl rfl | exact Or.inr rfl) (by first | exact Or.inl rfl | exact Or.inr rfl)))
  all_goals (try (have h4 := H4' _ (by first | exact Or.inl rfl | exact Or.inr (Or.inl rfl) | exact Or.inr (Or.inr (Or.inl rfl)) | exact Or.inr (Or.inr (Or.inr rfl)))))
  all_goals (try (have h5 := H4' _ (by first | exact Or.inr (Or.inr (Or.inr rfl)) | exact Or.inr (Or.inr (Or.inl rfl)))))
  all_goals (first
    | done
    | exact h4
    | exact h5
    | exact ⟨⟨h3.2.1, h5⟩, h3.1⟩
    | exact ⟨⟨h3.2.1, h4⟩, h3.1⟩
    | (refine ⟨⟨h3.2.1, ?_⟩, h3.1, ?_⟩
       · first | exact h5 | exact h4
       · rcases h3.2.2 with h | h
         · exact Or.inl (Or.inl h)
         · exact Or.inr (Or.inr h))
    | trace_state)

theorem checkBounds_ok (kvs : Obj) (hd : strDistinct (keys kvs) = true) (hf : fragKws kvs kvs = true) (ty : Option String)
    (f : String × Json → Bool) (p : Prim) (hb : boundsBad kvs = false)
    (hp : p = .decimal → (lookupStr "format" kvs).bind typeMap = some .decimal) :
    checkBounds p ((getConstraints kvs ty).filter f) = true := by
  have src := bound_source kvs hd hf ty f
  unfold boundsBad at hb
  simp only [Bool.or_eq_false_iff] at hb
  obtain ⟨⟨⟨h1, h2⟩, h3⟩, h4⟩ := hb
  have hpair : ∀ a b, a ∈ lows kvs → b ∈ highs kvs →
      a.lt b = true ∧ isPyInt a = isPyInt b ∧ (isPyInt a = false ∨ 2 ≤ b.mant - a.mant) := by
    intro a b ha hb'
    have h5 := List.any_eq_false.mp h3 a ha
    have h6 := List.any_eq_false.mp ((Bool.not_eq_true _).mp h5) b hb'
    simp at h6
    refine ⟨h6.1.1, h6.1.2, ?_⟩
    cases hi : isPyInt a with
    | false => exact Or.inl rfl
    | true => exact Or.inr (h6.2 hi)
  have hdec : p = .decimal → ∀ a, a ∈ lows kvs ++ highs kvs → isPyInt a = true := by
    intro hpd a ha
    have hfmt := hp hpd
    simp only [hfmt, beq_self_eq_true, Bool.true_and] at h4
    have := List.any_eq_false.mp h4 a ha
    simpa using this
  have mlow : ∀ a, (numAt kvs "exclusiveMinimum" = some a ∨ numAt kvs "minimum" = some a) → a ∈ lows kvs := by
    intro a hn
    rcases hn with hn | hn <;> simp [lows, hn]
  have mhigh : ∀ a, (numAt kvs "exclusiveMaximum" = some a ∨ numAt kvs "maximum" = some a) → a ∈ highs kvs := by
    intro a hn
    rcases hn with hn | hn <;> simp [highs, hn]
  unfold checkBounds
  apply checkBoundsCore_ok
  · rintro ⟨ha, hb'⟩
    obtain ⟨a, ha'⟩ := Option.isSome_iff_exists.mp ha
    obtain ⟨b, hb''⟩ := Option.isSome_iff_exists.mp hb'
    have e1 := src "gt" "exclusiveMinimum" (by simp) a ha'
    have e2 := src "ge" "minimum" (by simp) b hb''
    simp [e1, e2] at h1
  · rintro ⟨ha, hb'⟩
    obtain ⟨a, ha'⟩ := Option.isSome_iff_exists.mp ha
    obtain ⟨b, hb''⟩ := Option.isSome_iff_exists.mp hb'
    have e1 := src "lt" "exclusiveMaximum" (by simp) a ha'
    have e2 := src "le" "maximum" (by simp) b hb''
    simp [e1, e2] at h2
  · intro a b ha hb'
    apply hpair a b
    · apply mlow
      rcases ha with ha | ha
      · exact Or.inl (src "gt" "exclusiveMinimum" (by simp) a ha)
      · exact Or.inr (src "ge" "minimum" (by simp) a ha)
    · apply mhigh
      rcases hb' with hb' | hb'
      · exact Or.inl (src "lt" "exclusiveMaximum" (by simp) b hb')
      · exact Or.inr (src "le" "maximum" (by simp) b hb')
  · intro hpd a ha
    apply hdec hpd a
    rcases ha with ha | ha | ha | ha
    · exact List.mem_append_left _ (mlow a (Or.inl (src "gt" "exclusiveMinimum" (by simp) a ha)))
    · exact List.mem_append_left _ (mlow a (Or.inr (src "ge" "minimum" (by simp) a ha)))
    · exact List.mem_append_right _ (mhigh a (Or.inl (src "lt" "exclusiveMaximum" (by simp) a ha)))
    · exact List.mem_append_right _ (mhigh a (Or.inr (src "le" "maximum" (by simp) a ha)))

theorem checkLengthCore_ok (mn mx : Option Num)
    (h1 : ∀ a, mn = some a → isPyInt a = true ∧ 0 ≤ a.mant)
    (h2 : ∀ b, mx = some b → isPyInt b = true ∧ 0 < b.mant ∧ ∀ a, mn = some a → a.mant = 0 ∨ a.mant ≤ b.mant) :
    checkLengthCore mn mx = true := by
  rcases mn with _ | a <;> rcases mx with _ | b <;> simp [checkLengthCore]
  · exact ⟨(h2 b rfl).1, (h2 b rfl).2.1⟩
  · exact h1 a rfl
  · exact ⟨h1 a rfl, ⟨(h2 b rfl).1, (h2 b rfl).2.1⟩, (h2 b rfl).2.2 a rfl⟩

/-- the keyword a size bound of the built type comes from, with what the fragment says about its value -/
theorem size_source (kvs : Obj) (hd : strDistinct (keys kvs) = true) (hf : fragKws kvs kvs = true) (ty : Option String)
    (f : String × Json → Bool) (name : String) (kws : List String)
    (hk : (name, kws) ∈ [("min_length", ["minItems", "minProperties", "minLength"]),
                         ("max_length", ["maxItems", "maxProperties", "maxLength"])])
    (a : Num) (h : (((getConstraints kvs ty).filter f).lookup name).bind numOf = some a) :
    ∃ k, k ∈ kws ∧ numAt kvs k = some a ∧ kept ty k = true ∧ hasKey k kvs = true ∧ isPyInt a = true ∧ 0 ≤ a.mant := by
  cases hl : ((getConstraints kvs ty).filter f).lookup name with
  | none => simp [hl] at h
  | some v =>
    simp [hl] at h
    obtain ⟨k, hkv, hck, hkept⟩ := rest_source kvs ty f name v hl
    have hfe := fragKws_mem kvs kvs hf k v hkv
    simp only [fragEntry, Bool.and_eq_true] at hfe
    have hs := frag_cmap_simple k name hfe.1 hck
    have hfs := hfe.2
    simp at hk
    rcases hk with ⟨rfl, rfl⟩ | ⟨rfl, rfl⟩ <;> simp [simpleKws] at hs <;> rcases hs with rfl | rfl | rfl <;>
      simp [manyKeywords, fragSimple] at hfs <;> cases v <;> simp [isSize, numOf] at hfs h <;> subst h <;>
      exact ⟨_, by simp, numAt_of kvs hd _ _ _ hkv rfl, hkept, hasKey_of_mem kvs _ _ hkv, hfs.1, hfs.2⟩

theorem checkLength_ok (kvs : Obj) (hd : strDistinct (keys kvs) = true) (hf : fragKws kvs kvs = true) (ty : Option String)
    (hprim : ∀ t, ty = some t → primitiveNames.contains t = true) (hnone : ty = none → inferType kvs = none)
    (f : String × Json → Bool) (hs : sizesBad kvs = false) : checkLength ((getConstraints kvs ty).filter f) = true := by
  unfold sizesBad at hs
  simp only [Bool.or_eq_false_iff] at hs
  obtain ⟨⟨hs1, hs2⟩, hs3⟩ := hs
  unfold checkLength
  apply checkLengthCore_ok
  · intro a ha
    obtain ⟨k, _, _, _, _, h1, h2⟩ := size_source kvs hd hf ty f "min_length" ["minItems", "minProperties", "minLength"] (by simp) a ha
    exact ⟨h1, h2⟩
  · intro b hb
    obtain ⟨k, hk, hnb, hkept, hhas, h1, h2⟩ := size_source kvs hd hf ty f "max_length" ["maxItems", "maxProperties", "maxLength"] (by simp) b hb
    have hpos : b.mant ≠ 0 := by
      simp at hk
      rcases hk with rfl | rfl | rfl
      · simp [sizePairBad, hnb] at hs2; exact hs2.1
      · simp [sizePairBad, hnb] at hs3; exact hs3.1
      · simp [sizePairBad, hnb] at hs1; exact hs1.1
    refine ⟨h1, by omega, ?_⟩
    intro a ha
    obtain ⟨k', hk', hna, hkept', hhas', _, _⟩ := size_source kvs hd hf ty f "min_length" ["minItems", "minProperties", "minLength"] (by simp) a ha
    right
    cases ty with
    | none =>
      have := inferType_none_absent kvs (hnone rfl) k (by
        simp at hk; simp [typedKeywords']
        rcases hk with rfl | rfl | rfl <;> simp)
      rw [hhas] at this; simp at this
    | some t =>
      have htp := hprim t rfl
      simp [primitiveNames] at htp
      simp at hk hk'
      rcases htp with rfl | rfl | rfl | rfl | rfl | rfl | rfl <;>
      rcases hk with rfl | rfl | rfl <;>
      simp [kept, groupKeywords_string, groupKeywords_integer, groupKeywords_number, groupKeywords_array,
        groupKeywords_object, groupKeywords_boolean, groupKeywords_null] at hkept <;>
      rcases hk' with rfl | rfl | rfl <;>
      simp [kept, groupKeywords_string, groupKeywords_integer, groupKeywords_number, groupKeywords_array,
        groupKeywords_object, groupKeywords_boolean, groupKeywords_null] at hkept'
      · simp [sizePairBad, hnb, hna] at hs3; omega
      · simp [sizePairBad, hnb, hna] at hs2; omega
      · simp [sizePairBad, hnb, hna] at hs1; omega

/-! ### `mkRule`, `annotate` succeed -/

theorem allSome_isSome {α : Type} : (l : List (Option α)) → (∀ x ∈ l, x.isSome = true) → (allSome l).isSome = true
  | [], _ => by simp [allSome]
  | none :: rest, h => by have := h none (by simp); simp at this
  | some a :: rest, h => by
    have ih := allSome_isSome rest (fun x hx => h x (List.mem_cons_of_mem _ hx))
    obtain ⟨r, hr⟩ := Option.isSome_iff_exists.mp ih
    simp [allSome, hr]

theorem lookup_none_of_names (l : Cons) (k : String) (h : ∀ c ∈ l, (c.1 == k) = false) : l.lookup k = none := by
  induction l with
  | nil => rfl
  | cons c rest ih =>
    obtain ⟨c1, c2⟩ := c
    have h1 := h (c1, c2) (by simp)
    simp only at h1
    have h1' : (k == c1) = false := by
      cases hk : (k == c1) with
      | false => rfl
      | true =>
        have : k = c1 := by simpa using hk
        subst this; simp at h1
    simp only [List.lookup, h1']
    exact ih (fun c hc => h c (List.mem_cons_of_mem _ hc))

/-- a rule without const / enum is accepted when bounds and lengths are -/
theorem mkRule_plain_isSome (t : Ty) (rest : Cons) (hc : rest.lookup "const" = none) (he : rest.lookup "enum" = none)
    (hb : checkBounds ((originOf t).getD .str) rest = true) (hl : checkLength rest = true) : (mkRule t rest).isSome = true := by
  unfold mkRule
  split
  · rfl
  · by_cases hem : rest.isEmpty = true
    · rw [if_pos hem]; rfl
    · rw [if_neg hem, hc]
      simp only [he, Option.isSome_none, Bool.false_eq_true, if_false]
      rw [hb, hl]
      rfl

theorem rest_no_const (cons : Cons) : (cons.filter fun c => !(c.1 == "const" || c.1 == "enum")).lookup "const" = none := by
  apply lookup_none_of_names
  intro c hcm
  have := (List.mem_filter.mp hcm).2
  simp at this
  simpa using this.1

theorem rest_no_enum (cons : Cons) : (cons.filter fun c => !(c.1 == "const" || c.1 == "enum")).lookup "enum" = none := by
  apply lookup_none_of_names
  intro c hcm
  have := (List.mem_filter.mp hcm).2
  simp at this
  simpa using this.2

/-- the rule of one const is accepted when the value is an instance of the origin; of one enum always -/
theorem mkRule_single_isSome (t : Ty) (c : String × Json)
    (hconst : (c.1 == "const") = true → ∃ p, originOf t = some p ∧ constFits p c.2 = true)
    (hkind : (c.1 == "const") = true ∨ (c.1 == "enum") = true) : (mkRule t [c]).isSome = true := by
  obtain ⟨c1, c2⟩ := c
  simp only at hconst hkind
  unfold mkRule
  split
  · rfl
  · simp only [List.isEmpty_cons, Bool.false_eq_true, if_false]
    by_cases h1 : (c1 == "const") = true
    · have : c1 = "const" := by simpa using h1
      subst this
      obtain ⟨p, hp, hfit⟩ := hconst rfl
      simp [List.lookup, hp, hfit]
    · have h2 : (c1 == "enum") = true := by
        rcases hkind with h | h
        · exact absurd h h1
        · exact h
      have : c1 = "enum" := by simpa using h2
      subst this
      simp [List.lookup]

theorem annotate_isSome (t : Ty) (hasArgs : Bool) (cons : Cons)
    (hrest : (mkRule t (cons.filter fun c => !(c.1 == "const" || c.1 == "enum"))).isSome = true)
    (hconst : ∀ c ∈ cons, (c.1 == "const") = true → ∃ p, originOf (bareOrigin t) = some p ∧ constFits p c.2 = true) :
    (annotate t hasArgs cons).isSome = true := by
  unfold annotate
  simp only
  have hall : (allSome ((if (!(cons.filter fun c => !(c.1 == "const" || c.1 == "enum")).isEmpty || hasArgs ||
      ((cons.filter fun c => c.1 == "const") ++ (cons.filter fun c => c.1 == "enum")).isEmpty) = true
      then [mkRule t (cons.filter fun c => !(c.1 == "const" || c.1 == "enum"))] else []) ++
      ((cons.filter fun c => c.1 == "const") ++ (cons.filter fun c => c.1 == "enum")).map
        fun c => mkRule (bareOrigin t) [c])).isSome = true := by
    apply allSome_isSome
    intro x hx
    rcases List.mem_append.mp hx with h | h
    · split at h
      · have := List.mem_singleton.mp h; subst this; exact hrest
      · exact absurd h (List.not_mem_nil)
    · obtain ⟨c, hcm, rfl⟩ := List.mem_map.mp h
      rcases List.mem_append.mp hcm with h1 | h1
      · have := List.mem_filter.mp h1
        exact mkRule_single_isSome _ c (fun hc => hconst c this.1 hc) (Or.inl this.2)
      · have := List.mem_filter.mp h1
        refine mkRule_single_isSome _ c (fun hc => ?_) (Or.inr this.2)
        have h2 := this.2
        have e1 : c.1 = "const" := by simpa using hc
        have e2 : c.1 = "enum" := by simpa using h2
        rw [e1] at e2; simp at e2
  obtain ⟨rules, hr⟩ := Option.isSome_iff_exists.mp hall
  rw [hr]
  rfl

end Utv.C15
