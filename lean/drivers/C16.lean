import Utv.Model.C16
import Utv.Util.J
open Lean Utv.J Utv.C16

/-! C16 driver.  One JSON line = the class world as tables + one history.
* no `"base"`: a history of public calls (`{"reg": …}` / `{"res": t}`) on one registry → `runCalls`
  (answers of the resolves and the errors of the refused registrations, in order);
* `"base": {…}`: a live base registry; ops `reg / regb / res / resb` → `run2` (registrations here must be well-formed;
  one that is not makes the driver answer `unmodelled`).
`"legacy": true` replays the pre-fix model (fixed findings).  `spec` = the Lean specification functions on the same
history. -/

def pairs (j : Json) : List (Nat × Nat) := (arr! j).map fun p => match arr! p with
  | [a, b] => (nat! a, nat! b) | _ => (0, 0)

def mkWorld (j : Json) (shortcut fallback : List (Nat × Nat)) : World :=
  let issub := pairs (fld j "issub")
  let isinst := pairs (fld j "isinst")
  let hasattr := pairs (fld j "hasattr")
  let custom := (arr! (fld j "custom")).map fun p => match arr! p with
    | [k, t, v] => ((nat! k, nat! t), nat! v) | _ => ((0, 0), 2)
  let invalid := (arr! (fld j "invalid")).map nat!
  { issub := fun t c => issub.contains (t, c)
    isinst := fun t m => isinst.contains (t, m)
    hasattr := fun t a => hasattr.contains (t, a)
    custom := fun k t => match custom.lookup (k, t) with
      | some 0 => some false | some 1 => some true | _ => none
    shortcut := fun t => shortcut.lookup t
    fallback := fun t => fallback.lookup t
    valid := fun f => !(invalid.contains f) }

/-- classes: ids, `-1` = not a class; attr: null / -2 = falsy, -1 = truthy non-string, n ≥ 0 = name n -/
def mkArgs (r : Json) : RegArgs :=
  { classes := (arr! (fld r "classes")).map fun c => match optNat c with
      | some n => ClsArg.cls n | none => ClsArg.notClass
    attr := match optInt (fld r "attr") with
      | some (.ofNat n) => .name n
      | some (.negSucc 0) => .notStr
      | _ => .absent
    detector := optNat (fld r "custom")
    metaclass := optNat (fld r "meta")
    allowSub := bool! (fld r "sub")
    priority := int! (fld r "prio") }

def outJson : Out → Json
  | .conv (some n) => Json.num n
  | .conv none => Json.null
  | .err .valueError => Json.str "ValueError"
  | .err .assertionError => Json.str "AssertionError"
  | .err .typeError => Json.str "TypeError"

def optJson : Option Nat → Json
  | some n => Json.num n | none => Json.null

def mkCall (j : Json) : Call :=
  match obj? j "res" with
  | some t => .resolve (nat! t)
  | none => let r := fld j "reg"; .register (mkArgs r) (nat! (fld r "fn"))

/-- the Lean specification of a call history (accepted registrations only count) -/
def specCallsFn (W : World) : List Entry → List Call → List Out
  | _, [] => []
  | regs, .register a f :: cs =>
    match registerCall W { cacheOn := false } a f with
    | (_, some e) => .err e :: specCallsFn W regs cs
    | (_, none) => match registerOuter a with
      | .ok d => specCallsFn W (regs ++ [⟨d, f, a.priority⟩]) cs
      | .error _ => specCallsFn W regs cs
  | regs, .resolve t :: cs => .conv (specResolve W regs t) :: specCallsFn W regs cs

/-- one answer per call: `"ok"` at the registrations the model accepts (whether a call is refused does not depend on
the registry: `registerCall … .2` is a function of the arguments and the world) -/
def alignCalls (W : World) : List Call → List Out → List Json
  | [], _ => []
  | .register a f :: cs, outs =>
    match (registerCall W { cacheOn := false } a f).2, outs with
    | none, outs => Json.str "ok" :: alignCalls W cs outs
    | some _, o :: outs => outJson o :: alignCalls W cs outs
    | some _, [] => [Json.str "missing"]
  | .resolve _ :: cs, o :: outs => outJson o :: alignCalls W cs outs
  | .resolve _ :: _, [] => [Json.str "missing"]

def alignOps2 : List Op2 → List (Option Nat) → List Json
  | [], _ => []
  | .reg _ :: ops, outs => Json.str "ok" :: alignOps2 ops outs
  | .regBase _ :: ops, outs => Json.str "ok" :: alignOps2 ops outs
  | _ :: ops, o :: outs => optJson o :: alignOps2 ops outs
  | _ :: _, [] => [Json.str "missing"]

def entryOfJson (r : Json) : Option Entry :=
  let a := mkArgs r
  match registerOuter a with
  | .ok d => some ⟨d, nat! (fld r "fn"), a.priority⟩
  | .error _ => none

def mkOp2 (j : Json) : Option Op2 :=
  match obj? j "res", obj? j "resb", obj? j "reg", obj? j "regb" with
  | some t, _, _, _ => some (.res (nat! t))
  | _, some t, _, _ => some (.resBase (nat! t))
  | _, _, some r, _ => (entryOfJson r).map .reg
  | _, _, _, some r => (entryOfJson r).map .regBase
  | _, _, _, _ => none

def legacyOps (cs : List Call) : List Op := cs.filterMap fun
  | .resolve t => some (.res t)
  | .register a f => match registerOuter a with
    | .ok d => some (.reg ⟨d, f, a.priority⟩)
    | .error _ => none

def handle (j : Json) : Json :=
  let cacheOn := bool! (fld j "cache")
  match obj? j "base" with
  | some b =>
    if isNull b then single j cacheOn else
    let W := mkWorld j (pairs (fld j "shortcut")) []
    let Wb := mkWorld j (pairs (fld b "shortcut")) (pairs (fld b "fallback"))
    let ops := (arr! (fld j "ops")).map mkOp2
    if ops.any (·.isNone) then Json.mkObj [("unmodelled", Json.str "ill-formed registration with a base registry")] else
    let ops := ops.filterMap id
    let outs := run2 W Wb { cacheOn := cacheOn } { cacheOn := bool! (fld b "cache") } ops
    let spec := specRun2 W Wb [] [] ops
    Json.mkObj [("model", Json.arr (alignOps2 ops outs).toArray), ("spec", Json.arr (alignOps2 ops spec).toArray)]
  | none => single j cacheOn
where
  single (j : Json) (cacheOn : Bool) : Json :=
    let W := mkWorld j (pairs (fld j "shortcut")) (pairs (fld j "fallback"))
    let calls := (arr! (fld j "ops")).map mkCall
    let outs := if bool! (fld j "legacy")
      then (runLegacy W { cacheOn := cacheOn } (legacyOps calls)).2.map Out.conv
      else (runCalls W { cacheOn := cacheOn } calls).2
    let spec := specCallsFn W [] calls
    Json.mkObj [("model", Json.arr (alignCalls W calls outs).toArray), ("spec", Json.arr (alignCalls W calls spec).toArray)]

def main : IO Unit := serve handle
