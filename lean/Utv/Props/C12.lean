/-
C12 — conversion preferences only restrict, and keep their promises.

Statement (given): whatever converts under no_explicit_cast and/or no_data_loss also converts, to an equal
value of the same type, without them.  Under no_data_loss no information is dropped (int only from integral
numbers with the value preserved, only unambiguous booleans, no collapse of multi-element collections, strict
decoding, no datetime / timed string → date, tuple excess and unknown keys rejected).  Under no_explicit_cast a
value converts only within its primitive group, apart from the documented exceptions.

Model: `Utv.Conv` (lean/Utv/Model/Conv.lean), the converters of utype/utils/transform.py branch for branch, and
`Utv.C12M` (Model/C12.lean) for the three parse-level places that read the flags.  All theorems are `∀ P : Prims`
(the CPython builtins), `∀ E : Env` (the enum classes), over all values — no bound on sizes or nesting.
-/
import Utv.Lemmas.C12
import Utv.Model.C12

namespace Utv.C12
open Utv.Conv Utv.Conv.Outcome
open Utv.Py (FloatV DecV NumV Q)

/-! ## (1) the preferences only restrict -/

/-- Inputs on which the *unchanged code* violates the subset law (findings.d/C12.json, status known):
`dict-json-control-char` (no_data_loss, dict targets) and `timedelta-numeric-string` (no_explicit_cast,
timedelta targets).  Decidable. -/
def KnownDefect (P : Prims) (E : Env) (f : Flags) (t : Target) (v : V) : Bool :=
  (f.ndl && (resolve t == some .dict || resolve t == some .mapping) && KnownDefect.jsonControlChar P E v) ||
  (f.nec && resolve t == some .timedelta && KnownDefect.timedeltaNumericString P E v)

/-- Outside the proved fragment (tied by the correspondence run only): no_explicit_cast on a mixed-in enum
target whose input is not exactly of the member type.  Decidable. -/
def OutsideProof (E : Env) (f : Flags) (t : Target) (v : V) : Bool :=
  f.nec && (match t with
    | .enum k => enumCastNeeded E k v
    | _ => false)

/-- exact version for one converter: from the two one-flag lemmas to every flag combination -/
theorem mono_of {X : Flags → Outcome V}
    (hA : ∀ n, Sub (X ⟨n, true⟩) (X ⟨n, false⟩))
    (hB : Sub (X ⟨true, false⟩) (X ⟨false, false⟩)) (f : Flags) : Sub (X f) (X ⟨false, false⟩) := by
  intro r h
  obtain ⟨n, d⟩ := f
  cases n <;> cases d
  · exact h
  · exact hA false r h
  · exact hB r h
  · exact hB r (hA true r h)

theorem sub_same {x y : Outcome V} (h : Sub x y) (r : V) (hx : x = .ok r) : ∃ r', y = .ok r' ∧ sameValue r' r :=
  ⟨r, h r hx, sameValue.rfl' r⟩

/-- **C12_mono_conv**: for every registered converter: what it returns under a flag combination it
returns — as an equal value of the same class — without flags. -/
theorem C12_mono_conv (P : Prims) (L : PrimLaws P) (E : Env) (f : Flags) (t : Target) (v : V) (cv : Conv) (r : V)
    (hcv : resolve t = some cv)
    (hk : KnownDefect P E f t v = false) (ho : OutsideProof E f t v = false)
    (hm : ∀ w, runConv P E ⟨false, false⟩ t v cv ≠ .unmodelled w)
    (h : runConv P E f t v cv = .ok r) :
    ∃ r', runConv P E ⟨false, false⟩ t v cv = .ok r' ∧ sameValue r' r := by
  cases cv
  case null =>
    exact sub_same (mono_of (X := fun f => toNull f v) (fun n => by rw [toNull_ndl]; exact Sub.refl _) (toNull_nec v) f) r h
  case str =>
    exact sub_same (mono_of (X := fun f => toStr P E f (subOf t) v) (fun n => toStr_ndl P L E n _ v) (toStr_nec P E _ v) f) r h
  case bytes =>
    simp only [runConv] at h ⊢
    split at h
    · split at h
      · rename_i k hk'
        exact sub_same (mono_of (X := fun f => toBytes P E f k _ v) (fun n => toBytes_ndl P E n k _ v) (toBytes_nec P E k _ v) f) r h
      · simp at h
    · simp at h
  case array =>
    simp only [runConv] at h ⊢
    split at h
    · split at h
      · rename_i k hk'
        exact sub_same (mono_of (X := fun f => toArray P f k _ v) (fun n => toArray_ndl P L n k _ v) (toArray_nec P k _ v) f) r h
      · simp at h
    · simp at h
  case dict =>
    simp only [runConv] at h ⊢
    obtain ⟨n, d⟩ := f
    have hj : d = true → KnownDefect.jsonControlChar P E v = false := by
      intro hd; subst hd
      simpa [KnownDefect, hcv] using hk
    cases n <;> cases d
    · exact ⟨r, h, sameValue.rfl' r⟩
    · exact ⟨r, toDict_ndl P L E false _ v (hj rfl) r h, sameValue.rfl' r⟩
    · exact ⟨r, toDict_nec P E _ v r h, sameValue.rfl' r⟩
    · exact ⟨r, toDict_nec P E _ v r (toDict_ndl P L E true _ v (hj rfl) r h), sameValue.rfl' r⟩
  case float =>
    exact sub_same (mono_of (X := fun f => toFloat P E f (subOf t) v) (fun n => toFloat_ndl P L E n _ v) (toFloat_nec P E _ v) f) r h
  case int =>
    exact sub_same (mono_of (X := fun f => toInteger P E f (subOf t) v) (fun n => toInteger_ndl P L E n _ v) (toInteger_nec P E _ v) f) r h
  case decimal =>
    simp only [runConv] at h ⊢
    obtain ⟨n, d⟩ := f
    cases n <;> cases d
    · exact ⟨r, h, sameValue.rfl' r⟩
    · exact toDecimal_ndl_len P L E _ v r h
    · exact toDecimal_nec P E _ v r h
    · exact toDecimal_nec P E _ v r (toDecimal_ndl_nec P L E _ v r h)
  case complex =>
    exact sub_same (mono_of (X := fun f => toComplex P E f (subOf t) v) (fun n => toComplex_ndl P L E n _ v) (toComplex_nec P E _ v) f) r h
  case bool =>
    exact sub_same (mono_of (X := fun f => Conv.toBool P f v) (fun n => toBool_ndl P n v) (toBool_nec P v) f) r h
  case date =>
    exact sub_same (mono_of (X := fun f => toDate P E f v) (fun n => toDate_ndl P L E n v) (toDate_nec P E v) f) r h
  case datetime =>
    exact sub_same (mono_of (X := fun f => toDatetime P E f (subOf t) false v) (fun n => toDatetime_ndl P L E n _ false v) (toDatetime_nec P E _ false v) f) r h
  case timedelta =>
    simp only [runConv] at h ⊢
    obtain ⟨n, d⟩ := f
    have hj : n = true → KnownDefect.timedeltaNumericString P E v = false := by
      intro hn; subst hn
      simpa [KnownDefect, hcv] using hk
    cases n <;> cases d
    · exact ⟨r, h, sameValue.rfl' r⟩
    · exact ⟨r, toTimedelta_ndl P L E false _ v r h, sameValue.rfl' r⟩
    · exact ⟨r, toTimedelta_nec P E _ v (hj rfl) r h, sameValue.rfl' r⟩
    · exact ⟨r, toTimedelta_nec P E _ v (hj rfl) r (toTimedelta_ndl P L E true _ v r h), sameValue.rfl' r⟩
  case time =>
    exact sub_same (mono_of (X := fun f => toTime P E f (subOf t) v) (fun n => toTime_ndl P L E n _ v) (toTime_nec P E _ v) f) r h
  case uuid =>
    exact sub_same (mono_of (X := fun f => toUuid P f (subOf t) v) (fun n => toUuid_ndl P n _ v) (toUuid_nec P _ v) f) r h
  case enum =>
    simp only [runConv] at h ⊢ hm
    split at h
    · rename_i k
      obtain ⟨n, d⟩ := f
      have hx : n = true → enumCastNeeded E k v = false := by
        intro hn; subst hn
        simpa [OutsideProof] using ho
      cases n <;> cases d
      · exact ⟨r, h, sameValue.rfl' r⟩
      · exact ⟨r, toEnum_ndl P L E false k v r h, sameValue.rfl' r⟩
      · exact ⟨r, toEnum_nec P E k v (hx rfl) hm r h, sameValue.rfl' r⟩
      · exact ⟨r, toEnum_nec P E k v (hx rfl) hm r (toEnum_ndl P L E true k v r h), sameValue.rfl' r⟩
    · simp at h
  case iter =>
    simp only [runConv] at h ⊢
    split at h
    · rename_i a
      exact sub_same (mono_of (X := fun f => toIter P f a v) (fun n => toIter_ndl P L n a v) (toIter_nec P a v) f) r h
    · simp at h
  case mapping =>
    simp only [runConv] at h ⊢
    obtain ⟨n, d⟩ := f
    have hj : d = true → KnownDefect.jsonControlChar P E v = false := by
      intro hd; subst hd
      simpa [KnownDefect, hcv] using hk
    cases n <;> cases d
    · exact ⟨r, h, sameValue.rfl' r⟩
    · exact ⟨r, toMapping_ndl P L E false v (hj rfl) r h, sameValue.rfl' r⟩
    · exact ⟨r, toMapping_nec P E v r h, sameValue.rfl' r⟩
    · exact ⟨r, toMapping_nec P E v r (toMapping_ndl P L E true v (hj rfl) r h), sameValue.rfl' r⟩

/-- **C12_mono** (headline, partial only in the listed known defects): `TypeTransformer.__call__` under any
combination of the two preferences returns what it returns — as an equal value of the same class — without
them.  Full statement = this one without `hk` (false of the unchanged code: witnesses below) and `ho`. -/
theorem C12_mono_partial (P : Prims) (L : PrimLaws P) (E : Env) (u : Unresolved) (f : Flags) (t : Target) (v r : V)
    (hk : KnownDefect P E f t v = false) (ho : OutsideProof E f t v = false)
    (hm : ∀ w, transformU P E ⟨false, false⟩ u t v ≠ .unmodelled w)
    (h : transformU P E f u t v = .ok r) :
    ∃ r', transformU P E ⟨false, false⟩ u t v = .ok r' ∧ sameValue r' r := by
  unfold transformU at h ⊢ hm
  split at h
  · rename_i h1; simp only [h1, if_true]; exact ⟨r, h, sameValue.rfl' r⟩
  · rename_i h1; simp only [h1] at hm ⊢
    split at h
    · simp at h
    · rename_i h2; simp only [h2] at hm ⊢
      split at h
      · exact ⟨r, h, sameValue.rfl' r⟩
      · rename_i cv hcv
        exact C12_mono_conv P L E f t v cv r hcv hk ho (by simpa [hcv] using hm) h

end Utv.C12
