/-
C11 — model of the `invalid_items / invalid_keys / invalid_values / on_error` policy branches.

Hand-written, branch for branch, of the code *as it is after* the C11 fix patches (anchors: utype at 7b3aeda +
fixes/C11-*.patch; comments inside the definitions name the branch, not a line):
  * `Rule._parse_seq_args`    utype/parser/rule.py:1983-2009   → `parseSeqFrom`
  * `Rule._parse_tuple_args`  utype/parser/rule.py:1925-1981   → `parseTupleFixed`
  * `Rule._parse_map_args`    utype/parser/rule.py:2012-2079   → `parseMap`
  * `Rule.parse` (origin transform, args parser, re-wrap, the container's own validators) rule.py:1703-1775
                                                               → `parseSeqRule`, `parseSeqRuleC`, `parseMapRule`, `parseMapRuleC`
  * `ParserField.parse_value` + `_invalid_value` utype/parser/field.py:1043-1133 → `parseValue`, `parseValueAbs`;
    its discriminator branch (:1057-1092) → `discParser` (a failing `to_dict` / a tag that selects no branch is the
    converter rejecting the value)
  * `ParserField.is_required` field.py:821-830, `get_default` :786-814, `get_on_error` :816-819 → `Req.holds`,
    `FieldDecl.resolve(R)`, `Field.policy`
  * `ParserField.parse_output_value` field.py:1009-1041, `Schema.__post_init__` schema.py:275-281 → `parseOutputValue`, `parseProps`
  * `BaseParser.parse_addition` utype/parser/base.py:411-442   → `parseAddition`
  * `BaseParser.data_first_parse` base.py:444-555, `field_first_parse` :557-690 (incl. `dependencies`) → `parseDataDF / parseDataFF`
  * `FunctionParser.parse_pos_type` func.py:580-609, `parse_params` :611-680 → `parsePosType`, `parseVarArgs`, `parsePosParams`
  * nested classes: `init_dataclass` cls.py:590-629 (own `__options__`) → `DTy`

What is *not* C11's business is abstract, so every theorem holds for all of it:
  * the element / key / value / field / addition converters are arbitrary functions `α → Option α`
    (`none` = the converter raised; the model never looks inside a value);
  * the origin transform (`list('ab')`, `set(...)`, `dict(...)`) and the re-wrap `origin(result)` are
    the `World` functions `asSeq / mkSeq / asMap / mkMap`;
  * a dict / set result is modelled as its *insertion log* (`result[key] = val` in order,
    `set(result)`): the final `dict`/`set` is a function of the log, built by CPython in the harness.

Fragment: fail-fast (`collect_errors=False`), no `max_depth`, fields without alias / no_input / field-level
`mode`, `ignore_required=False`.  Mode-dependent `required`, defaults and `dependencies` are modelled.  The harness only generates such
declarations (design.d/C11.md).
-/
namespace Utv.C11

inductive Policy where
  | throw | exclude | preserve
  deriving DecidableEq, Repr

/-- A converter seen from outside: `none` = it raised. -/
abbrev Parser (α : Type) := α → Option α

/-! ### sequences: list, set, frozenset, `Tuple[T, ...]` -/

inductive SeqErr where
  | item (i : Nat)      -- `ParseError(item=i)` through `context.handle_error` (rule.py)
  | coerce              -- the origin transform failed (rule.py)
  | rawTypeError        -- only in the pre-fix model: `value[i]` on a set
  | constraint          -- a validator of the container itself failed after the loop (`Rule.parse`, ConstraintError)
  deriving DecidableEq, Repr

/-- `_parse_seq_args` (rule.py): `for i, item in enumerate(value)`. -/
def parseSeqFrom {α : Type} (pol : Policy) (p : Parser α) : Nat → List α → Except SeqErr (List α)
  | _, [] => .ok []
  | i, x :: xs =>
    match p x with
    | some y => (parseSeqFrom pol p (i + 1) xs).map (y :: ·)          -- result.append(apply(item))
    | none =>
      match pol with
      | .exclude => parseSeqFrom pol p (i + 1) xs                        -- continue
      | .preserve => (parseSeqFrom pol p (i + 1) xs).map (x :: ·)       -- result.append(item)
      | .throw => .error (.item i)                                       -- handle_error → raise

def parseSeq {α : Type} (pol : Policy) (p : Parser α) (xs : List α) : Except SeqErr (List α) :=
  parseSeqFrom pol p 0 xs

/-- The code before the fix: building the error object evaluates `value[i]`, which raises a bare
`TypeError` when `value` is a set / frozenset — under every policy (rule.py, old). -/
def parseSeqLegacyFrom {α : Type} (subscriptable : Bool) (pol : Policy) (p : Parser α) :
    Nat → List α → Except SeqErr (List α)
  | _, [] => .ok []
  | i, x :: xs =>
    match p x with
    | some y => (parseSeqLegacyFrom subscriptable pol p (i + 1) xs).map (y :: ·)
    | none =>
      if !subscriptable then .error .rawTypeError else
      match pol with
      | .exclude => parseSeqLegacyFrom subscriptable pol p (i + 1) xs
      | .preserve => (parseSeqLegacyFrom subscriptable pol p (i + 1) xs).map (x :: ·)
      | .throw => .error (.item i)

inductive SeqKind where
  | list | set | frozenset | tupleVar
  deriving DecidableEq, Repr

def SeqKind.subscriptable : SeqKind → Bool
  | .list | .tupleVar => true
  | .set | .frozenset => false

/-- What the surrounding `Rule.parse` does and C11 does not care about. -/
structure World (α : Type) where
  asSeq : SeqKind → α → Option (List α)      -- origin transform, then iteration order of the result
  mkSeq : SeqKind → List α → α               -- `cls.__origin__(result)` (rule.py)
  asMap : α → Option (List (α × α))          -- `dict` origin transform, then `.items()` order
  mkMap : List (α × α) → α                   -- the dict built by `result[key] = val` in log order

/-- `Rule.parse` for a sequence origin with one argument type. -/
def parseSeqRule {α : Type} (W : World α) (k : SeqKind) (pol : Policy) (p : Parser α) (v : α) : Except SeqErr α :=
  match W.asSeq k v with
  | none => .error .coerce
  | some xs => (parseSeq pol p xs).map (W.mkSeq k)

/-- `Rule.parse` of a *constrained* sequence type (`Rule.annotate(list, int, constraints={'min_length': 3})`):
the validators of the container (`cls.__validators__`, rule.py `Rule.parse` after the args parser) run on what
the policy loop produced — for `preserve` that is the list WITH the offenders in place.  `cons` is the
conjunction of those validators, abstract. -/
def parseSeqRuleC {α : Type} (W : World α) (k : SeqKind) (pol : Policy) (p : Parser α) (cons : List α → Bool) (v : α) :
    Except SeqErr α :=
  match W.asSeq k v with
  | none => .error .coerce
  | some xs =>
    match parseSeq pol p xs with
    | .error e => .error e
    | .ok rs => if cons rs then .ok (W.mkSeq k rs) else .error .constraint

def parseSeqRuleLegacy {α : Type} (W : World α) (k : SeqKind) (pol : Policy) (p : Parser α) (v : α) : Except SeqErr α :=
  match W.asSeq k v with
  | none => .error .coerce
  | some xs => (parseSeqLegacyFrom k.subscriptable pol p 0 xs).map (W.mkSeq k)

/-! ### fixed-length tuples `Tuple[A, B]` -/

inductive TupErr where
  | item (i : Nat) | absence (i : Nat) | exceed (i : Nat) | coerce
  deriving DecidableEq, Repr

/-- `options.addition` as `_parse_tuple_args` reads it (rule.py). -/
inductive TupExtra (α : Type) where
  | drop                    -- addition=None
  | forbid                  -- addition=False (or no_data_loss)
  | keep                    -- addition=True
  | typed (p : Parser α)    -- addition=<type>

/-- the loop over the declared positions (rule.py); `exclude` has no branch here. -/
def tupArgs {α : Type} (pol : Policy) : Nat → List (Parser α) → List α → Except TupErr (List α)
  | _, [], _ => .ok []
  | i, _ :: _, [] => .error (.absence i)
  | i, p :: ps, x :: xs =>
    match p x with
    | some y => (tupArgs pol (i + 1) ps xs).map (y :: ·)
    | none =>
      match pol with
      | .preserve => (tupArgs pol (i + 1) ps xs).map (x :: ·)
      | _ => .error (.item i)

/-- the loop over the extra positions when `addition` is a type (rule.py). -/
def tupExtras {α : Type} (pol : Policy) (pa : Parser α) : Nat → List α → Except TupErr (List α)
  | _, [] => .ok []
  | i, x :: xs =>
    match pa x with
    | some y => (tupExtras pol pa (i + 1) xs).map (y :: ·)
    | none =>
      match pol with
      | .preserve => (tupExtras pol pa (i + 1) xs).map (x :: ·)
      | _ => .error (.item i)

def parseTupleFixed {α : Type} (pol : Policy) (ps : List (Parser α)) (extra : TupExtra α) (xs : List α) :
    Except TupErr (List α) :=
  let n := ps.length
  match extra, decide (xs.length > n) with
  | .forbid, true => .error (.exceed n)
  | _, _ =>
    match tupArgs pol 0 ps xs with
    | .error e => .error e
    | .ok head =>
      match extra with
      | .typed pa => (tupExtras pol pa n (xs.drop n)).map (head ++ ·)
      | .keep => .ok (head ++ xs.drop n)
      | _ => .ok head

/-! ### mappings `Dict[K, V]` -/

inductive MapErr (α : Type) where
  | key (k : α)          -- ParseError(item=f"{_key}<key>")  rule.py
  | value (k : α)        -- ParseError(item=key)
  | coerce
  | constraint           -- a validator of the mapping itself failed after the loop
  deriving DecidableEq, Repr

/-- `_parse_map_args` (rule.py); the result is the insertion log of `result[key] = val`.
`vp = none` is `Dict[K]` (no value type). -/
def parseMap {α : Type} (pk pv : Policy) (kp : Parser α) (vp : Option (Parser α)) :
    List (α × α) → Except (MapErr α) (List (α × α))
  | [] => .ok []
  | (k, v) :: rest =>
    let keyR : Except (MapErr α) (Option α) :=
      match kp k with
      | some k' => .ok (some k')
      | none =>
        match pk with
        | .exclude => .ok none                       -- continue
        | .preserve => .ok (some k)                  -- key = _key
        | .throw => .error (.key k)
    match keyR with
    | .error e => .error e
    | .ok none => parseMap pk pv kp vp rest
    | .ok (some key) =>
      match vp with
      | none => (parseMap pk pv kp vp rest).map ((key, v) :: ·)
      | some q =>
        match q v with
        | some v' => (parseMap pk pv kp vp rest).map ((key, v') :: ·)
        | none =>
          match pv with
          | .exclude => parseMap pk pv kp vp rest                          -- continue
          | .preserve => (parseMap pk pv kp vp rest).map ((key, v) :: ·)  -- val = _val
          | .throw => .error (.value key)

def parseMapRule {α : Type} (W : World α) (pk pv : Policy) (kp : Parser α) (vp : Option (Parser α)) (v : α) :
    Except (MapErr α) α :=
  match W.asMap v with
  | none => .error .coerce
  | some kvs => (parseMap pk pv kp vp kvs).map W.mkMap

/-- `Rule.parse` of a constrained mapping type: validators on the log the policy loop produced -/
def parseMapRuleC {α : Type} (W : World α) (pk pv : Policy) (kp : Parser α) (vp : Option (Parser α))
    (cons : List (α × α) → Bool) (v : α) : Except (MapErr α) α :=
  match W.asMap v with
  | none => .error .coerce
  | some kvs =>
    match parseMap pk pv kp vp kvs with
    | .error e => .error e
    | .ok rs => if cons rs then .ok (W.mkMap rs) else .error .constraint

/-! ### data-class fields, extra keys -/

structure Field (κ α : Type) where
  name : κ
  required : Bool               -- `is_required(options)` for the options of this parse (see `FieldDecl.resolve`)
  default : Option α            -- `get_default(options, defer=False)`; none = unprovided
  onError : Option Policy       -- `Field(on_error=…)`; none = fall back to options.invalid_values
  deps : List κ := []           -- `Field(dependencies=[…])`, by output name
  parse : Parser α

/-- `Field(required=…)`: `False`, `True`, or a string of modes (`required='w'`). -/
inductive Req (μ : Type) where
  | no | yes | modes (ms : List μ)

/-- `ParserField.is_required` (field.py) without `ignore_required` / `always_no_input`:
`required is True` → True; no `options.mode` → False; else `options.mode in self.required`. -/
def Req.holds {μ : Type} [DecidableEq μ] : Req μ → Option μ → Bool
  | .no, _ => false
  | .yes, _ => true
  | .modes _, none => false
  | .modes ms, some m => ms.contains m

/-- a field as declared; which fields are required is only known once `Options.mode` is -/
structure FieldDecl (μ κ α : Type) where
  name : κ
  req : Req μ
  default : Option α
  onError : Option Policy
  deps : List κ := []
  parse : Parser α

def FieldDecl.resolve {μ κ α : Type} [DecidableEq μ] (mode : Option μ) (d : FieldDecl μ κ α) : Field κ α :=
  { name := d.name, required := d.req.holds mode, default := d.default, onError := d.onError, deps := d.deps,
    parse := d.parse }

/-- the running options a parse is started with (`Cls.__from__(data, Options(...))`) that decide which
fields are required and what an absent field receives -/
structure RunOpts (μ α : Type) where
  mode : Option μ := none
  ignoreRequired : Bool := false
  forceDefault : Option α := none          -- `Options(force_default=v)`; none = not given

/-- `Options.__init__` (options.py): "force default implies ignore_required" -/
def RunOpts.ignoresRequired {μ α : Type} (r : RunOpts μ α) : Bool := r.ignoreRequired || r.forceDefault.isSome

/-- `is_required(options)` (field.py: `if options.ignore_required or not self.required: return
False`) and `get_default(options)` (field.py: `options.force_default` wins over the field's own
default) for the options of *this* parse.  Both are functions of the declaration and of the running
options only — nothing a previous parse of the same class did may enter. -/
def FieldDecl.resolveR {μ κ α : Type} [DecidableEq μ] (r : RunOpts μ α) (d : FieldDecl μ κ α) : Field κ α :=
  { name := d.name,
    required := !r.ignoresRequired && d.req.holds r.mode,
    default := (match r.forceDefault with | some v => some v | none => d.default),
    onError := d.onError, deps := d.deps, parse := d.parse }

inductive FieldOut (α : Type) where
  | value (v : α) | unprovided | raise
  deriving DecidableEq, Repr

/-- `ParserField.get_on_error` (field.py). -/
def Field.policy {κ α : Type} (inv : Policy) (f : Field κ α) : Policy := f.onError.getD inv

/-- `ParserField.parse_value` (field.py). -/
def parseValue {κ α : Type} (inv : Policy) (f : Field κ α) (x : α) : FieldOut α :=
  match f.parse x with
  | some y => .value y
  | none =>
    match f.policy inv with
    | .exclude =>
      if f.required then .raise                      -- "required field cannot be excluded"
      else match f.default with                      -- return default / unprovided
        | some d => .value d
        | none => .unprovided
    | .preserve => .value x
    | .throw => .raise

/-- `parse_value(value, context, excluded_as_absent=True)` (field.py, after
`fixes/C11-excluded-as-absent.patch`): as the data loops call it — a value dropped by the `exclude`
policy is reported as `EXCLUDED` (here `.unprovided`: in fail-fast parsing nothing else is unprovided)
whether or not a default exists, and the loop then treats the field as not given. -/
def parseValueAbs {κ α : Type} (inv : Policy) (f : Field κ α) (x : α) : FieldOut α :=
  match f.parse x with
  | some y => .value y
  | none =>
    match f.policy inv with
    | .exclude => if f.required then .raise else .unprovided
    | .preserve => .value x
    | .throw => .raise

/-- what the data loops get for a provided value: after the fix `parseValueAbs`, before it `parseValue`
(the default of an excluded value was indistinguishable from an accepted value). -/
def fieldStep {κ α : Type} (fix : Bool) (inv : Policy) (f : Field κ α) (x : α) : FieldOut α :=
  if fix then parseValueAbs inv f x else parseValue inv f x

/-- the converter of a field declared with `Field(discriminator=…)` (field.py `parse_value`, the branch before
the conversion): a non-mapping input goes through `to_dict`, the discriminator value selects the branch type,
the value is converted to that type.  Any of the three failing is the converter rejecting the value — after
`fixes/C11-discriminator-policy.patch` all three reach the same `on_error` / `invalid_values` handling
(`_invalid_value`), so a discriminated field is an ordinary `Field` whose `parse` is this function. -/
def discParser {α τ : Type} (toDict : α → Option α) (tag : α → Option τ) (branch : τ → Option (Parser α)) : Parser α :=
  fun x => match toDict x with
    | none => none
    | some d => match tag d with
      | none => none
      | some t => match branch t with
        | none => none                                -- DiscriminatorMismatchError
        | some p => p d

/-- the code before that patch: a failing `to_dict` or a discriminator value that selects no branch called
`context.handle_error(...)` and never read the policy. -/
def parseValueDiscLegacy {κ α τ : Type} (inv : Policy) (f : Field κ α) (toDict : α → Option α) (tag : α → Option τ)
    (branch : τ → Option (Parser α)) (x : α) : FieldOut α :=
  match toDict x with
  | none => .raise
  | some d => match tag d with
    | none => .raise
    | some t => match branch t with
      | none => .raise
      | some p => parseValue inv { f with parse := p } d

/-- `options.addition` as `parse_addition` reads it. -/
inductive Addition (α : Type) where
  | ignore                  -- None
  | forbid                  -- False
  | keep                    -- True (no addition type)
  | typed (p : Parser α)

inductive AddOut (α : Type) where
  | value (v : α) | unprovided | exceed | raise
  deriving DecidableEq, Repr

/-- `BaseParser.parse_addition` (base.py). -/
def parseAddition {α : Type} (inv : Policy) (a : Addition α) (v : α) : AddOut α :=
  match a with
  | .forbid => .exceed
  | .ignore => .unprovided
  | .keep => .value v
  | .typed p =>
    match p v with
    | some y => .value y
    | none =>
      match inv with
      | .exclude => .unprovided
      | .preserve => .value v                        -- (falls through to `return value`)
      | .throw => .raise

inductive DataErr (κ : Type) where
  | absence (k : κ) | parse (k : κ) | exceed (k : κ)
  | dependencies         -- DependenciesAbsenceError (base.py)
  | collected            -- only in the pre-fix model of `@property` outputs: `context.raise_error()`
  deriving DecidableEq, Repr

def lookup {κ α : Type} [DecidableEq κ] (k : κ) : List (κ × α) → Option α
  | [] => none
  | (k', v) :: rest => if k' = k then some v else lookup k rest

/-- what the field loops accumulate: `result` (insertion log), `unprovided_fields`, `dependencies` -/
structure Acc (κ α : Type) where
  res : List (κ × α)
  unprov : List κ
  deps : List κ

def Acc.empty {κ α : Type} : Acc κ α := ⟨[], [], []⟩

/-- the field was not given (or, after the fix, its value was excluded): base.py -/
def Acc.absent {κ α : Type} (f : Field κ α) (acc : Acc κ α) : Acc κ α :=
  { acc with res := (match f.default with | some d => (f.name, d) :: acc.res | none => acc.res),
             unprov := f.name :: acc.unprov }

/-- the value was accepted: `result[name] = parsed`, `dependencies.update(field.dependencies)` -/
def Acc.accept {κ α : Type} (f : Field κ α) (y : α) (acc : Acc κ α) : Acc κ α :=
  { acc with res := (f.name, y) :: acc.res, deps := f.deps ++ acc.deps }

/-- `lack` of base.py: a demanded dependency that was not given, or is not in the result -/
def depsLack {κ α : Type} [DecidableEq κ] (deps unprov : List κ) (res : List (κ × α)) : Bool :=
  deps.any fun d => unprov.contains d || !(res.map (·.1)).contains d

/-- the field loop of `field_first_parse` (base.py).  `fix = true` is the code after
`fixes/C11-excluded-as-absent.patch`; `fix = false` the code before it. -/
def ffFieldsG {κ α : Type} [DecidableEq κ] (fix : Bool) (inv : Policy) :
    List (Field κ α) → List (κ × α) → Except (DataErr κ) (Acc κ α)
  | [], _ => .ok Acc.empty
  | f :: fs, data =>
    match lookup f.name data with
    | none =>
      if f.required then .error (.absence f.name)
      else (ffFieldsG fix inv fs data).map (Acc.absent f)
    | some x =>
      match fieldStep fix inv f x with
      | .raise => .error (.parse f.name)
      | .unprovided =>
        if fix then (ffFieldsG fix inv fs data).map (Acc.absent f)           -- fix: like a field not given
        else ffFieldsG fix inv fs data                                       -- before: plain `continue`
      | .value y => (ffFieldsG fix inv fs data).map (Acc.accept f y)

/-- the addition loop of `field_first_parse` (base.py) -/
def ffAddition {κ α : Type} [DecidableEq κ] (inv : Policy) (a : Addition α) (names : List κ) :
    List (κ × α) → Except (DataErr κ) (List (κ × α))
  | [] => .ok []
  | (k, v) :: rest =>
    if k ∈ names then ffAddition inv a names rest                            -- `if k in used_alias`
    else match parseAddition inv a v with
      | .value y => (ffAddition inv a names rest).map ((k, y) :: ·)
      | .unprovided => ffAddition inv a names rest
      | .exceed => .error (.exceed k)
      | .raise => .error (.parse k)

def Addition.isIgnore {α : Type} : Addition α → Bool
  | .ignore => true
  | _ => false

/-- `field_first_parse`; result = insertion log (fields, then `result.update(addition)`).  The
dependency check comes before the addition loop. -/
def parseDataFFG {κ α : Type} [DecidableEq κ] (fix : Bool) (inv : Policy) (fields : List (Field κ α)) (a : Addition α)
    (data : List (κ × α)) : Except (DataErr κ) (List (κ × α)) :=
  match ffFieldsG fix inv fields data with
  | .error e => .error e
  | .ok acc =>
    if depsLack acc.deps acc.unprov acc.res then .error .dependencies
    else if a.isIgnore then .ok acc.res                                      -- `if options.addition is not None`
    else (ffAddition inv a (fields.map (·.name)) data).map (acc.res ++ ·)

/-- the repaired code -/
def ffFields {κ α : Type} [DecidableEq κ] (inv : Policy) := ffFieldsG (κ := κ) (α := α) true inv
def parseDataFF {κ α : Type} [DecidableEq κ] (inv : Policy) := parseDataFFG (κ := κ) (α := α) true inv

def findField {κ α : Type} [DecidableEq κ] (k : κ) : List (Field κ α) → Option (Field κ α)
  | [] => none
  | f :: fs => if f.name = k then some f else findField k fs

/-- what the second loop of `data_first_parse` accumulates: result, addition, dependencies, and the names
the fill loop skips (`name in inputs and name not in excluded`) -/
structure DAcc (κ α : Type) where
  res : List (κ × α)
  add : List (κ × α)
  deps : List κ
  given : List κ

/-- `data_first_parse` (base.py, two-phase since a1900c3).  Phase 1 scans the data into `inputs`
(field, value, alias rank) keeping input order; without aliases / case-insensitive names and with the
distinct keys of a dict it is the identity, so the model runs phase 2 — the loop over `inputs` in input
order, additional keys and fields interleaved — directly on the data.  `fix = true`: a value dropped by the
`exclude` policy (`parse_value` returns `EXCLUDED`) is recorded in `excluded` and the fill loop handles the
field as not given; `fix = false`: the code before `fixes/C11-excluded-as-absent.patch`. -/
def dfLoopG {κ α : Type} [DecidableEq κ] (fix : Bool) (inv : Policy) (fields : List (Field κ α)) (a : Addition α) :
    List (κ × α) → Except (DataErr κ) (DAcc κ α)
  | [] => .ok ⟨[], [], [], []⟩
  | (k, v) :: rest =>
    match findField k fields with
    | none =>
      match parseAddition inv a v with                                       -- `if field is None`
      | .value y => (dfLoopG fix inv fields a rest).map fun acc => { acc with add := (k, y) :: acc.add }
      | .unprovided => dfLoopG fix inv fields a rest
      | .exceed => .error (.exceed k)
      | .raise => .error (.parse k)
    | some f =>
      match fieldStep fix inv f v with
      | .raise => .error (.parse k)
      | .unprovided =>
        if fix then dfLoopG fix inv fields a rest                            -- `excluded.add(name); continue`
        else (dfLoopG fix inv fields a rest).map fun acc => { acc with given := k :: acc.given }
      | .value y => (dfLoopG fix inv fields a rest).map fun acc =>
          { acc with res := (k, y) :: acc.res, deps := f.deps ++ acc.deps, given := k :: acc.given }

/-- the fill loop of `data_first_parse`: (defaults, unprovided_fields); `present` = given and not excluded -/
def dfFill {κ α : Type} [DecidableEq κ] (present : List κ) :
    List (Field κ α) → Except (DataErr κ) (List (κ × α) × List κ)
  | [] => .ok ([], [])
  | f :: fs =>
    if f.name ∈ present then dfFill present fs
    else if f.required then .error (.absence f.name)
    else (dfFill present fs).map fun (l, up) =>
      ((match f.default with | some d => (f.name, d) :: l | none => l), f.name :: up)

def parseDataDFG {κ α : Type} [DecidableEq κ] (fix : Bool) (inv : Policy) (fields : List (Field κ α)) (a : Addition α)
    (data : List (κ × α)) : Except (DataErr κ) (List (κ × α)) :=
  match dfLoopG fix inv fields a data with
  | .error e => .error e
  | .ok acc =>
    match dfFill acc.given fields with
    | .error e => .error e
    | .ok (filled, unprov) =>
      if depsLack acc.deps unprov (acc.res ++ filled) then .error .dependencies
      else .ok (acc.res ++ filled ++ acc.add)

def dfLoop {κ α : Type} [DecidableEq κ] (inv : Policy) := dfLoopG (κ := κ) (α := α) true inv
def parseDataDF {κ α : Type} [DecidableEq κ] (inv : Policy) := parseDataDFG (κ := κ) (α := α) true inv

/-! ### sequences of parses of one declared class -/

/-- one parse of a declared class: running options, `invalid_values`, lookup strategy, data -/
structure ParseStep (μ κ α : Type) where
  run : RunOpts μ α
  inv : Policy
  dataFirst : Bool
  data : List (κ × α)

def parseStep {μ κ α : Type} [DecidableEq μ] [DecidableEq κ] (decls : List (FieldDecl μ κ α)) (a : Addition α)
    (s : ParseStep μ κ α) : Except (DataErr κ) (List (κ × α)) :=
  let fields := decls.map (FieldDecl.resolveR s.run)
  if s.dataFirst then parseDataDF s.inv fields a s.data else parseDataFF s.inv fields a s.data

/-- the parses a program makes with one class, in order: the declaration is the only thing they share -/
def runSteps {μ κ α : Type} [DecidableEq μ] [DecidableEq κ] (decls : List (FieldDecl μ κ α)) (a : Addition α)
    (steps : List (ParseStep μ κ α)) : List (Except (DataErr κ) (List (κ × α))) :=
  steps.map (parseStep decls a)

/-! ### `*args: T` of a decorated function -/

/-- `FunctionParser.parse_pos_type` (func.py). -/
def parsePosType {α : Type} (pol : Policy) (pt : Option (Parser α)) (x : α) : FieldOut α :=
  match pt with
  | none => .value x
  | some p =>
    match p x with
    | some y => .value y
    | none =>
      match pol with
      | .preserve => .value x
      | .exclude => .unprovided
      | .throw => .raise

/-- the `*args` part of `parse_params` (func.py) -/
def parseVarArgs {α : Type} (pol : Policy) (pt : Option (Parser α)) : Nat → List α → Except SeqErr (List α)
  | _, [] => .ok []
  | i, x :: xs =>
    match parsePosType pol pt x with
    | .value y => (parseVarArgs pol pt (i + 1) xs).map (y :: ·)
    | .unprovided => parseVarArgs pol pt (i + 1) xs
    | .raise => .error (.item i)

/-- the declared positional parameters in `parse_params` (func.py), for parameters that all
carry a default: a parameter given positionally goes through `parse_value` (the default-returning
path: an excluded argument is replaced by the parameter's default), one that is not given gets its
default (in Python through `parse_data(kwargs)`, i.e. as a keyword; the model lists it positionally — the body
of the function sees the same binding).  Returns the parsed parameters and the arguments left for `*args`. -/
def parsePosParams {κ α : Type} (inv : Policy) : List (Field κ α) → Nat → List α → Except SeqErr (List α × List α)
  | [], _, xs => .ok ([], xs)
  | ps, _, [] => .ok (ps.filterMap (·.default), [])
  | p :: ps, i, x :: xs =>
    match parseValue inv p x with
    | .raise => .error (.item i)
    | .unprovided => parsePosParams inv ps (i + 1) xs                      -- `continue`
    | .value y => (parsePosParams inv ps (i + 1) xs).map fun (l, r) => (y :: l, r)

/-- positional parameters, then `*args` -/
def parseCallArgs {κ α : Type} (inv pitems : Policy) (ps : List (Field κ α)) (pt : Option (Parser α)) (xs : List α) :
    Except SeqErr (List α × List α) :=
  match parsePosParams inv ps 0 xs with
  | .error e => .error e
  | .ok (l, rest) => (parseVarArgs pitems pt ps.length rest).map fun r => (l, r)

/-! ### `@property` outputs of a data class -/

/-- `ParserField.parse_output_value` (field.py).  `onError` is the `on_error` of the Field
decorating the getter; there is no `required` test on this path. -/
def parseOutputValue {α : Type} (inv : Policy) (onError : Option Policy) (pt : Option (Parser α)) (x : α) : FieldOut α :=
  match pt with
  | none => .value x
  | some p =>
    match p x with
    | some y => .value y
    | none =>
      match onError.getD inv with
      | .exclude => .unprovided
      | .preserve => .value x
      | .throw => .raise

/-- a declared `@property`: name, `on_error`, return-type converter, and what the getter returned -/
structure OutProp (κ α : Type) where
  name : κ
  onError : Option Policy
  parse : Option (Parser α)
  raw : α

/-- `Schema.__post_init__` (schema.py) → `__coerce_property__` for each property in
declaration order; log of `super().__setitem__(field.name, value)`. -/
def parseProps {κ α : Type} (inv : Policy) : List (OutProp κ α) → Except (DataErr κ) (List (κ × α))
  | [] => .ok []
  | q :: qs =>
    match parseOutputValue inv q.onError q.parse q.raw with
    | .value y => (parseProps inv qs).map ((q.name, y) :: ·)
    | .unprovided => parseProps inv qs
    | .raise => .error (.parse q.name)

/-- The code before `fixes/C11-output-error-isolation.patch`: the output converter ran in the instance's
own context (`context.transformer`, no `context.enter`), so an error that a constrained type reports
through `context.handle_error` (rule.py) stayed in `context.errors` after the policy had excluded /
preserved the value, and `context.raise_error()` at the end of `__post_init__` (schema.py) raised it
anyway.  `records q` = the converter of `q` reports through `handle_error` (constraint violations of
`Rule` types) instead of raising directly (plain `int`). -/
def parsePropsLegacyAux {κ α : Type} (inv : Policy) (records : OutProp κ α → Bool) :
    List (OutProp κ α) → Except (DataErr κ) (List (κ × α) × Bool)
  | [] => .ok ([], false)
  | q :: qs =>
    let dirty := records q && propOffending q
    match parseOutputValue inv q.onError q.parse q.raw with
    | .value y => (parsePropsLegacyAux inv records qs).map fun (l, d) => ((q.name, y) :: l, d || dirty)
    | .unprovided => (parsePropsLegacyAux inv records qs).map fun (l, d) => (l, d || dirty)
    | .raise => .error (.parse q.name)
where propOffending (q : OutProp κ α) : Bool := match q.parse with | some p => (p q.raw).isNone | none => false

def parsePropsLegacy {κ α : Type} (inv : Policy) (records : OutProp κ α → Bool) (props : List (OutProp κ α)) :
    Except (DataErr κ) (List (κ × α)) :=
  match parsePropsLegacyAux inv records props with
  | .error e => .error e
  | .ok (l, dirty) => if dirty then .error .collected else .ok l

/-! ### nested declared types -/

structure Opts where
  items : Policy
  keys : Policy
  values : Policy

def Opts.strict : Opts := ⟨.throw, .throw, .throw⟩

/-- declared types: a leaf converter, a sequence of a type, a mapping of two types / of a key type only -/
inductive Ty (α : Type) where
  | leaf (p : Parser α)
  | seq (k : SeqKind) (elem : Ty α)
  | map (key val : Ty α)
  | mapK (key : Ty α)

/-- the converter of a declared type under one `Options` object: the same three policies govern every
level of nesting (`context.enter` passes the options down, options.py). -/
def parseTy {α : Type} (W : World α) (o : Opts) : Ty α → Parser α
  | .leaf p => p
  | .seq k t => fun v => (parseSeqRule W k o.items (parseTy W o t) v).toOption
  | .map tk tv => fun v => (parseMapRule W o.keys o.values (parseTy W o tk) (some (parseTy W o tv)) v).toOption
  | .mapK tk => fun v => (parseMapRule W o.keys o.values (parseTy W o tk) none v).toOption

/-! ### a container inside a union (`Optional[List[int]]`, `Union[List[int], int]`) -/

/-- the conversion preferences a union tries its conditions under (`LogicalType.logical_parse`, combinator `|`,
rule.py): stage 2 `no_data_loss + no_explicit_cast`, stage 3 `no_data_loss`, stage 4 the running options -/
inductive Mode where
  | strict | noLoss | common
  deriving DecidableEq, Repr

/-- a condition of a union: its converter under a stage's preferences and the three `invalid_*` policies -/
abbrev Branch (α : Type) := Mode → Opts → Parser α

def firstSome {α : Type} : List (Parser α) → Parser α
  | [], _ => none
  | p :: ps, v => match p v with
    | some r => some r
    | none => firstSome ps v

/-- `logical_parse` for `|`, stages 2-4 (stage 1 returns a value that already has exactly the type of a condition;
a value never has the type of a `Rule` container condition).  `fix = true` is the code after
`fixes/C11-union-trial-stages.patch`: the two trial stages run their conditions with the `invalid_*` policies
at `throw` — they ask whether a condition accepts the value as it is — and only the stage whose result is
returned uses the declared policies.  `fix = false`: the trial stages inherit the policies. -/
def unionParse {α : Type} (fix : Bool) (o : Opts) (bs : List (Branch α)) (v : α) : Option α :=
  let trial := if fix then Opts.strict else o
  match firstSome (bs.map fun b => b .strict trial) v with
  | some r => some r
  | none =>
    match firstSome (bs.map fun b => b .noLoss trial) v with
    | some r => some r
    | none => firstSome (bs.map fun b => b .common o) v

/-- a sequence condition; the element converter depends on the stage's preferences -/
def seqBranch {α : Type} (W : World α) (k : SeqKind) (p : Mode → Parser α) : Branch α :=
  fun m o v => (parseSeqRule W k o.items (p m) v).toOption

/-- a mapping condition -/
def mapBranch {α : Type} (W : World α) (kp : Mode → Parser α) (vp : Option (Mode → Parser α)) : Branch α :=
  fun m o v => (parseMapRule W o.keys o.values (kp m) (vp.map fun q => q m) v).toOption

/-! ### nested data classes -/

/-- what a field declares besides its type -/
structure FieldSpec (α : Type) where
  name : α
  required : Bool
  default : Option α
  onError : Option Policy
  deps : List α := []

/-- declared types with data classes.  Every class node carries its OWN `invalid_values`, lookup strategy
and `addition`: a nested class is parsed in a context made from its own `__options__`
(`parser.make_context(context=parent)`, cls.py), a list node the `invalid_items` of the options
it is reached under.  Field names live in the value type (the keys of the mapping the input is). -/
inductive DTy (α : Type) where
  | leaf (p : Parser α)
  | list (k : SeqKind) (items : Policy) (elem : DTy α)
  | data (inv : Policy) (dataFirst : Bool) (a : Addition α) (fields : List (FieldSpec α × DTy α))

mutual
/-- the converter of a declared type; `strict = true` reads every policy and `on_error` as `throw` -/
def DTy.parser {α : Type} [DecidableEq α] (W : World α) (strict : Bool) : DTy α → Parser α
  | .leaf p => p
  | .list k items t => fun v =>
      (parseSeqRule W k (if strict then .throw else items) (DTy.parser W strict t) v).toOption
  | .data inv df a fs => fun v =>
      match W.asMap v with
      | none => none
      | some kvs =>
        let pol := if strict then Policy.throw else inv
        ((if df then parseDataDF pol (DTy.fieldsOf W strict fs) a kvs
          else parseDataFF pol (DTy.fieldsOf W strict fs) a kvs).map W.mkMap).toOption
/-- the fields of a class node, each with the converter of its declared type -/
def DTy.fieldsOf {α : Type} [DecidableEq α] (W : World α) (strict : Bool) :
    List (FieldSpec α × DTy α) → List (Field α α)
  | [] => []
  | (s, t) :: rest =>
      { name := s.name, required := s.required, default := s.default,
        onError := if strict then some .throw else s.onError, deps := s.deps,
        parse := DTy.parser W strict t } :: DTy.fieldsOf W strict rest
end

/-! ### Specification — the property's own vocabulary, independent of the code above -/

/-- an element is *offending* for a converter when the converter rejects it -/
def Offending {α : Type} (p : Parser α) (x : α) : Bool := (p x).isNone

/-- the input with exactly the offending elements removed -/
def removeOffenders {α : Type} (p : Parser α) (xs : List α) : List α := xs.filter (fun x => !Offending p x)

/-- strict conversion: every element through `p`, all or nothing (what `throw` promises) -/
def strict {α : Type} (p : Parser α) : List α → Option (List α)
  | [] => some []
  | x :: xs => match p x, strict p xs with
    | some y, some ys => some (y :: ys)
    | _, _ => none

/-- put the offending elements of `xs` back, unchanged, at their positions into `rs`
(the strict result of the input without them) -/
def putBack {α : Type} (p : Parser α) : List α → List α → List α
  | [], _ => []
  | x :: xs, rs =>
    if Offending p x then x :: putBack p xs rs
    else match rs with
      | r :: rs' => r :: putBack p xs rs'
      | [] => []

/-- a converter that leaves offenders unchanged instead of rejecting them -/
def orSelf {α : Type} (p : Parser α) : Parser α := fun x => some ((p x).getD x)

/-- which entries of a mapping an `exclude` policy removes: the key is offending under
`invalid_keys='exclude'`, or the key survives and the value is offending under
`invalid_values='exclude'` -/
def mapExcluded {α : Type} (pk pv : Policy) (kp : Parser α) (vp : Option (Parser α)) (kv : α × α) : Bool :=
  (pk == .exclude && Offending kp kv.1) ||
  (pv == .exclude && (!Offending kp kv.1 || pk == .preserve) &&
    (match vp with | some q => Offending q kv.2 | none => false))

/-- an entry whose VALUE a `preserve` policy hands back: the key survives (converts, not preserved itself)
and the value is offending -/
def valuePreserved {α : Type} (kp : Parser α) (vp : Option (Parser α)) (kv : α × α) : Bool :=
  !Offending kp kv.1 && (match vp with | some q => Offending q kv.2 | none => false)

/-- put the entries with an offending value back — converted key, value unchanged — at their positions into
`rs`, the strict result of the mapping without them -/
def putBackVals {α : Type} (kp : Parser α) (vp : Option (Parser α)) : List (α × α) → List (α × α) → List (α × α)
  | [], _ => []
  | kv :: rest, rs =>
    if valuePreserved kp vp kv then ((kp kv.1).getD kv.1, kv.2) :: putBackVals kp vp rest rs
    else match rs with
      | r :: rs' => r :: putBackVals kp vp rest rs'
      | [] => []

/-- `preserve` read as `throw` over the converter that hands offenders back unchanged -/
def Policy.strictified : Policy → Policy
  | .preserve => .throw
  | p => p

def strictifyParser {α : Type} (pol : Policy) (p : Parser α) : Parser α :=
  match pol with
  | .preserve => orSelf p
  | _ => p

/-- a field whose value an `exclude` policy removes from the input: declared, value offending,
effective policy `exclude`, not required -/
def fieldExcluded {κ α : Type} [DecidableEq κ] (inv : Policy) (fields : List (Field κ α)) (kv : κ × α) : Bool :=
  match findField kv.1 fields with
  | some f => Offending f.parse kv.2 && f.policy inv == .exclude && !f.required
  | none => false

/-- an extra key whose value an `exclude` policy removes -/
def additionExcluded {κ α : Type} [DecidableEq κ] (inv : Policy) (fields : List (Field κ α)) (a : Addition α)
    (kv : κ × α) : Bool :=
  match findField kv.1 fields, a with
  | none, .typed p => inv == .exclude && Offending p kv.2
  | _, _ => false

/-- the same declaration read strictly: `preserve` fields hand offenders back, everything else throws -/
def Field.strictified {κ α : Type} (inv : Policy) (f : Field κ α) : Field κ α :=
  { f with onError := some .throw, parse := strictifyParser (f.policy inv) f.parse }

def Addition.strictified {α : Type} (inv : Policy) : Addition α → Addition α
  | .typed p => .typed (strictifyParser inv p)
  | a => a

/-- a property whose offending result an `exclude` policy removes from the output -/
def propExcluded {κ α : Type} (inv : Policy) (q : OutProp κ α) : Bool :=
  match q.parse with
  | some p => Offending p q.raw && q.onError.getD inv == .exclude
  | none => false

def OutProp.strictified {κ α : Type} (inv : Policy) (q : OutProp κ α) : OutProp κ α :=
  { q with onError := some .throw, parse := q.parse.map (strictifyParser (q.onError.getD inv)) }

/-- **known deviation (finding `preserve-validates-whole-result`)**: the validators of a constrained
container judge what the policy loop produced, i.e. under `preserve` the list WITH the offenders.  The
property's sentence ("the strict result of the input without the offenders, with the offenders put back")
is violated exactly when the filtered list passes the validators and the put-back list does not
(`max_length`); decidable. -/
def KnownDefect.consRejectsPutBack {α : Type} (p : Parser α) (cons : List α → Bool) (xs : List α) : Bool :=
  cons (xs.filterMap p) && !cons (xs.map fun x => (p x).getD x)

end Utv.C11
