import Utv.Lemmas.C15Main
import Utv.Lemmas.C15Names
import Utv.Lemmas.C15Exact2
import Utv.Lemmas.C15Wide
/-!
C15 — types built from a JSON Schema never crash nor emit what the schema forbids.

`parse N s`        the parser model (`Utv/Model/C15.lean`), `none` = the build raises
`conforms R T j`   the contract of the built type on the JSON form of a value it returned
`validate C s j`   draft 2020-12 validation (`Utv/Model/JsonSchema.lean`, cross-checked against `jsonschema`)
`inFragmentW s`    the schemas the property quantifies over (documents over its 26 keywords that the metaschema accepts,
                   boolean schemas included); the theorems add `KnownDefect.emptyName s = false` (no member named "":
                   known finding `empty-property-name`) and run on the strict `inFragment` (`narrow_json`)

Soundness is stated at full strength over all schemas of the fragment, all built types, all instances, all regex
oracles with `fullmatch ⊆ search`, all name environments; it is partial only in the decidable hypothesis
`oneOfAtMost` (`KnownDefect.oneOfOverlap` excluded), whose negation is witnessed below.
-/
set_option linter.unusedVariables false
namespace Utv.C15
open Utv.JsonSchema

/-! ### the induction over the schema document -/

/-- the induction hypotheses a member value carries: for itself as a schema, and for the schemas it lists -/
def DeepSound (N : Names) (R : Rx) (C : Ctx) (v : Json) : Prop :=
  SubSound N R C v ∧ (match v with
    | .arr ss => ∀ s ∈ ss, SubSound N R C s
    | .obj ps => ∀ p ∈ ps, SubSound N R C p.2
    | _ => True)

mutual
theorem sound_json (N : Names) (R : Rx) (hR : ∀ p x, R.full p x = true → R.search p x = true) (C : Ctx)
    (hC : C.search = R.search) : (s : Json) → SubSound N R C s
  | .obj kvs =>
    obj_ok N R hR C hC kvs
      (fun k v hm => (sound_members N R hR C hC kvs k v hm).1)
      (fun k ss hm => (sound_members N R hR C hC kvs k (.arr ss) hm).2)
      (fun k ps hm => (sound_members N R hR C hC kvs k (.obj ps) hm).2)
  | .null => fun T j hf => by simp [inFragment] at hf
  | .bool true => fun T j _ _ _ _ => by rw [validate]
  | .bool false => fun T j _ hp hc _ => by
      rw [parse] at hp; cases hp
      simp [Ty.never, conforms, conformsAny] at hc
  | .num _ => fun T j hf => by simp [inFragment] at hf
  | .str _ => fun T j hf => by simp [inFragment] at hf
  | .arr _ => fun T j hf => by simp [inFragment] at hf
termination_by structural s => s
theorem sound_members (N : Names) (R : Rx) (hR : ∀ p x, R.full p x = true → R.search p x = true) (C : Ctx)
    (hC : C.search = R.search) : (kws : List (String × Json)) → ∀ k v, (k, v) ∈ kws → DeepSound N R C v
  | [], k, v, hm => by simp at hm
  | (k', v') :: rest, k, v, hm =>
    (List.mem_cons.mp hm).elim
      (fun h =>
        have hv : v = v' := (Prod.mk.inj h).2
        hv ▸ ⟨sound_json N R hR C hC v', match v' with
          | .arr ss => sound_list N R hR C hC ss
          | .obj ps => sound_props N R hR C hC ps
          | .null => trivial
          | .bool _ => trivial
          | .num _ => trivial
          | .str _ => trivial⟩)
      (fun h => sound_members N R hR C hC rest k v h)
termination_by structural kws => kws
theorem sound_list (N : Names) (R : Rx) (hR : ∀ p x, R.full p x = true → R.search p x = true) (C : Ctx)
    (hC : C.search = R.search) : (ss : List Json) → ∀ s ∈ ss, SubSound N R C s
  | [], s, hm => by simp at hm
  | s' :: rest, s, hm =>
    (List.mem_cons.mp hm).elim
      (fun h => h ▸ sound_json N R hR C hC s')
      (fun h => sound_list N R hR C hC rest s h)
termination_by structural ss => ss
theorem sound_props (N : Names) (R : Rx) (hR : ∀ p x, R.full p x = true → R.search p x = true) (C : Ctx)
    (hC : C.search = R.search) : (ps : List (String × Json)) → ∀ p ∈ ps, SubSound N R C p.2
  | [], p, hm => by simp at hm
  | (n, s') :: rest, p, hm =>
    (List.mem_cons.mp hm).elim
      (fun h => h ▸ sound_json N R hR C hC s')
      (fun h => sound_props N R hR C hC rest p h)
termination_by structural ps => ps
end

/-! ### the property

Full statement (false of the parser as it stands, see `C15_oneof_overlap_witness`):

    theorem C15_sound : inFragment s → parse N s = some T → conforms R T j → validate C s j

What holds: the same with the decidable hypothesis that no `oneOf` the instance meets has two validating branches. -/

theorem C15_sound_partial (N : Names) (R : Rx) (hR : ∀ p x, R.full p x = true → R.search p x = true) (C : Ctx)
    (hC : C.search = R.search) (s : Json) (T : Ty) (j : Json)
    (hf : inFragmentW s = true) (hn : KnownDefect.emptyName s = false)
    (hp : parse N s = some T) (hc : conforms R T j = true)
    (hk : KnownDefect.oneOfOverlap C s j = false) : validate C s j = true :=
  sound_json N R hR C hC s T j (narrow_json s hf hn) hp hc (by simpa [KnownDefect.oneOfOverlap] using hk)

/-! schemas without `oneOf`: no hypothesis left -/

mutual
def oneOfFree (s : Json) : Bool :=
  match s with
  | .obj kvs => oneOfFreeKws kvs
  | _ => true
termination_by structural s
def oneOfFreeKws (kws : List (String × Json)) : Bool :=
  match kws with
  | [] => true
  | (k, v) :: rest => k != "oneOf" && oneOfFreeIn v && oneOfFreeKws rest
termination_by structural kws
/-- in a member value: a schema, a list of schemas, or a map of schemas -/
def oneOfFreeIn (v : Json) : Bool :=
  match v with
  | .obj kvs => oneOfFreeKws kvs && oneOfFreeMap kvs
  | .arr ss => oneOfFreeList ss
  | _ => true
termination_by structural v
def oneOfFreeList (ss : List Json) : Bool :=
  match ss with
  | [] => true
  | s :: rest => oneOfFree s && oneOfFreeList rest
termination_by structural ss
def oneOfFreeMap (ps : List (String × Json)) : Bool :=
  match ps with
  | [] => true
  | (_, s) :: rest => oneOfFree s && oneOfFreeMap rest
termination_by structural ps
end

open KnownDefect in
theorem oneOfAtMost_of_not_obj (C : Ctx) (s j : Json) (h : ∀ kvs, s ≠ .obj kvs) : oneOfAtMost C s j = true := by
  cases s with
  | obj kvs => exact absurd rfl (h kvs)
  | _ => rw [oneOfAtMost]; intro kvs e; cases e

open KnownDefect in
theorem oneOfList_free (C : Ctx) (j : Json) : (ss : List Json) → (∀ s ∈ ss, ∀ x, oneOfAtMost C s x = true) → oneOfList C ss j = true
  | [], _ => by rw [oneOfList]
  | s :: rest, h => by
    rw [oneOfList]
    simp only [Bool.and_eq_true]
    exact ⟨h s (by simp) j, oneOfList_free C j rest fun s' hs' => h s' (List.mem_cons_of_mem _ hs')⟩

open KnownDefect in
theorem oneOfZip_free (C : Ctx) : (ss xs : List Json) → (∀ s ∈ ss, ∀ x, oneOfAtMost C s x = true) → oneOfZip C ss xs = true
  | [], _, _ => by rw [oneOfZip]
  | s :: rest, [], _ => by rw [oneOfZip]
  | s :: rest, x :: xs, h => by
    rw [oneOfZip]
    simp only [Bool.and_eq_true]
    exact ⟨h s (by simp) x, oneOfZip_free C rest xs fun s' hs' => h s' (List.mem_cons_of_mem _ hs')⟩

open KnownDefect in
theorem oneOfProps_free (C : Ctx) (o : Obj) : (ps : List (String × Json)) → (∀ p ∈ ps, ∀ x, oneOfAtMost C p.2 x = true) →
    oneOfProps C ps o = true
  | [], _ => by rw [oneOfProps]
  | (n, s) :: rest, h => by
    rw [oneOfProps]
    simp only [Bool.and_eq_true]
    refine ⟨?_, oneOfProps_free C o rest fun p hp => h p (List.mem_cons_of_mem _ hp)⟩
    cases lookup n o with
    | none => rfl
    | some x => exact h (n, s) (by simp) x

open KnownDefect in
/-- one member that is not `oneOf`, all of whose sub-schemas are free of overlaps -/
theorem oneOfEntry_free (C : Ctx) (all : Obj) (k : String) (v j : Json) (hk : (k == "oneOf") = false)
    (hself : ∀ x, oneOfAtMost C v x = true)
    (hlist : ∀ ss, v = .arr ss → ∀ s ∈ ss, ∀ x, oneOfAtMost C s x = true)
    (hmap : ∀ ps, v = .obj ps → ∀ p ∈ ps, ∀ x, oneOfAtMost C p.2 x = true) : oneOfEntry C all k v j = true := by
  simp only [oneOfEntry, hk, Bool.false_eq_true, if_false]
  by_cases h1 : (k == "anyOf" || k == "allOf") = true
  · simp only [h1, if_true]
    cases v with
    | arr ss => exact oneOfList_free C j ss (hlist ss rfl)
    | _ => rfl
  · simp only [h1, Bool.false_eq_true, if_false]
    by_cases h2 : (k == "items") = true
    · simp only [h2, if_true]
      cases j with
      | arr xs => exact List.all_eq_true.mpr fun x _ => hself x
      | _ => rfl
    · simp only [h2, Bool.false_eq_true, if_false]
      by_cases h3 : (k == "prefixItems") = true
      · simp only [h3, if_true]
        cases v with
        | arr ss =>
          cases j with
          | arr xs => exact oneOfZip_free C ss xs (hlist ss rfl)
          | _ => rfl
        | _ => rfl
      · simp only [h3, Bool.false_eq_true, if_false]
        by_cases h4 : (k == "properties") = true
        · simp only [h4, if_true]
          cases v with
          | obj ps =>
            cases j with
            | obj o => exact oneOfProps_free C o ps (hmap ps rfl)
            | _ => rfl
          | _ => rfl
        · simp only [h4, Bool.false_eq_true, if_false]
          by_cases h5 : (k == "additionalProperties") = true
          · simp only [h5, if_true]
            cases j with
            | obj o => exact List.all_eq_true.mpr fun m _ => hself m.2
            | _ => rfl
          · simp only [h5, Bool.false_eq_true, if_false]

open KnownDefect in
mutual
theorem free_json (C : Ctx) : (s : Json) → oneOfFree s = true → ∀ j, oneOfAtMost C s j = true
  | .obj kvs, h, j => by
    rw [oneOfFree] at h
    rw [oneOfAtMost]
    exact free_kws C kvs kvs h j
  | .null, _, j => oneOfAtMost_of_not_obj C _ j (by intro kvs e; cases e)
  | .bool _, _, j => oneOfAtMost_of_not_obj C _ j (by intro kvs e; cases e)
  | .num _, _, j => oneOfAtMost_of_not_obj C _ j (by intro kvs e; cases e)
  | .str _, _, j => oneOfAtMost_of_not_obj C _ j (by intro kvs e; cases e)
  | .arr _, _, j => oneOfAtMost_of_not_obj C _ j (by intro kvs e; cases e)
termination_by structural s => s
theorem free_kws (C : Ctx) (all : Obj) : (kws : List (String × Json)) → oneOfFreeKws kws = true → ∀ j, oneOfKws C all kws j = true
  | [], _, j => by rw [oneOfKws]
  | (k, v) :: rest, h, j =>
    have hk : (k == "oneOf") = false := by
      rw [oneOfFreeKws] at h
      simp only [Bool.and_eq_true, bne_iff_ne, ne_eq] at h
      simpa using h.1.1
    have hv : oneOfFreeIn v = true := by
      rw [oneOfFreeKws] at h
      simp only [Bool.and_eq_true] at h
      exact h.1.2
    have hr : oneOfFreeKws rest = true := by
      rw [oneOfFreeKws] at h
      simp only [Bool.and_eq_true] at h
      exact h.2
    have hentry : oneOfEntry C all k v j = true :=
      match v, hv with
      | .obj kvs, hv =>
        have h1 : oneOfFreeKws kvs = true ∧ oneOfFreeMap kvs = true := by
          rw [oneOfFreeIn] at hv
          simpa [Bool.and_eq_true] using hv
        oneOfEntry_free C all k (.obj kvs) j hk
          (fun x => by rw [oneOfAtMost]; exact free_kws C kvs kvs h1.1 x)
          (fun ss e => by cases e)
          (fun ps e => by cases e; exact free_map C kvs h1.2)
      | .arr ss, hv =>
        oneOfEntry_free C all k (.arr ss) j hk
          (fun x => oneOfAtMost_of_not_obj C _ x (by intro kvs e; cases e))
          (fun ss' e => by cases e; exact free_list C ss (by rw [oneOfFreeIn] at hv; exact hv))
          (fun ps e => by cases e)
      | .null, _ => oneOfEntry_free C all k .null j hk (fun x => oneOfAtMost_of_not_obj C _ x (by intro kvs e; cases e)) (fun _ e => by cases e) (fun _ e => by cases e)
      | .bool b, _ => oneOfEntry_free C all k (.bool b) j hk (fun x => oneOfAtMost_of_not_obj C _ x (by intro kvs e; cases e)) (fun _ e => by cases e) (fun _ e => by cases e)
      | .num n, _ => oneOfEntry_free C all k (.num n) j hk (fun x => oneOfAtMost_of_not_obj C _ x (by intro kvs e; cases e)) (fun _ e => by cases e) (fun _ e => by cases e)
      | .str t, _ => oneOfEntry_free C all k (.str t) j hk (fun x => oneOfAtMost_of_not_obj C _ x (by intro kvs e; cases e)) (fun _ e => by cases e) (fun _ e => by cases e)
    by
      rw [oneOfKws_cons]
      simp only [Bool.and_eq_true]
      exact ⟨hentry, free_kws C all rest hr j⟩
termination_by structural kws => kws
theorem free_list (C : Ctx) : (ss : List Json) → oneOfFreeList ss = true → ∀ s ∈ ss, ∀ j, oneOfAtMost C s j = true
  | [], _, s, hm, _ => by simp at hm
  | s' :: rest, h, s, hm, j =>
    have h' : oneOfFree s' = true ∧ oneOfFreeList rest = true := by
      rw [oneOfFreeList] at h
      simpa [Bool.and_eq_true] using h
    (List.mem_cons.mp hm).elim (fun e => e ▸ free_json C s' h'.1 j) (fun e => free_list C rest h'.2 s e j)
termination_by structural ss => ss
theorem free_map (C : Ctx) : (ps : List (String × Json)) → oneOfFreeMap ps = true → ∀ p ∈ ps, ∀ j, oneOfAtMost C p.2 j = true
  | [], _, p, hm, _ => by simp at hm
  | (n, s') :: rest, h, p, hm, j =>
    have h' : oneOfFree s' = true ∧ oneOfFreeMap rest = true := by
      rw [oneOfFreeMap] at h
      simpa [Bool.and_eq_true] using h
    (List.mem_cons.mp hm).elim (fun e => e ▸ free_json C s' h'.1 j) (fun e => free_map C rest h'.2 p e j)
termination_by structural ps => ps
end

/-- for schemas that do not use `oneOf` the property holds as stated -/
theorem C15_sound_without_oneOf (N : Names) (R : Rx) (hR : ∀ p x, R.full p x = true → R.search p x = true) (C : Ctx)
    (hC : C.search = R.search) (s : Json) (T : Ty) (j : Json)
    (hf : inFragmentW s = true) (hn : KnownDefect.emptyName s = false) (hfree : oneOfFree s = true)
    (hp : parse N s = some T) (hc : conforms R T j = true) :
    validate C s j = true :=
  sound_json N R hR C hC s T j (narrow_json s hf hn) hp hc (free_json C s hfree j)

/-! ### the full statement is false of the parser: a value the built type accepts, the schema forbids -/

/-- a name environment with Python's suffix `'_' + str(i)` (`pySfx`, injective: `pySfx_inj`) -/
def N0 : Names := ⟨fun _ => true, ["items", "keys", "copy"], pySfx⟩
def R0 : Rx := ⟨fun _ _ => true, fun _ _ => true⟩
def C0 : Ctx := ⟨R0.search, fun _ _ => false⟩


/-- `{"oneOf": [{"maxLength": 2}, {"type": "integer"}]}`: built as `Rule[str](max_length=2) ^ int`; 5 is accepted by
exactly one branch *type*, but both branch *schemas* validate 5 (maxLength says nothing about numbers) -/
def witnessSchema : Json := .obj [("oneOf", .arr [.obj [("maxLength", .num ⟨2, 0⟩)], .obj [("type", .str "integer")]])]

theorem C15_oneof_overlap_witness :
    ∃ T, inFragmentW witnessSchema = true ∧ KnownDefect.emptyName witnessSchema = false ∧ parse N0 witnessSchema = some T ∧ conforms R0 T (.num ⟨5, 0⟩) = true ∧
      validate C0 witnessSchema (.num ⟨5, 0⟩) = false ∧ KnownDefect.oneOfOverlap C0 witnessSchema (.num ⟨5, 0⟩) = true :=
  ⟨.logic .one [.rule (.prim .str) [("max_length", .num ⟨2, 0⟩)], .prim .int], by decide, by decide, rfl, by decide, by decide, by decide⟩

/-! ### the hypotheses are satisfiable, and the validator tells instances apart -/

/-- an object with an unusable property name, a required member that is only mentioned, a typed additional
type, a tuple, a oneOf whose branches do not overlap, and a typeless enum -/
def sampleSchema : Json :=
  .obj [("type", .str "object"),
        ("properties", .obj [("items", .obj [("type", .str "array"), ("prefixItems", .arr [.obj [("type", .str "integer"), ("minimum", .num ⟨2, 0⟩)]]),
                                            ("items", .bool false)]),
                             ("a-b", .obj [("oneOf", .arr [.obj [("type", .str "string"), ("maxLength", .num ⟨3, 0⟩)], .obj [("type", .str "null")]])]),
                             ("k", .obj [("enum", .arr [.str "x", .str "y"])])]),
        ("required", .arr [.str "items", .str "z"]),
        ("additionalProperties", .obj [("type", .str "boolean")]),
        ("minProperties", .num ⟨2, 0⟩)]

def sampleValue : Json :=
  .obj [("items", .arr [.num ⟨3, 0⟩]), ("a-b", .str "abc"), ("k", .str "y"), ("z", .bool true)]

example : ∃ T, inFragmentW sampleSchema = true ∧ KnownDefect.emptyName sampleSchema = false ∧
    parse N0 sampleSchema = some T ∧ conforms R0 T sampleValue = true ∧
    KnownDefect.oneOfOverlap C0 sampleSchema sampleValue = false ∧ oneOfFree sampleSchema = false := by
  refine ⟨_, by decide, by decide, rfl, by decide, by decide, by decide⟩

/-- the conclusion is not trivial: the same schema rejects a value whose tuple item is below the minimum -/
example : validate C0 sampleSchema sampleValue = true ∧
    validate C0 sampleSchema (.obj [("items", .arr [.num ⟨1, 0⟩]), ("z", .bool true)]) = false := by
  constructor <;> decide

/-- and the contract does too: that value does not conform to the built type -/
example : (parse N0 sampleSchema).map (fun T => conforms R0 T (.obj [("items", .arr [.num ⟨1, 0⟩]), ("z", .bool true)])) = some false := by
  decide

/-! ### where the run-time is known to break the contract (`findings.d/C15.json`): values the real code returns
(replayed from `harness/corpus/C15.jsonl` on every run) that do not conform to the type the parser built -/

/-- `conj-converts-kind`: `{"allOf":[{"type":"boolean"},{"type":"number"}]}` returns 1.0 for true -/
theorem C15_contract_conj_witness :
    parse N0 (.obj [("allOf", .arr [.obj [("type", .str "boolean")], .obj [("type", .str "number")]])]) =
      some (.logic .all [.prim .bool, .prim .float]) ∧
    conforms R0 (.logic .all [.prim .bool, .prim .float]) (.num ⟨10, 1⟩) = false ∧
    KnownDefect.kindMix (.logic .all [.prim .bool, .prim .float]) = true := by
  refine ⟨rfl, by decide, by decide⟩

/-- `enum-bool-number`: `{"type":"boolean","enum":[1]}` returns true -/
theorem C15_contract_enum_witness :
    conforms R0 (.rule (.prim .bool) [("enum", .arr [.num ⟨1, 0⟩])]) (.bool true) = false ∧
    KnownDefect.enumBoolNum (.rule (.prim .bool) [("enum", .arr [.num ⟨1, 0⟩])]) = true := by
  refine ⟨by decide, by decide⟩

/-- `max-properties-zero`: `{"type":"object","properties":{"a":{}},"maxProperties":0}` returns {"a": 1} -/
theorem C15_contract_maxprops_witness :
    conforms R0 (.data [.mk "a" "a" .any false []] .free .any none (some ⟨0, 0⟩)) (.obj [("a", .num ⟨1, 0⟩)]) = false ∧
    KnownDefect.maxPropsZero (.data [.mk "a" "a" .any false []] .free .any none (some ⟨0, 0⟩)) = true := by
  refine ⟨by decide, by decide⟩

/-- `empty-property-name`: `{"type":"object","properties":{"":{"type":"integer"}}}` is in the (wide) fragment; the
real class returns `{"": "x"}` (the member is additional: `Field(alias='')` is no alias), which neither conforms
to the class the parser means nor validates -/
theorem C15_contract_emptyname_witness :
    inFragmentW (.obj [("type", .str "object"), ("properties", .obj [("", .obj [("type", .str "integer")])])]) = true ∧
    KnownDefect.emptyName (.obj [("type", .str "object"), ("properties", .obj [("", .obj [("type", .str "integer")])])]) = true ∧
    (parse N0 (.obj [("type", .str "object"), ("properties", .obj [("", .obj [("type", .str "integer")])])])).map
      (fun T => conforms R0 T (.obj [("", .str "x")])) = some false ∧
    validate C0 (.obj [("type", .str "object"), ("properties", .obj [("", .obj [("type", .str "integer")])])])
      (.obj [("", .str "x")]) = false := by
  refine ⟨by decide, by decide, by decide, by decide⟩

/-! ### building succeeds

Full statement (false of `Rule` as it stands, see `C15_degenerate_witness`):

    theorem C15_builds : inFragment s → (parse N s).isSome

What holds, exactly: a schema of the fragment builds iff it is not `KnownDefect.degenerate` — iff no `Rule` the parser
declares for a schema object it reaches is refused by `Rule`'s declaration checks (an inclusive next to an exclusive
bound, lower ≥ upper, an int next to a float bound, two exclusive integer bounds with no two integers between them, a
float bound on a Decimal, an upper size bound of 0 or below the lower one or not written as an integer, more items
required than a closed tuple has, a const that is not an instance of the class built for the type).  Nothing else —
not the member types, not the property names, not the combinators — can make a build raise. -/

/-- the induction hypotheses a member value carries for building -/
def DeepBuilds (N : Names) (v : Json) : Prop :=
  BuildsIff N v ∧ (match v with
    | .arr ss => ∀ s ∈ ss, BuildsIff N s
    | .obj ps => ∀ p ∈ ps, BuildsIff N p.2
    | _ => True)

mutual
theorem builds_json (N : Names) : (s : Json) → BuildsIff N s
  | .obj kvs =>
    obj_builds_iff N kvs
      (fun k v hm => (builds_members N kvs k v hm).1)
      (fun k ss hm => (builds_members N kvs k (.arr ss) hm).2)
      (fun k ps hm => (builds_members N kvs k (.obj ps) hm).2)
  | .bool true => fun _ => by rw [parse, KnownDefect.degenerate]; simp; intro ps h; cases h
  | .bool false => fun _ => by rw [parse, KnownDefect.degenerate]; simp; intro ps h; cases h
  | .null => fun hf => by simp [inFragment] at hf
  | .num _ => fun hf => by simp [inFragment] at hf
  | .str _ => fun hf => by simp [inFragment] at hf
  | .arr _ => fun hf => by simp [inFragment] at hf
termination_by structural s => s
theorem builds_members (N : Names) : (kws : List (String × Json)) → ∀ k v, (k, v) ∈ kws → DeepBuilds N v
  | [], k, v, hm => by simp at hm
  | (k', v') :: rest, k, v, hm =>
    (List.mem_cons.mp hm).elim
      (fun h =>
        have hv : v = v' := (Prod.mk.inj h).2
        hv ▸ ⟨builds_json N v', match v' with
          | .arr ss => builds_list N ss
          | .obj ps => builds_props N ps
          | .null => trivial
          | .bool _ => trivial
          | .num _ => trivial
          | .str _ => trivial⟩)
      (fun h => builds_members N rest k v h)
termination_by structural kws => kws
theorem builds_list (N : Names) : (ss : List Json) → ∀ s ∈ ss, BuildsIff N s
  | [], s, hm => by simp at hm
  | s' :: rest, s, hm =>
    (List.mem_cons.mp hm).elim
      (fun h => h ▸ builds_json N s')
      (fun h => builds_list N rest s h)
termination_by structural ss => ss
theorem builds_props (N : Names) : (ps : List (String × Json)) → ∀ p ∈ ps, BuildsIff N p.2
  | [], p, hm => by simp at hm
  | (n, s') :: rest, p, hm =>
    (List.mem_cons.mp hm).elim
      (fun h => h ▸ builds_json N s')
      (fun h => builds_props N rest p h)
termination_by structural ps => ps
end

/-- building succeeds exactly on the schemas no reachable part of which `Rule` refuses to declare -/
theorem C15_builds_iff (N : Names) (s : Json) (hf : inFragmentW s = true) (hn : KnownDefect.emptyName s = false) :
    (parse N s).isSome = true ↔ KnownDefect.degenerate s = false :=
  builds_json N s (narrow_json s hf hn)

theorem C15_builds_partial (N : Names) (s : Json) (hf : inFragmentW s = true) (hn : KnownDefect.emptyName s = false)
    (hk : KnownDefect.degenerate s = false) : (parse N s).isSome = true :=
  (C15_builds_iff N s hf hn).mpr hk

/-- `{"type": "integer", "minimum": 3, "maximum": 3}` — satisfiable (by 3), in the fragment, and `Rule` refuses it
("lt/le must > gt/ge") -/
theorem C15_degenerate_witness :
    inFragmentW (.obj [("type", .str "integer"), ("minimum", .num ⟨3, 0⟩), ("maximum", .num ⟨3, 0⟩)]) = true ∧
    parse N0 (.obj [("type", .str "integer"), ("minimum", .num ⟨3, 0⟩), ("maximum", .num ⟨3, 0⟩)]) = none ∧
    validate C0 (.obj [("type", .str "integer"), ("minimum", .num ⟨3, 0⟩), ("maximum", .num ⟨3, 0⟩)]) (.num ⟨3, 0⟩) = true ∧
    KnownDefect.degenerate (.obj [("type", .str "integer"), ("minimum", .num ⟨3, 0⟩), ("maximum", .num ⟨3, 0⟩)]) = true := by
  refine ⟨by decide, rfl, by decide, by decide⟩

/-- `degenerate` is no wider than what `Rule` refuses: adjacent integer bounds, bounds on a string, a zero
`maxLength` on an integer, `minProperties` above `maxProperties` on a class all build, and are not degenerate -/
example : KnownDefect.degenerate sampleSchema = false ∧
    KnownDefect.degenerate (.obj [("type", .str "integer"), ("minimum", .num ⟨0, 0⟩), ("maximum", .num ⟨1, 0⟩)]) = false ∧
    KnownDefect.degenerate (.obj [("type", .str "string"), ("minimum", .num ⟨3, 0⟩), ("maximum", .num ⟨3, 0⟩)]) = false ∧
    KnownDefect.degenerate (.obj [("type", .str "integer"), ("maxLength", .num ⟨0, 0⟩)]) = false ∧
    KnownDefect.degenerate (.obj [("type", .str "object"), ("properties", .obj [("a", .obj [])]),
      ("minProperties", .num ⟨2, 0⟩), ("maxProperties", .num ⟨1, 0⟩)]) = false ∧
    KnownDefect.degenerate (.obj [("type", .str "string"), ("items", .obj [("minimum", .num ⟨3, 0⟩), ("maximum", .num ⟨3, 0⟩)])]) = false := by
  refine ⟨by decide, by decide, by decide, by decide, by decide, by decide⟩

/-! ### attribute names -/

def fieldAttrs : Ty → List String
  | .data fields _ _ _ _ => fields.map Fld.attname
  | _ => []

theorem mkFields_attnames (req : List String) (deps : Obj) : (props : List (String × Ty)) → (attnames : List String) →
    attnames.length = props.length → (mkFields props attnames req deps).map Fld.attname = attnames
  | [], [], _ => by simp [mkFields]
  | [], a :: as, hl => by simp at hl
  | (n, t) :: ps, [], hl => by simp at hl
  | (n, t) :: ps, a :: as, hl => by
    simp [mkFields, Fld.attname, mkFields_attnames req deps ps as (by simpa using hl)]

/-- the attributes of a class built for an object schema are distinct, none of them is an attribute of the base
class (`items`, `keys`, … — `dir(Schema)`), and a renamed one is not the name of another property:
for every name environment in which `'_' + str(i)` is injective -/
theorem C15_class_attributes (N : Names) (hinj : ∀ o a b, o ++ N.sfx a = o ++ N.sfx b → a = b) (kvs : Obj)
    (props : List (String × Ty)) (addK : AddK) (addTy : Ty) :
    (fieldAttrs (objectClass N kvs props addK addTy)).Nodup ∧
    ∀ a ∈ fieldAttrs (objectClass N kvs props addK addTy), a ∉ N.reserved := by
  have hlen : (assignAttnames N (props.map (·.1)) (props.map (·.1)) []).length = props.length := by
    rw [assignAttnames_length]; simp
  have := assignAttnames_fresh N hinj (props.map (·.1)) (props.map (·.1)) []
  simp only [objectClass, fieldAttrs, mkFields_attnames _ _ props _ hlen]
  exact ⟨this.2, fun a ha => (this.1 a ha).2⟩

theorem C15_attname_not_other_key (N : Names) (hinj : ∀ o a b, o ++ N.sfx a = o ++ N.sfx b → a = b)
    (taken allKeys : List String) (key other : String) (ho : other ∈ allKeys) (hne : other ≠ key) :
    attnameFor N taken allKeys key ≠ other := by
  intro h
  apply attnameFor_fresh N hinj taken allKeys key
  rw [h]
  simp [ho, hne]

/-- the hypothesis of the two theorems above is met by Python's own suffix (and by `N0`) -/
theorem C15_class_attributes_py (N : Names) (hs : N.sfx = pySfx) (kvs : Obj) (props : List (String × Ty)) (addK : AddK)
    (addTy : Ty) :
    (fieldAttrs (objectClass N kvs props addK addTy)).Nodup ∧
    ∀ a ∈ fieldAttrs (objectClass N kvs props addK addTy), a ∉ N.reserved :=
  C15_class_attributes N (by rw [hs]; exact pySfx_inj) kvs props addK addTy

example : ∀ o a b, o ++ N0.sfx a = o ++ N0.sfx b → a = b := pySfx_inj

/-- the attribute chosen for a property is an attribute name: either the property's own name, which then passes
Python's own test (`str.isidentifier`, no keyword) and does not start with `_`, or a generated one, which is an ASCII
identifier starting with a letter and no keyword — whatever the name was (`"1x"`, `"a-b"`, `"_a"`, `"class"`, `"-"`) -/
theorem C15_attname_is_attribute (N : Names) (hs : N.sfx = pySfx) (taken allKeys : List String) (key : String) :
    (attnameFor N taken allKeys key = key ∧ validAttr N key = true ∧ key.startsWith "_" = false) ∨
    AsciiAttr (attnameFor N taken allKeys key) := by
  unfold attnameFor
  simp only
  by_cases h : (!validAttr N key || key.startsWith "_" ||
      (taken ++ allKeys.filter (· != key) ++ N.reserved).contains key) = true
  · right
    rw [if_pos h, hs]
    exact getAttname_attr key _
  · left
    rw [if_neg h]
    have h' := (Bool.not_eq_true _).mp h
    rw [Bool.or_eq_false_iff, Bool.or_eq_false_iff] at h'
    exact ⟨rfl, by simpa using h'.1.1, h'.1.2⟩

/-- `C15_sound_without_oneOf` is not vacuous: a schema without oneOf, a type, a conforming value -/
example : ∃ T, inFragmentW (.obj [("type", .str "array"), ("items", .obj [("type", .str "integer"), ("minimum", .num ⟨2, 0⟩)]),
      ("anyOf", .arr [.obj [("maxItems", .num ⟨2, 0⟩)], .bool false])]) = true ∧
    oneOfFree (.obj [("type", .str "array"), ("items", .obj [("type", .str "integer"), ("minimum", .num ⟨2, 0⟩)]),
      ("anyOf", .arr [.obj [("maxItems", .num ⟨2, 0⟩)], .bool false])]) = true ∧
    parse N0 (.obj [("type", .str "array"), ("items", .obj [("type", .str "integer"), ("minimum", .num ⟨2, 0⟩)]),
      ("anyOf", .arr [.obj [("maxItems", .num ⟨2, 0⟩)], .bool false])]) = some T ∧
    conforms R0 T (.arr [.num ⟨3, 0⟩]) = true := by
  refine ⟨_, by decide, by decide, rfl, by decide⟩

/-! ### every class inside a built type has proper attributes -/

/-- the attributes of one class: distinct, none an attribute of the base class, each one the member's own name (then an
identifier by Python's test, no keyword, no leading `_`) or a generated ASCII identifier that is no keyword -/
def AttrsOk (N : Names) (fs : List Fld) : Prop :=
  (fs.map Fld.attname).Nodup ∧ (∀ a ∈ fs.map Fld.attname, a ∉ N.reserved) ∧
  ∀ f ∈ fs, (f.attname = f.name ∧ validAttr N f.name = true ∧ f.name.startsWith "_" = false) ∨ AsciiAttr f.attname

mutual
/-- every `Schema` subclass that occurs anywhere inside the type has `AttrsOk` attributes -/
def ClassesOk (N : Names) (t : Ty) : Prop :=
  match t with
  | .any => True
  | .anyRule => True
  | .prim _ => True
  | .rule b _ => ClassesOk N b
  | .arr args => ClassesOkL N args
  | .tup items _ addTy => ClassesOkL N items ∧ ClassesOk N addTy
  | .map v => ClassesOk N v
  | .logic _ ts => ClassesOkL N ts
  | .data fields _ addTy _ _ => AttrsOk N fields ∧ ClassesOkF N fields ∧ ClassesOk N addTy
termination_by structural t
def ClassesOkL (N : Names) (ts : List Ty) : Prop :=
  match ts with
  | [] => True
  | t :: rest => ClassesOk N t ∧ ClassesOkL N rest
termination_by structural ts
def ClassesOkF (N : Names) (fs : List Fld) : Prop :=
  match fs with
  | [] => True
  | .mk _ _ t _ _ :: rest => ClassesOk N t ∧ ClassesOkF N rest
termination_by structural fs
end

theorem classesOkL_iff (N : Names) : (ts : List Ty) → (ClassesOkL N ts ↔ ∀ t ∈ ts, ClassesOk N t)
  | [] => by simp [ClassesOkL]
  | t :: rest => by simp [ClassesOkL, classesOkL_iff N rest]

theorem classesOkF_mkFields (N : Names) (req : List String) (deps : Obj) : (props : List (String × Ty)) →
    (attnames : List String) → (∀ p ∈ props, ClassesOk N p.2) → ClassesOkF N (mkFields props attnames req deps)
  | [], _, _ => by simp [mkFields, ClassesOkF]
  | (n, t) :: ps, [], _ => by simp [mkFields, ClassesOkF]
  | (n, t) :: ps, a :: as, h => by
    simp only [mkFields, ClassesOkF]
    exact ⟨h (n, t) (by simp), classesOkF_mkFields N req deps ps as fun p hp => h p (by simp [hp])⟩

theorem classesOk_never (N : Names) : ClassesOk N Ty.never := by
  simp [Ty.never, ClassesOk, ClassesOkL]

theorem classesOk_combine (N : Names) (op : Op) (hop : op ≠ .neg) (ts : List Ty) (h : ∀ t ∈ ts, ClassesOk N t) :
    ClassesOk N (combine op ts) := by
  unfold combine
  cases hca : combineArgs op ts [] with
  | none => simp [ClassesOk]
  | some acc =>
    have hsub := (combineArgs_some op hop ts [] acc hca).2.1
    have hall : ∀ t ∈ acc, ClassesOk N t := fun t ht => h t (by simpa using hsub t ht)
    match acc, hall with
    | [], _ => simp [ClassesOk]
    | [t], hall =>
      simp only
      split
      · simp [ClassesOk, ClassesOkL, hall t (by simp)]
      · exact hall t (by simp)
    | t :: u :: rest, hall =>
      simp only [ClassesOk]
      exact (classesOkL_iff N _).mpr hall

theorem classesOk_mkRule (N : Names) (t : Ty) (cons : Cons) (r : Ty) (ht : ClassesOk N t) (h : mkRule t cons = some r) :
    ClassesOk N r := by
  rcases mkRule_cases t cons r h with ⟨_, rfl⟩ | ⟨_, rfl⟩ | rfl
  · simp [ClassesOk]
  · exact ht
  · simpa [ClassesOk] using ht

theorem classesOk_bareOrigin (N : Names) (t : Ty) (ht : ClassesOk N t) : ClassesOk N (bareOrigin t) := by
  cases t <;> simp [bareOrigin, ClassesOk] <;> exact ht

theorem classesOk_annotate (N : Names) (t : Ty) (hasArgs : Bool) (cons : Cons) (T : Ty) (ht : ClassesOk N t)
    (h : annotate t hasArgs cons = some T) : ClassesOk N T := by
  unfold annotate at h
  simp only at h
  split at h
  · next rules heq =>
    simp only [Option.some.injEq] at h
    subst h
    apply classesOk_combine N .all (by decide)
    intro r hr
    have hm := (allSome_mem _ rules heq r).mp hr
    rcases List.mem_append.mp hm with h1 | h1
    · split at h1
      · simp only [List.mem_singleton] at h1
        exact classesOk_mkRule N t _ r ht h1.symm
      · simp at h1
    · obtain ⟨c, _, hc⟩ := List.mem_map.mp h1
      exact classesOk_mkRule N _ _ r (classesOk_bareOrigin N t ht) hc
  · simp at h

/-- the invariant of what the recursive calls returned -/
def SubOk (N : Names) : Sub → Prop
  | .one t => ∀ T, t = some T → ClassesOk N T
  | .many ts => ∀ T, some T ∈ ts → ClassesOk N T
  | .props ps => ∀ n T, (n, some T) ∈ ps → ClassesOk N T
  | .skip => True

def SubsOk (N : Names) (subs : Subs) : Prop := ∀ k sub, subs.lookup k = some sub → SubOk N sub

theorem subOne_ok (N : Names) (subs : Subs) (h : SubsOk N subs) (k : String) (T : Ty) (hs : subOne subs k = some T) :
    ClassesOk N T := by
  unfold subOne at hs
  split at hs
  · next t heq => exact h k _ heq T hs
  · simp at hs

theorem subMany_ok (N : Names) (subs : Subs) (h : SubsOk N subs) (k : String) (ts : List Ty)
    (hs : allSome (subMany subs k) = some ts) : ∀ t ∈ ts, ClassesOk N t := by
  intro t ht
  have hm := (allSome_mem _ ts hs t).mp ht
  unfold subMany at hm
  split at hm
  · next l heq => exact h k _ heq t hm
  · simp at hm

theorem subProps_ok (N : Names) (subs : Subs) (h : SubsOk N subs) (n : String) (T : Ty)
    (hm : (n, some T) ∈ subProps subs) : ClassesOk N T := by
  unfold subProps at hm
  split at hm
  · next l heq => exact h "properties" _ heq n T hm
  · simp at hm

theorem tup_ok (N : Names) (subs : Subs) (hs : SubsOk N subs) (k : String) (args : List Ty) (a : AddK) (addTy : Ty)
    (h1 : allSome (subMany subs k) = some args) (h2 : ClassesOk N addTy) : ClassesOk N (.tup args a addTy) := by
  simp only [ClassesOk]
  exact ⟨(classesOkL_iff N args).mpr (subMany_ok N subs hs k args h1), h2⟩

theorem arr1_ok (N : Names) (subs : Subs) (hs : SubsOk N subs) (k : String) (t : Ty)
    (h1 : subOne subs k = some t) : ClassesOk N (.arr [t]) := by
  simp only [ClassesOk, ClassesOkL, and_true]
  exact subOne_ok N subs hs k t h1

theorem classesOk_parseArray (N : Names) (kvs : Obj) (subs : Subs) (cons : Cons) (T : Ty) (hs : SubsOk N subs)
    (h : parseArray kvs subs cons = some T) : ClassesOk N T := by
  unfold parseArray at h
  simp only at h
  repeat' split at h
  all_goals first
    | (simp at h; done)
    | (simp only [Option.some.injEq] at h; subst h; simp [ClassesOk]; done)
    | (refine classesOk_annotate N _ _ _ T ?_ h
       first
         | exact tup_ok N subs hs _ _ _ _ (by assumption) (subOne_ok N subs hs _ _ (by assumption))
         | exact tup_ok N subs hs _ _ _ _ (by assumption) (by simp [ClassesOk])
         | exact arr1_ok N subs hs _ _ (by assumption)
         | (simp [ClassesOk, ClassesOkL]; done))

theorem classesOk_layerEnums (N : Names) : (cons : Cons) → (cls : Ty) → ClassesOk N cls → ClassesOk N (layerEnums cons cls)
  | [], cls, h => by simpa [layerEnums] using h
  | c :: rest, cls, h => by
    unfold layerEnums
    rw [List.foldl_cons]
    apply classesOk_layerEnums N rest
    split
    · simpa [ClassesOk] using h
    · split
      · simpa [ClassesOk] using h
      · exact h

theorem mkFields_attr (N : Names) (hs' : N.sfx = pySfx) (all : List String) (req : List String) (deps : Obj) :
    (props : List (String × Ty)) → (taken : List String) →
    ∀ f ∈ mkFields props (assignAttnames N all (props.map (·.1)) taken) req deps,
      (f.attname = f.name ∧ validAttr N f.name = true ∧ f.name.startsWith "_" = false) ∨ AsciiAttr f.attname
  | [], taken => by simp [mkFields]
  | (n, t) :: ps, taken => by
    simp only [List.map_cons, assignAttnames, mkFields]
    intro f hf
    rcases List.mem_cons.mp hf with h | h
    · subst h
      simpa [Fld.attname, Fld.name] using C15_attname_is_attribute N hs' taken all n
    · exact mkFields_attr N hs' all req deps ps _ f h

theorem classesOk_objectClass (N : Names) (hs' : N.sfx = pySfx) (kvs : Obj)
    (props : List (String × Ty)) (addK : AddK) (addTy : Ty) (hp : ∀ p ∈ props, ClassesOk N p.2)
    (ha : ClassesOk N addTy) : ClassesOk N (objectClass N kvs props addK addTy) := by
  have h := C15_class_attributes_py N hs' kvs props addK addTy
  unfold objectClass at h ⊢
  simp only [ClassesOk]
  simp only [fieldAttrs] at h
  exact ⟨⟨h.1, h.2, mkFields_attr N hs' _ _ _ props []⟩, classesOkF_mkFields N _ _ props _ hp, ha⟩

theorem implicitTy_ok (N : Names) (kvs : Obj) (subs : Subs) (hs : SubsOk N subs) (t : Ty)
    (h : implicitTy kvs subs = some t) : ClassesOk N t := by
  unfold implicitTy at h
  split at h
  · exact subOne_ok N subs hs _ t h
  · simp only [Option.some.injEq] at h; subst h; exact classesOk_never N
  · simp only [Option.some.injEq] at h; subst h; simp [ClassesOk]

theorem additionOf_ok (N : Names) (kvs : Obj) (subs : Subs) (hs : SubsOk N subs) (a : AddK) (t : Ty)
    (h : additionOf kvs subs = some (a, t)) : ClassesOk N t := by
  unfold additionOf at h
  split at h
  · cases hso : subOne subs "additionalProperties" with
    | none => simp [hso] at h
    | some u =>
      simp [hso] at h
      rw [← h.2]
      exact subOne_ok N subs hs _ u hso
  · simp only [Option.some.injEq, Prod.mk.injEq] at h; rw [← h.2]; simp [ClassesOk]
  · simp only [Option.some.injEq, Prod.mk.injEq] at h; rw [← h.2]; simp [ClassesOk]

theorem mapValue_ok (N : Names) (kvs : Obj) (subs : Subs) (hs : SubsOk N subs) (t : Ty)
    (h : mapValue kvs subs = some t) : ClassesOk N t := by
  unfold mapValue at h
  split at h
  · exact subOne_ok N subs hs _ t h
  · simp only [Option.some.injEq] at h; subst h; simp [ClassesOk]

theorem declaredProps_ok (N : Names) (kvs : Obj) (subs : Subs) (hs : SubsOk N subs) (n : String) (t : Ty)
    (h : (n, some t) ∈ declaredProps kvs subs) : ClassesOk N t := by
  unfold declaredProps at h
  split at h
  · split at h
    · exact subProps_ok N subs hs n t h
    · simp at h
  · simp at h

theorem classesOk_parseObject (N : Names) (hs' : N.sfx = pySfx) (kvs : Obj)
    (subs : Subs) (cons : Cons) (T : Ty) (hs : SubsOk N subs)
    (h : parseObject N kvs subs cons = some T) : ClassesOk N T := by
  unfold parseObject at h
  split at h
  · simp only [Option.some.injEq] at h; subst h; simp [ClassesOk]
  · simp only at h
    split at h
    · split at h
      · next v hv => exact classesOk_annotate N _ _ _ T (by simpa [ClassesOk] using mapValue_ok N kvs subs hs v hv) h
      · simp at h
    · split at h
      · simp at h
      · next addK addTy hadd =>
        split at h
        · simp at h
        · next props hprops =>
          simp only [Option.some.injEq] at h
          subst h
          apply classesOk_layerEnums
          apply classesOk_objectClass N hs'
          · intro p hp
            have hm := (allSome_mem _ props hprops p).mp hp
            obtain ⟨q, hq, hqe⟩ := List.mem_map.mp hm
            cases hq2 : q.2 with
            | none => simp [hq2] at hqe
            | some t =>
              simp [hq2] at hqe
              rw [← hqe]
              simp only
              rcases List.mem_append.mp hq with h1 | h1
              · exact declaredProps_ok N kvs subs hs q.1 t (by rw [← hq2]; exact h1)
              · obtain ⟨n, _, hn⟩ := List.mem_map.mp h1
                rw [← hn] at hq2
                exact implicitTy_ok N kvs subs hs t hq2
          · exact additionOf_ok N kvs subs hs addK addTy hadd

theorem classesOk_scalarClass (N : Names) (kvs : Obj) (ty : Option String) : ClassesOk N (scalarClass kvs ty) := by
  unfold scalarClass
  repeat' split
  all_goals simp [ClassesOk]

theorem classesOk_constrain (N : Names) (t0 : Ty) (cons : Cons) (T : Ty) (h0 : ClassesOk N t0)
    (h : constrain t0 cons = some T) : ClassesOk N T := by
  unfold constrain at h
  split at h
  · simp only [Option.some.injEq] at h; subst h; exact h0
  · split at h
    · simp only [Option.some.injEq] at h
      subst h
      split
      · simp [ClassesOk]
      · exact classesOk_never N
    · exact classesOk_annotate N _ _ _ T h0 h

theorem classesOk_baseType (N : Names) (hs' : N.sfx = pySfx) (kvs : Obj)
    (subs : Subs) (ty : Option String) (T : Ty) (hs : SubsOk N subs)
    (h : baseType N kvs subs ty = some T) : ClassesOk N T := by
  unfold baseType at h
  simp only at h
  split at h
  · exact classesOk_parseArray N kvs subs _ T hs h
  · split at h
    · exact classesOk_parseObject N hs' kvs subs _ T hs h
    · exact classesOk_constrain N _ _ T (classesOk_scalarClass N kvs _) h

theorem classesOk_condGroup (N : Names) (kvs : Obj) (subs : Subs) (k : String) (op : Op) (hop : op ≠ .neg)
    (cs : List Ty) (hs : SubsOk N subs) (h : condGroup kvs subs k op = some cs) : ∀ c ∈ cs, ClassesOk N c := by
  unfold condGroup at h
  split at h
  · split at h
    · cases ha : allSome (subMany subs k) with
      | none => simp [ha] at h
      | some ts =>
        simp [ha] at h
        subst h
        intro c hc
        simp only [List.mem_singleton] at hc
        subst hc
        exact classesOk_combine N op hop ts (subMany_ok N subs hs k ts ha)
    · simp only [Option.some.injEq] at h; subst h; simp
  · simp only [Option.some.injEq] at h; subst h; simp

theorem classesOk_conditions (N : Names) (kvs : Obj) (subs : Subs) (cs : List Ty) (hs : SubsOk N subs)
    (h : conditions kvs subs = some cs) : ∀ c ∈ cs, ClassesOk N c := by
  unfold conditions at h
  split at h
  · next a b c ha hb hc =>
    simp only [Option.some.injEq] at h
    subst h
    intro x hx
    rcases List.mem_append.mp hx with h1 | h1
    · rcases List.mem_append.mp h1 with h2 | h2
      · exact classesOk_condGroup N kvs subs _ _ (by decide) a hs ha x h2
      · exact classesOk_condGroup N kvs subs _ _ (by decide) b hs hb x h2
    · exact classesOk_condGroup N kvs subs _ _ (by decide) c hs hc x h1
  · simp at h

theorem classesOk_assembleWith (N : Names) (hs' : N.sfx = pySfx) (kvs : Obj)
    (subs : Subs) (ty : Option String) (T : Ty) (hs : SubsOk N subs)
    (h : assembleWith N kvs subs ty = some T) : ClassesOk N T := by
  unfold assembleWith at h
  split at h
  · simp at h
  · next t ht =>
    have h0 := classesOk_baseType N hs' kvs subs ty t hs ht
    split at h
    · simp at h
    · simp only [Option.some.injEq] at h; subst h; exact h0
    · next cs _ hcs =>
      simp only [Option.some.injEq] at h
      subst h
      apply classesOk_combine N .all (by decide)
      intro x hx
      rcases List.mem_cons.mp hx with h1 | h1
      · subst h1; exact h0
      · exact classesOk_conditions N kvs subs cs hs hcs x h1

theorem classesOk_assemble (N : Names) (hs' : N.sfx = pySfx) (kvs : Obj)
    (subs : Subs) (T : Ty) (hs : SubsOk N subs) (h : assemble N kvs subs = some T) : ClassesOk N T := by
  unfold assemble at h
  split at h
  · simp only [Option.some.injEq] at h; subst h; exact classesOk_never N
  · split at h
    · next ts _ =>
      cases ha : allSome ((ts.filterMap strOf).map fun t => assembleWith N kvs subs (some t)) with
      | none => simp [ha] at h
      | some rs =>
        simp [ha] at h
        subst h
        apply classesOk_combine N .any (by decide)
        intro r hr
        have hm := (allSome_mem _ rs ha r).mp hr
        obtain ⟨t, _, ht⟩ := List.mem_map.mp hm
        exact classesOk_assembleWith N hs' kvs subs _ r hs ht
    · exact classesOk_assembleWith N hs' kvs subs _ T hs h
    · exact classesOk_assembleWith N hs' kvs subs _ T hs h

/-- the induction hypothesis for one sub-schema -/
def SubClasses (N : Names) (s : Json) : Prop := ∀ T, parse N s = some T → ClassesOk N T

def DeepClasses (N : Names) (v : Json) : Prop :=
  SubClasses N v ∧ (match v with
    | .arr ss => ∀ s ∈ ss, SubClasses N s
    | .obj ps => ∀ p ∈ ps, SubClasses N p.2
    | _ => True)

theorem subsOk_parseKws (N : Names) (kvs : Obj) (ih : ∀ k v, (k, v) ∈ kvs → DeepClasses N v) :
    SubsOk N (parseKws N kvs) := by
  intro k sub hl
  rw [parseKws_lookup] at hl
  cases hv : lookup k kvs with
  | none => simp [hv] at hl
  | some v =>
    simp only [hv, Option.map_some, Option.some.injEq] at hl
    subst hl
    have hd := ih k v (mem_of_lookup kvs k v hv)
    unfold subOf
    split
    · intro T hT; exact hd.1 T hT
    · split
      · split
        · next ss =>
          intro T hT
          rw [parseList_eq] at hT
          obtain ⟨s, hs, hse⟩ := List.mem_map.mp hT
          exact hd.2 s hs T hse
        · trivial
      · split
        · split
          · next ps =>
            intro n T hT
            rw [parseProps_eq] at hT
            obtain ⟨p, hp, hpe⟩ := List.mem_map.mp hT
            simp only [Prod.mk.injEq] at hpe
            exact hd.2 p hp T hpe.2
          · trivial
        · trivial

mutual
theorem classes_json (N : Names) (hs' : N.sfx = pySfx) : (s : Json) → SubClasses N s
  | .obj kvs => fun T hp =>
    classesOk_assemble N hs' kvs (parseKws N kvs) T
      (subsOk_parseKws N kvs fun k v hm => classes_members N hs' kvs k v hm) (by rw [← parse_obj]; exact hp)
  | .null => fun T hp => by simp [parse] at hp
  | .bool true => fun T hp => by rw [parse] at hp; cases hp; simp [ClassesOk]
  | .bool false => fun T hp => by rw [parse] at hp; cases hp; exact classesOk_never N
  | .num _ => fun T hp => by simp [parse] at hp
  | .str _ => fun T hp => by simp [parse] at hp
  | .arr _ => fun T hp => by simp [parse] at hp
termination_by structural s => s
theorem classes_members (N : Names) (hs' : N.sfx = pySfx) :
    (kws : List (String × Json)) → ∀ k v, (k, v) ∈ kws → DeepClasses N v
  | [], k, v, hm => by simp at hm
  | (k', v') :: rest, k, v, hm =>
    (List.mem_cons.mp hm).elim
      (fun h =>
        have hv : v = v' := (Prod.mk.inj h).2
        hv ▸ ⟨classes_json N hs' v', match v' with
          | .arr ss => classes_list N hs' ss
          | .obj ps => classes_props N hs' ps
          | .null => trivial
          | .bool _ => trivial
          | .num _ => trivial
          | .str _ => trivial⟩)
      (fun h => classes_members N hs' rest k v h)
termination_by structural kws => kws
theorem classes_list (N : Names) (hs' : N.sfx = pySfx) :
    (ss : List Json) → ∀ s ∈ ss, SubClasses N s
  | [], s, hm => by simp at hm
  | s' :: rest, s, hm =>
    (List.mem_cons.mp hm).elim
      (fun h => h ▸ classes_json N hs' s')
      (fun h => classes_list N hs' rest s h)
termination_by structural ss => ss
theorem classes_props (N : Names) (hs' : N.sfx = pySfx) :
    (ps : List (String × Json)) → ∀ p ∈ ps, SubClasses N p.2
  | [], p, hm => by simp at hm
  | (n, s') :: rest, p, hm =>
    (List.mem_cons.mp hm).elim
      (fun h => h ▸ classes_json N hs' s')
      (fun h => classes_props N hs' rest p h)
termination_by structural ps => ps
end

/-- every class anywhere inside a type the parser builds — for any document whatsoever, no fragment needed — has
pairwise distinct attributes, none of which is an attribute of the base class (with Python's `'_' + str(i)`) -/
theorem C15_parsed_classes (N : Names) (hs : N.sfx = pySfx) (s : Json) (T : Ty) (hp : parse N s = some T) :
    ClassesOk N T :=
  classes_json N hs s T hp

/-- not vacuous: the sample schema builds a type with two nested classes -/
example : ∃ T, parse N0 sampleSchema = some T ∧ ClassesOk N0 T := by
  cases h : parse N0 sampleSchema with
  | none => exact absurd h (by decide)
  | some T => exact ⟨T, rfl, C15_parsed_classes N0 rfl sampleSchema T h⟩

end Utv.C15
