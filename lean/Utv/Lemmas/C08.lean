import Utv.Model.C08Spec
/-!
Helper definitions and lemmas for Props/C08: well-formedness of a declaration, the known-defect predicates,
association-list facts, `get_field` versus the specification's accepted spellings, and the characterisation of
what `parse_data` hands to the raw call under either search strategy.
-/
namespace Utv.C08
set_option linter.unusedSectionVars false
variable {N V T : Type} [DecidableEq N] [DecidableEq V]

/-! ### vocabulary of the theorems -/

/-- `str.lower` is idempotent -/
def LowerIdem (W : World N V T) : Prop := ∀ n, W.lower (W.lower n) = W.lower n

/-- positional-only parameters come first (Python's syntax) -/
def poFirst : List (Param N V T) → Bool
  | [] => true
  | p :: ps => (p.posOnly || ps.all (fun q => !q.posOnly)) && poFirst ps

/-- A declaration Python's syntax and utype's own ConfigErrors let through (base.py:277-332, field.py:685-699):
distinct parameter names; `/` before the rest; no spelling accepted by two fields; a case-sensitive field does not
collide, up to case, with a case-insensitive one; private parameters carry no `Param(...)` settings. -/
structure WF (W : World N V T) (s : Sig N V T) : Prop where
  names_nodup : ((s.pos ++ s.kos).map (·.name)).Nodup
  po_first : poFirst s.pos = true
  kos_not_po : ∀ p ∈ s.kos, p.posOnly = false
  fields_unique : ∀ f ∈ s.fields W, ∀ g ∈ s.fields W, ∀ a ∈ f.allNames W, a ∈ g.allNames W → f = g
  ci_sep : ∀ f ∈ s.fields W, f.ci = false → ∀ a ∈ f.allNames W, W.lower a ∉ ciNames W (s.fields W)
  priv_plain : ∀ p ∈ s.pos ++ s.kos, W.priv p.name = true → p.alias = none ∧ p.aliasFrom = [] ∧ p.ci = false

namespace KnownDefect

/-- finding `private-kw-dropped`: a keyword of the call is the name of a private (underscore) declared parameter -/
def privateKw (W : World N V T) (s : Sig N V T) (kw : List (N × V)) : Bool :=
  kw.any (fun e => (s.excludeVars W).contains e.1)

/-- finding `private-unparsed`: a private parameter carries an annotation -/
def privateAnnotated (W : World N V T) (s : Sig N V T) : Bool :=
  (s.pos ++ s.kos).any (fun p => W.priv p.name && p.ann.isSome)

end KnownDefect

/-! ### association lists -/

theorem lookup_map_set (d : List (N × V)) (k x : N) (v : V) :
    (d.map (fun e => if e.1 = k then (k, v) else e)).lookup x
      = if x = k then (d.lookup k).map (fun _ => v) else d.lookup x := by
  induction d with
  | nil => simp
  | cons e d ih =>
    obtain ⟨a, b⟩ := e
    simp only [List.map_cons, List.lookup_cons]
    by_cases hak : a = k
    · subst hak
      by_cases hx : x = a
      · subst hx; simp
      · have h1 : (x == a) = false := by simpa using hx
        rw [List.lookup_cons, h1, ih]
        simp [hx, h1]
    · have hka : (k == a) = false := by simpa using fun h' => hak h'.symm
      simp only [hak, if_false, List.lookup_cons, hka]
      by_cases hx : x = a
      · subst hx
        have : ¬ x = k := hak
        simp [this]
      · have h1 : (x == a) = false := by simpa using hx
        simp only [h1, ih]

theorem lookup_dictSet (d : List (N × V)) (k x : N) (v : V) :
    (dictSet d k v).lookup x = if x = k then some v else d.lookup x := by
  unfold dictSet
  split
  · rename_i h
    rw [lookup_map_set]
    by_cases hx : x = k
    · cases hh : d.lookup k with
      | none => simp [hh] at h
      | some _ => simp [hx]
    · simp [hx]
  · rename_i h
    rw [List.lookup_append]
    by_cases hx : x = k
    · subst hx
      have : d.lookup x = none := by
        cases hh : d.lookup x with
        | none => rfl
        | some _ => simp [hh] at h
      simp [this, List.lookup]
    · have : (x == k) = false := by simpa using hx
      simp [hx, List.lookup, this]

theorem dictSet_fresh (d : List (N × V)) (k : N) (v : V) (h : d.lookup k = none) :
    dictSet d k v = d ++ [(k, v)] := by
  unfold dictSet; simp [h]

theorem dictUpdate_append (d u₁ u₂ : List (N × V)) :
    dictUpdate d (u₁ ++ u₂) = dictUpdate (dictUpdate d u₁) u₂ := by
  induction u₁ generalizing d with
  | nil => rfl
  | cons e u ih => obtain ⟨k, v⟩ := e; simp [dictUpdate, ih]

/-- later writes win; with distinct keys in `u` that is just `u.lookup` first -/
theorem lookup_dictUpdate (d u : List (N × V)) (x : N) (hu : (u.map (·.1)).Nodup) :
    (dictUpdate d u).lookup x = (u.lookup x).or (d.lookup x) := by
  induction u generalizing d with
  | nil => simp [dictUpdate]
  | cons e u ih =>
    obtain ⟨k, v⟩ := e
    simp only [List.map_cons, List.nodup_cons] at hu
    simp only [dictUpdate, ih _ hu.2, lookup_dictSet, List.lookup_cons]
    by_cases hx : x = k
    · subst hx
      have : u.lookup x = none := by
        rw [List.lookup_eq_none_iff]
        intro p hp
        have : p.1 ≠ x := fun h => hu.1 (h ▸ List.mem_map_of_mem hp)
        simpa using fun h => this h.symm
      simp [this]
    · have : (x == k) = false := by simpa using hx
      simp [hx, this]

theorem dictUpdate_fresh (d u : List (N × V)) (hu : (u.map (·.1)).Nodup)
    (hd : ∀ e ∈ u, d.lookup e.1 = none) : dictUpdate d u = d ++ u := by
  induction u generalizing d with
  | nil => simp [dictUpdate]
  | cons e u ih =>
    obtain ⟨k, v⟩ := e
    simp only [List.map_cons, List.nodup_cons] at hu
    have hk : d.lookup k = none := hd (k, v) (by simp)
    simp only [dictUpdate, dictSet_fresh d k v hk]
    rw [ih _ hu.2]
    · simp
    · intro e he
      rw [List.lookup_append, hd e (by simp [he])]
      have : e.1 ≠ k := fun h => hu.1 (h ▸ List.mem_map_of_mem he)
      have : (e.1 == k) = false := by simpa using this
      simp [List.lookup, this]

theorem lookup_filter_key (l : List (N × V)) (p : N → Bool) (x : N) (hx : p x = true) :
    (l.filter (fun e => p e.1)).lookup x = l.lookup x := by
  induction l with
  | nil => rfl
  | cons e l ih =>
    obtain ⟨k, v⟩ := e
    by_cases hk : p k = true
    · simp only [List.filter_cons, hk, if_true, List.lookup_cons, ih]
    · have : (x == k) = false := by
        simp only [beq_eq_false_iff_ne, ne_eq]
        intro h; subst h; exact hk hx
      simp only [List.filter_cons, hk, List.lookup_cons, this]
      simpa using ih

theorem lookup_filter_key_none (l : List (N × V)) (p : N → Bool) (x : N) (hx : p x = false) :
    (l.filter (fun e => p e.1)).lookup x = none := by
  rw [List.lookup_eq_none_iff]
  intro e he
  have := (List.mem_filter.mp he).2
  simp only [bne_iff_ne, ne_eq]
  intro h; subst h; simp [hx] at this

/-! ### `get_field` (resolve) against the accepted spellings of the specification -/

def specNames (p : Param N V T) : List N := p.name :: (p.alias.toList ++ p.aliasFrom)

theorem mem_allNames (W : World N V T) (p : Param N V T) (a : N) :
    a ∈ p.allNames W ↔ if p.ci = true then a ∈ (specNames p).map W.lower else a ∈ specNames p := by
  unfold Param.allNames specNames
  cases p.alias <;> by_cases hci : p.ci = true <;> simp [hci] <;> exact or_left_comm

/-- key `k` is a spelling `get_field` maps to field `f` -/
def Matches (W : World N V T) (f : Param N V T) (k : N) : Prop :=
  k ∈ f.allNames W ∨ (f.ci = true ∧ W.lower k ∈ f.allNames W)

theorem accepted_iff (W : World N V T) (hW : LowerIdem W) (p : Param N V T) (k : N) :
    Spec.accepted W p k = true ↔ Matches W p k := by
  unfold Spec.accepted Matches
  simp only [mem_allNames]
  by_cases hci : p.ci = true
  · simp only [hci, if_true, Bool.true_and, Bool.or_eq_true, List.contains_iff_mem, true_and]
    show (k ∈ specNames p ∨ W.lower k ∈ (specNames p).map W.lower) ↔ _
    constructor
    · rintro (h | h)
      · exact Or.inr (List.mem_map_of_mem h)
      · exact Or.inr h
    · rintro (h | h)
      · obtain ⟨m, hm, rfl⟩ := List.mem_map.mp h
        exact Or.inr (by rw [hW]; exact List.mem_map_of_mem hm)
      · exact Or.inr h
  · simp only [hci, Bool.false_and, Bool.or_false, List.contains_iff_mem]
    show k ∈ specNames p ↔ _
    simp

theorem allNames_sub_ciNames (W : World N V T) (fs : List (Param N V T)) (f : Param N V T) (hf : f ∈ fs)
    (hci : f.ci = true) (a : N) (ha : a ∈ f.allNames W) : a ∈ ciNames W fs := by
  unfold ciNames
  exact List.mem_flatMap.mpr ⟨f, List.mem_filter.mpr ⟨hf, by simpa using hci⟩, ha⟩

theorem lower_fixed_of_ci (W : World N V T) (hW : LowerIdem W) (f : Param N V T) (hci : f.ci = true) (a : N)
    (ha : a ∈ f.allNames W) : W.lower a = a := by
  rw [mem_allNames] at ha
  simp only [hci, if_true] at ha
  obtain ⟨m, _, rfl⟩ := List.mem_map.mp ha
  exact hW m

section resolve
variable (W : World N V T) (hW : LowerIdem W) (s : Sig N V T) (wf : WF W s)
include hW wf

theorem matches_unique (f g : Param N V T) (hf : f ∈ s.fields W) (hg : g ∈ s.fields W) (k : N)
    (h1 : Matches W f k) (h2 : Matches W g k) : f = g := by
  rcases h1 with h1 | ⟨c1, h1⟩ <;> rcases h2 with h2 | ⟨c2, h2⟩
  · exact wf.fields_unique f hf g hg k h1 h2
  · -- k ∈ f, lower k ∈ g (g ci)
    by_cases cf : f.ci = true
    · have := lower_fixed_of_ci W hW f cf k h1
      rw [this] at h2
      exact wf.fields_unique f hf g hg k h1 h2
    · exfalso
      exact wf.ci_sep f hf (by simpa using cf) k h1 (allNames_sub_ciNames W _ g hg c2 _ h2)
  · by_cases cg : g.ci = true
    · have := lower_fixed_of_ci W hW g cg k h2
      rw [this] at h1
      exact wf.fields_unique f hf g hg k h1 h2
    · exfalso
      exact wf.ci_sep g hg (by simpa using cg) k h2 (allNames_sub_ciNames W _ f hf c1 _ h1)
  · exact wf.fields_unique f hf g hg _ h1 h2

theorem matches_of_resolve (k : N) (f : Param N V T) (h : resolve W (s.fields W) k = some f) :
    f ∈ s.fields W ∧ Matches W f k := by
  unfold resolve at h
  split at h
  · rename_i g hg
    cases h
    exact ⟨List.mem_of_find?_eq_some hg, Or.inl (by simpa using List.find?_some hg)⟩
  · split at h
    · rename_i hc
      have hf := List.mem_of_find?_eq_some h
      have hm : W.lower k ∈ f.allNames W := by simpa using List.find?_some h
      refine ⟨hf, Or.inr ⟨?_, hm⟩⟩
      by_cases cf : f.ci = true
      · exact cf
      · exfalso
        have := wf.ci_sep f hf (by simpa using cf) _ hm
        rw [hW] at this
        exact this (by simpa using hc)
    · cases h

theorem resolve_of_matches (k : N) (f : Param N V T) (hf : f ∈ s.fields W) (hm : Matches W f k) :
    resolve W (s.fields W) k = some f := by
  cases hr : resolve W (s.fields W) k with
  | some g =>
    obtain ⟨hg, hmg⟩ := matches_of_resolve W hW s wf k g hr
    rw [matches_unique W hW s wf g f hg hf k hmg hm]
  | none =>
    exfalso
    unfold resolve at hr
    split at hr
    · cases hr
    · rename_i hnone
      rcases hm with h1 | ⟨c, h1⟩
      · exact (List.find?_eq_none.mp hnone) f hf (by simpa using h1)
      · have hc : (ciNames W (s.fields W)).contains (W.lower k) = true := by
          simpa using allNames_sub_ciNames W _ f hf c _ h1
        simp only [hc, if_true] at hr
        exact (List.find?_eq_none.mp hr) f hf (by simpa using h1)

theorem resolve_none_iff (k : N) :
    resolve W (s.fields W) k = none ↔ ∀ f ∈ s.fields W, ¬ Matches W f k := by
  constructor
  · intro h f hf hm
    rw [resolve_of_matches W hW s wf k f hf hm] at h
    cases h
  · intro h
    cases hr : resolve W (s.fields W) k with
    | none => rfl
    | some g =>
      obtain ⟨hg, hmg⟩ := matches_of_resolve W hW s wf k g hr
      exact absurd hmg (h g hg)

end resolve

/-! ### classification of a keyword of the call -/

theorem mem_fields (W : World N V T) (s : Sig N V T) (p : Param N V T) :
    p ∈ s.fields W ↔ p ∈ s.pos ++ s.kos ∧ W.priv p.name = false := by
  unfold Sig.fields; simp [or_and_right]

theorem mem_kwParams (s : Sig N V T) (p : Param N V T) :
    p ∈ Spec.kwParams s ↔ (p ∈ s.pos ∧ p.posOnly = false) ∨ p ∈ s.kos := by
  unfold Spec.kwParams; simp

theorem kwTarget_iff (s : Sig N V T) (k : N) :
    s.kwTarget k = true ↔ ∃ p ∈ Spec.kwParams s, p.name = k := by
  unfold Sig.kwTarget
  simp only [Bool.or_eq_true, List.any_eq_true, Bool.and_eq_true, Bool.not_eq_true', beq_iff_eq, mem_kwParams]
  constructor
  · rintro (⟨p, hp, h1, h2⟩ | ⟨p, hp, h2⟩)
    · exact ⟨p, Or.inl ⟨hp, h1⟩, h2⟩
    · exact ⟨p, Or.inr hp, h2⟩
  · rintro ⟨p, (⟨hp, h1⟩ | hp), h2⟩
    · exact Or.inl ⟨p, hp, h1, h2⟩
    · exact Or.inr ⟨p, hp, h2⟩

theorem eq_of_name_eq {l : List (Param N V T)} (h : (l.map (·.name)).Nodup) {p q : Param N V T}
    (hp : p ∈ l) (hq : q ∈ l) (hn : p.name = q.name) : p = q := by
  induction l with
  | nil => cases hp
  | cons a l ih =>
    simp only [List.map_cons, List.nodup_cons] at h
    rcases List.mem_cons.mp hp with rfl | hp' <;> rcases List.mem_cons.mp hq with rfl | hq'
    · rfl
    · exact absurd (hn ▸ List.mem_map_of_mem hq') h.1
    · exact absurd (hn ▸ List.mem_map_of_mem hp') h.1
    · exact ih h.2 hp' hq'

theorem mem_excludeVars_of_priv (W : World N V T) (s : Sig N V T) (p : Param N V T) (hp : p ∈ s.pos ++ s.kos)
    (h : W.priv p.name = true) : p.name ∈ s.excludeVars W := by
  unfold Sig.excludeVars
  simp only [List.mem_filter, List.mem_append, List.mem_map]
  exact ⟨Or.inl (Or.inl ⟨p, by simpa using hp, rfl⟩), h⟩

section classify
variable (W : World N V T) (hW : LowerIdem W) (s : Sig N V T) (wf : WF W s)
include hW wf

theorem kwParams_sub (p : Param N V T) (hp : p ∈ Spec.kwParams s) : p ∈ s.pos ++ s.kos ∧ p.posOnly = false := by
  rcases (mem_kwParams s p).mp hp with ⟨h1, h2⟩ | h
  · exact ⟨List.mem_append_left _ h1, h2⟩
  · exact ⟨List.mem_append_right _ h, wf.kos_not_po p h⟩

/-- a kw-parameter that accepts a non-private key is a field matching it -/
theorem field_of_accepted (k : N) (hk : k ∉ s.excludeVars W) (p : Param N V T) (hp : p ∈ Spec.kwParams s)
    (ha : Spec.accepted W p k = true) : p ∈ s.fields W ∧ Matches W p k := by
  obtain ⟨hmem, _⟩ := kwParams_sub W hW s wf p hp
  by_cases hpriv : W.priv p.name = true
  · exfalso
    obtain ⟨h1, h2, h3⟩ := wf.priv_plain p hmem hpriv
    unfold Spec.accepted at ha
    simp [h1, h2, h3] at ha
    exact hk (ha ▸ mem_excludeVars_of_priv W s p hmem hpriv)
  · exact ⟨(mem_fields W s p).mpr ⟨hmem, by simpa using hpriv⟩, (accepted_iff W hW p k).mp ha⟩

/-- the key names (under some accepted spelling) the keyword-capable field `f` -/
theorem key_field (k : N) (hk : k ∉ s.excludeVars W) (f : Param N V T)
    (hr : resolve W (s.fields W) k = some f) (hpo : f.posOnly = false) :
    Spec.normKey W s k = f.name ∧ f ∈ Spec.kwParams s ∧ W.priv f.name = false ∧ s.kwTarget f.name = true
      ∧ Spec.annOfKey s f.name = f.ann := by
  obtain ⟨hf, hm⟩ := matches_of_resolve W hW s wf k f hr
  obtain ⟨hmem, hnp⟩ := (mem_fields W s f).mp hf
  have hkw : f ∈ Spec.kwParams s := by
    rw [mem_kwParams]
    rcases List.mem_append.mp hmem with h | h
    · exact Or.inl ⟨h, hpo⟩
    · exact Or.inr h
  refine ⟨?_, hkw, hnp, (kwTarget_iff s _).mpr ⟨f, hkw, rfl⟩, ?_⟩
  · unfold Spec.normKey
    cases hfind : (Spec.kwParams s).find? (fun p => Spec.accepted W p k) with
    | none =>
      exfalso
      have := (List.find?_eq_none.mp hfind) f hkw
      exact this ((accepted_iff W hW f k).mpr hm)
    | some p =>
      have hp := List.mem_of_find?_eq_some hfind
      have ha := List.find?_some hfind
      obtain ⟨hpf, hpm⟩ := field_of_accepted W hW s wf k hk p hp ha
      rw [matches_unique W hW s wf p f hpf hf k hpm hm]
  · unfold Spec.annOfKey
    cases hfind : (Spec.kwParams s).find? (fun p => p.name == f.name) with
    | none =>
      exfalso
      exact (List.find?_eq_none.mp hfind) f hkw (by simp)
    | some q =>
      have hq := List.mem_of_find?_eq_some hfind
      have hn : q.name = f.name := by simpa using List.find?_some hfind
      rw [eq_of_name_eq wf.names_nodup (kwParams_sub W hW s wf q hq).1 hmem hn]

/-- the key is an ordinary extra key: no keyword-capable parameter takes it -/
theorem key_extra (k : N) (hk : k ∉ s.excludeVars W)
    (hr : resolve W (s.fields W) k = none ∨ ∃ f, resolve W (s.fields W) k = some f ∧ f.posOnly = true) :
    Spec.normKey W s k = k ∧ s.kwTarget k = false
      ∧ Spec.annOfKey s k = (match s.vk with | some (_, t) => t | none => none) := by
  have hnone : (Spec.kwParams s).find? (fun p => Spec.accepted W p k) = none := by
    cases hfind : (Spec.kwParams s).find? (fun p => Spec.accepted W p k) with
    | none => rfl
    | some p =>
      exfalso
      have hp := List.mem_of_find?_eq_some hfind
      have hacc := List.find?_some hfind
      obtain ⟨hpf, hpm⟩ := field_of_accepted W hW s wf k hk p hp hacc
      have := resolve_of_matches W hW s wf k p hpf hpm
      rcases hr with h | ⟨f, h, hpo⟩
      · rw [h] at this; cases this
      · rw [h] at this
        have hfp : f = p := by injection this
        rw [hfp, (kwParams_sub W hW s wf p hp).2] at hpo
        cases hpo
  have hnt : s.kwTarget k = false := by
    cases ht : s.kwTarget k with
    | false => rfl
    | true =>
      exfalso
      obtain ⟨p, hp, hn⟩ := (kwTarget_iff s k).mp ht
      refine (List.find?_eq_none.mp hnone) p hp ?_
      unfold Spec.accepted
      simp [hn]
  refine ⟨by unfold Spec.normKey; rw [hnone], hnt, ?_⟩
  unfold Spec.annOfKey
  cases hfind : (Spec.kwParams s).find? (fun p => p.name == k) with
  | none => rfl
  | some q =>
    exfalso
    have hq := List.mem_of_find?_eq_some hfind
    have hn : q.name = k := by simpa using List.find?_some hfind
    rw [(kwTarget_iff s k).mpr ⟨q, hq, hn⟩] at hnt
    cases hnt

end classify

/-! ### what the keyword half produces -/

theorem convBy_eq (W : World N V T) (t : Option T) (v : V) :
    convBy W t v = match Spec.convO W t v with | some x => .ok x | none => .error .perr := by
  unfold convBy Spec.convO
  cases t with
  | none => rfl
  | some t => cases W.conv t v <;> rfl

theorem effAddition_vk (s : Sig N V T) (o : Opts) (n : N) (t : Option T) (h : s.vk = some (n, t)) :
    effAddition s o = .allow t := by
  unfold effAddition; rw [h]

theorem parseAddition_eq (W : World N V T) (s : Sig N V T) (o : Opts) (k : N) (v : V) (hk : k ∉ s.excludeVars W) :
    parseAddition W s o k v =
      match s.vk with
      | none => (match effAddition s o with
        | .drop => .ok none
        | .deny => .error .perr
        | .allow t => (convBy W t v).map some)
      | some (_, t) => match Spec.convO W t v with
        | some x => .ok (some x)
        | none => .error .perr := by
  unfold parseAddition
  have : (s.excludeVars W).contains k = false := by simpa using hk
  simp only [this]
  cases hvk : s.vk with
  | none => rfl
  | some nt =>
    obtain ⟨n, t⟩ := nt
    simp only [effAddition_vk s o n t hvk, convBy_eq]
    cases Spec.convO W t v <;> rfl

theorem err_eq (e : Err) : e = .perr := by cases e; rfl

def isTarget (s : Sig N V T) (e : N × V) : Bool := s.kwTarget e.1

/-- what the raw call must observe of the keyword dict `kw'` handed over by `parse_data`, relative to the converted
normalised keywords `ckw`: every keyword-capable parameter is absent when private or already passed positionally
(`excl`), otherwise carries the converted given value or the declared default; the other keys are the converted
extra keys, in call order -/
def Obs (W : World N V T) (s : Sig N V T) (excl : List N) (ckw kw' : List (N × V)) : Prop :=
  (∀ p ∈ Spec.kwParams s, kw'.lookup p.name =
      if W.priv p.name || excl.contains p.name then none else (ckw.lookup p.name).or p.dflt) ∧
  kw'.filter (fun e => !isTarget s e) = ckw.filter (fun e => !isTarget s e)

theorem convKw_keys (W : World N V T) (s : Sig N V T) (l c : List (N × V)) (h : Spec.convKw W s l = some c) :
    c.map (·.1) = l.map (·.1) := by
  induction l generalizing c with
  | nil => simp [Spec.convKw] at h; subst h; rfl
  | cons e l ih =>
    obtain ⟨k, v⟩ := e
    simp only [Spec.convKw] at h
    split at h
    · rename_i v' r h1 h2
      cases h
      simp [ih r h2]
    · cases h

theorem lookup_isSome_iff (l : List (N × V)) (x : N) : (l.lookup x).isSome = true ↔ x ∈ l.map (·.1) := by
  induction l with
  | nil => simp
  | cons e l ih =>
    obtain ⟨k, v⟩ := e
    simp only [List.lookup_cons, List.map_cons, List.mem_cons]
    by_cases hx : x = k
    · subst hx; simp
    · have : (x == k) = false := by simpa using hx
      simp [this, hx, ih]

theorem lookup_isSome_iff' {β : Type} (l : List (N × β)) (x : N) :
    (l.lookup x).isSome = true ↔ x ∈ l.map (·.1) := by
  induction l with
  | nil => simp
  | cons e l ih =>
    obtain ⟨k, v⟩ := e
    simp only [List.lookup_cons, List.map_cons, List.mem_cons]
    by_cases hx : x = k
    · subst hx; simp
    · have : (x == k) = false := by simpa using hx
      simp [this, hx, ih]

theorem lookup_eq_none_iff_not_mem (l : List (N × V)) (x : N) : l.lookup x = none ↔ x ∉ l.map (·.1) := by
  rw [← lookup_isSome_iff]
  cases l.lookup x <;> simp

theorem dictSet_fresh' {β : Type} (d : List (N × β)) (k : N) (v : β) (h : d.lookup k = none) :
    dictSet d k v = d ++ [(k, v)] := by
  unfold dictSet; simp [h]

theorem lookup_append_single_ne {β : Type} (d : List (N × β)) (k x : N) (v : β) (h : x ≠ k) :
    (d ++ [(k, v)]).lookup x = d.lookup x := by
  have hb : (x == k) = false := by simpa using h
  rw [List.lookup_append]
  simp [List.lookup_cons, hb]

/-- the entry phase 1 of `data_first_parse` records for one keyword -/
def entryOf (W : World N V T) (s : Sig N V T) (e : N × V) : N × Inp N V T :=
  match resolve W (s.fields W) e.1 with
  | some f => if f.posOnly then (e.1, ⟨none, e.2, 0⟩) else (f.name, ⟨some f, e.2, rankOf W f e.1⟩)
  | none => (e.1, ⟨none, e.2, 0⟩)

section dataFirst
variable (W : World N V T) (hW : LowerIdem W) (s : Sig N V T) (wf : WF W s) (o : Opts) (excl : List N)
include hW wf

theorem entryOf_key (e : N × V) (hk : e.1 ∉ s.excludeVars W) : (entryOf W s e).1 = Spec.normKey W s e.1 := by
  unfold entryOf
  cases hr : resolve W (s.fields W) e.1 with
  | none => simp only; exact (key_extra W hW s wf e.1 hk (Or.inl hr)).1.symm
  | some f =>
    cases hpo : f.posOnly with
    | true => simp only [hpo, ↓reduceIte]; exact (key_extra W hW s wf e.1 hk (Or.inr ⟨f, hr, hpo⟩)).1.symm
    | false =>
      simp only [hpo, Bool.false_eq_true, ↓reduceIte]; exact (key_field W hW s wf e.1 hk f hr hpo).1.symm

/-- phase 1 when no two keywords spell the same parameter: one fresh entry per keyword, no conflict -/
theorem dfCollect_eq (rest : List (N × V)) :
    ∀ (i : List (N × Inp N V T)) (c : List (N × V)),
    (∀ e ∈ rest, e.1 ∉ s.excludeVars W) →
    ((Spec.normalise W s rest).map (·.1)).Nodup →
    (∀ e ∈ rest, i.lookup (Spec.normKey W s e.1) = none) →
    dfCollect W s rest i c = (i ++ rest.map (entryOf W s), c) := by
  induction rest with
  | nil => intro i c _ _ _; simp [dfCollect]
  | cons e rest ih =>
    obtain ⟨k, v⟩ := e
    intro i c h1 hn hfresh
    have hk : k ∉ s.excludeVars W := h1 (k, v) (by simp)
    simp only [Spec.normalise, List.map_cons, List.nodup_cons] at hn
    have hn' : ((Spec.normalise W s rest).map (·.1)).Nodup := by simpa [Spec.normalise] using hn.2
    have hdist : ∀ e ∈ rest, Spec.normKey W s e.1 ≠ Spec.normKey W s k := by
      intro e he heq
      apply hn.1
      simp only [List.mem_map]
      exact ⟨(Spec.normKey W s e.1, e.2), ⟨e, he, rfl⟩, heq⟩
    have hkey := entryOf_key W hW s wf (k, v) hk
    have hfr : i.lookup (Spec.normKey W s k) = none := hfresh (k, v) (by simp)
    have step : ∀ ent : N × Inp N V T, ent.1 = Spec.normKey W s k →
        dfCollect W s rest (dictSet i ent.1 ent.2) c = (i ++ ent :: rest.map (entryOf W s), c) := by
      intro ent hent
      rw [dictSet_fresh' i ent.1 ent.2 (hent ▸ hfr)]
      rw [ih _ c (fun e he => h1 e (by simp [he])) hn' ?_]
      · simp
      · intro e he
        rw [lookup_append_single_ne _ _ _ _ (hent ▸ hdist e he)]
        exact hfresh e (by simp [he])
    unfold dfCollect
    simp only [List.map_cons]
    unfold entryOf at hkey ⊢
    cases hr : resolve W (s.fields W) k with
    | none =>
      simp only [hr] at hkey ⊢
      exact step (k, ⟨none, v, 0⟩) hkey
    | some f =>
      simp only [hr] at hkey ⊢
      cases hpo : f.posOnly with
      | true =>
        simp only [hpo, if_true] at hkey ⊢
        exact step (k, ⟨none, v, 0⟩) hkey
      | false =>
        simp only [hpo, Bool.false_eq_true, if_false] at hkey ⊢
        have : i.lookup f.name = none := by simpa [hkey] using hfr
        simp only [this]
        exact step (f.name, ⟨some f, v, rankOf W f k⟩) hkey

/-- phase 2 on those entries -/
theorem dfApply_eq (rest : List (N × V)) :
    ∀ (r a : List (N × V)),
    (∀ e ∈ rest, e.1 ∉ s.excludeVars W) →
    (∀ e ∈ rest, ∀ f, resolve W (s.fields W) e.1 = some f → f.posOnly = false → excl.contains f.name = false) →
    (s.vk = none → ∀ e ∈ rest, s.kwTarget (Spec.normKey W s e.1) = true) →
    dfApply W s o excl [] (rest.map (entryOf W s)) r a =
      match Spec.convKw W s (Spec.normalise W s rest) with
      | none => .error .perr
      | some c => .ok (dictUpdate r (c.filter (isTarget s)), dictUpdate a (c.filter (fun e => !isTarget s e))) := by
  induction rest with
  | nil => intro r a _ _ _; simp [dfApply, Spec.normalise, Spec.convKw, dictUpdate]
  | cons e rest ih =>
    obtain ⟨k, v⟩ := e
    intro r a h1 h3 h5
    have hk : k ∉ s.excludeVars W := h1 (k, v) (by simp)
    have h1' : ∀ e ∈ rest, e.1 ∉ s.excludeVars W := fun e he => h1 e (by simp [he])
    have h3' : ∀ e ∈ rest, ∀ f, resolve W (s.fields W) e.1 = some f → f.posOnly = false →
        excl.contains f.name = false := fun e he => h3 e (by simp [he])
    have h5' : s.vk = none → ∀ e ∈ rest, s.kwTarget (Spec.normKey W s e.1) = true :=
      fun hv e he => h5 hv e (by simp [he])
    -- the additional-key entry
    have extra : (resolve W (s.fields W) k = none ∨ ∃ f, resolve W (s.fields W) k = some f ∧ f.posOnly = true) →
        dfApply W s o excl [] ((k, (⟨none, v, 0⟩ : Inp N V T)) :: rest.map (entryOf W s)) r a =
        match Spec.convKw W s (Spec.normalise W s ((k, v) :: rest)) with
        | none => Except.error Err.perr
        | some c => Except.ok (dictUpdate r (c.filter (isTarget s)), dictUpdate a (c.filter (fun e => !isTarget s e))) := by
      intro hr
      obtain ⟨hnk, hnt, hann⟩ := key_extra W hW s wf k hk hr
      rw [dfApply]
      simp only
      rw [parseAddition_eq W s o k v hk]
      simp only [Spec.normalise, List.map_cons, Spec.convKw, hnk, hann]
      cases hvk : s.vk with
      | none =>
        exfalso
        have := h5 hvk (k, v) (by simp)
        simp only [hnk, hnt] at this
        cases this
      | some nt =>
        obtain ⟨n, t⟩ := nt
        simp only
        cases hc : Spec.convO W t v with
        | none => simp
        | some x =>
          simp only
          rw [ih r (dictSet a k x) h1' h3' h5']
          simp only [Spec.normalise]
          cases Spec.convKw W s (List.map (fun e => (Spec.normKey W s e.1, e.2)) rest) with
          | none => rfl
          | some c => simp [isTarget, hnt, dictUpdate]
    simp only [List.map_cons]
    cases hr : resolve W (s.fields W) k with
    | none =>
      have : entryOf W s (k, v) = (k, ⟨none, v, 0⟩) := by unfold entryOf; simp [hr]
      rw [this]; exact extra (Or.inl hr)
    | some f =>
      cases hpo : f.posOnly with
      | true =>
        have : entryOf W s (k, v) = (k, ⟨none, v, 0⟩) := by unfold entryOf; simp [hr, hpo]
        rw [this]; exact extra (Or.inr ⟨f, hr, hpo⟩)
      | false =>
        have : entryOf W s (k, v) = (f.name, ⟨some f, v, rankOf W f k⟩) := by unfold entryOf; simp [hr, hpo]
        rw [this]
        obtain ⟨hnk, hkw, hnp, hkt, hann⟩ := key_field W hW s wf k hk f hr hpo
        have hex : excl.contains f.name = false := h3 (k, v) (by simp) f hr hpo
        rw [dfApply]
        simp only [List.lookup_nil, Option.isSome_none, Bool.false_and, Bool.false_eq_true, if_false, hex]
        simp only [Spec.normalise, List.map_cons, Spec.convKw, hnk, hann, convBy_eq]
        cases hc : Spec.convO W f.ann v with
        | none => simp
        | some p =>
          simp only
          rw [ih (dictSet r f.name p) a h1' h3' h5']
          simp only [Spec.normalise]
          cases Spec.convKw W s (List.map (fun e => (Spec.normKey W s e.1, e.2)) rest) with
          | none => rfl
          | some c => simp [isTarget, hkt, dictUpdate]

omit hW wf in
theorem filterMap_congr' {α β : Type} {f g : α → Option β} {l : List α} (h : ∀ x ∈ l, f x = g x) :
    l.filterMap f = l.filterMap g := by
  induction l with
  | nil => rfl
  | cons a l ih =>
    simp only [List.filterMap_cons, h a (by simp)]
    rw [ih (fun x hx => h x (by simp [hx]))]

omit hW wf in
/-- the entries `dfDefaults` appends -/
theorem dfDefaults_eq (given : N → Bool) (l : List (Param N V T)) (hl : (l.map (·.name)).Nodup) :
    ∀ (R : List (N × V)),
    (∀ f ∈ l, given f.name = false → excl.contains f.name = false →
        R.lookup f.name = none ∧ f.dflt.isSome = true) →
    dfDefaults given excl l R = .ok (R ++ l.filterMap (fun f =>
      if given f.name || excl.contains f.name then none else f.dflt.map (fun d => (f.name, d)))) := by
  induction l with
  | nil => intro R _; simp [dfDefaults]
  | cons f l ih =>
    intro R hreq
    simp only [List.map_cons, List.nodup_cons] at hl
    unfold dfDefaults
    by_cases hskip : (given f.name || excl.contains f.name) = true
    · simp only [hskip, if_true, List.filterMap_cons]
      exact ih hl.2 R (fun g hg => hreq g (by simp [hg]))
    · have hskip' : (given f.name || excl.contains f.name) = false := Bool.eq_false_iff.mpr hskip
      simp only [Bool.or_eq_false_iff] at hskip'
      obtain ⟨hnone, hd⟩ := hreq f (by simp) hskip'.1 hskip'.2
      cases hdf : f.dflt with
      | none => simp [hdf] at hd
      | some d =>
        simp only [hskip, Bool.false_eq_true, if_false, List.filterMap_cons, hdf, Option.map_some]
        rw [dictSet_fresh R f.name d hnone, ih hl.2]
        · simp [List.append_assoc]
        · intro g hg hgv he
          have hne : g.name ≠ f.name := fun h => hl.1 (h ▸ List.mem_map_of_mem hg)
          obtain ⟨h1, h2⟩ := hreq g (by simp [hg]) hgv he
          exact ⟨by rw [lookup_append_single_ne _ _ _ _ hne]; exact h1, h2⟩

/-- every keyword of the call either names (under an accepted spelling) a keyword-capable field that was not passed
positionally, or is an extra key -/
theorem key_cases (kw : List (N × V))
    (h1 : ∀ e ∈ kw, e.1 ∉ s.excludeVars W)
    (h3 : ∀ e ∈ kw, ∀ f, resolve W (s.fields W) e.1 = some f → f.posOnly = false → excl.contains f.name = false)
    (e : N × V) (he : e ∈ kw) :
    (∃ f, f ∈ Spec.kwParams s ∧ Spec.normKey W s e.1 = f.name ∧ W.priv f.name = false
        ∧ excl.contains f.name = false ∧ s.kwTarget f.name = true)
    ∨ (Spec.normKey W s e.1 = e.1 ∧ s.kwTarget e.1 = false) := by
  cases hr : resolve W (s.fields W) e.1 with
  | none => exact Or.inr ⟨(key_extra W hW s wf e.1 (h1 e he) (Or.inl hr)).1, (key_extra W hW s wf e.1 (h1 e he) (Or.inl hr)).2.1⟩
  | some f =>
    cases hpo : f.posOnly with
    | true =>
      have := key_extra W hW s wf e.1 (h1 e he) (Or.inr ⟨f, hr, hpo⟩)
      exact Or.inr ⟨this.1, this.2.1⟩
    | false =>
      obtain ⟨a, b, c, d, _⟩ := key_field W hW s wf e.1 (h1 e he) f hr hpo
      exact Or.inl ⟨f, b, a, c, h3 e he f hr hpo, d⟩

omit hW in
theorem fields_names_nodup : ((s.fields W).map (·.name)).Nodup := by
  unfold Sig.fields
  exact List.Pairwise.sublist (List.Sublist.map _ List.filter_sublist) wf.names_nodup

theorem dataFirst_obs (kw : List (N × V))
    (h1 : ∀ e ∈ kw, e.1 ∉ s.excludeVars W)
    (h3 : ∀ e ∈ kw, ∀ f, resolve W (s.fields W) e.1 = some f → f.posOnly = false → excl.contains f.name = false)
    (h5 : s.vk = none → ∀ e ∈ kw, s.kwTarget (Spec.normKey W s e.1) = true)
    (hn : ((Spec.normalise W s kw).map (·.1)).Nodup)
    (hpo : ∀ f ∈ s.fields W, f.posOnly = true → excl.contains f.name = true)
    (hreq : ∀ f ∈ s.fields W, excl.contains f.name = false →
        ((Spec.normalise W s kw).lookup f.name).isSome = true ∨ f.dflt.isSome = true) :
    match Spec.convKw W s (Spec.normalise W s kw) with
    | none => dataFirst W s o excl kw = .error .perr
    | some c => ∃ kw', dataFirst W s o excl kw = .ok kw' ∧ Obs W s excl c kw' := by
  have hcoll := dfCollect_eq W hW s wf kw [] [] h1 hn (by intro e _; rfl)
  have hloop := dfApply_eq W hW s wf o excl kw [] [] h1 h3 h5
  simp only [List.nil_append] at hcoll
  cases hc : Spec.convKw W s (Spec.normalise W s kw) with
  | none =>
    simp only [hc] at hloop
    simp [dataFirst, hcoll, hloop]
  | some c =>
    simp only [hc] at hloop
    have hkeys : c.map (·.1) = (Spec.normalise W s kw).map (·.1) := convKw_keys W s _ c hc
    have hcn : (c.map (·.1)).Nodup := hkeys ▸ hn
    have hsubT : ((c.filter (isTarget s)).map (·.1)).Nodup :=
      List.Pairwise.sublist (List.Sublist.map _ List.filter_sublist) hcn
    have hsubN : ((c.filter (fun e => !isTarget s e)).map (·.1)).Nodup :=
      List.Pairwise.sublist (List.Sublist.map _ List.filter_sublist) hcn
    have hR : dictUpdate [] (c.filter (isTarget s)) = c.filter (isTarget s) := by
      rw [dictUpdate_fresh [] _ hsubT (by intro e _; rfl)]; rfl
    have hA : dictUpdate [] (c.filter (fun e => !isTarget s e)) = c.filter (fun e => !isTarget s e) := by
      rw [dictUpdate_fresh [] _ hsubN (by intro e _; rfl)]; rfl
    rw [hR, hA] at hloop
    -- a field that is not excluded is keyword-capable, hence a target
    have htarget : ∀ f ∈ s.fields W, excl.contains f.name = false → f ∈ Spec.kwParams s := by
      intro f hf hex
      obtain ⟨hmem, _⟩ := (mem_fields W s f).mp hf
      have hnpo : f.posOnly = false := by
        cases h : f.posOnly with
        | false => rfl
        | true => rw [hpo f hf h] at hex; cases hex
      rw [mem_kwParams]
      rcases List.mem_append.mp hmem with h | h
      · exact Or.inl ⟨h, hnpo⟩
      · exact Or.inr h
    -- keys of c
    have hckey : ∀ x, (c.lookup x).isSome = true → ∃ e ∈ kw, Spec.normKey W s e.1 = x := by
      intro x hx
      rw [lookup_isSome_iff, hkeys] at hx
      simp only [Spec.normalise, List.map_map, List.mem_map, Function.comp] at hx
      obtain ⟨e, he, rfl⟩ := hx
      exact ⟨e, he, rfl⟩
    obtain ⟨R, hRdef⟩ : ∃ R, R = c.filter (isTarget s) := ⟨_, rfl⟩
    obtain ⟨A, hAdef⟩ : ∃ A, A = c.filter (fun e => !isTarget s e) := ⟨_, rfl⟩
    rw [← hRdef, ← hAdef] at hloop
    rw [← hRdef] at hsubT
    rw [← hAdef] at hsubN
    have hRlook : ∀ x, s.kwTarget x = true → R.lookup x = c.lookup x := by
      intro x hx; rw [hRdef]; exact lookup_filter_key c s.kwTarget x hx
    have hRnone : ∀ x, s.kwTarget x = false → R.lookup x = none := by
      intro x hx; rw [hRdef]; exact lookup_filter_key_none c s.kwTarget x hx
    have hAnone : ∀ x, s.kwTarget x = true → A.lookup x = none := by
      intro x hx; rw [hAdef]; exact lookup_filter_key_none c (fun k => !s.kwTarget k) x (by simp [hx])
    have hAmem : ∀ e ∈ A, s.kwTarget e.1 = false := by
      intro e he
      rw [hAdef] at he
      have := (List.mem_filter.mp he).2
      simpa [isTarget] using this
    have hRmem : ∀ e ∈ R, isTarget s e = true := by
      intro e he
      rw [hRdef] at he
      exact (List.mem_filter.mp he).2
    -- defaults
    have hreq' : ∀ f ∈ s.fields W, R.lookup f.name = none → excl.contains f.name = false → f.dflt.isSome = true := by
      intro f hf hnone hex
      rcases hreq f hf hex with h | h
      · exfalso
        have ht : s.kwTarget f.name = true := (kwTarget_iff s _).mpr ⟨f, htarget f hf hex, rfl⟩
        rw [hRlook _ ht] at hnone
        have h2 : (c.lookup f.name).isSome = true := by
          rw [lookup_isSome_iff, hkeys, ← lookup_isSome_iff]; exact h
        rw [hnone] at h2; cases h2
      · exact h
    -- "was given" (a key of `inputs`) is "has an entry in R" for a field that is not excluded
    have hgiven : ∀ x, ((kw.map (entryOf W s)).lookup x).isSome = (c.lookup x).isSome := by
      intro x
      have hk1 : (kw.map (entryOf W s)).map (·.1) = c.map (·.1) := by
        rw [hkeys]
        simp only [Spec.normalise, List.map_map]
        apply List.map_congr_left
        intro e he
        exact entryOf_key W hW s wf e (h1 e he)
      have h1' : ((kw.map (entryOf W s)).lookup x).isSome = true ↔ x ∈ (kw.map (entryOf W s)).map (·.1) :=
        lookup_isSome_iff' _ x
      have h2' := lookup_isSome_iff c x
      rw [hk1] at h1'
      cases h : ((kw.map (entryOf W s)).lookup x).isSome <;> cases h' : (c.lookup x).isSome <;> simp_all
    have hgR : ∀ f ∈ s.fields W, excl.contains f.name = false →
        ((kw.map (entryOf W s)).lookup f.name).isSome = (R.lookup f.name).isSome := by
      intro f hf hex
      rw [hgiven, hRlook _ ((kwTarget_iff s _).mpr ⟨f, htarget f hf hex, rfl⟩)]
    have hdef := dfDefaults_eq excl (fun x => ((kw.map (entryOf W s)).lookup x).isSome) (s.fields W)
      (fields_names_nodup W s wf) R (by
        intro f hf hg hex
        have hrn : R.lookup f.name = none := by
          have := hgR f hf hex
          simp only [hg] at this
          cases hh : R.lookup f.name with
          | none => rfl
          | some _ => rw [hh] at this; cases this
        exact ⟨hrn, hreq' f hf hrn hex⟩)
    obtain ⟨D, hDdef⟩ : ∃ D, D = (s.fields W).filterMap (fun f =>
      if (R.lookup f.name).isSome || excl.contains f.name then none else f.dflt.map (fun d => (f.name, d))) := ⟨_, rfl⟩
    have hDeq : (s.fields W).filterMap (fun f =>
        if ((kw.map (entryOf W s)).lookup f.name).isSome || excl.contains f.name then none
        else f.dflt.map (fun d => (f.name, d))) = D := by
      rw [hDdef]
      apply filterMap_congr'
      intro f hf
      by_cases hex : excl.contains f.name = true
      · simp only [hex, Bool.or_true]
      · simp only [hgR f hf (by simpa using hex)]
    rw [hDeq] at hdef
    have hDkey : ∀ e ∈ D, ∃ f ∈ s.fields W, e.1 = f.name ∧ excl.contains f.name = false ∧ R.lookup f.name = none
        ∧ f.dflt = some e.2 := by
      intro e he
      simp only [hDdef, List.mem_filterMap] at he
      obtain ⟨f, hf, hfe⟩ := he
      split at hfe
      · cases hfe
      · rename_i hcond
        have hcond' := Bool.eq_false_iff.mpr hcond
        simp only [Bool.or_eq_false_iff] at hcond'
        cases hd : f.dflt with
        | none => simp [hd] at hfe
        | some d =>
          simp only [hd, Option.map_some, Option.some.injEq] at hfe
          subst hfe
          refine ⟨f, hf, rfl, hcond'.2, ?_, hd⟩
          cases hh : R.lookup f.name with
          | none => rfl
          | some _ => simp [hh] at hcond'
    have hDtarget : ∀ e ∈ D, isTarget s e = true := by
      intro e he
      obtain ⟨f, hf, hn', hex, _, _⟩ := hDkey e he
      show s.kwTarget e.1 = true
      rw [hn']
      exact (kwTarget_iff s _).mpr ⟨f, htarget f hf hex, rfl⟩
    have hfreshA : ∀ e ∈ A, (R ++ D).lookup e.1 = none := by
      intro e he
      have hnt : s.kwTarget e.1 = false := hAmem e he
      rw [List.lookup_append, hRnone _ hnt]
      simp only [Option.none_or]
      rw [lookup_eq_none_iff_not_mem]
      intro hmem
      obtain ⟨e', he', heq⟩ := List.mem_map.mp hmem
      have := hDtarget e' he'
      simp only [isTarget, heq, hnt] at this
      cases this
    refine ⟨(R ++ D) ++ A, ?_, ?_, ?_⟩
    · simp only [dataFirst, hcoll, hloop, hdef]
      rw [dictUpdate_fresh _ A hsubN hfreshA]
    · -- lookups at keyword-capable parameters
      intro p hp
      have ht : s.kwTarget p.name = true := (kwTarget_iff s _).mpr ⟨p, hp, rfl⟩
      have hAn : A.lookup p.name = none := hAnone _ ht
      have hRl : R.lookup p.name = c.lookup p.name := hRlook _ ht
      rw [List.lookup_append, List.lookup_append, hAn, hRl, Option.or_none]
      obtain ⟨hpmem, _⟩ := kwParams_sub W hW s wf p hp
      by_cases hskip : (W.priv p.name || excl.contains p.name) = true
      · simp only [hskip, if_true]
        have hcl : c.lookup p.name = none := by
          cases hh : c.lookup p.name with
          | none => rfl
          | some _ =>
            exfalso
            obtain ⟨e, he, hne⟩ := hckey p.name (by simp [hh])
            rcases key_cases W hW s wf excl kw h1 h3 e he with ⟨f, hf, h2, h3', h4, _⟩ | ⟨h2, h3'⟩
            · have hfp : f = p := eq_of_name_eq wf.names_nodup (kwParams_sub W hW s wf f hf).1 hpmem (by rw [← h2, hne])
              subst hfp
              rw [h3', h4] at hskip; cases hskip
            · rw [h2] at hne
              rw [hne, ht] at h3'; cases h3'
        rw [hcl, Option.none_or, lookup_eq_none_iff_not_mem]
        intro hmem
        obtain ⟨e', he', heq⟩ := List.mem_map.mp hmem
        obtain ⟨f, hf, hn', hex, _, _⟩ := hDkey e' he'
        have hfp : f = p := eq_of_name_eq wf.names_nodup ((mem_fields W s f).mp hf).1 hpmem (by rw [← hn', heq])
        subst hfp
        have : W.priv f.name = false := ((mem_fields W s f).mp hf).2
        rw [this, hex] at hskip; cases hskip
      · have hskip' := Bool.eq_false_iff.mpr hskip
        simp only [Bool.or_eq_false_iff] at hskip'
        simp only [hskip', Bool.or_self, Bool.false_eq_true, if_false]
        have hpf : p ∈ s.fields W := (mem_fields W s p).mpr ⟨hpmem, hskip'.1⟩
        cases hcl : c.lookup p.name with
        | some v => simp
        | none =>
          simp only [Option.none_or]
          -- the default entry of p is the only entry of D under p's name
          have hRn : R.lookup p.name = none := by rw [hRl, hcl]
          have hD : D.lookup p.name = p.dflt := by
            have hnd := fields_names_nodup W s wf
            rw [hDdef]
            have : ∀ (l : List (Param N V T)), (l.map (·.name)).Nodup → p ∈ l →
                (l.filterMap (fun f => if (R.lookup f.name).isSome || excl.contains f.name then none
                  else f.dflt.map (fun d => (f.name, d)))).lookup p.name = p.dflt := by
              intro l
              induction l with
              | nil => intro _ h; cases h
              | cons g l ih =>
                intro hnd hpl
                simp only [List.map_cons, List.nodup_cons] at hnd
                rcases List.mem_cons.mp hpl with rfl | hpl'
                · simp only [List.filterMap_cons, hRn, hskip'.2, Option.isSome_none, Bool.or_self,
                    Bool.false_eq_true, if_false]
                  cases hd : p.dflt with
                  | some d => simp [List.lookup_cons]
                  | none =>
                    simp only [Option.map_none]
                    rw [lookup_eq_none_iff_not_mem]
                    intro hmem
                    obtain ⟨e', he', heq⟩ := List.mem_map.mp hmem
                    obtain ⟨f, hf, hfe⟩ := List.mem_filterMap.mp he'
                    split at hfe
                    · cases hfe
                    · cases hdf : f.dflt with
                      | none => simp [hdf] at hfe
                      | some d' =>
                        simp only [hdf, Option.map_some, Option.some.injEq] at hfe
                        subst hfe
                        exact hnd.1 (heq ▸ List.mem_map_of_mem hf)
                · have hne : p.name ≠ g.name := fun h => hnd.1 (h ▸ List.mem_map_of_mem hpl')
                  simp only [List.filterMap_cons]
                  split
                  · exact ih hnd.2 hpl'
                  · rename_i x hx
                    split at hx
                    · cases hx
                    · cases hdg : g.dflt with
                      | none => simp [hdg] at hx
                      | some d' =>
                        simp only [hdg, Option.map_some, Option.some.injEq] at hx
                        subst hx
                        have : (p.name == g.name) = false := by simpa using hne
                        simp only [List.lookup_cons, this]
                        exact ih hnd.2 hpl'
            exact this _ hnd hpf
          exact hD
    · -- the extra keys
      simp only [List.filter_append]
      have e1 : R.filter (fun e => !isTarget s e) = [] := by
        rw [List.filter_eq_nil_iff]
        intro e he
        simp [hRmem e he]
      have e2 : D.filter (fun e => !isTarget s e) = [] := by
        rw [List.filter_eq_nil_iff]
        intro e he
        simp [hDtarget e he]
      have e3 : A.filter (fun e => !isTarget s e) = A := by
        rw [List.filter_eq_self]
        intro e he
        simp [isTarget, hAmem e he]
      rw [e1, e2, e3, hAdef]; rfl

end dataFirst

/-! ### field-first: the dict the fields are looked up in, and the scan of one field's spellings -/

theorem inj_of_nodup_map {α β : Type} (g : α → β) (l : List α) (h : (l.map g).Nodup) {a b : α}
    (ha : a ∈ l) (hb : b ∈ l) (hab : g a = g b) : a = b := by
  induction l with
  | nil => cases ha
  | cons x l ih =>
    simp only [List.map_cons, List.nodup_cons] at h
    rcases List.mem_cons.mp ha with rfl | ha' <;> rcases List.mem_cons.mp hb with rfl | hb'
    · rfl
    · exact absurd (hab ▸ List.mem_map_of_mem hb') h.1
    · exact absurd (hab.symm ▸ List.mem_map_of_mem ha') h.1
    · exact ih h.2 ha' hb'

theorem lookup_of_mem_nodup (l : List (N × V)) (h : (l.map (·.1)).Nodup) (e : N × V) (he : e ∈ l) :
    l.lookup e.1 = some e.2 := by
  induction l with
  | nil => cases he
  | cons x l ih =>
    obtain ⟨k, v⟩ := x
    simp only [List.map_cons, List.nodup_cons] at h
    rcases List.mem_cons.mp he with rfl | he'
    · simp
    · have : e.1 ≠ k := fun hk => h.1 (hk ▸ List.mem_map_of_mem he')
      have hb : (e.1 == k) = false := by simpa using this
      simp only [List.lookup_cons, hb]
      exact ih h.2 he'

theorem mem_of_lookup (l : List (N × V)) (x : N) (v : V) (h : l.lookup x = some v) : (x, v) ∈ l := by
  induction l with
  | nil => cases h
  | cons e l ih =>
    obtain ⟨k, w⟩ := e
    simp only [List.lookup_cons] at h
    by_cases hx : x = k
    · subst hx; simp at h; subst h; simp
    · have hb : (x == k) = false := by simpa using hx
      simp only [hb] at h
      exact List.mem_cons_of_mem _ (ih h)

theorem prepStep_lookup1 (K : N → N) (x : N) (dc : List (N × V) × List (N × V)) (e : N × V) :
    (prepStep K dc e).1.lookup x = if K e.1 = x then (dc.1.lookup x).or (some e.2) else dc.1.lookup x := by
  unfold prepStep
  by_cases hk : K e.1 = x
  · subst hk
    cases h : dc.1.lookup (K e.1) with
    | some y => simp [h]
    | none => simp [h, List.lookup_append, List.lookup_cons]
  · cases h : dc.1.lookup (K e.1) with
    | some y => simp [hk]
    | none =>
      simp only [hk, if_false]
      exact lookup_append_single_ne _ _ _ _ (fun h' => hk h'.symm)

/-- the lower-casing fold of `field_first_parse` (first spelling wins): what key `x` finds -/
theorem prep_fold_lookup (K : N → N) (x : N) (data : List (N × V)) :
    ∀ (acc : List (N × V) × List (N × V)),
    (data.foldl (prepStep K) acc).1.lookup x
      = (acc.1.lookup x).or ((data.find? (fun e => K e.1 == x)).map (·.2)) := by
  induction data with
  | nil => intro acc; simp
  | cons e data ih =>
    intro acc
    simp only [List.foldl_cons]
    rw [ih, prepStep_lookup1]
    by_cases hk : K e.1 = x
    · have hb : (K e.1 == x) = true := by simpa using hk
      simp only [hk, if_true, List.find?_cons, hb, Option.map_some]
      cases acc.1.lookup x <;> simp
    · have hb : (K e.1 == x) = false := by simpa using hk
      simp only [hk, if_false, List.find?_cons, hb]

/-- … and no conflict is recorded under `x` when all given keys looked up as `x` carry one value -/
theorem prep_fold_conflicts (K : N → N) (x : N) (data : List (N × V)) :
    ∀ (acc : List (N × V) × List (N × V)),
    (∀ e₁ ∈ data, ∀ e₂ ∈ data, K e₁.1 = x → K e₂.1 = x → e₁.2 = e₂.2) →
    (∀ e ∈ data, K e.1 = x → acc.1.lookup x = none ∨ acc.1.lookup x = some e.2) →
    (data.foldl (prepStep K) acc).2.lookup x = acc.2.lookup x := by
  induction data with
  | nil => intro acc _ _; rfl
  | cons e data ih =>
    intro acc huniq hacc
    simp only [List.foldl_cons]
    rw [ih _ (fun a ha b hb => huniq a (by simp [ha]) b (by simp [hb]))]
    · -- the step itself records nothing under x
      unfold prepStep
      by_cases hk : K e.1 = x
      · rcases hacc e (by simp) hk with h | h
        · rw [hk, h]
        · rw [hk, h]; simp
      · cases h : acc.1.lookup (K e.1) with
        | none => rfl
        | some y =>
          simp only
          split
          · exact lookup_append_single_ne _ _ _ _ (fun h' => hk h'.symm)
          · rfl
    · intro e' he' hk'
      rw [prepStep_lookup1]
      by_cases hk : K e.1 = x
      · simp only [hk, if_true]
        have hv : e.2 = e'.2 := huniq e (by simp) e' (by simp [he']) hk hk'
        rcases hacc e (by simp) hk with h | h
        · rw [h]; simp [hv]
        · rw [h]; simp [hv]
      · simp only [hk, if_false]
        exact hacc e' (by simp [he']) hk'

theorem ffScan_agree (o : Opts) (data' conflicts : List (N × V)) (u : Option V) (names : List N) :
    ∀ (acc : Option V), (acc = none ∨ acc = u) →
    (∀ al ∈ names, data'.lookup al = none ∨ data'.lookup al = u) →
    (∀ al ∈ names, conflicts.lookup al = none) →
    ffScan o data' conflicts names acc = .ok (acc.or (names.findSome? (fun al => data'.lookup al))) := by
  induction names with
  | nil => intro acc _ _ _; simp [ffScan]
  | cons al als ih =>
    intro acc hacc hall hconf
    have hall' : ∀ al ∈ als, data'.lookup al = none ∨ data'.lookup al = u := fun a ha => hall a (by simp [ha])
    have hconf' : ∀ al ∈ als, conflicts.lookup al = none := fun a ha => hconf a (by simp [ha])
    have hc : conflicts.lookup al = none := hconf al (by simp)
    unfold ffScan
    cases hl : data'.lookup al with
    | none =>
      simp only [List.findSome?_cons, hl]
      exact ih acc hacc hall' hconf'
    | some x =>
      have hux : u = some x := by
        rcases hall al (by simp) with h | h
        · rw [hl] at h; cases h
        · rw [hl] at h; exact h.symm
      simp only [List.findSome?_cons, hl]
      by_cases hi : o.ignoreAliasConflicts = true
      · simp only [hi, if_true]
        cases acc with
        | none => simp
        | some v =>
          rcases hacc with h | h
          · cases h
          · rw [hux] at h; injection h with h; subst h; simp
      · simp only [hi, Bool.false_eq_true, if_false]
        cases acc with
        | none =>
          simp only [hc, Option.isSome_none, Bool.false_eq_true, if_false, Option.none_or]
          rw [ih (some x) (Or.inr hux.symm) hall' hconf']
          simp
        | some v =>
          have hv : v = x := by
            rcases hacc with h | h
            · cases h
            · rw [hux] at h; injection h
          subst hv
          simp only [bne_self_eq_false, Bool.false_eq_true, if_false, hc, Option.isSome_none, Option.some_or]
          rw [ih (some v) (Or.inr hux.symm) hall' hconf']
          simp

section fieldFirst
variable (W : World N V T) (hW : LowerIdem W) (s : Sig N V T) (wf : WF W s) (o : Opts) (excl : List N)
include hW wf

theorem ffKey_mem_iff (f : Param N V T) (hf : f ∈ s.fields W) (k : N) :
    ffKey W (s.fields W) k ∈ f.allNames W ↔ Matches W f k := by
  unfold ffKey Matches
  by_cases hc : (ciNames W (s.fields W)).contains (W.lower k) = true
  · simp only [hc, if_true]
    have hmem : W.lower k ∈ ciNames W (s.fields W) := by simpa using hc
    constructor
    · intro h
      by_cases cf : f.ci = true
      · exact Or.inr ⟨cf, h⟩
      · exfalso
        have := wf.ci_sep f hf (by simpa using cf) _ h
        rw [hW] at this
        exact this hmem
    · rintro (h | ⟨_, h⟩)
      · by_cases cf : f.ci = true
        · rw [← lower_fixed_of_ci W hW f cf k h] at h; exact h
        · exfalso
          exact wf.ci_sep f hf (by simpa using cf) k h hmem
      · exact h
  · simp only [hc, Bool.false_eq_true, if_false]
    constructor
    · intro h; exact Or.inl h
    · rintro (h | ⟨cf, h⟩)
      · exact h
      · exfalso
        apply hc
        simpa using allNames_sub_ciNames W _ f hf cf _ h

/-- for a keyword-capable field: a non-private key normalises to its name exactly when `get_field` maps it there -/
theorem normKey_eq_iff (f : Param N V T) (hf : f ∈ s.fields W) (hkw : f ∈ Spec.kwParams s) (k : N)
    (hk : k ∉ s.excludeVars W) : Spec.normKey W s k = f.name ↔ Matches W f k := by
  constructor
  · intro h
    cases hr : resolve W (s.fields W) k with
    | none =>
      exfalso
      obtain ⟨h1, h2, _⟩ := key_extra W hW s wf k hk (Or.inl hr)
      rw [h1] at h
      rw [h, (kwTarget_iff s _).mpr ⟨f, hkw, rfl⟩] at h2
      cases h2
    | some g =>
      cases hpo : g.posOnly with
      | true =>
        exfalso
        obtain ⟨h1, h2, _⟩ := key_extra W hW s wf k hk (Or.inr ⟨g, hr, hpo⟩)
        rw [h1] at h
        rw [h, (kwTarget_iff s _).mpr ⟨f, hkw, rfl⟩] at h2
        cases h2
      | false =>
        obtain ⟨h1, h2, _, _, _⟩ := key_field W hW s wf k hk g hr hpo
        have : g = f := eq_of_name_eq wf.names_nodup (kwParams_sub W hW s wf g h2).1
          (kwParams_sub W hW s wf f hkw).1 (by rw [← h1, h])
        subst this
        exact (matches_of_resolve W hW s wf k g hr).2
  · intro hm
    have hr := resolve_of_matches W hW s wf k f hf hm
    exact (key_field W hW s wf k hk f hr (kwParams_sub W hW s wf f hkw).2).1

theorem ffScan_field (data : List (N × V)) (h1 : ∀ e ∈ data, e.1 ∉ s.excludeVars W)
    (hn : ((Spec.normalise W s data).map (·.1)).Nodup)
    (f : Param N V T) (hf : f ∈ s.fields W) (hkw : f ∈ Spec.kwParams s) :
    ffScan o (ffPrep W (s.fields W) data).1 (ffPrep W (s.fields W) data).2 (f.allNames W) none
      = .ok ((Spec.normalise W s data).lookup f.name) := by
  -- at most one given key is looked up under a spelling of f
  have hnn : (data.map (fun e => Spec.normKey W s e.1)).Nodup := by
    have : (Spec.normalise W s data).map (·.1) = data.map (fun e => Spec.normKey W s e.1) := by
      simp [Spec.normalise, List.map_map, Function.comp_def]
    rw [← this]; exact hn
  have huniq : ∀ e₁ ∈ data, ∀ e₂ ∈ data, Matches W f e₁.1 → Matches W f e₂.1 → e₁ = e₂ := by
    intro e₁ h₁ e₂ h₂ m₁ m₂
    apply inj_of_nodup_map (fun e => Spec.normKey W s e.1) data hnn h₁ h₂
    show Spec.normKey W s e₁.1 = Spec.normKey W s e₂.1
    rw [(normKey_eq_iff W hW s wf f hf hkw e₁.1 (h1 e₁ h₁)).mpr m₁,
      (normKey_eq_iff W hW s wf f hf hkw e₂.1 (h1 e₂ h₂)).mpr m₂]
  -- what a spelling of f finds in the lookup dict
  have hconf : ∀ al ∈ f.allNames W, (ffPrep W (s.fields W) data).2.lookup al = none := by
    intro al hal
    unfold ffPrep
    by_cases hci : (ciNames W (s.fields W)).isEmpty = true
    · simp [hci]
    · simp only [hci, Bool.false_eq_true, if_false]
      rw [prep_fold_conflicts]
      · rfl
      · intro e₁ h₁ e₂ h₂ k₁ k₂
        rw [huniq e₁ h₁ e₂ h₂ ((ffKey_mem_iff W hW s wf f hf e₁.1).mp (k₁ ▸ hal))
          ((ffKey_mem_iff W hW s wf f hf e₂.1).mp (k₂ ▸ hal))]
      · intro e _ _; exact Or.inl rfl
  have hlook : ∀ al ∈ f.allNames W, (ffPrep W (s.fields W) data).1.lookup al
      = (data.find? (fun e => ffKey W (s.fields W) e.1 == al)).map (·.2) := by
    intro al hal
    unfold ffPrep
    by_cases hci : (ciNames W (s.fields W)).isEmpty = true
    · simp only [hci, if_true]
      have hK : ∀ k, ffKey W (s.fields W) k = k := by
        intro k
        unfold ffKey
        have : ciNames W (s.fields W) = [] := by simpa using hci
        simp [this]
      simp only [hK]
      clear huniq hnn hn h1 hconf
      induction data with
      | nil => rfl
      | cons e data ih =>
        obtain ⟨k, v⟩ := e
        simp only [List.lookup_cons, List.find?_cons]
        by_cases hk : al = k
        · subst hk; simp
        · have h1 : (al == k) = false := by simpa using hk
          have h2 : (k == al) = false := by simpa using fun h => hk h.symm
          simp only [h1, h2]
          exact ih
    · simp only [hci, Bool.false_eq_true, if_false]
      rw [prep_fold_lookup]
      simp
  have hnk : ((Spec.normalise W s data).map (·.1)).Nodup := hn
  -- every spelling present carries the value the normalised call has for f
  have hall : ∀ al ∈ f.allNames W, (ffPrep W (s.fields W) data).1.lookup al = none ∨
      (ffPrep W (s.fields W) data).1.lookup al = (Spec.normalise W s data).lookup f.name := by
    intro al hal
    rw [hlook al hal]
    cases hfind : data.find? (fun e => ffKey W (s.fields W) e.1 == al) with
    | none => exact Or.inl rfl
    | some e =>
      refine Or.inr ?_
      have he := List.mem_of_find?_eq_some hfind
      have hke : ffKey W (s.fields W) e.1 = al := by simpa using List.find?_some hfind
      have hm : Matches W f e.1 := (ffKey_mem_iff W hW s wf f hf e.1).mp (hke ▸ hal)
      have hnorm := (normKey_eq_iff W hW s wf f hf hkw e.1 (h1 e he)).mpr hm
      have hmem : (Spec.normKey W s e.1, e.2) ∈ Spec.normalise W s data := by
        simp only [Spec.normalise, List.mem_map]; exact ⟨e, he, rfl⟩
      have := lookup_of_mem_nodup _ hnk _ hmem
      simp only [hnorm] at this
      simp [this]
  rw [ffScan_agree o _ _ ((Spec.normalise W s data).lookup f.name) _ none (Or.inl rfl) hall hconf]
  simp only [Option.none_or]
  congr 1
  cases hu : (Spec.normalise W s data).lookup f.name with
  | none =>
    rw [List.findSome?_eq_none_iff]
    intro al hal
    rcases hall al hal with h | h
    · exact h
    · rw [h, hu]
  | some x =>
    -- the key that carries x is looked up under one of f's spellings
    have hmem := mem_of_lookup _ _ _ hu
    simp only [Spec.normalise, List.mem_map] at hmem
    obtain ⟨e, he, heq⟩ := hmem
    have hnorm : Spec.normKey W s e.1 = f.name := by injection heq
    have hval : e.2 = x := by injection heq
    have hm := (normKey_eq_iff W hW s wf f hf hkw e.1 (h1 e he)).mp hnorm
    have hal := (ffKey_mem_iff W hW s wf f hf e.1).mpr hm
    have hl : (ffPrep W (s.fields W) data).1.lookup (ffKey W (s.fields W) e.1) = some x := by
      rcases hall _ hal with h | h
      · exfalso
        rw [hlook _ hal] at h
        have : data.find? (fun e' => ffKey W (s.fields W) e'.1 == ffKey W (s.fields W) e.1) ≠ none := by
          intro hnone
          exact (List.find?_eq_none.mp hnone) e he (by simp)
        cases hfd : data.find? (fun e' => ffKey W (s.fields W) e'.1 == ffKey W (s.fields W) e.1) with
        | none => exact this hfd
        | some _ => simp [hfd] at h
      · rw [h, hu]
    -- findSome? returns the first present spelling; all present spellings carry x
    cases hfs : (f.allNames W).findSome? (fun al => (ffPrep W (s.fields W) data).1.lookup al) with
    | none =>
      exfalso
      rw [List.findSome?_eq_none_iff] at hfs
      rw [hfs _ hal] at hl; cases hl
    | some y =>
      obtain ⟨al, hal', hy⟩ := List.exists_of_findSome?_eq_some hfs
      rcases hall al hal' with h | h
      · rw [h] at hy; cases hy
      · rw [h, hu] at hy; exact hy.symm

omit hW wf in
theorem convKw_some_mem (l c : List (N × V)) (h : Spec.convKw W s l = some c) :
    ∀ e ∈ l, ∃ v', Spec.convO W (Spec.annOfKey s e.1) e.2 = some v' ∧ (e.1, v') ∈ c := by
  induction l generalizing c with
  | nil => intro e he; cases he
  | cons x l ih =>
    obtain ⟨k, v⟩ := x
    simp only [Spec.convKw] at h
    split at h
    · rename_i v' r h1 h2
      cases h
      intro e he
      rcases List.mem_cons.mp he with rfl | he'
      · exact ⟨v', h1, by simp⟩
      · obtain ⟨w, hw1, hw2⟩ := ih r h2 e he'
        exact ⟨w, hw1, List.mem_cons_of_mem _ hw2⟩
    · cases h

omit hW wf in
theorem convKw_none (l : List (N × V)) (h : Spec.convKw W s l = none) :
    ∃ e ∈ l, Spec.convO W (Spec.annOfKey s e.1) e.2 = none := by
  induction l with
  | nil => simp [Spec.convKw] at h
  | cons x l ih =>
    obtain ⟨k, v⟩ := x
    simp only [Spec.convKw] at h
    cases h1 : Spec.convO W (Spec.annOfKey s k) v with
    | none => exact ⟨(k, v), by simp, h1⟩
    | some v' =>
      cases h2 : Spec.convKw W s l with
      | none =>
        obtain ⟨e, he, hc⟩ := ih h2
        exact ⟨e, List.mem_cons_of_mem _ he, hc⟩
      | some r => simp [h1, h2] at h

theorem annOfKey_field (f : Param N V T) (hkw : f ∈ Spec.kwParams s) : Spec.annOfKey s f.name = f.ann := by
  unfold Spec.annOfKey
  cases hfind : (Spec.kwParams s).find? (fun p => p.name == f.name) with
  | none =>
    exfalso
    exact (List.find?_eq_none.mp hfind) f hkw (by simp)
  | some q =>
    have hq := List.mem_of_find?_eq_some hfind
    have hn : q.name = f.name := by simpa using List.find?_some hfind
    rw [eq_of_name_eq wf.names_nodup (kwParams_sub W hW s wf q hq).1 (kwParams_sub W hW s wf f hkw).1 hn]

omit hW wf in
/-- lookup in a list of entries produced one per parameter, names distinct -/
theorem lookup_filterMap_names (l : List (Param N V T)) (hl : (l.map (·.name)).Nodup) (g : Param N V T → Option V)
    (x : N) :
    (l.filterMap (fun f => (g f).map (fun v => (f.name, v)))).lookup x
      = match l.find? (fun f => f.name == x) with
        | some f => g f
        | none => none := by
  induction l with
  | nil => rfl
  | cons f l ih =>
    simp only [List.map_cons, List.nodup_cons] at hl
    simp only [List.filterMap_cons, List.find?_cons]
    by_cases hx : f.name = x
    · subst hx
      simp only [beq_self_eq_true]
      cases hg : g f with
      | some v => simp
      | none =>
        simp only [Option.map_none]
        rw [lookup_eq_none_iff_not_mem]
        intro hmem
        obtain ⟨e, he, heq⟩ := List.mem_map.mp hmem
        obtain ⟨f', hf', hfe⟩ := List.mem_filterMap.mp he
        cases hg' : g f' with
        | none => simp [hg'] at hfe
        | some v =>
          simp only [hg', Option.map_some, Option.some.injEq] at hfe
          subst hfe
          exact hl.1 (heq ▸ List.mem_map_of_mem hf')
    · have hb : (f.name == x) = false := by simpa using hx
      simp only [hb]
      cases hg : g f with
      | none => simpa using ih hl.2
      | some v =>
        have hb' : (x == f.name) = false := by simpa using fun h => hx h.symm
        simp only [Option.map_some, List.lookup_cons, hb']
        exact ih hl.2

/-- `ffLoop` when every conversion succeeds: one entry per field that was not passed positionally (the converted
given value, else the default), and the spellings of the fields that were given -/
theorem ffLoop_ok (data c : List (N × V)) (h1 : ∀ e ∈ data, e.1 ∉ s.excludeVars W)
    (hn : ((Spec.normalise W s data).map (·.1)).Nodup)
    (hc : Spec.convKw W s (Spec.normalise W s data) = some c)
    (hpo : ∀ f ∈ s.fields W, f.posOnly = true → excl.contains f.name = true)
    (hreq : ∀ f ∈ s.fields W, excl.contains f.name = false →
        ((Spec.normalise W s data).lookup f.name).isSome = true ∨ f.dflt.isSome = true)
    (l : List (Param N V T)) (hl : (l.map (·.name)).Nodup) (hsub : ∀ f ∈ l, f ∈ s.fields W) :
    ∀ (r : List (N × V)) (u : List N), (∀ f ∈ l, r.lookup f.name = none) →
    ffLoop W o excl (ffPrep W (s.fields W) data).1 (ffPrep W (s.fields W) data).2 l r u
      = .ok (r ++ l.filterMap (fun f =>
              (if excl.contains f.name then none else (c.lookup f.name).or f.dflt).map (fun v => (f.name, v))),
             u ++ l.flatMap (fun f =>
              if excl.contains f.name || (c.lookup f.name).isNone then [] else f.allNames W)) := by
  have hkeys : c.map (·.1) = (Spec.normalise W s data).map (·.1) := convKw_keys W s _ c hc
  have hcn : (c.map (·.1)).Nodup := hkeys ▸ hn
  induction l with
  | nil => intro r u _; simp [ffLoop]
  | cons f l ih =>
    intro r u hfresh
    simp only [List.map_cons, List.nodup_cons] at hl
    have hf : f ∈ s.fields W := hsub f (by simp)
    have hsub' : ∀ g ∈ l, g ∈ s.fields W := fun g hg => hsub g (by simp [hg])
    unfold ffLoop
    by_cases hex : excl.contains f.name = true
    · simp only [hex, if_true, List.filterMap_cons, Option.map_none, List.flatMap_cons, Bool.true_or, List.nil_append]
      exact ih hl.2 hsub' r u (fun g hg => hfresh g (by simp [hg]))
    · have hex' : excl.contains f.name = false := by simpa using hex
      have hkw : f ∈ Spec.kwParams s := by
        obtain ⟨hmem, _⟩ := (mem_fields W s f).mp hf
        have hnpo : f.posOnly = false := by
          cases h : f.posOnly with
          | false => rfl
          | true => rw [hpo f hf h] at hex'; cases hex'
        rw [mem_kwParams]
        rcases List.mem_append.mp hmem with h | h
        · exact Or.inl ⟨h, hnpo⟩
        · exact Or.inr h
      simp only [hex', Bool.false_eq_true, if_false, ffScan_field W hW s wf o data h1 hn f hf hkw]
      have hfr : r.lookup f.name = none := hfresh f (by simp)
      have hnm : f.name ∉ excl := by simpa using hex'
      have hfresh' : ∀ v, ∀ g ∈ l, (r ++ [(f.name, v)]).lookup g.name = none := by
        intro v g hg
        have hne : g.name ≠ f.name := fun h => hl.1 (h ▸ List.mem_map_of_mem hg)
        have hb : (g.name == f.name) = false := by simpa using hne
        rw [List.lookup_append, hfresh g (by simp [hg])]
        simp [List.lookup_cons, hb]
      cases hu : (Spec.normalise W s data).lookup f.name with
      | none =>
        have hcl : c.lookup f.name = none := by
          rw [lookup_eq_none_iff_not_mem, hkeys, ← lookup_eq_none_iff_not_mem]; exact hu
        have hd : f.dflt.isSome = true := by
          rcases hreq f hf hex' with h | h
          · rw [hu] at h; cases h
          · exact h
        cases hdf : f.dflt with
        | none => rw [hdf] at hd; cases hd
        | some d =>
          simp only [dictSet_fresh r f.name d hfr]
          rw [ih hl.2 hsub' _ u (hfresh' d)]
          simp [List.filterMap_cons, List.flatMap_cons, hnm, hcl, hdf]
      | some v =>
        have hmem : (f.name, v) ∈ Spec.normalise W s data := mem_of_lookup _ _ _ hu
        obtain ⟨v', hv1, hv2⟩ := convKw_some_mem W s _ c hc _ hmem
        have hcl : c.lookup f.name = some v' := lookup_of_mem_nodup c hcn _ hv2
        rw [annOfKey_field W hW s wf f hkw] at hv1
        simp only [convBy_eq, hv1, dictSet_fresh r f.name v' hfr]
        rw [ih hl.2 hsub' _ _ (hfresh' v')]
        simp [List.filterMap_cons, List.flatMap_cons, hnm, hcl, List.append_assoc]

/-- `ffAddition` when every conversion succeeds, given which keys the field loop consumed -/
theorem ffAddition_ok (used : List N) (rest : List (N × V)) :
    ∀ (a c' : List (N × V)),
    (∀ e ∈ rest, e.1 ∉ s.excludeVars W) →
    (∀ e ∈ rest, s.kwTarget (Spec.normKey W s e.1) = true → used.contains (ffKey W (s.fields W) e.1) = true) →
    (∀ e ∈ rest, s.kwTarget (Spec.normKey W s e.1) = false →
        used.contains (ffKey W (s.fields W) e.1) = false ∧ Spec.normKey W s e.1 = e.1
        ∧ Spec.annOfKey s e.1 = (match s.vk with | some (_, t) => t | none => none)) →
    s.vk.isSome = true →
    Spec.convKw W s (Spec.normalise W s rest) = some c' →
    ffAddition W s o used rest a = .ok (dictUpdate a (c'.filter (fun e => !isTarget s e))) := by
  induction rest with
  | nil =>
    intro a c' _ _ _ _ hc
    simp [Spec.normalise, Spec.convKw] at hc
    subst hc
    simp [ffAddition, dictUpdate]
  | cons e rest ih =>
    obtain ⟨k, v⟩ := e
    intro a c' h1 hT hN hvk hc
    simp only [Spec.normalise, List.map_cons, Spec.convKw] at hc
    split at hc
    · rename_i v' r hv hr
      cases hc
      have ih' := fun a => ih a r (fun e he => h1 e (by simp [he])) (fun e he => hT e (by simp [he]))
        (fun e he => hN e (by simp [he])) hvk (by simpa [Spec.normalise] using hr)
      unfold ffAddition
      cases ht : s.kwTarget (Spec.normKey W s k) with
      | true =>
        have := hT (k, v) (by simp) ht
        simp only [this, if_true]
        rw [ih' a]
        simp [isTarget, ht]
      | false =>
        obtain ⟨hu, hnk, hann⟩ := hN (k, v) (by simp) ht
        simp only [hu, Bool.false_eq_true, if_false]
        rw [parseAddition_eq W s o k v (h1 (k, v) (by simp))]
        rw [hnk, hann] at hv
        cases hvk' : s.vk with
        | none => rw [hvk'] at hvk; cases hvk
        | some nt =>
          obtain ⟨n, t⟩ := nt
          simp only [hvk'] at hv
          simp only [hv]
          rw [ih' (dictSet a k v')]
          have hnk' : Spec.normKey W s k = k := hnk
          have : s.kwTarget k = false := by rw [← hnk']; exact ht
          simp [isTarget, this, hnk', dictUpdate]
    · cases hc

omit hW wf in
/-- the spellings `ffLoop` marks as used belong to fields it did not skip -/
theorem ffLoop_used (data' cf : List (N × V)) (l : List (Param N V T)) :
    ∀ (r r' : List (N × V)) (u u' : List N), ffLoop W o excl data' cf l r u = .ok (r', u') →
    ∀ x ∈ u', x ∈ u ∨ ∃ g ∈ l, excl.contains g.name = false ∧ x ∈ g.allNames W := by
  induction l with
  | nil =>
    intro r r' u u' h x hx
    simp [ffLoop] at h
    exact Or.inl (h.2 ▸ hx)
  | cons f l ih =>
    intro r r' u u' h x hx
    unfold ffLoop at h
    split at h
    · rcases ih _ _ _ _ h x hx with h' | ⟨g, hg, h'⟩
      · exact Or.inl h'
      · exact Or.inr ⟨g, by simp [hg], h'⟩
    · rename_i hex
      have hex' : excl.contains f.name = false := by simpa using hex
      split at h
      · cases h
      · split at h
        · cases h
        · rcases ih _ _ _ _ h x hx with h' | ⟨g, hg, h'⟩
          · exact Or.inl h'
          · exact Or.inr ⟨g, by simp [hg], h'⟩
      · split at h
        · cases h
        · rcases ih _ _ _ _ h x hx with h' | ⟨g, hg, h'⟩
          · rcases List.mem_append.mp h' with h'' | h''
            · exact Or.inl h''
            · exact Or.inr ⟨f, by simp, hex', h''⟩
          · exact Or.inr ⟨g, by simp [hg], h'⟩

omit hW wf in
/-- a field whose given value does not convert makes the field loop fail -/
theorem ffLoop_error (data' cf : List (N × V)) (f : Param N V T) (v : V) (hex : excl.contains f.name = false)
    (hscan : ffScan o data' cf (f.allNames W) none = .ok (some v)) (hconv : convBy W f.ann v = .error .perr)
    (l : List (Param N V T)) (hf : f ∈ l) :
    ∀ (r : List (N × V)) (u : List N), ffLoop W o excl data' cf l r u = .error .perr := by
  induction l with
  | nil => cases hf
  | cons g l ih =>
    intro r u
    unfold ffLoop
    by_cases hfg : f = g
    · subst hfg
      simp only [hex, Bool.false_eq_true, if_false, hscan, hconv]
    · have hf' : f ∈ l := by
        rcases List.mem_cons.mp hf with h | h
        · exact absurd h hfg
        · exact h
      split
      · exact ih hf' _ _
      · split
        · rename_i e _; rw [err_eq e]
        · split
          · rfl
          · exact ih hf' _ _
        · split
          · rename_i e _; rw [err_eq e]
          · exact ih hf' _ _

omit hW wf in
/-- when the field loop consumed every keyword, the addition pass adds nothing -/
theorem ffAddition_allused (used : List N) (rest : List (N × V)) (a : List (N × V))
    (h : ∀ e ∈ rest, used.contains (ffKey W (s.fields W) e.1) = true) :
    ffAddition W s o used rest a = .ok a := by
  induction rest with
  | nil => rfl
  | cons e rest ih =>
    obtain ⟨k, v⟩ := e
    unfold ffAddition
    have := h (k, v) (by simp)
    simp only at this
    simp only [this, if_true]
    exact ih (fun e he => h e (by simp [he]))

omit hW wf in
/-- an extra key that the field loop did not consume and whose value does not convert makes the addition pass fail -/
theorem ffAddition_error (used : List N) (e : N × V)
    (hu : used.contains (ffKey W (s.fields W) e.1) = false) (hp : parseAddition W s o e.1 e.2 = .error .perr)
    (rest : List (N × V)) (he : e ∈ rest) :
    ∀ (a : List (N × V)), ffAddition W s o used rest a = .error .perr := by
  induction rest with
  | nil => cases he
  | cons x rest ih =>
    obtain ⟨k, v⟩ := x
    intro a
    unfold ffAddition
    by_cases hxe : e = (k, v)
    · subst hxe
      simp only [hu, Bool.false_eq_true, if_false, hp]
    · have he' : e ∈ rest := by
        rcases List.mem_cons.mp he with h | h
        · exact absurd h hxe
        · exact h
      split
      · exact ih he' _
      · split
        · rename_i e' _; rw [err_eq e']
        · exact ih he' _

/-- classification of a keyword of the call, with what the field-first pass needs -/
theorem key_cases' (kw : List (N × V))
    (h1 : ∀ e ∈ kw, e.1 ∉ s.excludeVars W)
    (h3 : ∀ e ∈ kw, ∀ f, resolve W (s.fields W) e.1 = some f → f.posOnly = false → excl.contains f.name = false)
    (e : N × V) (he : e ∈ kw) :
    (∃ f, f ∈ s.fields W ∧ f ∈ Spec.kwParams s ∧ Spec.normKey W s e.1 = f.name ∧ Matches W f e.1
        ∧ excl.contains f.name = false ∧ s.kwTarget f.name = true)
    ∨ (Spec.normKey W s e.1 = e.1 ∧ s.kwTarget e.1 = false
        ∧ Spec.annOfKey s e.1 = (match s.vk with | some (_, t) => t | none => none)) := by
  cases hr : resolve W (s.fields W) e.1 with
  | none => exact Or.inr (key_extra W hW s wf e.1 (h1 e he) (Or.inl hr))
  | some f =>
    cases hpo : f.posOnly with
    | true => exact Or.inr (key_extra W hW s wf e.1 (h1 e he) (Or.inr ⟨f, hr, hpo⟩))
    | false =>
      obtain ⟨a, b, c, d, _⟩ := key_field W hW s wf e.1 (h1 e he) f hr hpo
      obtain ⟨hf, hm⟩ := matches_of_resolve W hW s wf e.1 f hr
      exact Or.inl ⟨f, hf, b, a, hm, h3 e he f hr hpo, d⟩

theorem fieldFirst_obs (kw : List (N × V))
    (h1 : ∀ e ∈ kw, e.1 ∉ s.excludeVars W)
    (h3 : ∀ e ∈ kw, ∀ f, resolve W (s.fields W) e.1 = some f → f.posOnly = false → excl.contains f.name = false)
    (h5 : s.vk = none → ∀ e ∈ kw, s.kwTarget (Spec.normKey W s e.1) = true)
    (hn : ((Spec.normalise W s kw).map (·.1)).Nodup)
    (hpo : ∀ f ∈ s.fields W, f.posOnly = true → excl.contains f.name = true)
    (hreq : ∀ f ∈ s.fields W, excl.contains f.name = false →
        ((Spec.normalise W s kw).lookup f.name).isSome = true ∨ f.dflt.isSome = true) :
    match Spec.convKw W s (Spec.normalise W s kw) with
    | none => fieldFirst W s o excl kw = .error .perr
    | some c => ∃ kw', fieldFirst W s o excl kw = .ok kw' ∧ Obs W s excl c kw' := by
  -- a non-excluded field is keyword-capable
  have hkwp : ∀ f ∈ s.fields W, excl.contains f.name = false → f ∈ Spec.kwParams s := by
    intro f hf hex
    obtain ⟨hmem, _⟩ := (mem_fields W s f).mp hf
    have hnpo : f.posOnly = false := by
      cases h : f.posOnly with
      | false => rfl
      | true => rw [hpo f hf h] at hex; cases hex
    rw [mem_kwParams]
    rcases List.mem_append.mp hmem with h | h
    · exact Or.inl ⟨h, hnpo⟩
    · exact Or.inr h
  -- an extra key is looked up under no spelling of a field that was not skipped
  have hextra : ∀ e ∈ kw, Spec.normKey W s e.1 = e.1 → s.kwTarget e.1 = false →
      ∀ g ∈ s.fields W, excl.contains g.name = false → ffKey W (s.fields W) e.1 ∉ g.allNames W := by
    intro e he hnk hnt g hg hex hmem
    have hm := (ffKey_mem_iff W hW s wf g hg e.1).mp hmem
    have := (normKey_eq_iff W hW s wf g hg (hkwp g hg hex) e.1 (h1 e he)).mpr hm
    rw [hnk] at this
    rw [this, (kwTarget_iff s _).mpr ⟨g, hkwp g hg hex, rfl⟩] at hnt
    cases hnt
  cases hc : Spec.convKw W s (Spec.normalise W s kw) with
  | none =>
    obtain ⟨e', he', hfail⟩ := convKw_none W s _ hc
    simp only [Spec.normalise, List.mem_map] at he'
    obtain ⟨e, he, rfl⟩ := he'
    simp only at hfail
    rcases key_cases' W hW s wf excl kw h1 h3 e he with ⟨f, hf, hkw, hnk, hm, hex, _⟩ | ⟨hnk, hnt, hann⟩
    · rw [hnk, annOfKey_field W hW s wf f hkw] at hfail
      have hscan := ffScan_field W hW s wf o kw h1 hn f hf hkw
      have hmem : (f.name, e.2) ∈ Spec.normalise W s kw := by
        simp only [Spec.normalise, List.mem_map]; exact ⟨e, he, by rw [hnk]⟩
      have hlk := lookup_of_mem_nodup _ hn _ hmem
      simp only at hlk
      rw [hlk] at hscan
      have hconv : convBy W f.ann e.2 = .error .perr := by rw [convBy_eq, hfail]
      simp only [fieldFirst, ffLoop_error W o excl _ _ f e.2 hex hscan hconv (s.fields W) hf [] []]
    · rw [hnk, hann] at hfail
      cases hvk : s.vk with
      | none =>
        exfalso
        have := h5 hvk e he
        rw [hnk, hnt] at this; cases this
      | some nt =>
        obtain ⟨n, t⟩ := nt
        simp only [hvk] at hfail
        have hp : parseAddition W s o e.1 e.2 = .error .perr := by
          rw [parseAddition_eq W s o e.1 e.2 (h1 e he), hvk]; simp only [hfail]
        unfold fieldFirst
        cases hloop : ffLoop W o excl (ffPrep W (s.fields W) kw).1 (ffPrep W (s.fields W) kw).2 (s.fields W) [] [] with
        | error e' => simp only [err_eq e']
        | ok ru =>
          obtain ⟨r, u⟩ := ru
          have hu : u.contains (ffKey W (s.fields W) e.1) = false := by
            cases hcon : u.contains (ffKey W (s.fields W) e.1) with
            | false => rfl
            | true =>
              exfalso
              have hx : ffKey W (s.fields W) e.1 ∈ u := by simpa using hcon
              rcases ffLoop_used W o excl _ _ _ _ _ _ _ hloop _ hx with h | ⟨g, hg, hex, hmem⟩
              · cases h
              · exact hextra e he hnk hnt g hg hex hmem
          simp only [effAddition_vk s o n t hvk, ffAddition_error W s o u e hu hp kw he []]
  | some c =>
    have hkeys : c.map (·.1) = (Spec.normalise W s kw).map (·.1) := convKw_keys W s _ c hc
    have hcn : (c.map (·.1)).Nodup := hkeys ▸ hn
    have hloop := ffLoop_ok W hW s wf o excl kw c h1 hn hc hpo hreq (s.fields W) (fields_names_nodup W s wf)
      (fun f hf => hf) [] [] (by intro f _; rfl)
    simp only [List.nil_append] at hloop
    obtain ⟨E, hE⟩ : ∃ E, E = (s.fields W).filterMap (fun f =>
      (if excl.contains f.name then none else (c.lookup f.name).or f.dflt).map (fun v => (f.name, v))) := ⟨_, rfl⟩
    obtain ⟨U, hU⟩ : ∃ U, U = (s.fields W).flatMap (fun f =>
      if excl.contains f.name || (c.lookup f.name).isNone then [] else f.allNames W) := ⟨_, rfl⟩
    rw [← hE, ← hU] at hloop
    have hElook : ∀ x, E.lookup x = match (s.fields W).find? (fun f => f.name == x) with
        | some f => if excl.contains f.name then none else (c.lookup f.name).or f.dflt
        | none => none := by
      intro x; rw [hE]
      exact lookup_filterMap_names (s.fields W) (fields_names_nodup W s wf) _ x
    have hEmem : ∀ e ∈ E, ∃ f ∈ s.fields W, e.1 = f.name ∧ excl.contains f.name = false := by
      intro e he
      rw [hE] at he
      obtain ⟨f, hf, hfe⟩ := List.mem_filterMap.mp he
      by_cases hex : excl.contains f.name = true
      · simp only [hex, if_true, Option.map_none] at hfe
        cases hfe
      · have hex' : excl.contains f.name = false := by simpa using hex
        simp only [hex', Bool.false_eq_true, if_false] at hfe
        cases hv : (c.lookup f.name).or f.dflt with
        | none => simp [hv] at hfe
        | some v =>
          simp only [hv, Option.map_some, Option.some.injEq] at hfe
          subst hfe
          exact ⟨f, hf, rfl, hex'⟩
    have hEtarget : ∀ e ∈ E, isTarget s e = true := by
      intro e he
      obtain ⟨f, hf, hn', hex⟩ := hEmem e he
      show s.kwTarget e.1 = true
      rw [hn']
      exact (kwTarget_iff s _).mpr ⟨f, hkwp f hf hex, rfl⟩
    have hUmem : ∀ x ∈ U, ∃ g ∈ s.fields W, excl.contains g.name = false ∧ x ∈ g.allNames W := by
      intro x hx
      rw [hU] at hx
      obtain ⟨g, hg, hxg⟩ := List.mem_flatMap.mp hx
      by_cases hcond : (excl.contains g.name || (c.lookup g.name).isNone) = true
      · simp only [hcond, if_true] at hxg
        cases hxg
      · have hcond' := Bool.eq_false_iff.mpr hcond
        simp only [Bool.or_eq_false_iff] at hcond'
        simp only [hcond, Bool.false_eq_true, if_false] at hxg
        exact ⟨g, hg, hcond'.1, hxg⟩
    obtain ⟨A, hA⟩ : ∃ A, A = c.filter (fun e => !isTarget s e) := ⟨_, rfl⟩
    have hAn : (A.map (·.1)).Nodup := by
      rw [hA]; exact List.Pairwise.sublist (List.Sublist.map _ List.filter_sublist) hcn
    have hAmem : ∀ e ∈ A, s.kwTarget e.1 = false := by
      intro e he
      rw [hA] at he
      have := (List.mem_filter.mp he).2
      simpa [isTarget] using this
    have hAfresh : ∀ e ∈ A, E.lookup e.1 = none := by
      intro e he
      rw [lookup_eq_none_iff_not_mem]
      intro hmem
      obtain ⟨e', he', heq⟩ := List.mem_map.mp hmem
      have := hEtarget e' he'
      simp only [isTarget, heq, hAmem e he] at this
      cases this
    -- the result
    -- a keyword that names a field is looked up under a spelling the field loop marked as used
    have hTused : ∀ e ∈ kw, s.kwTarget (Spec.normKey W s e.1) = true →
        U.contains (ffKey W (s.fields W) e.1) = true := by
      intro e he ht
      rcases key_cases' W hW s wf excl kw h1 h3 e he with ⟨f, hf, hkw, hnk, hm, hex, _⟩ | ⟨hnk, hnt, _⟩
      · have hmemn : (f.name, e.2) ∈ Spec.normalise W s kw := by
          simp only [Spec.normalise, List.mem_map]; exact ⟨e, he, by rw [hnk]⟩
        have hcs : (c.lookup f.name).isSome = true := by
          rw [lookup_isSome_iff, hkeys]; exact List.mem_map_of_mem hmemn
        have : ffKey W (s.fields W) e.1 ∈ U := by
          rw [hU]
          refine List.mem_flatMap.mpr ⟨f, hf, ?_⟩
          have hcn' : (c.lookup f.name).isNone = false := by
            cases hh : c.lookup f.name with
            | none => rw [hh] at hcs; cases hcs
            | some _ => rfl
          simp only [hex, hcn', Bool.or_self, Bool.false_eq_true, if_false]
          exact (ffKey_mem_iff W hW s wf f hf e.1).mpr hm
        simpa using this
      · rw [hnk, hnt] at ht; cases ht
    have hres : fieldFirst W s o excl kw = .ok (E ++ A) := by
      unfold fieldFirst
      simp only [hloop]
      cases hvk : s.vk with
      | none =>
        have hAnil : A = [] := by
          rw [hA, List.filter_eq_nil_iff]
          intro e' he'
          have hk : e'.1 ∈ c.map (·.1) := List.mem_map_of_mem he'
          rw [hkeys] at hk
          simp only [Spec.normalise, List.map_map, List.mem_map, Function.comp] at hk
          obtain ⟨e, he, heq⟩ := hk
          have := h5 hvk e he
          simp [isTarget, ← heq, this]
        -- without **kwargs every keyword names a field, so an addition pass (if the options ask for one) finds nothing
        have hall : ffAddition W s o U kw [] = .ok [] :=
          ffAddition_allused W s o U kw [] (fun e he => hTused e he (h5 hvk e he))
        cases hea : effAddition s o with
        | drop => simp [hAnil]
        | deny => simp [hall, hAnil, dictUpdate]
        | allow t => simp [hall, hAnil, dictUpdate]
      | some nt =>
        obtain ⟨n, t⟩ := nt
        simp only [effAddition_vk s o n t hvk]
        rw [ffAddition_ok W hW s wf o U kw [] c h1 hTused ?_ (by simp [hvk]) hc]
        · simp only
          rw [← hA, dictUpdate_fresh [] A hAn (by intro e _; rfl), List.nil_append,
            dictUpdate_fresh E A hAn hAfresh]
        · intro e he ht
          rcases key_cases' W hW s wf excl kw h1 h3 e he with ⟨f, hf, hkw, hnk, hm, hex, htt⟩ | ⟨hnk, hnt, hann⟩
          · rw [hnk, htt] at ht; cases ht
          · refine ⟨?_, hnk, hann⟩
            cases hcon : U.contains (ffKey W (s.fields W) e.1) with
            | false => rfl
            | true =>
              exfalso
              obtain ⟨g, hg, hex, hmem⟩ := hUmem _ (by simpa using hcon)
              exact hextra e he hnk hnt g hg hex hmem
    refine ⟨E ++ A, hres, ?_, ?_⟩
    · intro p hp
      have ht : s.kwTarget p.name = true := (kwTarget_iff s _).mpr ⟨p, hp, rfl⟩
      have hAl : A.lookup p.name = none := by
        rw [hA]; exact lookup_filter_key_none c (fun k => !s.kwTarget k) p.name (by simp [ht])
      rw [List.lookup_append, hAl, Option.or_none, hElook]
      obtain ⟨hpmem, _⟩ := kwParams_sub W hW s wf p hp
      by_cases hpriv : W.priv p.name = true
      · simp only [hpriv, Bool.true_or, if_true]
        cases hfind : (s.fields W).find? (fun f => f.name == p.name) with
        | none => rfl
        | some f =>
          exfalso
          have hf := List.mem_of_find?_eq_some hfind
          have hfn : f.name = p.name := by simpa using List.find?_some hfind
          have := eq_of_name_eq wf.names_nodup ((mem_fields W s f).mp hf).1 hpmem hfn
          subst this
          rw [((mem_fields W s f).mp hf).2] at hpriv; cases hpriv
      · have hpriv' : W.priv p.name = false := by simpa using hpriv
        have hpf : p ∈ s.fields W := (mem_fields W s p).mpr ⟨hpmem, hpriv'⟩
        cases hfind : (s.fields W).find? (fun f => f.name == p.name) with
        | none =>
          exfalso
          exact (List.find?_eq_none.mp hfind) p hpf (by simp)
        | some f =>
          have hf := List.mem_of_find?_eq_some hfind
          have hfn : f.name = p.name := by simpa using List.find?_some hfind
          have := eq_of_name_eq wf.names_nodup ((mem_fields W s f).mp hf).1 hpmem hfn
          subst this
          simp [hpriv']
    · rw [List.filter_append]
      have e1 : E.filter (fun e => !isTarget s e) = [] := by
        rw [List.filter_eq_nil_iff]
        intro e he
        simp [hEtarget e he]
      have e2 : A.filter (fun e => !isTarget s e) = A := by
        rw [List.filter_eq_self]
        intro e he
        simp [isTarget, hAmem e he]
      rw [e1, e2, hA]; rfl

end fieldFirst

/-! ### the positional half -/

/-- `parsed_keys` as a function of the positional parameters and the given arguments -/
def keysOf (W : World N V T) : List (Param N V T) → List V → List N
  | ps, [] => poFieldNames W ps
  | [], _ :: _ => []
  | p :: ps, _ :: as => if W.priv p.name then keysOf W ps as else p.name :: keysOf W ps as

theorem mapM_convBy (W : World N V T) (t : Option T) (l : List V) :
    l.mapM (convBy W t) = match l.mapM (Spec.convO W t) with
      | some r => .ok r
      | none => .error .perr := by
  induction l with
  | nil => rfl
  | cons a l ih =>
    simp only [List.mapM_cons, ih, convBy_eq]
    cases Spec.convO W t a with
    | none => rfl
    | some x =>
      cases List.mapM (Spec.convO W t) l <;> rfl

theorem fillPo_false (W : World N V T) (ps : List (Param N V T)) (r : List V)
    (h : fillPo W ps false = .ok r) : r = [] := by
  induction ps with
  | nil => simp [fillPo] at h; exact h
  | cons p ps ih =>
    unfold fillPo at h
    split at h
    · split at h
      · cases h
      · simp only [Bool.false_eq_true, if_false] at h; exact ih h
    · simp only [Bool.and_false, Bool.false_eq_true, if_false] at h; exact ih h

/-- when Python can bind the remaining slots from keywords and defaults, step 2 raises no AbsenceError -/
theorem fillPo_ok (W : World N V T) (kw : List (N × V)) (ps : List (Param N V T)) (b : List V)
    (h : bindPos kw ps [] = some b) : ∀ contig, ∃ r, fillPo W ps contig = .ok r := by
  induction ps generalizing b with
  | nil => intro _; exact ⟨[], rfl⟩
  | cons p ps ih =>
    intro contig
    unfold bindPos at h
    split at h
    · cases h
    · rename_i v hv
      cases hb : bindPos kw ps [] with
      | none => simp [hb] at h
      | some b' =>
        unfold fillPo
        by_cases hpo : (p.posOnly && !W.priv p.name) = true
        · simp only [hpo, if_true]
          have hp : p.posOnly = true := by
            simp only [Bool.and_eq_true] at hpo; exact hpo.1
          simp only [hp, if_true] at hv
          have hv : p.dflt = some v := by simpa using hv
          cases hd : p.dflt with
          | none => rw [hd] at hv; cases hv
          | some d =>
            simp only
            by_cases hc : contig = true
            · obtain ⟨r, hr⟩ := ih b' hb true
              simp [hc, hr, Except.map]
            · obtain ⟨r, hr⟩ := ih b' hb false
              exact ⟨r, by simp [hc, hr]⟩
        · simp only [hpo, Bool.false_eq_true, if_false]
          by_cases hc : (W.priv p.name && contig) = true
          · simp only [hc, if_true]
            cases hd : p.dflt with
            | none => exact ih b' hb false
            | some d =>
              obtain ⟨r, hr⟩ := ih b' hb true
              simp [hr, Except.map]
          · simp only [hc, Bool.false_eq_true, if_false]
            exact ih b' hb false

theorem posStage_eq (W : World N V T) (s : Sig N V T) (kw : List (N × V)) (ps : List (Param N V T)) :
    ∀ (as b : List V),
    (∀ p ∈ ps, W.priv p.name = true → p.ann = none) →
    bindPos kw ps as = some b →
    (s.vp = none → as.length ≤ ps.length) →
    match Spec.convArgs W (s.vp.bind (·.2)) ps as with
    | none => posStage W s ps as = .error .perr
    | some cas => ∃ fill, fillPo W (ps.drop as.length) true = .ok fill ∧
        posStage W s ps as = .ok (cas ++ fill, keysOf W ps as) := by
  induction ps with
  | nil =>
    intro as b _ _ hlen
    cases as with
    | nil => exact ⟨[], rfl, by simp [posStage, fillPo, keysOf, poFieldNames]⟩
    | cons a as =>
      cases hvp : s.vp with
      | none => have := hlen hvp; simp at this
      | some nt =>
        obtain ⟨n, t⟩ := nt
        simp only [Spec.convArgs, Option.bind_some, posStage, hvp, mapM_convBy]
        cases List.mapM (Spec.convO W t) (a :: as) with
        | none => rfl
        | some r => exact ⟨[], rfl, by simp [keysOf]⟩
  | cons p ps ih =>
    intro as b hpa hb hlen
    cases as with
    | nil =>
      simp only [Spec.convArgs]
      obtain ⟨r, hr⟩ := fillPo_ok W kw (p :: ps) b hb true
      exact ⟨r, by simpa using hr, by simp [posStage, hr, keysOf]⟩
    | cons a as =>
      unfold bindPos at hb
      split at hb
      · cases hb
      · cases hb' : bindPos kw ps as with
        | none => simp [hb'] at hb
        | some b' =>
          have ih' := ih as b' (fun q hq => hpa q (by simp [hq])) hb'
            (fun hv => by have := hlen hv; simp at this; omega)
          simp only [Spec.convArgs]
          unfold posStage
          by_cases hpriv : W.priv p.name = true
          · have hann := hpa p (by simp) hpriv
            simp only [hpriv, if_true, hann, Spec.convO]
            cases hc : Spec.convArgs W (s.vp.bind (·.2)) ps as with
            | none => simp only [hc] at ih'; simp [ih']
            | some cas =>
              simp only [hc] at ih'
              obtain ⟨fill, hf1, hf2⟩ := ih'
              exact ⟨fill, by simpa using hf1, by simp [hf2, keysOf, hpriv]⟩
          · simp only [hpriv, Bool.false_eq_true, if_false, convBy_eq]
            cases hca : Spec.convO W p.ann a with
            | none => simp
            | some v =>
              simp only
              cases hc : Spec.convArgs W (s.vp.bind (·.2)) ps as with
              | none => simp only [hc] at ih'; simp [ih']
              | some cas =>
                simp only [hc] at ih'
                obtain ⟨fill, hf1, hf2⟩ := ih'
                exact ⟨fill, by simpa using hf1, by simp [hf2, keysOf, hpriv]⟩

/-- an omitted slot reads the same from both keyword dicts -/
def Cnil (kw' ckw : List (N × V)) (p : Param N V T) : Prop :=
  ((if p.posOnly then none else kw'.lookup p.name) <|> p.dflt)
    = ((if p.posOnly then none else ckw.lookup p.name) <|> p.dflt)

/-- the first `n` slots are filled positionally and not named again in either dict; the others read the same -/
def PosOK (kw' ckw : List (N × V)) : List (Param N V T) → Nat → Prop
  | [], _ => True
  | p :: ps, 0 => Cnil kw' ckw p ∧ PosOK kw' ckw ps 0
  | p :: ps, n + 1 => (p.posOnly = false → kw'.lookup p.name = none ∧ ckw.lookup p.name = none) ∧ PosOK kw' ckw ps n

theorem bindPos_congr_nil (kw' ckw : List (N × V)) (ps : List (Param N V T)) (h : PosOK kw' ckw ps 0) :
    bindPos kw' ps [] = bindPos ckw ps [] := by
  induction ps with
  | nil => rfl
  | cons p ps ih =>
    obtain ⟨hc, hrest⟩ := h
    unfold bindPos
    unfold Cnil at hc
    rw [hc, ih hrest]

theorem fillPo_po (W : World N V T) (ps : List (Param N V T)) (r : List V) (h : fillPo W ps true = .ok r)
    (hr : r ≠ []) : ∃ q ∈ ps, q.posOnly = true := by
  induction ps generalizing r with
  | nil => simp [fillPo] at h; exact absurd h hr
  | cons p ps ih =>
    unfold fillPo at h
    split at h
    · rename_i hpo
      simp only [Bool.and_eq_true] at hpo
      exact ⟨p, by simp, hpo.1⟩
    · split at h
      · split at h
        · rename_i d hd
          cases hf : fillPo W ps true with
          | error e => simp [hf, Except.map] at h
          | ok r' =>
            simp only [hf, Except.map, Except.ok.injEq] at h
            by_cases he : r'.isEmpty = true
            · simp [he] at h; exact absurd h hr
            · obtain ⟨q, hq, hqp⟩ := ih r' hf (by intro h'; simp [h'] at he)
              exact ⟨q, by simp [hq], hqp⟩
        · exact absurd (fillPo_false W ps r h) hr
      · exact absurd (fillPo_false W ps r h) hr

theorem poFirst_head (p : Param N V T) (ps : List (Param N V T)) (h : poFirst (p :: ps) = true)
    (q : Param N V T) (hq : q ∈ ps) (hqp : q.posOnly = true) : p.posOnly = true := by
  simp only [poFirst, Bool.and_eq_true, Bool.or_eq_true, List.all_eq_true] at h
  rcases h.1 with h1 | h1
  · exact h1
  · have := h1 q hq; simp [hqp] at this

theorem poFirst_tail (p : Param N V T) (ps : List (Param N V T)) (h : poFirst (p :: ps) = true) :
    poFirst ps = true := by
  simp only [poFirst, Bool.and_eq_true] at h; exact h.2

/-- passing the defaults step 2 appends is the same, for Python, as omitting them -/
theorem bindPos_fill (W : World N V T) (kw : List (N × V)) (ps : List (Param N V T)) :
    ∀ (fill : List V), poFirst ps = true → fillPo W ps true = .ok fill →
    bindPos kw ps fill = bindPos kw ps [] := by
  induction ps with
  | nil => intro fill _ h; simp [bindPos]
  | cons p ps ih =>
    intro fill hpf h
    have hpf' := poFirst_tail p ps hpf
    -- the shape shared by both filling branches
    have step : ∀ d r, p.posOnly = true → p.dflt = some d → fillPo W ps true = .ok r →
        bindPos kw (p :: ps) (d :: r) = bindPos kw (p :: ps) [] := by
      intro d r hp hd hr
      rw [bindPos, bindPos]
      simp only [hp, Bool.not_true, Bool.false_and, Bool.false_eq_true, if_false, if_true, hd]
      rw [ih r hpf' hr]
      rfl
    unfold fillPo at h
    split at h
    · rename_i hpo
      simp only [Bool.and_eq_true] at hpo
      split at h
      · cases h
      · rename_i d hd
        simp only [if_true] at h
        cases hf : fillPo W ps true with
        | error e => simp [hf, Except.map] at h
        | ok r =>
          simp only [hf, Except.map, Except.ok.injEq] at h
          subst h
          exact step d r hpo.1 hd hf
    · split at h
      · split at h
        · rename_i d hd
          cases hf : fillPo W ps true with
          | error e => simp [hf, Except.map] at h
          | ok r =>
            simp only [hf, Except.map, Except.ok.injEq] at h
            by_cases he : r.isEmpty = true
            · simp only [he, if_true] at h; subst h; rfl
            · simp only [he, Bool.false_eq_true, if_false] at h
              subst h
              obtain ⟨q, hq, hqp⟩ := fillPo_po W ps r hf (by intro h'; simp [h'] at he)
              exact step d r (poFirst_head p ps hpf q hq hqp) hd hf
        · rw [fillPo_false W ps fill h]
      · rw [fillPo_false W ps fill h]

/-- the raw call's positional slots: converted arguments followed by step 2's defaults, read against the dict
`parse_data` produced, are the converted arguments read against the converted keywords -/
theorem bindPos_final (W : World N V T) (kw' ckw : List (N × V)) (ps : List (Param N V T)) :
    ∀ (cas fill : List V), PosOK kw' ckw ps cas.length → poFirst ps = true →
    fillPo W (ps.drop cas.length) true = .ok fill →
    bindPos kw' ps (cas ++ fill) = bindPos ckw ps cas := by
  induction ps with
  | nil => intro cas fill _ _ _; simp [bindPos]
  | cons p ps ih =>
    intro cas fill hok hpf hfill
    cases cas with
    | nil =>
      simp only [List.length_nil, List.drop_zero, List.nil_append] at hfill hok ⊢
      rw [bindPos_fill W kw' (p :: ps) fill hpf hfill]
      exact bindPos_congr_nil kw' ckw (p :: ps) hok
    | cons v cas =>
      simp only [List.length_cons, List.drop_succ_cons] at hfill hok
      obtain ⟨hgiven, hrest⟩ := hok
      simp only [List.cons_append]
      rw [bindPos, bindPos]
      have hcond : ∀ d : List (N × V), d.lookup p.name = none → (!p.posOnly && (d.lookup p.name).isSome) = false := by
        intro d hd; simp [hd]
      by_cases hpo : p.posOnly = true
      · simp only [hpo, Bool.not_true, Bool.false_and, Bool.false_eq_true, if_false]
        rw [ih cas fill hrest (poFirst_tail p ps hpf) hfill]
      · have hpo' : p.posOnly = false := by simpa using hpo
        obtain ⟨h1, h2⟩ := hgiven hpo'
        simp only [hcond kw' h1, hcond ckw h2, Bool.false_eq_true, if_false]
        rw [ih cas fill hrest (poFirst_tail p ps hpf) hfill]

/-! ### facts about `parsed_keys` -/

theorem mem_poFieldNames (W : World N V T) (ps : List (Param N V T)) (x : N) :
    x ∈ poFieldNames W ps ↔ ∃ q ∈ ps, q.name = x ∧ q.posOnly = true ∧ W.priv q.name = false := by
  unfold poFieldNames
  simp only [List.mem_map, List.mem_filter, Bool.and_eq_true, Bool.not_eq_true']
  constructor
  · rintro ⟨q, ⟨hq, h1, h2⟩, rfl⟩; exact ⟨q, hq, rfl, h1, h2⟩
  · rintro ⟨q, hq, rfl, h1, h2⟩; exact ⟨q, ⟨hq, h1, h2⟩, rfl⟩

/-- every positional-only field is in `parsed_keys` -/
theorem po_mem_keysOf (W : World N V T) (ps : List (Param N V T)) :
    ∀ (as : List V) (p : Param N V T), p ∈ ps → p.posOnly = true → W.priv p.name = false →
    p.name ∈ keysOf W ps as := by
  induction ps with
  | nil => intro _ p hp; cases hp
  | cons q ps ih =>
    intro as p hp hpo hnp
    cases as with
    | nil =>
      simp only [keysOf]
      exact (mem_poFieldNames W _ _).mpr ⟨p, hp, rfl, hpo, hnp⟩
    | cons a as =>
      simp only [keysOf]
      rcases List.mem_cons.mp hp with rfl | hp'
      · simp [hnp]
      · have := ih as p hp' hpo hnp
        split
        · exact this
        · exact List.mem_cons_of_mem _ this

/-- a name in `parsed_keys` belongs to a positional-only parameter or to a slot filled positionally, which
Python's binding then refuses to see named again -/
theorem keysOf_given (W : World N V T) (kw : List (N × V)) (ps : List (Param N V T)) :
    ∀ (as b : List V) (x : N), bindPos kw ps as = some b → x ∈ keysOf W ps as →
    ∃ q ∈ ps, q.name = x ∧ (q.posOnly = true ∨ kw.lookup x = none) := by
  induction ps with
  | nil =>
    intro as b x _ hx
    cases as <;> simp [keysOf, poFieldNames] at hx
  | cons p ps ih =>
    intro as b x hb hx
    cases as with
    | nil =>
      simp only [keysOf] at hx
      obtain ⟨q, hq, hn, hpo, _⟩ := (mem_poFieldNames W _ _).mp hx
      exact ⟨q, hq, hn, Or.inl hpo⟩
    | cons a as =>
      unfold bindPos at hb
      split at hb
      · cases hb
      · rename_i hcond
        cases hb' : bindPos kw ps as with
        | none => simp [hb'] at hb
        | some b' =>
          simp only [keysOf] at hx
          have tail : x ∈ keysOf W ps as → ∃ q ∈ p :: ps, q.name = x ∧ (q.posOnly = true ∨ kw.lookup x = none) := by
            intro h
            obtain ⟨q, hq, h'⟩ := ih as b' x hb' h
            exact ⟨q, by simp [hq], h'⟩
          split at hx
          · exact tail hx
          · rcases List.mem_cons.mp hx with rfl | hx'
            · refine ⟨p, by simp, rfl, ?_⟩
              by_cases hpo : p.posOnly = true
              · exact Or.inl hpo
              · refine Or.inr ?_
                have hpo' : p.posOnly = false := by simpa using hpo
                cases hl : kw.lookup p.name with
                | none => rfl
                | some _ => simp [hpo', hl] at hcond
            · exact tail hx'

/-- a positional field that is not in `parsed_keys` was omitted, and Python found a keyword or a default for it -/
theorem not_keysOf_omitted (W : World N V T) (kw : List (N × V)) (ps : List (Param N V T)) :
    ∀ (as b : List V) (p : Param N V T), bindPos kw ps as = some b → p ∈ ps → W.priv p.name = false →
    p.name ∉ keysOf W ps as → (kw.lookup p.name).isSome = true ∨ p.dflt.isSome = true := by
  induction ps with
  | nil => intro _ _ p _ hp; cases hp
  | cons q ps ih =>
    intro as b p hb hp hnp hnk
    cases as with
    | nil =>
      simp only [keysOf] at hnk
      unfold bindPos at hb
      split at hb
      · cases hb
      · rename_i v hv
        cases hb' : bindPos kw ps [] with
        | none => simp [hb'] at hb
        | some b' =>
          rcases List.mem_cons.mp hp with rfl | hp'
          · have hpo : p.posOnly = false := by
              cases h : p.posOnly with
              | false => rfl
              | true => exact absurd ((mem_poFieldNames W _ _).mpr ⟨p, by simp, rfl, h, hnp⟩) hnk
            simp only [hpo, Bool.false_eq_true, if_false] at hv
            cases hl : kw.lookup p.name with
            | some _ => simp
            | none =>
              rw [hl] at hv
              have : p.dflt = some v := by simpa using hv
              simp [this]
          · refine ih [] b' p hb' hp' hnp ?_
            simp only [keysOf]
            intro hmem
            apply hnk
            obtain ⟨q', hq', h'⟩ := (mem_poFieldNames W _ _).mp hmem
            exact (mem_poFieldNames W _ _).mpr ⟨q', by simp [hq'], h'⟩
    | cons a as =>
      unfold bindPos at hb
      split at hb
      · cases hb
      · cases hb' : bindPos kw ps as with
        | none => simp [hb'] at hb
        | some b' =>
          simp only [keysOf] at hnk
          rcases List.mem_cons.mp hp with rfl | hp'
          · simp [hnp] at hnk
          · refine ih as b' p hb' hp' hnp ?_
            intro hmem
            apply hnk
            split
            · exact hmem
            · exact List.mem_cons_of_mem _ hmem

theorem bindKos_mem (kw : List (N × V)) (ks : List (Param N V T)) (b : List V) (h : bindKos kw ks = some b)
    (p : Param N V T) (hp : p ∈ ks) : (kw.lookup p.name).isSome = true ∨ p.dflt.isSome = true := by
  induction ks generalizing b with
  | nil => cases hp
  | cons q ks ih =>
    unfold bindKos at h
    split at h
    · cases h
    · rename_i v hv
      cases hb' : bindKos kw ks with
      | none => simp [hb'] at h
      | some b' =>
        rcases List.mem_cons.mp hp with rfl | hp'
        · cases hl : kw.lookup p.name with
          | some _ => simp
          | none =>
            rw [hl] at hv
            have : p.dflt = some v := by simpa using hv
            simp [this]
        · exact ih b' hb' hp'

/-- `PosOK` from what `parse_data` guarantees (`Obs`) and Python's own refusal of double binding -/
theorem posOK_of_obs (W : World N V T) (s : Sig N V T) (kw' ckw nkw : List (N × V)) (excl : List N)
    (hobs : ∀ p ∈ Spec.kwParams s, kw'.lookup p.name =
      if W.priv p.name || excl.contains p.name then none else (ckw.lookup p.name).or p.dflt)
    (hprivkey : ∀ p ∈ Spec.kwParams s, W.priv p.name = true → ckw.lookup p.name = none)
    (hkeys : ∀ x, nkw.lookup x = none → ckw.lookup x = none)
    (ps : List (Param N V T)) :
    ∀ (as b : List V) (pre : List N),
    (∀ p ∈ ps, p ∈ s.pos) → (ps.map (·.name)).Nodup → (∀ p ∈ ps, p.name ∉ pre) →
    excl = pre ++ keysOf W ps as → bindPos nkw ps as = some b →
    PosOK kw' ckw ps as.length := by
  induction ps with
  | nil => intro _ _ _ _ _ _ _ _; trivial
  | cons p ps ih =>
    intro as b pre hsub hnd hpre hexcl hb
    simp only [List.map_cons, List.nodup_cons] at hnd
    have hsub' : ∀ q ∈ ps, q ∈ s.pos := fun q hq => hsub q (by simp [hq])
    have hkwp : p.posOnly = false → p ∈ Spec.kwParams s := fun h =>
      (mem_kwParams s p).mpr (Or.inl ⟨hsub p (by simp), h⟩)
    cases as with
    | nil =>
      simp only [keysOf] at hexcl
      unfold bindPos at hb
      split at hb
      · cases hb
      · cases hb' : bindPos nkw ps [] with
        | none => simp [hb'] at hb
        | some b' =>
          refine ⟨?_, ?_⟩
          · unfold Cnil
            by_cases hpo : p.posOnly = true
            · simp [hpo]
            · have hpo' : p.posOnly = false := by simpa using hpo
              simp only [hpo', Bool.false_eq_true, if_false]
              rw [hobs p (hkwp hpo')]
              by_cases hpriv : W.priv p.name = true
              · simp [hpriv, hprivkey p (hkwp hpo') hpriv]
              · have hpriv' : W.priv p.name = false := by simpa using hpriv
                have hnex : excl.contains p.name = false := by
                  cases hc : excl.contains p.name with
                  | false => rfl
                  | true =>
                    exfalso
                    have hm : p.name ∈ excl := by simpa using hc
                    rw [hexcl] at hm
                    rcases List.mem_append.mp hm with h | h
                    · exact hpre p (by simp) h
                    · obtain ⟨q, hq, hqn, hqpo, _⟩ := (mem_poFieldNames W _ _).mp h
                      rcases List.mem_cons.mp hq with rfl | hq'
                      · rw [hqpo] at hpo'; cases hpo'
                      · exact hnd.1 (hqn ▸ List.mem_map_of_mem hq')
                simp only [hpriv', hnex, Bool.or_self, Bool.false_eq_true, if_false]
                cases ckw.lookup p.name <;> simp
          · by_cases hpf : (p.posOnly && !W.priv p.name) = true
            · refine ih [] b' (pre ++ [p.name]) hsub' hnd.2 ?_ ?_ hb'
              · intro q hq hmem
                rcases List.mem_append.mp hmem with h | h
                · exact hpre q (by simp [hq]) h
                · simp at h; exact hnd.1 (h ▸ List.mem_map_of_mem hq)
              · rw [hexcl]
                simp [keysOf, poFieldNames, List.filter_cons, hpf]
            · refine ih [] b' pre hsub' hnd.2 (fun q hq => hpre q (by simp [hq])) ?_ hb'
              rw [hexcl]
              simp [keysOf, poFieldNames, List.filter_cons, hpf]
    | cons a as =>
      simp only [keysOf] at hexcl
      unfold bindPos at hb
      split at hb
      · cases hb
      · rename_i hcond
        cases hb' : bindPos nkw ps as with
        | none => simp [hb'] at hb
        | some b' =>
          refine ⟨?_, ?_⟩
          · intro hpo'
            have hnl : nkw.lookup p.name = none := by
              cases hl : nkw.lookup p.name with
              | none => rfl
              | some _ => simp [hpo', hl] at hcond
            refine ⟨?_, hkeys _ hnl⟩
            rw [hobs p (hkwp hpo')]
            by_cases hpriv : W.priv p.name = true
            · simp [hpriv]
            · have hm : p.name ∈ excl := by
                rw [hexcl]; simp [hpriv]
              have : excl.contains p.name = true := by simpa using hm
              simp only [this, Bool.or_true, if_true]
          · by_cases hpriv : W.priv p.name = true
            · refine ih as b' pre hsub' hnd.2 (fun q hq => hpre q (by simp [hq])) ?_ hb'
              rw [hexcl]; simp [hpriv]
            · refine ih as b' (pre ++ [p.name]) hsub' hnd.2 ?_ ?_ hb'
              · intro q hq hmem
                rcases List.mem_append.mp hmem with h | h
                · exact hpre q (by simp [hq]) h
                · simp at h; exact hnd.1 (h ▸ List.mem_map_of_mem hq)
              · rw [hexcl]; simp [hpriv]

/-! ### assembling the raw call -/

theorem fillPo_length (W : World N V T) (ps : List (Param N V T)) :
    ∀ (c : Bool) (r : List V), fillPo W ps c = .ok r → r.length ≤ ps.length := by
  induction ps with
  | nil => intro c r h; simp [fillPo] at h; subst h; simp
  | cons p ps ih =>
    intro c r h
    unfold fillPo at h
    split at h
    · split at h
      · cases h
      · split at h
        · cases hf : fillPo W ps true with
          | error e => simp [hf, Except.map] at h
          | ok r' =>
            simp only [hf, Except.map, Except.ok.injEq] at h
            subst h
            have := ih true r' hf
            simp; omega
        · have := ih false r h; simp; omega
    · split at h
      · split at h
        · cases hf : fillPo W ps true with
          | error e => simp [hf, Except.map] at h
          | ok r' =>
            simp only [hf, Except.map, Except.ok.injEq] at h
            subst h
            have := ih true r' hf
            split <;> simp <;> omega
        · have := ih false r h; simp; omega
      · have := ih false r h; simp; omega

theorem mapM_option_length {α β : Type} (f : α → Option β) (l : List α) (r : List β) (h : l.mapM f = some r) :
    r.length = l.length := by
  induction l generalizing r with
  | nil => simp at h; subst h; rfl
  | cons a l ih =>
    simp only [List.mapM_cons] at h
    cases hf : f a with
    | none => simp [hf] at h
    | some b =>
      cases hm : l.mapM f with
      | none => simp [hf, hm] at h
      | some r' =>
        simp [hf, hm] at h
        subst h
        simp [ih r' hm]

theorem convArgs_length (W : World N V T) (vpT : Option T) (ps : List (Param N V T)) :
    ∀ (as cas : List V), Spec.convArgs W vpT ps as = some cas → cas.length = as.length := by
  induction ps with
  | nil =>
    intro as cas h
    cases as with
    | nil => simp [Spec.convArgs] at h; subst h; rfl
    | cons a as => simp only [Spec.convArgs] at h; exact mapM_option_length _ _ _ h
  | cons p ps ih =>
    intro as cas h
    cases as with
    | nil => simp [Spec.convArgs] at h; subst h; rfl
    | cons a as =>
      simp only [Spec.convArgs] at h
      split at h
      · rename_i v vs _ hvs
        cases h
        simp [ih as vs hvs]
      · cases h

theorem bindKos_congr (kw' c : List (N × V)) (ks : List (Param N V T))
    (h : ∀ p ∈ ks, (kw'.lookup p.name <|> p.dflt) = (c.lookup p.name <|> p.dflt)) :
    bindKos kw' ks = bindKos c ks := by
  induction ks with
  | nil => rfl
  | cons p ks ih =>
    unfold bindKos
    rw [h p (by simp), ih (fun q hq => h q (by simp [hq]))]

theorem keysOf_sub_names (W : World N V T) (ps : List (Param N V T)) :
    ∀ (as : List V) (x : N), x ∈ keysOf W ps as → x ∈ ps.map (·.name) := by
  induction ps with
  | nil => intro as x hx; cases as <;> simp [keysOf, poFieldNames] at hx
  | cons p ps ih =>
    intro as x hx
    cases as with
    | nil =>
      simp only [keysOf] at hx
      obtain ⟨q, hq, hn, _⟩ := (mem_poFieldNames W _ _).mp hx
      exact hn ▸ List.mem_map_of_mem hq
    | cons a as =>
      simp only [keysOf] at hx
      split at hx
      · exact List.mem_cons_of_mem _ (ih as x hx)
      · rcases List.mem_cons.mp hx with rfl | hx'
        · simp
        · exact List.mem_cons_of_mem _ (ih as x hx')

theorem pyBindCore_some (s : Sig N V T) (args : List V) (kw : List (N × V)) (b : Binding N V)
    (h : pyBindCore s args kw = some b) :
    (s.vp = none → args.length ≤ s.pos.length) ∧
    (∃ ps, bindPos kw s.pos args = some ps) ∧ (∃ ks, bindKos kw s.kos = some ks) ∧
    (s.vk = none → kw.filter (fun e => !s.kwTarget e.1) = []) := by
  unfold pyBindCore at h
  split at h
  · cases h
  · rename_i hlen
    split at h
    · rename_i ps ks hps hks
      simp only at h
      split at h
      · cases h
      · rename_i hvk
        refine ⟨?_, ⟨ps, hps⟩, ⟨ks, hks⟩, ?_⟩
        · intro hvp
          simp only [hvp, Option.isNone_none, Bool.true_and, decide_eq_true_eq] at hlen
          omega
        · intro hv
          simp only [hv, Option.isNone_none, Bool.true_and, Bool.not_eq_true', List.isEmpty_eq_false_iff,
            ne_eq] at hvk
          exact Decidable.not_not.mp hvk
    · cases h

theorem pyBindCore_final (s : Sig N V T) (cas fill : List V) (kw' c : List (N × V))
    (hbp : bindPos kw' s.pos (cas ++ fill) = bindPos c s.pos cas)
    (hbk : bindKos kw' s.kos = bindKos c s.kos)
    (hex : kw'.filter (fun e => !s.kwTarget e.1) = c.filter (fun e => !s.kwTarget e.1))
    (hlen : fill.length ≤ (s.pos.drop cas.length).length) :
    pyBindCore s (cas ++ fill) kw' = pyBindCore s cas c := by
  simp only [List.length_drop] at hlen
  unfold pyBindCore
  have h1 : (s.pos.length < (cas ++ fill).length) = (s.pos.length < cas.length) := by
    simp only [List.length_append, eq_iff_iff]; omega
  have h2 : (cas ++ fill).drop s.pos.length = cas.drop s.pos.length := by
    rw [List.drop_append]
    have : fill.drop (s.pos.length - cas.length) = [] := List.drop_eq_nil_of_le (by omega)
    rw [this, List.append_nil]
  simp only [h1, hbp, hbk, hex, h2]

end Utv.C08
