import Utv.Model.C07
/-!
C07 — the property's own vocabulary (written against the declarations, not against the mutators).

`conf name v`   : value `v` conforms to the declared type and constraints of the field called `name`
`addOk v`       : `v` conforms to the declared addition type
-/
namespace Utv.C07
variable {V : Type}

/-- a field is present in the view that holds it -/
def present (s : State V) (f : Field) : Bool :=
  if f.noOutput then s.attrs.has f.attname else s.data.has f.name

/-- "every present field still conforms to its declared type and constraints, required fields are
present, the attribute view and the key view agree; no unparsed data in the instance" -/
structure Valid (C : Cls) (conf : String → V → Prop) (addOk : V → Prop) (s : State V) : Prop where
  /-- a field's value sits under the field's output name, not under some other of its aliases -/
  keyName  : ∀ k v f, s.data.get k = some v → getField C k = some f → k = f.name
  confData : ∀ f ∈ C.fields, ∀ v, s.data.get f.name = some v → conf f.name v
  confAttr : ∀ f ∈ C.fields, ∀ v, s.attrs.get f.attname = some v → conf f.name v
  /-- a key that is no field is an accepted addition of the declared addition type -/
  addition : ∀ k v, s.data.get k = some v → getField C k = none →
    C.opts.addition = .allow ∨ (C.opts.addition = .typed ∧ addOk v)
  required : ∀ f ∈ C.fields, f.required = true → C.opts.ignoreRequired = false → present s f = true
  /-- views: a no_output field never shows under the keys … -/
  viewsNo  : ∀ f ∈ C.fields, f.noOutput = true → s.data.get f.name = none
  /-- … and an output field that is absent from the keys is absent as an attribute too -/
  viewsOut : ∀ f ∈ C.fields, f.noOutput = false → s.data.get f.name = none → s.attrs.get f.attname = none
  /-- a property is never kept in `__dict__` -/
  propAttr : ∀ p ∈ C.fields, p.isProp = true → s.attrs.get p.attname = none

/-- "immutable fields hold their initial value": what both views store for a field -/
def stored (s : State V) (f : Field) : Option V × Option V := (s.data.get f.name, s.attrs.get f.attname)

/-- a dependency is readable through the attribute view without falling back on a default -/
def avail (s : State V) (f : Field) : Bool := s.data.has f.name || s.attrs.has f.attname

/-- "properties that depend on a changed field have been recomputed": every stored property equals
its getter applied to the current attribute values of its dependencies -/
def Fresh (C : Cls) (W : World V) (s : State V) : Prop :=
  ∀ p ∈ C.fields, p.isProp = true → ∀ v, s.data.get p.name = some v →
    compute C W s p = some v ∧ ∀ d ∈ p.deps, ∀ df, getField C d = some df → avail s df = true

/-- "no public operation can place unparsed data into the instance": where a value under the keys comes from
(`xs`: the raw arguments of the operation) -/
def Origin (C : Cls) (W : World V) (xs : List V) (s : State V) (k : String) (v : V) : Prop :=
  s.data.get k = some v                                                            -- it was there
  ∨ (∃ f, getField C k = some f ∧ ∃ x ∈ xs, W.parse f.name x = some v)            -- an argument, converted by the field's type
  ∨ (∃ p raw, getField C k = some p ∧ W.convert p.name raw = some v)              -- a getter result, converted
  ∨ (getField C k = none ∧ ((C.opts.addition = .allow ∧ v ∈ xs) ∨ ∃ x ∈ xs, W.parseAdd x = some v))   -- an accepted addition

/-- … and where a value in `__dict__` comes from -/
def OriginAttr (C : Cls) (W : World V) (xs : List V) (s : State V) (a : String) (v : V) : Prop :=
  s.attrs.get a = some v
  ∨ (∃ f, fieldByAtt C a = some f ∧ ∃ x ∈ xs, W.parse f.name x = some v)
  ∨ (fieldByAtt C a = none ∧ v ∈ xs)              -- a plain instance attribute that is no field

/-- what the theorems assume about the abstract converters -/
structure Laws (W : World V) (conf : String → V → Prop) (addOk : V → Prop) : Prop where
  parseSound  : ∀ f x v, W.parse f x = some v → conf f v        -- C01: a converter's result conforms
  addSound    : ∀ x v, W.parseAdd x = some v → addOk v
  convertSound : ∀ p raw v, W.convert p raw = some v → conf p v  -- the converted getter result conforms

/-- single-key operations (update and `|=` are sequences of `__setitem__`) -/
def Op.singleKey : Op V → Bool
  | .update kvs => kvs.length ≤ 1
  | .ior kvs => kvs.length ≤ 1
  | _ => true

/-! ### DataClass -/

structure DcValid (C : Cls) (conf : String → V → Prop) (s : State V) : Prop where
  confAttr : ∀ f ∈ C.fields, ∀ v, s.attrs.get f.attname = some v → conf f.name v
  required : ∀ f ∈ C.fields, f.required = true → C.opts.ignoreRequired = false → s.attrs.has f.attname = true

end Utv.C07
