"""C17 — forward references and declaration order do not change behaviour.

A case is a small *program*: data classes whose field annotations are type expressions with
reference leaves in every spelling (direct name, quoted leaf, whole annotation as a string,
`from __future__ import annotations`, function-local scope), a definition order and a sequence of
uses (parses).  The adapter generates Python source from the descriptor, execs it in a fresh module
against the real utype, and canonicalises every use's outcome.  The Lean driver runs the model of
the registration / lazy-resolution machinery on the same descriptor and predicts, per use, the
parse outcome (ok value / parse error / unresolved reference).  The oracle (`spec`) is the
property itself: every use must return what the *directly written* declaration returns, computed by
`ref_parse` below from the type structure alone.
"""
from __future__ import annotations

import json
import random

from .common import Check

# ------------------------------------------------------------------------------------------------
# type descriptors
#   {"t":"int"} {"t":"str"}
#   {"t":"ref","n":"B","q":bool}          q: written as a quoted string leaf ('B') / as the bare name
#   {"t":"list","a":T} {"t":"dict","a":T} {"t":"opt","a":T} {"t":"tuple","as":[T..]} {"t":"union","as":[T..]}
#   {"t":"whole","a":T}                   the whole annotation is one string (top level of a field only)
# ------------------------------------------------------------------------------------------------


def ann_src(t, quoted_ok=True) -> str:
    k = t["t"]
    if k == "int":
        return "int"
    if k == "str":
        return "str"
    if k == "ref":
        return repr(t["n"]) if (t.get("q") and quoted_ok) else t["n"]
    if k == "list":
        return f"List[{ann_src(t['a'], quoted_ok)}]"
    if k == "dict":
        return f"Dict[str, {ann_src(t['a'], quoted_ok)}]"
    if k == "opt":
        return f"Optional[{ann_src(t['a'], quoted_ok)}]"
    if k == "tuple":
        return "Tuple[" + ", ".join(ann_src(a, quoted_ok) for a in t["as"]) + "]"
    if k == "union":
        return "Union[" + ", ".join(ann_src(a, quoted_ok) for a in t["as"]) + "]"
    if k == "whole":
        return repr(ann_src(t["a"], False))
    raise ValueError(k)


def program_src(case) -> str:
    """Python source of the program; every use appends its canonical outcome to `_out`."""
    lines = []
    if case.get("future"):
        lines.append("from __future__ import annotations")
    lines += ["import utype", "from utype import Schema, Field", "from typing import List, Dict, Optional, Tuple, Union", ""]
    ind = ""
    if case.get("local"):
        lines.append("def _scope(_out, _canon):")
        ind = "    "
    for op in case["prog"]:
        if "def" in op:
            name = op["def"]
            c = case["classes"][name]
            if c.get("kind") == "dataclass":
                lines.append(f"{ind}@utype.dataclass")
                lines.append(f"{ind}class {name}:")
            else:
                lines.append(f"{ind}class {name}(Schema):")
            if not c["fields"]:
                lines.append(f"{ind}    pass")
            for fname, t in c["fields"]:
                lines.append(f"{ind}    {fname}: {ann_src(t)} = Field(required=False)")
        elif "fn" in op:
            f = case["funcs"][op["fn"]]
            lines.append(f"{ind}@utype.parse")
            lines.append(f"{ind}def {op['fn']}(a: {ann_src(f['arg'])} = None):")
            lines.append(f"{ind}    return a")
        elif "use" in op:
            lines.append(f"{ind}_canon(_out, lambda: {op['use']}(**{op['input']!r}))")
        elif "call" in op:
            lines.append(f"{ind}_canon(_out, lambda: {op['call']}({op['input']!r}))")
    if case.get("local"):
        lines.append("_scope(_out, _canon)")
    return "\n".join(lines) + "\n"


_COUNTER = [0]


def _canon_value(v):
    # data-class instances -> {"$": class name, fields...}; containers recursively
    import utype
    parser = getattr(type(v), "__parser__", None)
    if parser is not None and not isinstance(v, type):
        d = {}
        for k in parser.fields:
            if isinstance(v, dict):
                if k in v:
                    d[k] = _canon_value(v[k])
            elif k in getattr(v, "__dict__", {}):
                d[k] = _canon_value(v.__dict__[k])
        return {"$": type(v).__name__, "f": d}
    if isinstance(v, dict):
        return {"%": {str(k): _canon_value(x) for k, x in v.items()}}
    if isinstance(v, (list, tuple)):
        return [("T" if isinstance(v, tuple) else "L")] + [_canon_value(x) for x in v]
    if v is None or isinstance(v, (bool, int, str)):
        return v
    return {"?": type(v).__name__}


def _canon(out, thunk):
    from utype.utils import exceptions as exc
    try:
        r = thunk()
        out.append({"ok": _canon_value(r)})
    except exc.ParseError as e:
        msg = str(e)
        out.append({"err": "unresolved" if "not evaluated" in msg else "parse"})
    except NameError:
        out.append({"err": "name"})
    except RecursionError:
        out.append({"err": "recursion"})
    except Exception as e:   # anything else escaping the public entry point
        out.append({"err": "escape:" + type(e).__name__})


def impl(case):
    import sys
    import types
    import typing
    import warnings
    warnings.simplefilter("ignore")
    # typing memoises List['B'] etc. process-wide; a case must not see ForwardRef cells of earlier cases
    for f in getattr(typing, "_cleanups", []):
        f()
    _COUNTER[0] += 1
    modname = f"_c17_mod_{_COUNTER[0]}"
    mod = types.ModuleType(modname)
    sys.modules[modname] = mod
    out = []
    mod.__dict__["_out"] = out
    mod.__dict__["_canon"] = _canon
    src = program_src(case)
    res = {}
    try:
        exec(compile(src, modname + ".py", "exec", dont_inherit=True), mod.__dict__)
    except Exception as e:
        res["setup"] = type(e).__name__
    finally:
        sys.modules.pop(modname, None)
    res["outs"] = out
    return res
