import Utv.Model.C05
/-!
C06 — the lookup strategy as an observable: `parse_data` with `data_first_search` forced
(utype/parser/base.py:389-402, options.py:89).  The two strategies themselves are modelled in
`Utv.Model.C05` (`dataFirst`, `fieldFirst`; before the fix: `dataFirstLegacy`, `fieldFirstLegacy`).
-/
namespace Utv.C06
open Utv.C05

variable {V : Type}

/-- `parse_data` with the strategy forced: the prologue, then one of the two loops (base.py:389-402) -/
def parseWith [DecidableEq V] (W : World V) (P : Parser V) (o : Opts V) (data : List (Key × V)) (df : Bool) : St V :=
  let st := if df then dataFirst {} W P o data else fieldFirst {} W P o data
  { st with errs := paramsCheck o data.length ++ st.errs }

/-- what the caller observes when parsing with a forced strategy -/
def runWith [DecidableEq V] (W : World V) (P : Parser V) (o : Opts V) (data : List (Key × V)) (df : Bool) : Outcome V :=
  finish {} W P o (parseWith W P o data df)

/-- the same before fixes/C06-1..5-*.patch -/
def runWithLegacy [DecidableEq V] (W : World V) (P : Parser V) (o : Opts V) (data : List (Key × V)) (df : Bool) :
    Outcome V :=
  let st := if df then dataFirstLegacy W P o data else fieldFirstLegacy W P o data
  finish {} W P o { st with errs := paramsCheck o data.length ++ st.errs }

end Utv.C06
