import Utv.GenEq.Support
import Utv.Gen.Schema
import Utv.Model.C07
/-!
C07 — T1 obligations: the deleting mutators of `Schema` (utype/schema.py), regenerated on every run as
`Utv.Gen.Schema.*`, are the hand model's `contains / fieldDeleter / delitem / pop` (`Model/C07.lean`, repaired branch
`lg = false`).

Encoding.  A `Schema` instance is a `dict` subclass: its items live under the pseudo attribute `"<dict>"`, its instance
attributes under `"__dict__"` (both: the model's insertion-ordered `Map`, keys as strings, values abstract); it also carries
`__options__` (the two switches the mutators read) and `__parser__`.  The parser's `get_field` and a field's `is_required`
are the world's: `get_field(k)` answers the model's `getField C k`, `field.is_required(options)` answers
`required && !ignore_required`.  `KeyError` of the underlying dict is the object layer's `Exc.keyError`.
-/
namespace Utv.GenEq.C07
open Utv.Obj Utv.Gen

variable {V : Type}

abbrev MMap (V : Type) := Utv.C07.Map V
abbrev MField := Utv.C07.Field
abbrev MOpts := Utv.C07.Opts
abbrev MCls := Utv.C07.Cls
abbrev MState (V : Type) := Utv.C07.State V
abbrev MRes (V : Type) := Utv.C07.Res V

def encKvs (m : MMap V) : List (OVal V × OVal V) := m.map fun p => (.str p.1, .val p.2)
def encMap (m : MMap V) : OVal V := .dict (encKvs m)

/-- the method object `field.is_required` -/
def isReq (f : MField) : OVal V := .obj "method:is_required" [("name", .str f.name), ("required", .bool f.required)]

def encField (f : MField) : OVal V :=
  .obj "ParserField" [("name", .str f.name), ("attname", .str f.attname), ("immutable", .bool f.immutable),
    ("is_required", isReq f)]

def encOptField : Option MField → OVal V
  | none => .none
  | some f => encField f

def encOpts (o : MOpts) : OVal V :=
  .obj "Options" [("immutable", .bool o.immutable), ("ignore_delete_nonexistent", .bool o.ignoreDeleteNonexistent),
    ("ignore_required", .bool o.ignoreRequired)]

/-- the instance: options, parser, items, attributes -/
def mkSelf (P o d a : OVal V) : OVal V :=
  .obj "Schema" [("__options__", o), ("__parser__", P), ("<dict>", d), ("__dict__", a)]

/-- the bound method `parser.get_field` -/
def getFieldFn : OVal V := .obj "method:get_field" []
def parserObj (fields : OVal V) : OVal V := .obj "ClassParser" [("get_field", getFieldFn), ("fields", fields)]

def encSelf (fields : OVal V) (C : MCls) (s : MState V) : OVal V :=
  mkSelf (parserObj fields) (encOpts C.opts) (encMap s.data) (encMap s.attrs)

structure WorldOk (W : World V) (C : MCls) : Prop where
  getField : ∀ k : String, W.call getFieldFn [.str k] = .ok (encOptField (Utv.C07.getField C k))
  isRequired : ∀ f : MField, W.call (isReq f) [encOpts C.opts] = .ok (.bool (f.required && !C.opts.ignoreRequired))

/-! ### attribute lemmas (by `rfl`, so that no proof re-runs the string comparisons) -/

theorem ga_options (P o d a : OVal V) : getattr (mkSelf P o d a) "__options__" = .ok o := rfl
theorem ga_parser (P o d a : OVal V) : getattr (mkSelf P o d a) "__parser__" = .ok P := rfl
theorem ga_items (P o d a : OVal V) : getattr (mkSelf P o d a) "<dict>" = .ok d := rfl
theorem ga_attrs (P o d a : OVal V) : getattr (mkSelf P o d a) "__dict__" = .ok a := rfl
theorem sa_items (P o d a d' : OVal V) : setattr (mkSelf P o d a) "<dict>" d' = .ok (mkSelf P o d' a) := rfl
theorem sa_attrs (P o d a a' : OVal V) : setattr (mkSelf P o d a) "__dict__" a' = .ok (mkSelf P o d a') := rfl
theorem ga_getField (fs : OVal V) : getattr (parserObj fs) "get_field" = .ok getFieldFn := rfl
theorem ga_fields (fs : OVal V) : getattr (parserObj fs) "fields" = .ok fs := rfl
theorem ga_immutable (o : MOpts) : getattr (encOpts (V := V) o) "immutable" = .ok (.bool o.immutable) := rfl
theorem ga_idn (o : MOpts) :
    getattr (encOpts (V := V) o) "ignore_delete_nonexistent" = .ok (.bool o.ignoreDeleteNonexistent) := rfl
theorem ga_fname (f : MField) : getattr (encField (V := V) f) "name" = .ok (.str f.name) := rfl
theorem ga_fattname (f : MField) : getattr (encField (V := V) f) "attname" = .ok (.str f.attname) := rfl
theorem ga_fimmutable (f : MField) : getattr (encField (V := V) f) "immutable" = .ok (.bool f.immutable) := rfl
theorem ga_fisreq (f : MField) : getattr (encField (V := V) f) "is_required" = .ok (isReq f) := rfl
theorem truthy_field (f : MField) : truthy (encField (V := V) f) = .ok true := rfl

/-! ### the model's `Map` under the dict operations -/

theorem eq_str (a b : String) : Obj.eq (V := V) (.str a) (.str b) = .ok (a == b) := rfl

theorem lookup_enc (k : String) (m : MMap V) :
    lookupKey (.str k) (encKvs m) = .ok ((Utv.C07.Map.get m k).map OVal.val) := by
  induction m with
  | nil => rfl
  | cons p m ih =>
    obtain ⟨k', v⟩ := p
    simp only [encKvs, List.map_cons, lookupKey, eq_str, bind, Except.bind, Utv.C07.Map.get] at ih ⊢
    by_cases h : k' = k
    · subst h; simp [pure, Except.pure]
    · have h' : (k == k') = false := by simpa using fun e => h e.symm
      simp [h, h', ih]

theorem delKey_enc (k : String) (m : MMap V) : delKey (.str k) (encKvs m) = .ok (encKvs (Utv.C07.Map.del m k)) := by
  induction m with
  | nil => rfl
  | cons p m ih =>
    obtain ⟨k', v⟩ := p
    simp only [encKvs, List.map_cons, delKey, eq_str, bind, Except.bind, Utv.C07.Map.del] at ih ⊢
    by_cases h : k' = k
    · subst h; simp [ih]
    · have h' : (k == k') = false := by simpa using fun e => h e.symm
      simp [h, h', ih, pure, Except.pure]

theorem contains_enc (k : String) (m : MMap V) : contains (encMap m) (.str k) = .ok (Utv.C07.Map.has m k) := by
  simp only [encMap, contains, lookup_enc, bind, Except.bind, pure, Except.pure, Utv.C07.Map.has]
  cases Utv.C07.Map.get m k <;> rfl

theorem dictDel_enc (k : String) (m : MMap V) :
    dictDel (encMap m) (.str k) = if Utv.C07.Map.has m k then .ok (encMap (Utv.C07.Map.del m k)) else .error .keyError := by
  simp only [encMap, dictDel, lookup_enc, delKey_enc, bind, Except.bind, pure, Except.pure, Utv.C07.Map.has,
    Option.isSome_map]
  rfl

theorem del_absent (k : String) (m : MMap V) (h : Utv.C07.Map.has m k = false) : Utv.C07.Map.del m k = m := by
  induction m with
  | nil => rfl
  | cons p m ih =>
    obtain ⟨k', v⟩ := p
    simp only [Utv.C07.Map.has, Utv.C07.Map.get, Utv.C07.Map.del] at h ih ⊢
    by_cases hk : k' = k
    · simp [hk] at h
    · simp only [hk, if_false] at h ⊢
      rw [ih h]

/-! ### results -/

def encExc : Utv.C07.Exc → OVal V
  | .update => .obj "UpdateError" []
  | .delete => .obj "DeleteError" []
  | .parse => .obj "ParseError" []
  | .key => .obj "KeyError" []
  | .attr => .obj "AttributeError" []

/-- what a mutator leaves: the instance and its outcome; a `KeyError` of the underlying `dict` is `Exc.keyError` -/
def encOut (fs : OVal V) (C : MCls) (r : MState V × MRes V) : M V (OVal V × Outcome V) :=
  match r.2 with
  | .ok none => .ok (encSelf fs C r.1, .ret .none)
  | .ok (some v) => .ok (encSelf fs C r.1, .ret (.val v))
  | .err .key => .error .keyError
  | .err e => .ok (encSelf fs C r.1, .raise (encExc e))

/-- `key in self` (schema.py `Schema.__contains__`) is the model's `contains` -/
theorem C07_gen_contains (W : World V) (fs : OVal V) (C : MCls) (s : MState V) (k : String) (hw : WorldOk W C) :
    Schema.contains_ W (encSelf fs C s) (.str k) = .ok (.bool (Utv.C07.contains C s k)) := by
  gen_obligation "C07_gen_contains: the regenerated code (Utv.Gen) is no longer equal to the hand model here" by
    unfold Schema.contains_ encSelf
    simp only [ga_parser, ga_getField, hw.getField, ga_items, bind, Except.bind, pure, Except.pure, Utv.C07.contains]
    cases Utv.C07.getField C k with
    | none => simp [encOptField, contains_enc]
    | some f => simp [encOptField, truthy_field, ga_fname, contains_enc]

/-! ### the instance's attributes, as the mutators read and write them -/

theorem gs_options (fs : OVal V) (C : MCls) (s : MState V) : getattr (encSelf fs C s) "__options__" = .ok (encOpts C.opts) := rfl
theorem gs_parser (fs : OVal V) (C : MCls) (s : MState V) : getattr (encSelf fs C s) "__parser__" = .ok (parserObj fs) := rfl
theorem gs_items (fs : OVal V) (C : MCls) (s : MState V) : getattr (encSelf fs C s) "<dict>" = .ok (encMap s.data) := rfl
theorem gs_attrs (fs : OVal V) (C : MCls) (s : MState V) : getattr (encSelf fs C s) "__dict__" = .ok (encMap s.attrs) := rfl
theorem ss_items (fs : OVal V) (C : MCls) (s : MState V) (d : MMap V) :
    setattr (encSelf fs C s) "<dict>" (encMap d) = .ok (encSelf fs C { s with data := d }) := rfl
theorem ss_attrs (fs : OVal V) (C : MCls) (s : MState V) (a : MMap V) :
    setattr (encSelf fs C s) "__dict__" (encMap a) = .ok (encSelf fs C { s with attrs := a }) := rfl
theorem callable_none : callable (OVal.none : OVal V) = .ok false := rfl

/-- a field is found under its own output name (or the name belongs to nobody) -/
def OwnName (C : MCls) (f : MField) : Prop := ∀ g, Utv.C07.getField C f.name = some g → g.name = f.name

theorem contains_name (C : MCls) (s : MState V) (f : MField) (h : OwnName C f) :
    Utv.C07.contains C s f.name = Utv.C07.Map.has s.data f.name := by
  unfold Utv.C07.contains
  cases hg : Utv.C07.getField C f.name with
  | none => rfl
  | some g => simp [h g hg]

/-- `Schema.__field_deleter__` without a property deleter is the model's `fieldDeleter` -/
theorem C07_gen_field_deleter (W : World V) (fs : OVal V) (C : MCls) (s : MState V) (f : MField) (hw : WorldOk W C)
    (hn : OwnName C f) :
    Schema.field_deleter W (encSelf fs C s) (encField f) .none
      = encOut fs C (Utv.C07.fieldDeleter false C s f) := by
  gen_obligation "C07_gen_field_deleter: the regenerated code (Utv.Gen) is no longer equal to the hand model here" by
    unfold Schema.field_deleter
    simp only [gs_options, ga_immutable, ga_fimmutable, truthy_bool, callable_none, ga_fisreq, hw.isRequired, ga_fname, ga_idn,
      C07_gen_contains W fs C _ _ hw, contains_name C _ f hn, gs_items, gs_attrs, ga_fattname, contains_enc, dictDel_enc,
      bind, Except.bind, pure, Except.pure, Utv.C07.fieldDeleter]
    cases hi : C.opts.immutable <;> cases hfi : f.immutable <;> try (simp [encOut, encExc]; done)
    cases hr : (f.required && !C.opts.ignoreRequired) <;> try (simp [encOut, encExc]; done)
    cases hd : Utv.C07.Map.has s.data f.name
    · cases C.opts.ignoreDeleteNonexistent <;> simp [encOut, encExc]
    · simp only [Bool.false_eq_true, if_false, if_true, Bool.not_true, Bool.or_self, ss_items, gs_attrs, ga_fattname,
        contains_enc, dictDel_enc]
      cases ha : Utv.C07.Map.has s.attrs f.attname
      · simp [encOut, del_absent _ _ ha]
      · simp [encOut, ss_attrs]

/-- `del schema[key]` (`Schema.__delitem__`) is the model's `delitem` -/
theorem C07_gen_delitem (W : World V) (fs : OVal V) (C : MCls) (s : MState V) (k : String) (hw : WorldOk W C)
    (hn : ∀ f, Utv.C07.getField C k = some f → OwnName C f) :
    Schema.delitem W (encSelf fs C s) (.str k) = encOut fs C (Utv.C07.delitem false C s k) := by
  gen_obligation "C07_gen_delitem: the regenerated code (Utv.Gen) is no longer equal to the hand model here" by
    unfold Schema.delitem
    simp only [gs_options, ga_immutable, truthy_bool, gs_parser, ga_getField, hw.getField, gs_items, dictDel_enc,
      bind, Except.bind, pure, Except.pure, Utv.C07.delitem]
    cases hi : C.opts.immutable
    · cases hg : Utv.C07.getField C k with
      | none =>
        cases hd : Utv.C07.Map.has s.data k <;> simp [encOptField, encOut, ss_items]
      | some f =>
        simp only [encOptField, truthy_field, Bool.false_eq_true, if_false, Bool.not_true,
          C07_gen_field_deleter W fs C s f hw (hn f hg)]
        generalize Utv.C07.fieldDeleter false C s f = r
        obtain ⟨s', r⟩ := r
        cases r with
        | ok x => cases x <;> simp [encOut]
        | err e => cases e <;> simp [encOut, encExc]
    · simp [encOut, encExc]

def encDefault : Option V → OVal V
  | none => .unprovided
  | some v => .val v

theorem dictPop_enc (k : String) (m : MMap V) (args : OVal V) :
    dictPop (encMap m) (.str k) args = match Utv.C07.Map.get m k with
      | some v => .ok (encMap (Utv.C07.Map.del m k), .val v)
      | none => match args with
        | .seq _ [dflt] => .ok (encMap m, dflt)
        | .seq _ [] => .error .keyError
        | _ => .error (.unmodelled "pop with more than one default") := by
  simp only [encMap, dictPop, lookup_enc, delKey_enc, bind, Except.bind, pure, Except.pure]
  cases Utv.C07.Map.get m k <;> rfl

/-- `Schema.pop` is the model's `pop` -/
theorem C07_gen_pop (W : World V) (fs : OVal V) (C : MCls) (s : MState V) (k : String) (d : Option V) (hw : WorldOk W C) :
    Schema.pop W (encSelf fs C s) (.str k) (encDefault d) = encOut fs C (Utv.C07.pop false C s k d) := by
  gen_obligation "C07_gen_pop: the regenerated code (Utv.Gen) is no longer equal to the hand model here" by
    unfold Schema.pop
    simp only [gs_options, ga_immutable, truthy_bool, gs_parser, ga_getField, hw.getField, gs_items, dictPop_enc,
      bind, Except.bind, pure, Except.pure, Utv.C07.pop]
    cases hi : C.opts.immutable
    · cases hg : Utv.C07.getField C k with
      | none =>
        cases hd : Utv.C07.Map.get s.data k <;> simp [encOptField, encOut, ss_items]
      | some f =>
        simp only [encOptField, truthy_field, Bool.false_eq_true, if_false, Bool.not_true, ga_fimmutable, truthy_bool,
          ga_fisreq, hw.isRequired, ga_fname, ga_fattname, contains_enc]
        cases hfi : f.immutable <;> try (simp [encOut, encExc]; done)
        cases hr : (f.required && !C.opts.ignoreRequired) <;> try (simp [encOut, encExc]; done)
        have hu : ∀ v : V, (OVal.val v : OVal V).isUnprovided = false := fun _ => rfl
        have hu' : (OVal.unprovided : OVal V).isUnprovided = true := rfl
        cases hget : Utv.C07.Map.get s.data f.name with
        | none =>
          have hh : Utv.C07.Map.has s.data f.name = false := by simp [Utv.C07.Map.has, hget]
          cases d <;> simp [encDefault, hu, hu', dictPop_enc, hget, hh, encOut, ss_items]
        | some v =>
          have hh : Utv.C07.Map.has s.data f.name = true := by simp [Utv.C07.Map.has, hget]
          cases ha : Utv.C07.Map.has s.attrs f.attname
          · cases d <;>
              simp [encDefault, hu, hu', dictPop_enc, hget, hh, ha, encOut, ss_items, ss_attrs, gs_attrs, contains_enc,
                dictDel_enc, del_absent _ _ ha]
          · cases d <;>
              simp [encDefault, hu, hu', dictPop_enc, hget, hh, ha, encOut, ss_items, ss_attrs, gs_attrs, contains_enc,
                dictDel_enc]
    · simp [encOut, encExc]

/-- `popitem()` hands back the pair (key, value); on an empty schema it raises its own `KeyError` -/
def encOutItem (fs : OVal V) (C : MCls) (key : Option String) (r : MState V × MRes V) : M V (OVal V × Outcome V) :=
  match key, r.2 with
  | some k, .ok (some v) => .ok (encSelf fs C r.1, .ret (.seq .tuple [.str k, .val v]))
  | some k, .ok none => .ok (encSelf fs C r.1, .ret (.seq .tuple [.str k, .none]))
  | none, .err .key => .ok (encSelf fs C r.1, .raise (.obj "KeyError" []))
  | _, _ => encOut fs C r

theorem lastKey_enc (m : MMap V) :
    dictLastKey (encMap m) = match Utv.C07.Map.lastKey m with
      | some k => .ok (.str k)
      | none => .error (.raised (.obj "StopIteration" [])) := by
  simp only [encMap, dictLastKey, encKvs, List.getLast?_map, Utv.C07.Map.lastKey]
  cases m.getLast? <;> rfl

theorem len_enc (m : MMap V) : len (encMap m) = .ok (.int m.length) := by
  simp [encMap, len, encKvs, pure, Except.pure]

/-- `Schema.popitem` is the model's `popitem`: the last key, through `pop` -/
theorem C07_gen_popitem (W : World V) (fs : OVal V) (C : MCls) (s : MState V) (hw : WorldOk W C) :
    Schema.popitem W (encSelf fs C s) = encOutItem fs C (Utv.C07.Map.lastKey s.data) (Utv.C07.popitem false C s) := by
  gen_obligation "C07_gen_popitem: the regenerated code (Utv.Gen) is no longer equal to the hand model here" by
    unfold Schema.popitem
    simp only [gs_options, ga_immutable, truthy_bool, gs_items, len_enc, lastKey_enc, truthy, bind, Except.bind, pure,
      Except.pure, Utv.C07.popitem]
    cases hi : C.opts.immutable
    · cases hk : Utv.C07.Map.lastKey s.data with
      | none =>
        have hl : s.data.length = 0 := by
          simp only [Utv.C07.Map.lastKey, Option.map_eq_none_iff, List.getLast?_eq_none_iff] at hk
          simp [hk]
        simp [hl, encOutItem, encExc]
      | some k =>
        have hl : s.data.length ≠ 0 := by
          intro h0
          have : s.data = [] := List.length_eq_zero_iff.mp h0
          simp [Utv.C07.Map.lastKey, this] at hk
        have hl' : ((s.data.length : Int) != 0) = true := by simpa using hl
        have hp := C07_gen_pop W fs C s k none hw
        simp only [encDefault] at hp
        simp only [hl', Bool.not_true, Bool.false_eq_true, if_false, hp]
        generalize Utv.C07.pop false C s k none = r
        obtain ⟨s', r⟩ := r
        cases r with
        | ok x => cases x <;> simp [encOut, encOutItem]
        | err e => cases e <;> simp [encOut, encOutItem, encExc]
    · cases Utv.C07.Map.lastKey s.data <;> simp [encOutItem, encOut, encExc]

/-! ### `clear` -/

/-- `parser.fields` -/
def encFields (C : MCls) : OVal V := .dict (C.fields.map fun f => (.str f.attname, encField f))

def encItem (f : MField) : OVal V := .seq .tuple [.str f.attname, encField f]

theorem items_fields (C : MCls) : dictItems (encFields (V := V) C) = .ok (.seq .list (C.fields.map encItem)) := by
  simp [encFields, dictItems, pure, Except.pure, encItem, Function.comp_def]

theorem forIn_any {R : Type} (g : OVal V → Option R × PUnit → M V (ForInStep (Option R × PUnit)))
    (bad : MField → Bool) (ret : R) :
    ∀ xs : List MField,
      (∀ x, g (encItem x) (none, ⟨⟩) = .ok (if bad x then .done (some ret, ⟨⟩) else .yield (none, ⟨⟩))) →
      forIn (xs.map encItem) (none, PUnit.unit) g = .ok (if xs.any bad then (some ret, ⟨⟩) else (none, ⟨⟩)) := by
  intro xs hg
  induction xs with
  | nil => rfl
  | cons x xs ih =>
    simp only [List.map_cons, List.forIn_cons, hg x, List.any_cons]
    by_cases hx : bad x = true
    · simp [hx, bind, Except.bind, pure, Except.pure]
    · have hx' : bad x = false := by simpa using hx
      simp only [hx', bind, Except.bind, Bool.false_eq_true, if_false, Bool.false_or]
      exact ih

theorem forIn_foldl {β : Type} (g : OVal V → OVal V → M V (ForInStep (OVal V))) (encS : β → OVal V)
    (step : β → MField → β) :
    ∀ (xs : List MField) (b : β),
      (∀ x b, g (encItem x) (encS b) = .ok (.yield (encS (step b x)))) →
      forIn (xs.map encItem) (encS b) g = .ok (encS (xs.foldl step b)) := by
  intro xs
  induction xs with
  | nil => intro b _; rfl
  | cons x xs ih =>
    intro b hg
    simp only [List.map_cons, List.forIn_cons, hg x b, bind, Except.bind, List.foldl_cons]
    exact ih _ hg

/-- `Schema.clear` is the model's `clear` -/
theorem C07_gen_clear (W : World V) (C : MCls) (s : MState V) (hw : WorldOk W C) :
    Schema.clear W (encSelf (encFields C) C s) = encOut (encFields C) C (Utv.C07.clear false C s) := by
  gen_obligation "C07_gen_clear: the regenerated code (Utv.Gen) is no longer equal to the hand model here" by
    unfold Schema.clear
    simp only [gs_options, ga_immutable, truthy_bool, gs_parser, ga_fields, items_fields, iter, bind, Except.bind, pure,
      Except.pure, Utv.C07.clear]
    cases hi : C.opts.immutable
    · simp only [Bool.false_eq_true, if_false]
      have un : ∀ f : MField, unpack2 (encItem (V := V) f) = .ok (.str f.attname, encField f) := fun _ => rfl
      rw [forIn_any _ (fun f => f.immutable || (f.required && !C.opts.ignoreRequired))
        (encSelf (encFields C) C s, Outcome.raise (OVal.obj "DeleteError" []))]
      · by_cases hb : (C.fields.any fun f => f.immutable || f.required && !C.opts.ignoreRequired) = true
        · simp [hb, encOut, encExc]
        · simp only [hb, if_false]
          rw [forIn_foldl _ (fun a => encSelf (encFields C) C { data := s.data, attrs := a })
            (fun a f => if Utv.C07.Map.has s.data f.name = true then Utv.C07.Map.del a f.attname else a) C.fields s.attrs]
          · simp only [gs_items]
            have hc : dictClear (encMap s.data) = .ok (encMap (V := V) []) := rfl
            simp only [hc, ss_items]
            rfl
          · intro f a
            simp only [un, gs_items, gs_attrs, ga_fname, ga_fattname, contains_enc, dictDel_enc]
            cases hd : Utv.C07.Map.has s.data f.name
            · simp
            · cases ha : Utv.C07.Map.has a f.attname
              · simp [del_absent _ _ ha]
              · simp [ss_attrs]
      · intro f
        simp only [un, ga_fimmutable, truthy_bool, ga_fisreq, hw.isRequired]
        cases f.immutable <;> cases (f.required && !C.opts.ignoreRequired) <;> rfl
    · simp [encOut, encExc]

/-! ### `setdefault`, `update`: the dispatch around `__setitem__`

`__setitem__` itself (two threaded objects: the instance and the context it makes) is not translated; called on the
threaded instance it is the world's method, assumed to answer the model's `setitem`.  What is tied here is everything
around it: which lookups decide, what is returned, where the loop of `update` stops. -/

/-- what a method of the instance leaves, with every error an exception object -/
def encOutM (fs : OVal V) (C : MCls) (r : MState V × MRes V) : OVal V × Outcome V :=
  match r.2 with
  | .ok none => (encSelf fs C r.1, .ret .none)
  | .ok (some v) => (encSelf fs C r.1, .ret (.val v))
  | .err e => (encSelf fs C r.1, .raise (encExc e))

structure SetWorld (W : World V) (Wm : Utv.C07.World V) (fs : OVal V) (C : MCls) : Prop extends WorldOk W C where
  setitem : ∀ (s : MState V) (k : String) (v : V),
    W.method "__setitem__" (encSelf fs C s) [.str k, .val v] = .ok (encOutM fs C (Utv.C07.setitem false C Wm s k v))

theorem dictItem_enc (k : String) (m : MMap V) :
    dictItem (encMap m) (.str k) = match Utv.C07.Map.get m k with
      | some v => .ok (.val v)
      | none => .error .keyError := by
  simp only [encMap, dictItem, lookup_enc, bind, Except.bind, pure, Except.pure]
  cases Utv.C07.Map.get m k <;> rfl

/-- `schema[key]` (`Schema.__getitem__`) is the model's `getitem` -/
theorem C07_gen_getitem (W : World V) (fs : OVal V) (C : MCls) (s : MState V) (k : String) (hw : WorldOk W C) :
    Schema.getitem_ W (encSelf fs C s) (.str k) = match Utv.C07.getitem C s k with
      | some v => .ok (.val v)
      | none => .error .keyError := by
  gen_obligation "C07_gen_getitem: the regenerated code (Utv.Gen) is no longer equal to the hand model here" by
    unfold Schema.getitem_
    simp only [gs_parser, ga_getField, hw.getField, gs_items, bind, Except.bind, pure, Except.pure, Utv.C07.getitem]
    cases Utv.C07.getField C k with
    | none => simp [encOptField, dictItem_enc]
    | some f => simp [encOptField, truthy_field, ga_fname, dictItem_enc]

/-- `Schema.setdefault` around `__setitem__` is the model's `setdefault` -/
theorem C07_gen_setdefault (W : World V) (Wm : Utv.C07.World V) (fs : OVal V) (C : MCls) (s : MState V) (k : String) (v : V)
    (hw : SetWorld W Wm fs C) :
    Schema.setdefault W (encSelf fs C s) (.str k) (.val v)
      = .ok (encOutM fs C (Utv.C07.setdefault false C Wm s k v)) := by
  gen_obligation "C07_gen_setdefault: the regenerated code (Utv.Gen) is no longer equal to the hand model here" by
    unfold Schema.setdefault
    simp only [C07_gen_contains W fs C _ k hw.toWorldOk, C07_gen_getitem W fs C _ k hw.toWorldOk, hw.setitem, truthy_bool,
      bind, Except.bind, pure, Except.pure, Utv.C07.setdefault, Bool.false_eq_true, if_false]
    cases hc : Utv.C07.contains C s k
    · simp only [Bool.false_eq_true, if_false]
      generalize Utv.C07.setitem false C Wm s k v = r
      obtain ⟨s', res⟩ := r
      cases res with
      | err e => simp [encOutM]
      | ok x =>
        have hgi := C07_gen_getitem W fs C s' k hw.toWorldOk
        cases hg : Utv.C07.getitem C s' k <;> cases x <;> rw [hg] at hgi <;>
          simp [encOutM, hg, hgi, tryCatch, tryCatchThe, MonadExceptOf.tryCatch, Except.tryCatch, Exc.isA] <;> rfl
    · have hsome : (Utv.C07.getitem C s k).isSome = true := by
        unfold Utv.C07.contains at hc
        unfold Utv.C07.getitem
        cases hgf : Utv.C07.getField C k <;> simpa [Utv.C07.Map.has, hgf] using hc
      cases hg : Utv.C07.getitem C s k with
      | none => simp [hg] at hsome
      | some x => simp [encOutM]

def encKv (p : String × V) : OVal V := .seq .tuple [.str p.1, .val p.2]

theorem items_enc (m : MMap V) : dictItems (encMap m) = .ok (.seq .list (m.map encKv)) := by
  simp [encMap, encKvs, dictItems, pure, Except.pure, encKv, Function.comp_def]

theorem forIn_setitems (g : OVal V → Option (OVal V × Outcome V) × OVal V → M V (ForInStep (Option (OVal V × Outcome V) × OVal V)))
    (Wm : Utv.C07.World V) (fs : OVal V) (C : MCls) :
    ∀ (kvs : List (String × V)) (s : MState V),
      (∀ (p : String × V) (s : MState V), g (encKv p) (none, encSelf fs C s) = .ok (
        match Utv.C07.setitem false C Wm s p.1 p.2 with
        | (s', .ok _) => .yield (none, encSelf fs C s')
        | (s', .err e) => .done (some (encSelf fs C s', .raise (encExc e)), encSelf fs C s'))) →
      forIn (kvs.map encKv) (none, encSelf fs C s) g = .ok (
        match Utv.C07.setitems false C Wm s kvs with
        | (s', .ok _) => (none, encSelf fs C s')
        | (s', .err e) => (some (encSelf fs C s', .raise (encExc e)), encSelf fs C s')) := by
  intro kvs
  induction kvs with
  | nil => intro s _; rfl
  | cons p kvs ih =>
    intro s hg
    obtain ⟨k, v⟩ := p
    simp only [List.map_cons, List.forIn_cons, hg (k, v) s, Utv.C07.setitems]
    cases hr : Utv.C07.setitem false C Wm s k v with
    | mk s' res =>
      cases res with
      | err e => rfl
      | ok x =>
        simp only [bind, Except.bind]
        exact ih s' hg

theorem setitems_ok (Wm : Utv.C07.World V) (C : MCls) :
    ∀ (kvs : List (String × V)) (s : MState V) (x : Option V), (Utv.C07.setitems false C Wm s kvs).2 = .ok x → x = none := by
  intro kvs
  induction kvs with
  | nil => intro s x h; simpa [Utv.C07.setitems] using h.symm
  | cons p kvs ih =>
    intro s x h
    obtain ⟨k, v⟩ := p
    simp only [Utv.C07.setitems] at h
    cases hr : Utv.C07.setitem false C Wm s k v with
    | mk s' res =>
      rw [hr] at h
      cases res with
      | err e => simp at h
      | ok y => exact ih s' x h

/-- `Schema.update(mapping)` around `__setitem__` is the model's `update`: the keys in order, stopping at the first that raises -/
theorem C07_gen_update (W : World V) (Wm : Utv.C07.World V) (fs : OVal V) (C : MCls) (s : MState V) (kvs : List (String × V))
    (hw : SetWorld W Wm fs C) :
    Schema.update W (encSelf fs C s) (encMap kvs) (encMap [])
      = .ok (encOutM fs C (Utv.C07.update false C Wm s kvs)) := by
  gen_obligation "C07_gen_update: the regenerated code (Utv.Gen) is no longer equal to the hand model here" by
    unfold Schema.update
    have hdata : (do if (← truthy (encMap kvs)) then pure (← dictCopy (encMap kvs)) else pure (encMap ([] : MMap V)) : M V (OVal V))
        = .ok (encMap kvs) := by
      cases kvs <;> rfl
    simp only [gs_options, ga_immutable, truthy_bool, bind, Except.bind, pure, Except.pure, Utv.C07.update] at hdata ⊢
    cases hi : C.opts.immutable
    · simp only [Bool.false_eq_true, if_false, hdata, items_enc, iter]
      have un : ∀ p : String × V, unpack2 (encKv p) = .ok (.str p.1, .val p.2) := fun _ => rfl
      simp only [pure, Except.pure]
      rw [forIn_setitems _ Wm fs C kvs s]
      · have hok := setitems_ok Wm C kvs s
        generalize Utv.C07.setitems false C Wm s kvs = r at hok
        obtain ⟨s', res⟩ := r
        cases res with
        | err e => rfl
        | ok x =>
          have := hok x rfl
          subst this
          rfl
      · intro p s1
        simp only [un, hw.setitem]
        generalize Utv.C07.setitem false C Wm s1 p.1 p.2 = r
        obtain ⟨s', res⟩ := r
        cases res with
        | err e => rfl
        | ok x => cases x <;> rfl
    · simp [encOutM, encExc]

end Utv.GenEq.C07
