import Utv.Lemmas.C01Conv
import Utv.Lemmas.C01Val
import Utv.Lemmas.C01Loops
import Utv.Lemmas.C01Data
import Utv.Lemmas.C01Dec
/-!
C01 — parsed results always conform to the declared type and constraints.

`parse` (Model/C01.lean) is what `transformer(value, T)` does; its leaves are the converters of `Utv.Conv`, its validator
phase is `Utv.Rule.validate` over the validators regenerated from rule.py (T1).  `Conforms` is the property's own
predicate.  The headline theorem is for every `Prims` (only `PrimsTyped`: the builtins return values of their documented
class), every fuel, every declared type, every input value and every option set that does not waive the guarantee.
-/
namespace Utv.C01
open Utv.Conv
open Utv.Py (PyVal)

/-! ## Spec: what it means for a value to conform to a declared type -/

/-- elements / keys / values of a container result conform to the declared arguments -/
def argsConform (c : Ty → V → Prop) (k : ArgsK) (args : List Ty) (r : V) : Prop :=
  match k with
  | .none => True
  | .seq => ∃ t sk c' xs, args = [t] ∧ r = .seq sk c' xs ∧ ∀ x ∈ xs, c t x
  | .tuple => ∃ sk c' xs, r = .seq sk c' xs ∧ tuplePrefix c args xs
  | .map => ∃ c' kvs, r = .dict c' kvs ∧
      ((∃ kt, args = [kt] ∧ ∀ kv ∈ kvs, c kt kv.1) ∨
       (∃ kt vt, args = [kt, vt] ∧ ∀ kv ∈ kvs, c kt kv.1 ∧ c vt kv.2))

/-- `Conforms fuel T r`: `r` is an instance of the declared source type, satisfies every strict constraint, and its
elements, keys, values and fields conform recursively (`fuel` bounds the nesting of the declaration that is looked at;
`∃ fuel` is the property's predicate).  Union / xor: some condition; `&`: the last converting condition and the negations
after it; a negation says nothing about the value itself (see `C01_neg`); data class: every present field conforms or is
the declared default, no required field is missing. -/
def Conforms (PP : Utv.Py.Prims) (D : DEnv) : Nat → Ty → V → Prop
  | n, T, r =>
    match T, n with
    | .any, _ => True
    | .plain t, _ => isInstT r t = true
    | .neg _, _ => True
    | .applied t _, _ => isInstT r t = true            -- `@utype.apply`: an instance of the decorated class (see `C01_applied`)
    | .rule origin k args vs, n + 1 =>
      (match origin with
       | none => True
       | some ot => Conforms PP D n ot r) ∧
      ((origin.isSome = true ∧ isNone r = true) ∨      -- a `None` the origin produced ends the parse
       (argsConform (Conforms PP D n) k args r ∧ ∀ cv ∈ vs, Sat PP cv r))
    | .union ts, n + 1 => ∃ t ∈ ts, Conforms PP D n t r
    | .xor ts, n + 1 => ∃ t ∈ ts, Conforms PP D n t r
    | .all ts, n + 1 => ∀ t ∈ trailing ts, Conforms PP D n t r
    | .data k, n + 1 =>
      ∃ decl kvs, D.datas[k]? = some decl ∧ r = .dict (dataTagBase + k) kvs ∧
        ∀ f ∈ decl.fields,
          match lookupKey f.name kvs with
          | some x => Conforms PP D n f.ty x ∨ f.default = some x       -- declared defaults are trusted
          | none => f.required = false
    | _, 0 => False

/-! ## The region the theorem covers: known defects and fragment boundaries, all decidable -/

namespace KnownDefect
/-- known findings `lax-result-not-revalidated` / `lax-const-not-origin`: a `Lax(...)` validator transforms the value
after the strict ones ran -/
def laxValidator (vs : List (String × PyVal)) : Bool := vs.any fun cv => isLaxName cv.1

/-- is the declared constant an instance of the origin? -/
def constTyped : Option Ty → PyVal → Bool
  | none, _ => true
  | some (.plain t), c => (match ofPy c with | some rv => isInstT rv t | none => false)
  | some _, _ => false

/-- known finding `const-returns-declared-value`: `const` returns the declared constant, which the declaration check
lets be of a tolerated other class (`int` origin, `const=1.0`) -/
def constNotOrigin (origin : Option Ty) (vs : List (String × PyVal)) : Bool :=
  vs.any fun cv => cv.1 == "const" && !constTyped origin cv.2
end KnownDefect

/-- the origin conversion cannot hand back a Decimal (then `decimal_places` returns its input) -/
def originNotDec : Option Ty → Bool
  | some (.plain (.cls b _)) => b != .decimal
  | _ => false

/-- a `Decimal` rule in the order `validate_constraints` produces: bounds (`gt ge lt le`), then `decimal_places` (which
completes the Decimal to the declared places), then validators that hand their input back.  A `regex` before
`decimal_places` is the known finding `decimal-places-pads-after-regex`. -/
def decShape (origin : Option Ty) (k : ArgsK) (vs : List (String × PyVal)) : Bool :=
  (match origin with | some (.plain (.cls .decimal 0)) => true | _ => false) && k == .none &&
  (match vs.dropWhile (fun cv => orderNames.contains cv.1) with
   | (name, .int _) :: post => name == "decimal_places" && post.all (fun cv => strictPreservingNames.contains cv.1)
   | _ => false)

namespace OutsideProof
/-- validator lists the proof does not follow: on a Decimal, a `decimal_places` that is preceded by anything but bounds
(`regex` first: known finding) or has a non-int bound; `const` next to other validators or on a container with arguments
(never produced by `validate_constraints`); unknown names -/
def validators (origin : Option Ty) (k : ArgsK) (vs : List (String × PyVal)) : Bool :=
  !(vs.all (fun cv => preservingFor (originNotDec origin) cv.1) ||
    (vs.length == 1 && vs.all (fun cv => cv.1 == "const") && k == .none) ||
    decShape origin k vs)

/-- shapes `resolve_args_parser` never produces -/
def argsShape (origin : Option Ty) (k : ArgsK) (args : List Ty) : Bool :=
  !(match k, origin with
    | .none, _ => true
    | .seq, some (.plain (.cls b _)) => b.seqK?.isSome && args.length == 1
    | .tuple, some (.plain (.cls .tuple _)) => true
    | .map, some (.plain (.cls .dict _)) => args.length == 1 || args.length == 2
    | _, _ => false)

/-- abstract collection classes, classes that do not exist -/
def target (t : Target) : Bool :=
  !targetExists t || (match t with | .abc _ => true | _ => false)
end OutsideProof

/-- scalar builtin classes whose instances have a `PyVal` form -/
def pyScalar : Base → Bool
  | .noneType | .bool | .int | .float | .decimal | .str => true
  | _ => false

/-- a sufficient condition for "every value that conforms to `T` has a `PyVal` form" (`toPy ≠ none`): builtin scalar
classes (no user subclass), list / tuple / set / frozenset of such, unions of such.  A rule node WITH validators outside
this class can never return (the validator phase answers `unmodelled`), so the theorem would be vacuous there. -/
def hasPyForm : Nat → Ty → Bool
  | n, T =>
    match T, n with
    | .plain (.cls b 0), _ => pyScalar b
    | .rule (some ot) .none _ _, n + 1 => hasPyForm n ot
    | .rule (some (.plain (.cls b 0))) .seq [t] _, n + 1 =>
      (b == .list || b == .tuple || b == .set || b == .frozenset) && hasPyForm n t
    | .rule (some (.plain (.cls .tuple 0))) .tuple ts _, n + 1 => ts.all (hasPyForm n)
    | .union ts, n + 1 => ts.all (hasPyForm n)
    | .xor ts, n + 1 => ts.all (hasPyForm n)
    | _, _ => false

namespace OutsideProof
/-- validators on a node whose values need not have a `PyVal` form (dict / bytes / deque / date-time / uuid / enum origins,
user-subclass origins, containers holding such values or data-class instances): the model answers `unmodelled` there -/
def noPyForm (m : Nat) (origin : Option Ty) (k : ArgsK) (args : List Ty) (vs : List (String × PyVal)) : Bool :=
  !vs.isEmpty && origin.isSome && !hasPyForm (m + 1) (.rule origin k args [])
end OutsideProof

/-- `Clean m T`: no node of the declaration `T` falls under a known finding or outside the proof fragment (`m` bounds the
*syntactic* nesting of `T` only; a reference to a data class is just a valid index — recursion through data classes is the
business of `CleanEnv`, so self-referential classes are inside the region) -/
def Clean (D : DEnv) : Nat → Ty → Bool
  | n, T =>
    match T, n with
    | .any, _ => true
    | .plain t, _ => !KnownDefect.subclassPlain t && !OutsideProof.target t
    | .neg _, _ => true
    | .data k, _ => decide (k < D.datas.length)
    | .rule origin k args vs, n + 1 =>
      (match origin with | none => true | some ot => Clean D n ot) && args.all (Clean D n) &&
      !KnownDefect.laxValidator vs && !KnownDefect.constNotOrigin origin vs &&
      !OutsideProof.validators origin k vs && !OutsideProof.argsShape origin k args &&
      !OutsideProof.noPyForm n origin k args vs
    | .union ts, n + 1 => ts.all (Clean D n)
    | .xor ts, n + 1 => ts.all (Clean D n)
    | .all ts, n + 1 => ts.all (Clean D n)
    | .applied t inner, n + 1 =>
      -- the Rule `@utype.apply` built has the decorated class as its origin and no arguments
      Clean D n inner && (match inner with | .rule (some (.plain t')) .none _ _ => t' == t | _ => false)
    | _, 0 => false

/-- every data class of the environment is safe (`on_error` / class options without 'preserve'), has distinct field
names, and every field type is `Clean` -/
def CleanEnv (D : DEnv) (m : Nat) : Bool :=
  D.datas.all fun decl =>
    decl.opts.safe && decide ((decl.fields.map (·.name)).Nodup) &&
    decl.fields.all fun f => Clean D m f.ty && f.onError != some .preserve

/-- the fuel-independent region of the theorem -/
def InRegion (D : DEnv) (T : Ty) : Prop := ∃ m0 m, CleanEnv D m0 = true ∧ Clean D m T = true

/-! ## helper facts -/

/-- the result conforms to the origin (when there is one) -/
def originConf (Q : Ty → V → Prop) (origin : Option Ty) (r : V) : Prop :=
  match origin with
  | none => True
  | some ot => Q ot r

theorem safe_strict {o : Opts} (h : o.safe = true) : o.strict.safe = true := by
  simp [Opts.safe] at h; simp [Opts.safe, Opts.strict, h.1.2, h.2]
theorem safe_noLoss {o : Opts} (h : o.safe = true) : o.noLoss.safe = true := by
  simp [Opts.safe] at h; simp [Opts.safe, Opts.noLoss, h.1.2, h.2]
theorem safe_norm {o : Opts} (h : o.safe = true) : o.norm.safe = true := by
  unfold Opts.norm; split <;> simpa [Opts.safe] using h

theorem safe_parts {o : Opts} (h : o.safe = true) :
    o.invalidItems ≠ .preserve ∧ o.invalidKeys ≠ .preserve ∧ o.invalidValues ≠ .preserve ∧
    o.ignoreConstraints = false ∧ o.unresolved ≠ .ignore := by
  simp only [Opts.safe, Bool.and_eq_true, bne_iff_ne, ne_eq, Bool.not_eq_true'] at h
  exact ⟨h.1.1.1.1, h.1.1.1.2, h.1.1.2, h.1.2, h.2⟩

theorem parse_neg_id (P : Prims) (PP : Utv.Py.Prims) (D : DEnv) (n : Nat) (o : Opts) (ts : List Ty) (v r : V)
    (h : parse P PP D n o (.neg ts) v = .ok r) : r = v := by
  cases n with
  | zero => simp [parse] at h
  | succ n =>
    simp only [parse] at h
    split at h
    · simp at h
    · exact negLoop_id _ _ _ _ h

theorem mem_dedupAux : ∀ (xs seen : List V) (x : V), x ∈ dedupAux seen xs → x ∈ xs := by
  intro xs
  induction xs with
  | nil => intro seen x h; simp [dedupAux] at h
  | cons y ys ih =>
    intro seen x h
    simp only [dedupAux] at h
    split at h
    · exact List.mem_cons_of_mem _ (ih _ _ h)
    · simp only [List.mem_cons] at h
      rcases h with rfl | h
      · simp
      · exact List.mem_cons_of_mem _ (ih _ _ h)

theorem seqK_base {b : Base} {sk : SeqK} (h : b.seqK? = some sk) : b = sk.base := by
  cases b <;> simp [Base.seqK?] at h <;> subst h <;> rfl

/-- re-wrapping the converted items in the origin class: an instance of the origin holding (some of) the items -/
theorem rewrapSeq_ok {b : Base} {c : Nat} {ys : List V} {r : V} (h : rewrapSeq b c ys = .ok r) :
    isInstT r (.cls b c) = true ∧ ∃ sk c' zs, r = .seq sk c' zs ∧ (∀ z ∈ zs, z ∈ ys) ∧ (sk.isSet = false → zs = ys) := by
  unfold rewrapSeq at h
  split at h
  · rename_i sk hsk
    have hb := seqK_base hsk
    split at h
    · rename_i hl
      simp only [Bool.and_eq_true, beq_iff_eq] at hl
      simp at h; subst h
      obtain ⟨h1, h2⟩ := hl
      subst h1; subst h2; subst hb
      exact ⟨by simp, .list, 0, ys, rfl, fun z hz => hz, fun _ => rfl⟩
    · have h' := guard_ok h
      unfold construct at h'
      subst hb
      split at h'
      · split at h'
        · simp at h'; subst h'
          exact ⟨by simp, sk, c, _, rfl, fun z hz => mem_dedupAux _ _ _ hz, fun hs => by simp_all⟩
        · simp at h'
      · simp at h'; subst h'
        exact ⟨by simp, sk, c, ys, rfl, fun z hz => hz, fun _ => rfl⟩
  · simp at h

theorem isInstT_not_dec {r : V} {b : Base} {c : Nat} (h : isInstT r (.cls b c) = true) (hb : (b != .decimal) = true) :
    ∀ c' d, r ≠ .dec c' d := by
  intro c' d hr
  subst hr
  cases c with
  | zero =>
    simp only [isInstT, isInst, V.cls?, Base.sub] at h
    cases b <;> simp at h hb
  | succ k =>
    simp only [isInstT, V.cls?] at h
    cases b <;> simp at h hb

theorem isInstT_decimal {r : V} (h : isInstT r (.cls .decimal 0) = true) : ∃ c d, r = .dec c d := by
  cases r with
  | dec c d => exact ⟨c, d, rfl⟩
  | bytes k c bs => cases k <;> simp [isInstT, isInst, V.cls?, Base.sub, BytesK.base] at h
  | seq k c xs => cases k <;> simp [isInstT, isInst, V.cls?, Base.sub, SeqK.base] at h
  | _ => simp [isInstT, isInst, V.cls?, Base.sub] at h

theorem mem_takeWhile_p {α} (p : α → Bool) : ∀ (l : List α) (x : α), x ∈ l.takeWhile p → p x = true := by
  intro l
  induction l with
  | nil => intro x h; simp at h
  | cons y ys ih =>
    intro x h
    simp only [List.takeWhile_cons] at h
    split at h
    · simp only [List.mem_cons] at h
      rcases h with rfl | h
      · assumption
      · exact ih x h
    · simp at h

/-! ## the cases of the induction -/

section Cases
variable (P : Prims) (hP : PrimsTyped P) (PP : Utv.Py.Prims) (D : DEnv) (n : Nat)
variable (m0 : Nat) (hE : CleanEnv D m0 = true)
variable (IH : ∀ o T v r m, o.safe = true → Clean D m T = true → parse P PP D n o T v = .ok r → Conforms PP D n T r)

include hP in
theorem leaf_conf (o : Opts) (hs : o.safe = true) (t : Target) (m : Nat) (hc : Clean D m (.plain t) = true) (v r : V)
    (h : leaf P D o t v = .ok r) : isInstT r t = true := by
  simp only [Clean, Bool.and_eq_true, Bool.not_eq_true', OutsideProof.target, Bool.or_eq_false_iff] at hc
  obtain ⟨hk, he, ha⟩ := hc
  unfold leaf at h
  split at h
  · simp at h
  · rename_i hna
    refine transform_isinstance P hP D.enums o.flags o.unresolved (safe_parts hs).2.2.2.2 t hk (by simpa using he) ?_ v r h
    intro a hta
    exact hna a hta

include IH in
theorem argsParse_conf (o : Opts) (hs : o.safe = true) (ot : Ty) (k : ArgsK) (args : List Ty) (m : Nat)
    (hargs : args.all (Clean D m) = true)
    (hshape : OutsideProof.argsShape (some ot) k args = false) (r0 r1 : V)
    (h0 : Conforms PP D n ot r0)
    (h : argsParse (parse P PP D n) o ot k args r0 = .ok r1) :
    Conforms PP D n ot r1 ∧ argsConform (Conforms PP D n) k args r1 ∧ (k = .none → r1 = r0) := by
  obtain ⟨hi, hk, hv, _, _⟩ := safe_parts hs
  have hp : ∀ t ∈ args, ∀ x y, parse P PP D n o t x = .ok y → Conforms PP D n t y := by
    intro t ht x y hxy
    exact IH o t x y m hs (List.all_eq_true.mp hargs t ht) hxy
  unfold argsParse at h
  cases k with
  | none => simp at h; subst h; exact ⟨h0, trivial, fun _ => rfl⟩
  | seq =>
    simp only at h
    split at h
    · rename_i b c t sk0 c0 xs
      obtain ⟨ys, hys, h⟩ := Outcome.bind_eq_ok.mp h
      obtain ⟨hinst, sk, c', zs, rfl, hsub, _⟩ := rewrapSeq_ok h
      have hall := seqLoop_conf (parse P PP D n o t) o.invalidItems hi (Conforms PP D n t)
        (fun x y hxy => hp t (by simp) x y hxy) xs ys hys
      refine ⟨?_, ⟨t, sk, c', zs, rfl, rfl, fun x hx => hall x (hsub x hx)⟩, fun hk => by cases hk⟩
      simpa [Conforms] using hinst
    · simp at h
  | tuple =>
    simp only at h
    split at h
    · rename_i b c sk0 c0 xs
      obtain ⟨ys, hys, h⟩ := Outcome.bind_eq_ok.mp h
      obtain ⟨hinst, sk, c', zs, rfl, _, hsame⟩ := rewrapSeq_ok h
      have hpre := tupleArgs_conf (parse P PP D n o) o hi (Conforms PP D n) args xs ys hp hys
      -- the tuple args parser belongs to `tuple` origins: re-wrapping keeps the list
      have hb : b = .tuple := by
        simp only [OutsideProof.argsShape, Bool.not_eq_false'] at hshape
        split at hshape <;> simp_all
      subst hb
      have hsk : sk = .tuple := by
        unfold rewrapSeq at h
        simp only [Base.seqK?] at h
        split at h
        · rename_i hl; simp at hl
        · have h' := guard_ok h
          simp only [construct, SeqK.isSet, Bool.false_eq_true, if_false] at h'
          simp at h'
          exact h'.1.symm
      subst hsk
      have := hsame rfl
      subst this
      refine ⟨?_, ⟨.tuple, c', zs, rfl, hpre⟩, fun hk => by cases hk⟩
      simpa [Conforms] using hinst
    · simp at h
  | map =>
    simp only at h
    split at h
    · rename_i c kt c0 kvs
      obtain ⟨rs, hrs, h⟩ := Outcome.bind_eq_ok.mp h
      simp at h; subst h
      have := mapLoop_conf (parse P PP D n o kt) none o hk hv (Conforms PP D n kt) (fun _ => True)
        (fun x y hxy => hp kt (by simp) x y hxy) (by simp) kvs [] rs (by simp) hrs
      refine ⟨by simp [Conforms], ⟨c, rs, rfl, Or.inl ⟨kt, rfl, fun kv hkv => (this kv hkv).1⟩⟩, fun hk => by cases hk⟩
    · rename_i c kt vt c0 kvs
      obtain ⟨rs, hrs, h⟩ := Outcome.bind_eq_ok.mp h
      simp at h; subst h
      have := mapLoop_conf (parse P PP D n o kt) (some (parse P PP D n o vt)) o hk hv (Conforms PP D n kt)
        (Conforms PP D n vt) (fun x y hxy => hp kt (by simp) x y hxy)
        (by simpa using fun x y hxy => hp vt (by simp) x y hxy) kvs [] rs (by simp) hrs
      refine ⟨by simp [Conforms], ⟨c, rs, rfl, Or.inr ⟨kt, vt, rfl, this⟩⟩, fun hk => by cases hk⟩
    · simp at h

/-- the validator phase on a value that conforms to the origin -/
theorem finish_conf (o : Opts) (hs : o.safe = true) (origin : Option Ty) (k : ArgsK) (vs : List (String × PyVal))
    (hlax : KnownDefect.laxValidator vs = false) (hconst : KnownDefect.constNotOrigin origin vs = false)
    (hout : OutsideProof.validators origin k vs = false) (r1 r : V)
    (horigin : originConf (Conforms PP D n) origin r1)
    (h : finish PP o vs r1 = .ok r) :
    (r = r1 ∨ k = .none) ∧ originConf (Conforms PP D n) origin r ∧ ∀ cv ∈ vs, Sat PP cv r := by
  have hic := (safe_parts hs).2.2.2.1
  unfold finish at h
  simp only [hic, Bool.false_eq_true, if_false] at h
  simp only [OutsideProof.validators, Bool.not_eq_false', Bool.or_eq_true, Bool.and_eq_true, beq_iff_eq] at hout
  rcases hout with (hpres | ⟨⟨hlen, hallc⟩, hk⟩) | hdec
  rotate_left 2
  · -- a Decimal rule: bounds, `decimal_places`, preserving validators
    simp only [decShape, Bool.and_eq_true, beq_iff_eq] at hdec
    obtain ⟨⟨hor, hk⟩, hsplit⟩ := hdec
    have horg : origin = some (.plain (.cls .decimal 0)) := by
      split at hor
      · rfl
      · simp at hor
    subst horg
    have hsplit' := List.takeWhile_append_dropWhile (p := fun cv : String × PyVal => orderNames.contains cv.1) (l := vs)
    split at hsplit
    · rename_i name kk post hdw
      simp only [Bool.and_eq_true, beq_iff_eq, List.all_eq_true] at hsplit
      obtain ⟨hname, hpost⟩ := hsplit
      subst hname
      rw [hdw] at hsplit'
      have hr1 : ∃ c d, r1 = V.dec c d :=
        isInstT_decimal (by simpa [originConf, Conforms] using horigin)
      rw [← hsplit'] at h ⊢
      obtain ⟨⟨d', hd'⟩, hsat⟩ := validatePhase_decimal PP _ post kk r1 r
        (fun cv hcv => by simpa using mem_takeWhile_p _ _ cv hcv)
        (fun cv hcv => by simpa using hpost cv hcv) hr1 h
      subst hd'
      exact ⟨Or.inr hk, by simp [originConf, Conforms], hsat⟩
    · simp at hsplit
  · -- preserving validators: the value is handed back
    have hnd : originNotDec origin = true → ∀ c d, r1 ≠ .dec c d := by
      intro hod
      cases origin with
      | none => simp [originNotDec] at hod
      | some ot =>
        cases ot <;> simp only [originNotDec] at hod <;> try (simp at hod; done)
        rename_i t
        cases t <;> simp only at hod <;> try (simp at hod; done)
        rename_i b c
        have : isInstT r1 (.cls b c) = true := by simpa [originConf, Conforms] using horigin
        exact isInstT_not_dec this hod
    obtain ⟨hr, hsat⟩ := validatePhase_preserving PP vs r1 r (originNotDec origin) hnd
      (fun cv hcv => List.all_eq_true.mp hpres cv hcv) h
    subst hr
    exact ⟨Or.inl rfl, horigin, hsat⟩
  · -- `const` alone: the declared constant
    cases vs with
    | nil => simp at hlen
    | cons cv rest =>
      cases rest with
      | cons _ _ => simp at hlen
      | nil =>
        obtain ⟨name, c⟩ := cv
        simp only [List.all_cons, List.all_nil, Bool.and_true, beq_iff_eq] at hallc
        subst hallc
        have hofc := validatePhase_const PP c r1 r h
        simp only [KnownDefect.constNotOrigin, List.any_cons, List.any_nil, Bool.or_false, beq_self_eq_true,
          Bool.true_and, Bool.not_eq_false'] at hconst
        refine ⟨Or.inr hk, ?_, ?_⟩
        · cases origin with
          | none => trivial
          | some ot =>
            cases ot <;> simp only [KnownDefect.constTyped] at hconst <;> try (simp at hconst; done)
            rename_i t
            simp only [hofc] at hconst
            simpa [originConf, Conforms] using hconst
        · intro cv hcv
          simp only [List.mem_singleton] at hcv
          subst hcv
          simp only [Sat, isLaxName, laxNames]
          simpa using hofc

include IH in
theorem rule_conf (o : Opts) (hs : o.safe = true) (origin : Option Ty) (k : ArgsK) (args : List Ty)
    (vs : List (String × PyVal)) (m : Nat) (hc : Clean D (m + 1) (.rule origin k args vs) = true) (v r : V)
    (h : ruleParse PP (parse P PP D n) o origin k args vs v = .ok r) :
    Conforms PP D (n + 1) (.rule origin k args vs) r := by
  simp only [Clean, Bool.and_eq_true, Bool.not_eq_true'] at hc
  obtain ⟨⟨⟨⟨⟨⟨hco, hca⟩, hlax⟩, hconst⟩, hout⟩, hshape⟩, _⟩ := hc
  unfold ruleParse at h
  cases origin with
  | none =>
    have hk : k = .none := by
      simp only [OutsideProof.argsShape, Bool.not_eq_false'] at hshape
      cases k <;> simp_all
    subst hk
    obtain ⟨_, _, hsat⟩ := finish_conf PP D n o hs none .none vs hlax hconst hout v r (by simp [originConf]) h
    simp only [Conforms]
    exact ⟨trivial, Or.inr ⟨trivial, hsat⟩⟩
  | some ot =>
    simp only at h hco
    split at h
    · rename_i r0 hr0
      have h0 : Conforms PP D n ot r0 := IH o ot v r0 m hs hco (guard_ok hr0)
      split at h
      · rename_i hnone
        simp at h; subst h
        simp only [Conforms]
        exact ⟨h0, Or.inl ⟨rfl, hnone⟩⟩
      · split at h
        · rename_i r1 hr1
          obtain ⟨h1, hargs, hkn⟩ := argsParse_conf P PP D n IH o hs ot k args m hca hshape r0 r1 h0 hr1
          obtain ⟨hrk, hor, hsat⟩ := finish_conf PP D n o hs (some ot) k vs hlax hconst hout r1 r (by simpa [originConf] using h1) h
          simp only [Conforms]
          refine ⟨by simpa [originConf] using hor, Or.inr ⟨?_, hsat⟩⟩
          rcases hrk with rfl | hk
          · exact hargs
          · subst hk; trivial
        · rename_i hne
          exact absurd h (by cases hg : argsParse (parse P PP D n) o ot k args _ <;> simp_all)
    · rename_i hne
      exact absurd h (by cases hg : guard (parse P PP D n o ot v) <;> simp_all)

include IH in
theorem union_conf (o : Opts) (hs : o.safe = true) (ts : List Ty) (m : Nat) (hc : ts.all (Clean D m) = true) (v r : V)
    (h : unionParse (parse P PP D n) o ts v = .ok r) : ∃ t ∈ ts, Conforms PP D n t r := by
  have stage : ∀ o', o'.safe = true → ∀ y, anyStage (parse P PP D n o') ts v = .ok (some y) → ∃ t ∈ ts, Conforms PP D n t y := by
    intro o' hs' y hy
    obtain ⟨t, ht, hty⟩ := anyStage_some _ ts v y hy
    exact ⟨t, ht, IH o' t v y m hs' (List.all_eq_true.mp hc t ht) hty⟩
  unfold unionParse at h
  split at h
  · -- exact type: the argument itself
    rename_i hex
    simp at h; subst h
    obtain ⟨t, ht, hte⟩ := List.any_eq_true.mp hex
    refine ⟨t, ht, ?_⟩
    cases t <;> simp only [typeEqTy] at hte <;> try (simp at hte; done)
    simpa [Conforms] using typeEq_isInstT hte
  · split at h
    · rename_i y hy
      simp at h; subst h
      split at hy
      · exact stage _ (safe_strict hs) _ hy
      · simp at hy
    · split at h
      · rename_i y hy
        simp at h; subst h
        split at hy
        · exact stage _ (safe_noLoss hs) _ hy
        · simp at hy
      · split at h
        · rename_i y hy
          simp at h; subst h
          exact stage _ hs _ hy
        all_goals simp at h
      all_goals simp at h
    all_goals simp at h

include hE IH in
theorem data_conf (o : Opts) (k : Nat) (v r : V)
    (h : dataParse P D (parse P PP D n) o k v = .ok r) : Conforms PP D (n + 1) (.data k) r := by
  unfold dataParse at h
  split at h
  · simp at h
  · rename_i decl hdecl
    have hmem : decl ∈ D.datas := List.mem_of_getElem? hdecl
    have hd := List.all_eq_true.mp hE decl hmem
    simp only [Bool.and_eq_true, decide_eq_true_eq, List.all_eq_true, bne_iff_ne, ne_eq] at hd
    obtain ⟨⟨hsafe, hnd⟩, hfields⟩ := hd
    split at h
    · split at h
      · simp at h
      · dsimp only at h
        split at h
        · rename_i c kvs hm
          split at h
          · rename_i fs hfs
            simp at h; subst h
            simp only [Conforms]
            refine ⟨decl, fs, hdecl, rfl, ?_⟩
            have hv := (safe_parts hsafe).2.2.1
            refine initFields_conf (parse P PP D n decl.opts) decl.opts decl.fields kvs fs hnd ?_ (Conforms PP D n) ?_ hfs
            · intro f hf
              have := (hfields f hf).2
              cases hoe : f.onError with
              | none => simpa using hv
              | some pol => simp only [Option.getD_some]; intro hp; subst hp; exact this hoe
            · intro f hf x y hxy
              exact IH decl.opts f.ty x y m0 hsafe (hfields f hf).1 hxy
          all_goals simp at h
        · simp at h
        · rename_i _ hno
          exact (hno r h).elim
    · rename_i hne
      exact absurd h (by cases hg : dataUnwrap o v <;> simp_all)

end Cases

/-! ## The headline theorem -/

/-
The full statement — `o.safe → parse P PP D fuel o T v = .ok r → Conforms PP D fuel T r` for EVERY declared type —
is false of the unchanged code: see `C01_lax_witness`, `C01_const_witness`, `C01_subclass_plain_witness` below.
What is proved is the statement for every declaration without a node in one of the known-defect classes
(`KnownDefect.laxValidator`, `KnownDefect.constNotOrigin`, `KnownDefect.subclassPlain`) or outside the proof fragment
(`OutsideProof.*`): `Clean D fuel T`, a decidable predicate.
-/

/-- **C01.**  Under options that do not waive the guarantee, whatever a parse returns conforms to the declared type:
instance of the source type, strict constraints satisfied, elements / keys / values / fields conforming recursively.
For all builtins (`PrimsTyped`), all fuel, all declarations in the clean region (`CleanEnv` for the data classes — which may
refer to themselves and to each other — and `Clean` for the type), all input values. -/
theorem C01_parse_conforms_partial (P : Prims) (hP : PrimsTyped P) (PP : Utv.Py.Prims) (D : DEnv) (m0 : Nat)
    (hE : CleanEnv D m0 = true) :
    ∀ (fuel : Nat) (o : Opts) (T : Ty) (v r : V) (m : Nat), o.safe = true → Clean D m T = true →
      parse P PP D fuel o T v = .ok r → Conforms PP D fuel T r := by
  intro n
  induction n with
  | zero => intro o T v r m _ _ h; simp [parse] at h
  | succ n ih =>
    intro o T v r m hs hc h
    simp only [parse] at h
    split at h
    · simp at h
    · cases T with
      | any => simp [Conforms]
      | plain t => simpa [Conforms] using leaf_conf P hP D o hs t m hc v r h
      | neg ts => simp [Conforms]
      | data k => exact data_conf P PP D n m0 hE ih o k v r h
      | rule origin k args vs =>
        cases m with
        | zero => simp [Clean] at hc
        | succ m => exact rule_conf P PP D n ih o hs origin k args vs m hc v r h
      | union ts =>
        cases m with
        | zero => simp [Clean] at hc
        | succ m =>
          simp only [Conforms]
          exact union_conf P PP D n ih o hs ts m (by simpa [Clean] using hc) v r h
      | xor ts =>
        cases m with
        | zero => simp [Clean] at hc
        | succ m =>
          simp only [Conforms]
          have hc' : ts.all (Clean D m) = true := by simpa [Clean] using hc
          have h : xorParse (parse P PP D n o) ts v = .ok r := h
          unfold xorParse at h
          split at h
          · rename_i y hy
            simp at h; subst h
            rcases xorLoop_some _ v ts none y hy with h' | ⟨t, ht, hty⟩
            · simp at h'
            · exact ⟨t, ht, ih o t v y m hs (List.all_eq_true.mp hc' t ht) hty⟩
          all_goals simp at h
      | all ts =>
        cases m with
        | zero => simp [Clean] at hc
        | succ m =>
          simp only [Conforms]
          have hc' : ts.all (Clean D m) = true := by simpa [Clean] using hc
          exact allLoop_conf (parse P PP D n o) (fun ts' x y hxy => parse_neg_id P PP D n o ts' x y hxy)
            (Conforms PP D n) ts v r (fun t ht x y hxy => ih o t x y m hs (List.all_eq_true.mp hc' t ht) hxy) h
      | applied t inner =>
        cases m with
        | zero => simp [Clean] at hc
        | succ m =>
          simp only [Clean, Bool.and_eq_true] at hc
          obtain ⟨hci, hshape⟩ := hc
          simp only [Conforms]
          have h : (if isInstT v t then Outcome.ok v else parse P PP D n o inner v) = .ok r := h
          split at h
          · rename_i hi; simp at h; subst h; exact hi           -- an instance of the decorated class: the argument itself
          · have hconf := ih o inner v r m hs hci h
            -- what the Rule converts to is an instance of its origin, the decorated class
            cases inner with
            | rule origin k args vs =>
              cases origin with
              | none => simp at hshape
              | some ot =>
                cases ot with
                | plain t' =>
                  cases k <;> simp at hshape
                  subst hshape
                  cases n with
                  | zero => simp [Conforms] at hconf
                  | succ n' =>
                    simp only [Conforms] at hconf
                    exact hconf.1
                | _ => simp at hshape
            | _ => simp at hshape

/-- `type_transform(v, T, options=o)` / `T(v)` -/
theorem C01_type_transform_conforms (P : Prims) (hP : PrimsTyped P) (PP : Utv.Py.Prims) (D : DEnv) (m0 m fuel : Nat)
    (o : Opts) (T : Ty) (v r : V) (hs : o.safe = true) (hE : CleanEnv D m0 = true) (hc : Clean D m T = true)
    (h : typeTransform P PP D fuel o T v = .ok r) : Conforms PP D fuel T r :=
  C01_parse_conforms_partial P hP PP D m0 hE fuel o.norm T v r m (safe_norm hs) hc h

/-- `Schema(**data)`: the instance is of the class, every field that is present conforms to its declared type (or is
the declared default), no required field is missing -/
theorem C01_schema_init_conforms (P : Prims) (hP : PrimsTyped P) (PP : Utv.Py.Prims) (D : DEnv) (m0 fuel k : Nat)
    (kvs : List (V × V)) (r : V) (hE : CleanEnv D m0 = true)
    (h : schemaInit P PP D fuel k kvs = .ok r) : Conforms PP D (fuel + 1) (.data k) r := by
  unfold schemaInit at h
  split at h
  · simp at h
  · rename_i decl hdecl
    have hmem : decl ∈ D.datas := List.mem_of_getElem? hdecl
    have hd := List.all_eq_true.mp hE decl hmem
    simp only [Bool.and_eq_true, decide_eq_true_eq, List.all_eq_true, bne_iff_ne, ne_eq] at hd
    obtain ⟨⟨hsafe, hnd⟩, hfields⟩ := hd
    split at h <;> simp at h
    subst h
    rename_i fs hfs
    simp only [Conforms]
    refine ⟨decl, fs, hdecl, rfl, ?_⟩
    have hv := (safe_parts hsafe).2.2.1
    refine initFields_conf (parse P PP D fuel decl.opts) decl.opts decl.fields kvs fs hnd ?_ (Conforms PP D fuel) ?_ hfs
    · intro f hf
      have := (hfields f hf).2
      cases hoe : f.onError with
      | none => simpa using hv
      | some pol => simp only [Option.getD_some]; intro hp; subst hp; exact this hoe
    · intro f hf x y hxy
      exact C01_parse_conforms_partial P hP PP D m0 hE fuel decl.opts f.ty x y m0 hsafe (hfields f hf).1 hxy

/-- a decorated function called with keyword arguments: every parameter the body sees conforms to its annotation (or is
the declared default), and what the caller gets back conforms to the return annotation — whatever the body computes.
(Positional binding, `*args: T`, `**kwargs: T` are outside the model: C08 / oracle.) -/
theorem C01_function_conforms (P : Prims) (hP : PrimsTyped P) (PP : Utv.Py.Prims) (D : DEnv) (m0 m fuel : Nat) (F : FnDecl)
    (body : List (V × V) → V) (kwargs args : List (V × V)) (ret : V) (hE : CleanEnv D m0 = true)
    (hs : F.opts.safe = true) (hnd : (F.params.map (·.name)).Nodup)
    (hparams : ∀ f ∈ F.params, Clean D m f.ty = true ∧ f.onError ≠ some .preserve)
    (hret : ∀ rt, F.ret = some rt → Clean D m rt = true)
    (h : callFn P PP D fuel F body kwargs = .ok (args, ret)) :
    (∀ f ∈ F.params, match lookupKey f.name args with
        | some y => Conforms PP D fuel f.ty y ∨ f.default = some y
        | none => f.required = false) ∧
    (∀ rt, F.ret = some rt → Conforms PP D fuel rt ret) := by
  unfold callFn at h
  obtain ⟨as, has, h⟩ := Outcome.bind_eq_ok.mp h
  have hv := (safe_parts hs).2.2.1
  have hargs := initFields_conf (parse P PP D fuel F.opts) F.opts F.params kwargs as hnd
    (by
      intro f hf
      have := (hparams f hf).2
      cases hoe : f.onError with
      | none => simpa using hv
      | some pol => simp only [Option.getD_some]; intro hp; subst hp; exact this hoe)
    (Conforms PP D fuel)
    (fun f hf x y hxy => C01_parse_conforms_partial P hP PP D m0 hE fuel F.opts f.ty x y m hs (hparams f hf).1 hxy) has
  cases hr : F.ret with
  | none =>
    simp only [hr] at h
    simp at h
    obtain ⟨h1, _⟩ := h
    subst h1
    exact ⟨hargs, by simp⟩
  | some rt =>
    simp only [hr] at h
    obtain ⟨r', hr', h⟩ := Outcome.bind_eq_ok.mp h
    simp at h
    obtain ⟨h1, h2⟩ := h
    subst h1; subst h2
    refine ⟨hargs, ?_⟩
    intro rt' hrt'
    simp at hrt'; subst hrt'
    exact C01_parse_conforms_partial P hP PP D m0 hE fuel F.opts rt _ _ m hs (hret rt hr) (guard_ok hr')

/-- `@utype.apply`: either the input already is an instance of the decorated class and is handed back untouched (no
constraint is looked at: finding `applied-instance-skips-constraints`), or it is what the Rule behind it returns -/
theorem C01_applied (P : Prims) (PP : Utv.Py.Prims) (D : DEnv) (fuel : Nat) (o : Opts) (t : Target) (inner : Ty) (v r : V)
    (h : parse P PP D (fuel + 1) o (.applied t inner) v = .ok r) :
    (isInstT v t = true ∧ r = v) ∨ (isInstT v t = false ∧ parse P PP D fuel o inner v = .ok r) := by
  simp only [parse] at h
  split at h
  · simp at h
  · have h : (if isInstT v t then Outcome.ok v else parse P PP D fuel o inner v) = .ok r := h
    split at h
    · rename_i hi; simp at h; exact Or.inl ⟨hi, h.symm⟩
    · rename_i hi; exact Or.inr ⟨by simpa using hi, h⟩

/-- `~(T, …)`: the value is handed back unchanged, and only if the first condition rejects it (the loop of `logical_parse`
ends at the first condition that fails; a condition that converts is NegateViolatedError) -/
theorem C01_neg (P : Prims) (PP : Utv.Py.Prims) (D : DEnv) (fuel : Nat) (o : Opts) (t : Ty) (ts : List Ty) (v r : V)
    (h : parse P PP D (fuel + 1) o (.neg (t :: ts)) v = .ok r) :
    r = v ∧ ∀ y, parse P PP D fuel o t v ≠ .ok y := by
  refine ⟨parse_neg_id P PP D _ o _ v r h, ?_⟩
  intro y hy
  simp only [parse] at h
  split at h
  · simp at h
  · simp [negLoop, hy] at h

/-! ## one lemma per converter: whatever `to_x` returns is an instance of the class it was asked for

(proofs in Lemmas/C01Conv.lean; every "returns its argument" branch — `isinstance(data, t)`, exact type, a member of the
class — is justified there by the test that guards it) -/

theorem C01_to_null_isinstance (f : Flags) (v r : V) (h : toNull f v = .ok r) : isInstT r (.cls .noneType 0) = true :=
  conv_to_null_isinstance f v r h
theorem C01_to_bool_isinstance (P : Prims) (f : Flags) (v r : V) (h : Conv.toBool P f v = .ok r) :
    isInstT r (.cls .bool 0) = true := conv_to_bool_isinstance P f v r h
theorem C01_to_str_isinstance (P : Prims) (E : Env) (f : Flags) (c : Nat) (v r : V) (h : toStr P E f c v = .ok r) :
    isInstT r (.cls .str c) = true := conv_to_str_isinstance P E f c v r h
theorem C01_to_bytes_isinstance (P : Prims) (E : Env) (f : Flags) (b : BytesK) (c : Nat) (v r : V)
    (h : toBytes P E f b c v = .ok r) : isInstT r (.cls b.base c) = true := conv_to_bytes_isinstance P E f b c v r h
theorem C01_to_array_isinstance (P : Prims) (f : Flags) (b : SeqK) (c : Nat) (v r : V) (h : toArray P f b c v = .ok r) :
    isInstT r (.cls b.base c) = true := conv_to_array_isinstance P f b c v r h
theorem C01_to_dict_isinstance (P : Prims) (E : Env) (f : Flags) (c : Nat) (v r : V) (h : toDict P E f c v = .ok r) :
    isInstT r (.cls .dict c) = true := conv_to_dict_isinstance P E f c v r h
theorem C01_to_float_isinstance (P : Prims) (E : Env) (f : Flags) (c : Nat) (v r : V) (h : toFloat P E f c v = .ok r) :
    isInstT r (.cls .float c) = true := conv_to_float_isinstance P E f c v r h
/-- for `int` itself; for a user subclass the boolean words give a plain `int` (`C01_subclass_plain_witness`) -/
theorem C01_to_integer_isinstance (P : Prims) (E : Env) (f : Flags) (v r : V) (h : toInteger P E f 0 v = .ok r) :
    isInstT r (.cls .int 0) = true := conv_to_integer_isinstance P E f v r h
theorem C01_to_decimal_isinstance (P : Prims) (E : Env) (f : Flags) (c : Nat) (v r : V)
    (h : toDecimal P E f c v = .ok r) : isInstT r (.cls .decimal c) = true := conv_to_decimal_isinstance P E f c v r h
theorem C01_to_complex_isinstance (P : Prims) (hP : PrimsTyped P) (E : Env) (f : Flags) (v r : V)
    (h : toComplex P E f 0 v = .ok r) : isInstT r (.cls .complex 0) = true := conv_to_complex_isinstance P hP E f v r h
theorem C01_to_date_isinstance (P : Prims) (E : Env) (f : Flags) (v r : V) (h : toDate P E f v = .ok r) :
    isInstT r (.cls .date 0) = true := conv_to_date_isinstance P E f v r h
theorem C01_to_datetime_isinstance (P : Prims) (hP : PrimsTyped P) (E : Env) (f : Flags) (c : Nat) (df : Bool) (v r : V)
    (h : toDatetime P E f c df v = .ok r) : isInstT r (.cls .datetime c) = true :=
  conv_to_datetime_isinstance P hP E f c df v r h
/-- for `time` itself (subclasses: known finding subclass-result-plain) -/
theorem C01_to_time_isinstance (P : Prims) (hP : PrimsTyped P) (E : Env) (f : Flags) (v r : V)
    (h : toTime P E f 0 v = .ok r) : isInstT r (.cls .time 0) = true := conv_to_time_isinstance P hP E f v r h
/-- for `timedelta` itself (subclasses: known finding subclass-result-plain) -/
theorem C01_to_timedelta_isinstance (P : Prims) (hP : PrimsTyped P) (E : Env) (f : Flags) (v r : V)
    (h : toTimedelta P E f 0 v = .ok r) : isInstT r (.cls .timedelta 0) = true :=
  conv_to_timedelta_isinstance P hP E f v r h
theorem C01_to_uuid_isinstance (P : Prims) (f : Flags) (c : Nat) (v r : V) (h : toUuid P f c v = .ok r) :
    isInstT r (.cls .uuid c) = true := conv_to_uuid_isinstance P f c v r h
theorem C01_to_enum_isinstance (P : Prims) (E : Env) (f : Flags) (k : Nat) (v r : V) (h : toEnum P E f k v = .ok r) :
    isInstT r (.enum k) = true := conv_to_enum_isinstance P E f k v r h

/-- `TypeTransformer.__call__` on any class that exists and is not in the known-defect class: exact-type shortcut,
registry resolution, converter, `handle_unresolved` ('throw' / 'init') all hand back an instance of the class -/
theorem C01_transform_isinstance (P : Prims) (hP : PrimsTyped P) (E : Env) (f : Flags) (u : Unresolved)
    (hu : u ≠ .ignore) (t : Target) (hk : KnownDefect.subclassPlain t = false) (he : targetExists t = true)
    (ha : ∀ a, t ≠ .abc a) (v r : V) (h : transformU P E f u t v = .ok r) : isInstT r t = true :=
  transform_isinstance P hP E f u hu t hk he ha v r h

/-! ## the validator phase in the documented sense (through the C02 theorems) -/

/-- `Sat` for a strict validator other than `const`: the validator accepts the `PyVal` form of `r` and hands it back -/
theorem sat_accepts {PP : Utv.Py.Prims} {name : String} {b : PyVal} {r : V} {f : Utv.Rule.Validator}
    (hl : isLaxName name = false) (hc : name ≠ "const") (hf : Utv.Rule.validatorOf name = some f)
    (h : Sat PP (name, b) r) : ∃ pv, toPy r = some pv ∧ f PP pv b = .ok pv := by
  simp only [Sat, hl, hc, Bool.false_eq_true, if_false] at h
  obtain ⟨pv, g, hpv, hg, hacc⟩ := h
  rw [hf] at hg; cases hg
  exact ⟨pv, hpv, hacc⟩

/-! `Sat` in the documented sense of each constraint (through the C02 theorems about the generated validators) -/

theorem C01_sat_gt (PP : Utv.Py.Prims) (b : PyVal) (r : V) (h : Sat PP ("gt", b) r) :
    ∃ pv, toPy r = some pv ∧ Utv.Py.gt pv b = .ok true := by
  obtain ⟨pv, hpv, hacc⟩ := sat_accepts (by decide) (by decide) rfl h
  exact ⟨pv, hpv, ((Utv.C02.C02_gt_iff PP pv b pv).mp hacc).1⟩

theorem C01_sat_ge (PP : Utv.Py.Prims) (b : PyVal) (r : V) (h : Sat PP ("ge", b) r) :
    ∃ pv, toPy r = some pv ∧ Utv.Py.ge pv b = .ok true := by
  obtain ⟨pv, hpv, hacc⟩ := sat_accepts (by decide) (by decide) rfl h
  exact ⟨pv, hpv, ((Utv.C02.C02_ge_iff PP pv b pv).mp hacc).1⟩

theorem C01_sat_lt (PP : Utv.Py.Prims) (b : PyVal) (r : V) (h : Sat PP ("lt", b) r) :
    ∃ pv, toPy r = some pv ∧ Utv.Py.lt pv b = .ok true := by
  obtain ⟨pv, hpv, hacc⟩ := sat_accepts (by decide) (by decide) rfl h
  exact ⟨pv, hpv, ((Utv.C02.C02_lt_iff PP pv b pv).mp hacc).1⟩

theorem C01_sat_le (PP : Utv.Py.Prims) (b : PyVal) (r : V) (h : Sat PP ("le", b) r) :
    ∃ pv, toPy r = some pv ∧ Utv.Py.le pv b = .ok true := by
  obtain ⟨pv, hpv, hacc⟩ := sat_accepts (by decide) (by decide) rfl h
  exact ⟨pv, hpv, ((Utv.C02.C02_le_iff PP pv b pv).mp hacc).1⟩

/-- `const`: the result IS the declared constant -/
theorem C01_sat_const (PP : Utv.Py.Prims) (c : PyVal) (r : V) (h : Sat PP ("const", c) r) : ofPy c = some r := by
  simpa [Sat, isLaxName, laxNames] using h

/-- the `PyVal` form of a value is never an Enum member / Enum class (those have no `PyVal` form) -/
theorem toPy_not_enum {v : V} {pv : PyVal} (h : toPy v = some pv) : Utv.Py.isinstance pv .enum = false := by
  cases v <;> simp [toPy] at h
  case none => subst h; rfl
  case bool => subst h; rfl
  case int c i => obtain ⟨_, rfl⟩ := h; rfl
  case float c f => obtain ⟨_, rfl⟩ := h; rfl
  case dec c d => obtain ⟨_, rfl⟩ := h; rfl
  case str c s => obtain ⟨_, rfl⟩ := h; rfl
  case seq k c xs =>
    obtain ⟨_, h⟩ := h
    split at h
    · simp at h; subst h
      rename_i cl _ hcl _
      cases k <;> simp [seqCls] at hcl <;> subst hcl <;> rfl
    · simp at h

/-- `enum` (list form): the result is `==` to one of the declared values -/
theorem C01_sat_enum (PP : Utv.Py.Prims) (k : Utv.Py.Cls) (xs : List PyVal) (r : V)
    (hk : Utv.Py.Cls.sub k .enumMeta = false) (h : Sat PP ("enum", .seq k xs) r) :
    ∃ pv, toPy r = some pv ∧ Utv.Py.memEq pv xs = true := by
  obtain ⟨pv, hpv, hacc⟩ := sat_accepts (by decide) (by decide) rfl h
  exact ⟨pv, hpv, ((Utv.C02.C02_enum_iff PP pv pv k xs hk (toPy_not_enum hpv)).mp hacc).1⟩

/-- `regex`: `re.fullmatch(pattern, str(result))` matches -/
theorem C01_sat_regex (PP : Utv.Py.Prims) (pat : String) (r : V) (h : Sat PP ("regex", .str pat) r) :
    ∃ pv, toPy r = some pv ∧ ∀ s b, Utv.Py.str PP pv = .ok (.str s) → PP.reFullmatch pat s = some b → b = true := by
  obtain ⟨pv, hpv, hacc⟩ := sat_accepts (by decide) (by decide) rfl h
  exact ⟨pv, hpv, fun s b hs hm => ((Utv.C02.C02_regex_iff PP pv pv pat s b hs hm).mp hacc).1⟩

/-- `length` / `max_length` / `min_length`: the length of the result is the bound / within the bound -/
theorem C01_sat_length (PP : Utv.Py.Prims) (lg : Int) (r : V) (h : Sat PP ("length", .int lg) r) :
    ∃ pv, toPy r = some pv ∧ ∀ n, Utv.Py.lenOf pv = some n → (n : Int) = lg := by
  obtain ⟨pv, hpv, hacc⟩ := sat_accepts (by decide) (by decide) rfl h
  exact ⟨pv, hpv, fun n hn => ((Utv.C02.C02_length_iff PP pv pv n lg hn).mp hacc).1⟩

theorem C01_sat_max_length (PP : Utv.Py.Prims) (m : Int) (r : V) (h : Sat PP ("max_length", .int m) r) :
    ∃ pv, toPy r = some pv ∧ ∀ n, Utv.Py.lenOf pv = some n → (n : Int) ≤ m := by
  obtain ⟨pv, hpv, hacc⟩ := sat_accepts (by decide) (by decide) rfl h
  exact ⟨pv, hpv, fun n hn => ((Utv.C02.C02_max_length_iff PP pv pv n m hn).mp hacc).1⟩

theorem C01_sat_min_length (PP : Utv.Py.Prims) (m : Int) (r : V) (h : Sat PP ("min_length", .int m) r) :
    ∃ pv, toPy r = some pv ∧ ∀ n, Utv.Py.lenOf pv = some n → m ≤ (n : Int) := by
  obtain ⟨pv, hpv, hacc⟩ := sat_accepts (by decide) (by decide) rfl h
  exact ⟨pv, hpv, fun n hn => ((Utv.C02.C02_min_length_iff PP pv pv n m hn).mp hacc).1⟩

/-- `multiple_of` on an int result: an integer multiple of the bound -/
theorem C01_sat_multiple_of (PP : Utv.Py.Prims) (m : Int) (hm : m ≠ 0) (c : Nat) (a : Int)
    (h : Sat PP ("multiple_of", .int m) (.int c a)) : ∃ k : Int, a = k * m := by
  obtain ⟨pv, hpv, hacc⟩ := sat_accepts (by decide) (by decide) rfl h
  simp only [toPy] at hpv
  split at hpv <;> simp at hpv
  subst hpv
  exact ((Utv.C02.C02_multiple_of_int PP a m (.int a) hm).mp hacc).1

/-- `max_digits`: the digit count of the positional rendering (`C02.specDigits`) is within the bound -/
theorem C01_sat_max_digits_decimal (PP : Utv.Py.Prims) (m : Int) (c : Nat) (s : Bool) (co : Nat) (e : Int)
    (h : Sat PP ("max_digits", .int m) (.dec c (.fin s co e))) : Utv.C02.specDigits co e ≤ m := by
  obtain ⟨pv, hpv, hacc⟩ := sat_accepts (by decide) (by decide) rfl h
  simp only [toPy] at hpv
  split at hpv <;> simp at hpv
  subst hpv
  exact ((Utv.C02.C02_max_digits_decimal PP s co e m _).mp hacc).1

theorem C01_sat_max_digits_int (PP : Utv.Py.Prims) (m : Int) (c : Nat) (i : Int)
    (h : Sat PP ("max_digits", .int m) (.int c i)) : Utv.C02.specDigits i.natAbs 0 ≤ m := by
  obtain ⟨pv, hpv, hacc⟩ := sat_accepts (by decide) (by decide) rfl h
  simp only [toPy] at hpv
  split at hpv <;> simp at hpv
  subst hpv
  exact ((Utv.C02.C02_max_digits_int PP i m _).mp hacc).1

/-- `decimal_places` on a Decimal result: at most `d` digits after the point (`C02.specDecimals`) -/
theorem C01_sat_decimal_places (PP : Utv.Py.Prims) (d : Int) (c : Nat) (s : Bool) (co : Nat) (e : Int)
    (h : Sat PP ("decimal_places", .int d) (.dec c (.fin s co e))) : Utv.C02.specDecimals co e ≤ d := by
  obtain ⟨pv, hpv, hacc⟩ := sat_accepts (by decide) (by decide) rfl h
  simp only [toPy] at hpv
  split at hpv <;> simp at hpv
  subst hpv
  exact ((Utv.C02.C02_decimal_places_decimal PP s co e d _).mp hacc).1

/-- `unique_items`: the items of the result are pairwise different (`==`) -/
theorem C01_sat_unique_items (PP : Utv.Py.Prims) (r : V) (k : Utv.Py.Cls) (xs : List PyVal) (hr : toPy r = some (.seq k xs))
    (h : Sat PP ("unique_items", .bool true) r) : xs.Pairwise (fun a b => Utv.Py.eq b a = false) := by
  obtain ⟨pv, hpv, hacc⟩ := sat_accepts (by decide) (by decide) rfl h
  rw [hr] at hpv; cases hpv
  exact ((Utv.C02.C02_unique_items_iff PP k xs _).mp hacc).1

/-! ## witnesses: the full statement is false of the unchanged code; non-vacuity -/

/-- builtins that know nothing -/
def P0 : Prims :=
  { decode := fun _ _ => .ok "", strOf := fun _ => .unmodelled "-", floatOfStr := fun _ => .perr .valueError,
    floatOfInt := fun _ => .unmodelled "-", floatOfDec := fun _ => .unmodelled "-", decOfStr := fun _ => .unmodelled "-",
    decOfFloatRepr := fun _ => .unmodelled "-", complexOf := fun _ => .unmodelled "-", complexOf2 := fun _ _ => .unmodelled "-",
    timestampOf := fun _ => .unmodelled "-", totalSeconds := fun _ => .unmodelled "-", div1000 := fun _ => .unmodelled "-",
    utcFromTs := fun _ => .unmodelled "-", strptime := fun _ _ => .perr .valueError, timeFromIso := fun _ => .perr .valueError,
    uuidOfStr := fun _ => .perr .valueError, jsonLoads := fun _ _ => .perr .jsonDecode, literalEval := fun _ => .perr .valueError,
    parseQs := fun _ => .unmodelled "-", durationMatch := fun _ _ => .ok none, timedeltaKw := fun _ _ => .unmodelled "-",
    timedeltaSec := fun _ => .unmodelled "-", initObj := fun _ _ => .perr .typeError }

def PP0 : Utv.Py.Prims :=
  { floatRepr := fun _ => "", decStr := fun _ => "", floatToDec := fun _ => none, reFullmatch := fun _ _ => none,
    floatRound := fun f _ => f }

def D0 : DEnv := ⟨⟨[]⟩, []⟩

/-- the hypothesis on the builtins is satisfiable -/
theorem P0_typed : PrimsTyped P0 := by
  constructor <;> intros <;> simp_all [P0]

def intT : Ty := .plain (.cls .int 0)

/-- known finding `lax-result-not-revalidated`: `class T(int, Rule): gt = 3; multiple_of = Lax(3)` — `T(4) == 3`,
which violates the strict `gt = 3` -/
def laxT : Ty := .rule (some intT) .none [] [("gt", .int 3), ("lax_multiple_of", .int 3)]

theorem C01_lax_witness :
    parse P0 PP0 D0 2 {} laxT (.int 0 4) = .ok (.int 0 3) ∧ ¬ Conforms PP0 D0 2 laxT (.int 0 3) ∧
    KnownDefect.laxValidator [("gt", PyVal.int 3), ("lax_multiple_of", PyVal.int 3)] = true := by
  refine ⟨by rfl, ?_, by rfl⟩
  intro h
  simp only [laxT, Conforms] at h
  obtain ⟨_, h | ⟨_, hsat⟩⟩ := h
  · simp [isNone] at h
  · obtain ⟨pv, hpv, hgt⟩ := C01_sat_gt PP0 (.int 3) (.int 0 3) (hsat _ (by simp))
    simp [toPy] at hpv
    subst hpv
    simp at hgt

/-- known finding `const-returns-declared-value`: `class T(int, Rule): const = 1.0` — `T(1) == 1.0`, a float -/
def constT : Ty := .rule (some intT) .none [] [("const", .float (.fin 1 0))]

theorem C01_const_witness :
    parse P0 PP0 D0 2 {} constT (.int 0 1) = .ok (.float 0 (.fin 1 0)) ∧ ¬ Conforms PP0 D0 2 constT (.float 0 (.fin 1 0)) ∧
    KnownDefect.constNotOrigin (some intT) [("const", PyVal.float (.fin 1 0))] = true := by
  refine ⟨by rfl, ?_, by rfl⟩
  intro h
  simp only [constT, Conforms, intT] at h
  simp [isInstT, isInst, V.cls?, Base.sub] at h

/-- known finding `subclass-result-plain`: `type_transform('true', SubInt)` is the plain int `1` -/
theorem C01_subclass_plain_witness :
    parse P0 PP0 D0 1 {} (.plain (.cls .int 1)) (.str 0 "true") = .ok (.int 0 1) ∧
    ¬ Conforms PP0 D0 1 (.plain (.cls .int 1)) (.int 0 1) ∧ KnownDefect.subclassPlain (.cls .int 1) = true := by
  refine ⟨by rfl, ?_, by rfl⟩
  simp [Conforms, isInstT, V.cls?]

/-- known finding `decimal-places-pads-after-regex`: `class T(Decimal, Rule): regex = r'\d\.\d'; decimal_places = 2` —
`T(Decimal('1.5')) == Decimal('1.50')`, whose text no longer matches the regex (builtins: `str(Decimal)` and
`re.fullmatch` as CPython answers for these two values) -/
def PPre : Utv.Py.Prims :=
  { PP0 with
    decStr := fun d => if d == .fin false 15 (-1) then "1.5" else "1.50"
    reFullmatch := fun _ s => some (s == "1.5") }

def decT : Ty := .plain (.cls .decimal 0)
def regexT : Ty := .rule (some decT) .none [] [("regex", .str "\\d\\.\\d"), ("decimal_places", .int 2)]

theorem C01_decimal_places_regex_witness :
    parse P0 PPre D0 2 {} regexT (.dec 0 (.fin false 15 (-1))) = .ok (.dec 0 (.fin false 150 (-2))) ∧
    ¬ Conforms PPre D0 2 regexT (.dec 0 (.fin false 150 (-2))) ∧
    OutsideProof.validators (some decT) .none [("regex", PyVal.str "\\d\\.\\d"), ("decimal_places", PyVal.int 2)] = true := by
  refine ⟨by rfl, ?_, by rfl⟩
  intro h
  simp only [regexT, Conforms] at h
  obtain ⟨_, h | ⟨_, hsat⟩⟩ := h
  · simp [isNone] at h
  · have h' := hsat ("regex", .str "\\d\\.\\d") (by simp)
    have h'' : ∃ pv f, toPy (V.dec 0 (.fin false 150 (-2))) = some pv ∧ Utv.Rule.validatorOf "regex" = some f ∧
        f PPre pv (.str "\\d\\.\\d") = .ok pv := by
      simpa [Sat, isLaxName, laxNames] using h'
    obtain ⟨pv, f, hpv, hf, hfa⟩ := h''
    simp [toPy, isSNaN] at hpv
    subst hpv
    simp only [Utv.Rule.validatorOf, Option.some.injEq] at hf
    subst hf
    have : Utv.Gen.Constraints.regex PPre (.dec (.fin false 150 (-2))) (.str "\\d\\.\\d") = .error .valueError := by rfl
    rw [this] at hfa
    cases hfa

/-- hence the statement without the `Clean` hypothesis does not hold -/
theorem C01_full_statement_fails :
    ¬ ∀ (P : Prims) (_ : PrimsTyped P) (PP : Utv.Py.Prims) (D : DEnv) (fuel : Nat) (o : Opts) (T : Ty) (v r : V),
        o.safe = true → parse P PP D fuel o T v = .ok r → Conforms PP D fuel T r := by
  intro H
  exact C01_lax_witness.2.1 (H P0 P0_typed PP0 D0 2 {} laxT (.int 0 4) (.int 0 3) (by rfl) C01_lax_witness.1)

/-- non-vacuity: a nested, constrained declaration in the clean region on which a parse succeeds with a real conversion
(`List[PositiveInt]` with `max_length = 3`, a tuple holding a bool and an int: the tuple becomes a list, `True` becomes 1) -/
def posInt : Ty := .rule (some intT) .none [] [("gt", .int 0)]
def listT : Ty := .rule (some (.plain (.cls .list 0))) .seq [posInt] [("max_length", .int 3)]

example : ∃ (r : V), ({} : Opts).safe = true ∧ Clean D0 3 listT = true ∧
    parse P0 PP0 D0 3 {} listT (.seq .tuple 0 [.bool true, .int 0 5]) = .ok r ∧ r = .seq .list 0 [.int 0 1, .int 0 5] :=
  ⟨_, by rfl, by decide, by rfl, rfl⟩

/-- non-vacuity for a Decimal rule with a bound, `decimal_places` and `max_digits` (`condecimal(ge=0, decimal_places=2,
max_digits=5)`): `Decimal('1.5')` is completed to `Decimal('1.50')` and conforms -/
def moneyT : Ty := .rule (some decT) .none [] [("ge", .int 0), ("decimal_places", .int 2), ("max_digits", .int 5)]

example : ∃ (r : V), Clean D0 2 moneyT = true ∧
    parse P0 PP0 D0 2 {} moneyT (.dec 0 (.fin false 15 (-1))) = .ok r ∧ r = .dec 0 (.fin false 150 (-2)) :=
  ⟨_, by decide, by rfl, rfl⟩

/-- non-vacuity for data classes: `class S(Schema): a: int; b: Optional[str] = None` from `{'a': True}` -/
def D1 : DEnv := ⟨⟨[]⟩, [{ fields := [{ name := "a", ty := intT, required := true },
  { name := "b", ty := .union [.plain (.cls .str 0), .plain (.cls .noneType 0)], required := false, default := some .none }] }]⟩

example : ∃ (r : V), CleanEnv D1 2 = true ∧ Clean D1 0 (.data 0) = true ∧
    schemaInit P0 PP0 D1 2 0 [(.str 0 "a", .bool true)] = .ok r ∧
    r = .dict (dataTagBase + 0) [(.str 0 "a", .int 0 1), (.str 0 "b", .none)] :=
  ⟨_, by decide, by decide, by rfl, rfl⟩

/-- non-vacuity for a SELF-REFERENTIAL data class: `class Node(Schema): v: int; next: Optional['Node'] = None` (the field
type is the Rule `typing.Optional` becomes: origin = the union).  The environment is clean at a fixed small `m` — the
recursion goes through the index `.data 0`, not through `Clean` — and a value nested two levels deep parses (with real
conversions: `True` → 1, `'…'`-free) and, by the theorem, conforms at every level. -/
def optNode : Ty := .rule (some (.union [.data 0, .plain (.cls .noneType 0)])) .none [] []
def Drec : DEnv := ⟨⟨[]⟩, [{ fields := [{ name := "v", ty := intT, required := true },
  { name := "next", ty := optNode, required := false, default := some .none }] }]⟩

def nodeIn : List (V × V) :=
  [(.str 0 "v", .bool true), (.str 0 "next", .dict 0 [(.str 0 "v", .int 0 2), (.str 0 "next", .dict 0 [(.str 0 "v", .int 0 3)])])]
def nodeOut : V :=
  .dict (dataTagBase + 0) [(.str 0 "v", .int 0 1), (.str 0 "next",
    .dict (dataTagBase + 0) [(.str 0 "v", .int 0 2), (.str 0 "next",
      .dict (dataTagBase + 0) [(.str 0 "v", .int 0 3), (.str 0 "next", .none)])])]

example : CleanEnv Drec 3 = true ∧ schemaInit P0 PP0 Drec 8 0 nodeIn = .ok nodeOut :=
  ⟨by decide, by rfl⟩

theorem C01_recursive_class_conforms : Conforms PP0 Drec 9 (.data 0) nodeOut :=
  C01_schema_init_conforms P0 P0_typed PP0 Drec 3 8 0 nodeIn nodeOut (by decide) (by rfl)

/-- the region is fuel-independent: `InRegion` for the recursive class and for its field types -/
example : InRegion Drec (.data 0) ∧ InRegion Drec optNode :=
  ⟨⟨3, 0, by decide, by decide⟩, ⟨3, 3, by decide, by decide⟩⟩

/-! non-vacuity for the other shapes: union (a real conversion in the strict stage), xor, conjunction with a negation,
fixed tuple, mapping -/

def unionT : Ty := .union [intT, .plain (.cls .noneType 0)]
example : Clean D0 1 unionT = true ∧ parse P0 PP0 D0 2 {} unionT (.bool true) = .ok (.int 0 1) := ⟨by decide, by rfl⟩

def xorT : Ty := .xor [posInt, .plain (.cls .noneType 0)]
example : Clean D0 2 xorT = true ∧ parse P0 PP0 D0 3 {} xorT (.int 0 4) = .ok (.int 0 4) := ⟨by decide, by rfl⟩

/-- `int & ~PositiveInt`: the conjunction of a conversion and a negation -/
def allT : Ty := .all [intT, .neg [posInt]]
example : Clean D0 1 allT = true ∧ parse P0 PP0 D0 4 {} allT (.bool false) = .ok (.int 0 0) := ⟨by decide, by rfl⟩

def tupleT : Ty := .rule (some (.plain (.cls .tuple 0))) .tuple [intT, posInt] []
example : Clean D0 3 tupleT = true ∧
    parse P0 PP0 D0 4 {} tupleT (.seq .list 0 [.bool true, .int 0 7]) = .ok (.seq .tuple 0 [.int 0 1, .int 0 7]) :=
  ⟨by decide, by rfl⟩

def mapT : Ty := .rule (some (.plain (.cls .dict 0))) .map [.plain (.cls .str 0), posInt] []
example : Clean D0 3 mapT = true ∧
    parse P0 PP0 D0 4 {} mapT (.dict 0 [(.str 0 "k", .bool true)]) = .ok (.dict 0 [(.str 0 "k", .int 0 1)]) :=
  ⟨by decide, by rfl⟩

/-- non-vacuity of `C01_type_transform_conforms` where the options are really normalised (`no_data_loss` turns the unset
`addition` into `False`): a fixed tuple with an excess item is refused, the exact one converts -/
example : (({ ndl := true } : Opts).norm.addition = .forbid) ∧ ({ ndl := true } : Opts).safe = true ∧
    typeTransform P0 PP0 D0 4 { ndl := true } tupleT (.seq .list 0 [.int 0 1, .int 0 7]) = .ok (.seq .tuple 0 [.int 0 1, .int 0 7]) ∧
    typeTransform P0 PP0 D0 4 { ndl := true } tupleT (.seq .list 0 [.int 0 1, .int 0 7, .int 0 9]) = .perr .typeError :=
  ⟨by rfl, by rfl, by rfl, by rfl⟩

/-- non-vacuity of `C01_function_conforms`: `def f(a: PositiveInt, b: int = 5) -> Optional[int]: return a` called as
`f(a=True)` — every hypothesis of the theorem holds and the call returns -/
def fnF : FnDecl := { params := [{ name := "a", ty := posInt, required := true },
  { name := "b", ty := intT, required := false, default := some (.int 0 5) }], ret := some unionT }

example : fnF.opts.safe = true ∧ (fnF.params.map (·.name)).Nodup ∧
    (∀ f ∈ fnF.params, Clean D0 2 f.ty = true ∧ f.onError ≠ some .preserve) ∧
    (∀ rt, fnF.ret = some rt → Clean D0 2 rt = true) ∧
    callFn P0 PP0 D0 4 fnF (fun args => (lookupKey "a" args).getD .none) [(.str 0 "a", .bool true)] =
      .ok ([(.str 0 "a", .int 0 1), (.str 0 "b", .int 0 5)], .int 0 1) := by
  refine ⟨by rfl, by decide, ?_, ?_, by rfl⟩
  · intro f hf
    simp only [fnF, List.mem_cons, List.mem_nil_iff, or_false] at hf
    rcases hf with rfl | rfl <;> exact ⟨by decide, by simp⟩
  · intro rt hrt
    simp only [fnF, Option.some.injEq] at hrt
    subst hrt; decide

/-- known finding `applied-instance-skips-constraints`: `P = utype.apply(gt=0)(int)` — `P(-5) == -5`: a value that already
is an instance of the decorated class is final (rule.py:1713-1718), the declared `gt = 0` is never looked at -/
def appliedT : Ty := .applied (.cls .int 0) posInt

theorem C01_applied_witness :
    parse P0 PP0 D0 3 {} appliedT (.int 0 (-5)) = .ok (.int 0 (-5)) ∧ ¬ Conforms PP0 D0 2 posInt (.int 0 (-5)) := by
  refine ⟨by rfl, ?_⟩
  intro h
  simp only [posInt, Conforms] at h
  obtain ⟨_, h | ⟨_, hsat⟩⟩ := h
  · simp [isNone] at h
  · obtain ⟨pv, hpv, hgt⟩ := C01_sat_gt PP0 (.int 0) (.int 0 (-5)) (hsat _ (by simp))
    simp [toPy] at hpv
    subst hpv
    simp at hgt

end Utv.C01
