import Utv.Util.ConvJson
import Utv.Util.PyJson
import Utv.Model.C01
open Lean Utv Utv.J Utv.Conv Utv.ConvJson Utv.C01

/-! Line protocol of the C01 check (harness/c01.py).

  ty    : "any" | target (ConvJson) | {"rule": {"origin": ty|null, "k": "none|seq|tuple|map", "args": [ty], "vs": [[name, pyval]]}}
        | {"comb": "|" | "^" | "&" | "~", "args": [ty]} | {"data": k} | {"applied": target, "inner": ty}
  opts  : {"nec","ndl","addition": "unset|no|yes","items","keys","values": "throw|exclude|preserve","unresolved","ignore_constraints"}
  env   : {"enums": ConvJson env, "datas": [{"fields": [{"name","ty","required","default"?,"on_error"?}], "opts": opts}]}
  ops   : parse  {"ty","value","opts"}                         -> outcome
          field  {"ty","value","opts"}  (required field / parameter `f: ty` under the declaration's options)
          return {"ty","value","opts"}  (return annotation)
          schema {"data": k, "value": dict}                    -> outcome
          fn     {"params","ret","fopts","body","value": dict} -> {"ok": {"args": dict, "ret": value}} | failure
-/

def policyOf : String → Policy
  | "exclude" => .exclude | "preserve" => .preserve | _ => .throw

def additionOf : String → Addition
  | "no" => .forbid | "yes" => .allow | _ => .unset

def decodeOpts (j : Json) : Opts :=
  ({ nec := bool! (fld j "nec"), ndl := bool! (fld j "ndl"), addition := additionOf (str! (fld j "addition")),
     invalidItems := policyOf (str! (fld j "items")), invalidKeys := policyOf (str! (fld j "keys")),
     invalidValues := policyOf (str! (fld j "values")), unresolved := decodeUnresolved (fld j "unresolved"),
     ignoreConstraints := bool! (fld j "ignore_constraints") } : Opts).norm

def argsKOf : String → ArgsK
  | "seq" => .seq | "tuple" => .tuple | "map" => .map | _ => .none

partial def decodeTy (j : Json) : Ty :=
  match j with
  | .str _ => .any
  | _ =>
    match obj? j "rule" with
    | some r =>
      let origin := if isNull (fld r "origin") then none else some (decodeTy (fld r "origin"))
      let vs := (arr! (fld r "vs")).map fun p => match arr! p with
        | [n, b] => (str! n, PyJson.decode b) | _ => ("", Utv.Py.PyVal.none)
      .rule origin (argsKOf (str! (fld r "k"))) ((arr! (fld r "args")).map decodeTy) vs
    | none =>
    match obj? j "comb" with
    | some c =>
      let args := (arr! (fld j "args")).map decodeTy
      (match str! c with
       | "|" => .union args | "^" => .xor args | "&" => .all args | _ => .neg args)
    | none =>
    match obj? j "data" with
    | some k => .data (nat! k)
    | none =>
    match obj? j "applied" with
    | some t => .applied (decodeTarget t) (decodeTy (fld j "inner"))
    | none => .plain (decodeTarget j)

def decodeField (j : Json) : FieldDecl :=
  { name := str! (fld j "name"), ty := decodeTy (fld j "ty"), required := bool! (fld j "required"),
    default := (obj? j "default").map decodeV,
    onError := (obj? j "on_error").bind fun x => if isNull x then none else some (policyOf (str! x)) }

def decodeDEnv (j : Json) : DEnv :=
  { enums := decodeEnv (fld j "enums")
    datas := (arr! (fld j "datas")).map fun d =>
      { fields := (arr! (fld d "fields")).map decodeField, opts := decodeOpts (fld d "opts") } }

def encodeKvs (kvs : List (V × V)) : Json := encodeV (.dict 0 kvs)

def kvsOf : V → List (V × V)
  | .dict _ kvs => kvs
  | _ => []

/-- the Py prims table with visible misses: the two variants answer a missing entry differently, so a run whose result
depends on a missing entry differs between them -/
def decodePyPrims (j : Json) (alt : Bool) : Utv.Py.Prims :=
  let T := PyJson.decodePrims j
  let hasF (tbl : String) (f : Utv.Py.FloatV) : Bool :=
    (arr! (fld j tbl)).any fun p => match arr! p with
      | x :: _ => PyJson.decodeFloat x == f
      | _ => false
  let hasD (d : Utv.Py.DecV) : Bool :=
    (arr! (fld j "decStr")).any fun p => match arr! p with
      | x :: _ => PyJson.decodeDec x == d
      | _ => false
  let hasR (f : Utv.Py.FloatV) (k : Int) : Bool :=
    (arr! (fld j "floatRound")).any fun p => match arr! p with
      | [x, kk, _] => PyJson.decodeFloat x == f && PyJson.intOfJson kk == k
      | _ => false
  let hasRe (pat s : String) : Bool :=
    (arr! (fld j "re")).any fun p => match arr! p with
      | [a, b, _] => str! a == pat && str! b == s
      | _ => false
  { floatRepr := fun f => if hasF "floatRepr" f then T.floatRepr f else (if alt then "1.5" else "<prim-miss floatRepr>")
    decStr := fun d => if hasD d then T.decStr d else (if alt then "1.5" else "<prim-miss decStr>")
    floatToDec := fun f => if hasF "floatToDec" f then T.floatToDec f else (if alt then some (.fin false 0 0) else none)
    reFullmatch := fun pat s => if hasRe pat s then T.reFullmatch pat s else (if alt then some true else some false)
    floatRound := fun f k => if hasR f k then T.floatRound f k else (if alt then .fin 1 0 else .nan) }

def handle1 (j : Json) (alt : Bool) : Json :=
  let P := decodePrims (fld j "prims")
  let PP := decodePyPrims (fld j "pyprims") alt
  let D := decodeDEnv (fld j "env")
  let fuel := match optNat (fld j "fuel") with | some n => n | none => 40
  match str! (fld j "op") with
  | "parse" =>
    encodeOutcome (parse P PP D fuel (decodeOpts (fld j "opts")) (decodeTy (fld j "ty")) (decodeV (fld j "value")))
  | "field" =>
    -- a required field `f: T` of a data class / parameter of a function whose options are `opts`
    let o := decodeOpts (fld j "opts")
    let f : FieldDecl := { name := "f", ty := decodeTy (fld j "ty"), required := true }
    (match fieldStep (parse P PP D fuel o) o f [(.str 0 "f", decodeV (fld j "value"))] with
     | .ok (some y) => encodeOutcome (.ok y)
     | .ok none => encodeOutcome (.unmodelled "field dropped")
     | .perr e => encodeOutcome (.perr e) | .escape e => encodeOutcome (.escape e)
     | .diverge => encodeOutcome .diverge | .unmodelled w => encodeOutcome (.unmodelled w))
  | "return" =>
    encodeOutcome (guard (parse P PP D fuel (decodeOpts (fld j "opts")) (decodeTy (fld j "ty")) (decodeV (fld j "value"))))
  | "schema" =>
    encodeOutcome (schemaInit P PP D fuel (nat! (fld j "data")) (kvsOf (decodeV (fld j "value"))))
  | "fn" =>
    let F : FnDecl := { params := (arr! (fld j "params")).map decodeField,
                        ret := if isNull (fld j "ret") then none else some (decodeTy (fld j "ret")),
                        opts := decodeOpts (fld j "fopts") }
    let body : List (V × V) → V := match obj? (fld j "body") "param" with
      | some n => fun args => (lookupKey (str! n) args).getD .none
      | none => fun _ => decodeV (fld (fld j "body") "raw")
    encodeOutcomeWith (fun (r : List (V × V) × V) => Json.mkObj [("args", encodeKvs r.1), ("ret", encodeV r.2)])
      (callFn P PP D fuel F body (kvsOf (decodeV (fld j "value"))))
  | _ => Json.mkObj [("driver-error", Json.str "unknown op")]

def handle (j : Json) : Json :=
  let a := handle1 j false
  let b := handle1 j true
  if a.compress == b.compress then a
  else Json.mkObj [("unmodelled", Json.str "Py-prim table miss (the answer depends on a builtin the harness did not supply)")]

def main : IO Unit := serveFlush handle
