import Utv.Model.C18
import Utv.Lemmas.C18
import Utv.Lemmas.C18Cost
/-!
Fuel adequacy for C18: the recursion of `parse` descends either into a strictly smaller part of the value or, on the
same value, into a strictly lower part of the declared type; `need H T v = vsize v * (H + 2) + tyH T + 1` bounds its depth
when every field type of the environment has height ≤ `H`.  With that much fuel the result does not depend on what
happens when fuel runs out — in particular it never reports exhaustion and is the same for every larger fuel.
-/
namespace Utv.C18

mutual
/-- height of a declared type (a data class is a leaf of the type tree: its fields are weighed through `H`) -/
def tyH : Ty → Nat
  | .leaf => 0
  | .none => 0
  | .data _ => 0
  | .list t => tyH t + 1
  | .tuple t => tyH t + 1
  | .dict _ t => tyH t + 1
  | .union ts => tyHL ts + 1
def tyHL : List Ty → Nat
  | [] => 0
  | t :: ts => max (tyH t) (tyHL ts)
end

theorem tyHL_mem (ts : List Ty) (t : Ty) (h : t ∈ ts) : tyH t ≤ tyHL ts := by
  induction ts with
  | nil => cases h
  | cons x xs ih =>
    simp only [tyHL]
    rcases List.mem_cons.1 h with rfl | hm
    · exact Nat.le_max_left _ _
    · exact Nat.le_trans (ih hm) (Nat.le_max_right _ _)

/-- every field type of the environment has height ≤ H -/
def envH (H : Nat) (E : Env) : Bool := E.all fun cd => cd.fields.all fun ft => decide (tyH ft.2 ≤ H)

theorem envH_field (H : Nat) (E : Env) (h : envH H E = true) (k : Nat) (cd : ClassDecl) (hk : E[k]? = some cd) :
    ∀ ft ∈ cd.fields, tyH ft.2 ≤ H := by
  have hmem : cd ∈ E := List.mem_of_getElem? hk
  simp only [envH, List.all_eq_true, decide_eq_true_eq] at h
  exact fun ft hft => h cd hmem ft hft

/-- fuel that is enough for `(T, v)` -/
def need (H : Nat) (T : Ty) (v : Val) : Nat := vsize v * (H + 2) + tyH T + 1

/-- `step` iterated `n` times over a base parser `b` (`parse fuel = iter base fuel`) -/
def iter (W : World) (Q : Quirks) (E : Env) (b : Parser) : Nat → Parser
  | 0 => b
  | n + 1 => step W Q E (iter W Q E b n)

def outOfFuel : Parser := fun _ _ _ => (.err { fuel := true }, 0)

theorem parse_eq_iter (W : World) (Q : Quirks) (E : Env) (n : Nat) : parse W Q E n = iter W Q E outOfFuel n := by
  induction n with
  | zero => rfl
  | succ n ih => simp only [parse, iter, ih]

theorem iter_add (W : World) (Q : Quirks) (E : Env) (b : Parser) (n j : Nat) :
    iter W Q E b (n + j) = iter W Q E (iter W Q E b j) n := by
  induction n with
  | zero => simp [iter]
  | succ n ih =>
    have : n + 1 + j = (n + j) + 1 := by omega
    rw [this]
    simp only [iter, ih]

/-! ### congruence of the loops -/

theorem seqM_congr {α β} (p q : α → Out β × Nat) (l : List α) (h : ∀ a ∈ l, p a = q a) : seqM p l = seqM q l := by
  induction l with
  | nil => rfl
  | cons a as ih =>
    simp only [seqM, h a (by simp), ih (fun a' ha' => h a' (by simp [ha']))]

theorem tryAll_congr {α β} (p q : α → Out β × Nat) (l : List α) (f : Flags) (h : ∀ a ∈ l, p a = q a) :
    tryAll p l f = tryAll q l f := by
  induction l generalizing f with
  | nil => rfl
  | cons a as ih =>
    simp only [tryAll, h a (by simp)]
    rcases q a with ⟨o, c⟩
    cases o with
    | ok b => rfl
    | err g => simp only [ih (f.or g) (fun a' ha' => h a' (by simp [ha']))]

theorem inCtx_congr {β} (e : Out Ctx) (p q : Ctx → Out β × Nat) (h : ∀ c, p c = q c) : inCtx e p = inCtx e q := by
  cases e with
  | err f => rfl
  | ok c => exact h c

/-! ### sizes of the parts -/

theorem vsizeL_mem (vs : List Val) (x : Val) (h : x ∈ vs) : vsize x ≤ vsizeL vs := by
  induction vs with
  | nil => cases h
  | cons y ys ih =>
    simp only [vsizeL]
    rcases List.mem_cons.1 h with rfl | hm
    · omega
    · have := ih hm; omega

theorem vsizeK_mem (kvs : List (Key × Val)) (k : Key) (x : Val) (h : (k, x) ∈ kvs) : vsize x ≤ vsizeK kvs := by
  induction kvs with
  | nil => cases h
  | cons y ys ih =>
    rcases y with ⟨k', v'⟩
    simp only [vsizeK]
    rcases List.mem_cons.1 h with he | hm
    · cases he; omega
    · have := ih hm; omega

theorem lookupKey_mem {α} (k : Key) (kvs : List (Key × α)) (a : α) (h : lookupKey k kvs = some a) : (k, a) ∈ kvs := by
  induction kvs with
  | nil => simp [lookupKey] at h
  | cons y ys ih =>
    rcases y with ⟨k', a'⟩
    simp only [lookupKey] at h
    split at h
    · rename_i he; cases h; subst he; simp
    · exact List.mem_cons_of_mem _ (ih h)

theorem toDict_size_lt (m : Mode) (v : Val) (kvs : List (Key × Val)) (h : toDict m v = some kvs) :
    vsizeK kvs < vsize v := by
  cases v with
  | tok n => simp [toDict] at h
  | none => simp [toDict] at h
  | dict l => simp [toDict] at h; subst h; simp [vsize]
  | list l =>
    cases l with
    | nil => simp only [toDict] at h; split at h <;> simp_all [vsizeK, vsize]
    | cons w ws =>
      simp only [toDict] at h
      split at h
      · cases h
      · split at h
        · cases h
        · cases w with
          | dict k0 => simp at h; subst h; simp [vsize, vsizeL]; omega
          | list l0 =>
            cases l0 with
            | nil => simp at h; subst h; simp [vsizeK, vsize]
            | cons a b => simp at h
          | tok n => simp at h
          | none => simp at h

theorem wrapSeq_item_need (H : Nat) (m : Mode) (t : Ty) (v : Val) (vs : List Val) (x : Val) (hw : wrapSeq m v = some vs)
    (hx : x ∈ vs) : vsize x * (H + 2) + tyH t + 1 < vsize v * (H + 2) + (tyH t + 1) + 1 := by
  have hle : vsize x ≤ vsize v := Nat.le_trans (vsizeL_mem vs x hx) (wrapSeq_size m v vs hw)
  have := Nat.mul_le_mul_right (H + 2) hle
  omega

theorem indexed_snd_mem {α} (l : List α) (i : Nat) (p : Nat × α) (h : p ∈ indexed i l) : p.2 ∈ l := by
  induction l generalizing i with
  | nil => simp [indexed] at h
  | cons y ys ih =>
    simp only [indexed, List.mem_cons] at h
    rcases h with rfl | h
    · simp
    · exact List.mem_cons_of_mem _ (ih _ h)

theorem knownPrefix_subset (fields : List (String × Ty)) (kvs : List (Key × Val)) (p : Key × Val)
    (h : p ∈ knownPrefix fields kvs) : p ∈ kvs :=
  (List.takeWhile_sublist _).subset h

theorem knownItems_value (fields : List (String × Ty)) (kvs : List (Key × Val)) (it : String × Ty × Val)
    (h : it ∈ knownItems fields kvs) : ∃ k, (k, it.2.2) ∈ kvs := by
  have h' := dedupFst_subset _ it h
  obtain ⟨kv, hkv, he⟩ := List.mem_filterMap.1 h'
  refine ⟨kv.1, ?_⟩
  cases hk : kv.1 with
  | int i => simp [hk] at he
  | other n => simp [hk] at he
  | str s =>
    simp only [hk] at he
    cases hl : fields.lookup s with
    | none => simp [hl] at he
    | some t =>
      simp only [hl, Option.map_some, Option.some.injEq] at he
      subst he
      simpa [← hk] using hkv

/-! ### one layer only looks at strictly smaller arguments -/

section
variable {W : World} {Q : Quirks} {E : Env}

theorem step_congr_need (H : Nat) (hE : envH H E = true) (r1 r2 : Parser) (c : Ctx) (T : Ty) (v : Val)
    (h : ∀ c' T' v', need H T' v' < need H T v → r1 c' T' v' = r2 c' T' v') :
    step W Q E r1 c T v = step W Q E r2 c T v := by
  cases T with
  | leaf => rfl
  | none => rfl
  | data k =>
    simp only [step]
    cases hk : E[k]? with
    | none => rfl
    | some cd =>
      have hf := envH_field H E hE k cd hk
      simp only
      cases hu : unwrapData c.mode v with
      | none => rfl
      | some v1 =>
        simp only
        split
        · rfl
        · cases ht : toDict cd.mode v1 with
          | none => rfl
          | some kvs =>
            simp only
            have hsz : vsizeK kvs < vsize v := Nat.lt_of_lt_of_le (toDict_size_lt _ _ _ ht) (unwrapData_size _ _ _ hu)
            -- a field value found among the keys, parsed as a declared field type
            have hfield : ∀ (c1 : Ctx) (t : Ty) (x : Val) (key : Key), tyH t ≤ H → (key, x) ∈ kvs →
                parseField Q r1 c1 t x = parseField Q r2 c1 t x := by
              intro c1 t x key hth hx
              simp only [parseField]
              apply inCtx_congr
              intro c2
              apply h
              have hle : vsize x ≤ vsizeK kvs := vsizeK_mem kvs key x hx
              have : vsize x + 1 ≤ vsize v := by omega
              have := Nat.mul_le_mul_right (H + 2) this
              simp only [need, tyH]
              rw [Nat.add_mul] at this
              omega
            congr 2
            split
            · simp only [parseDF]
              congr 1
              apply seqM_congr
              intro it hit
              have hft := knownItems_field _ _ it hit
              obtain ⟨key, hkey⟩ := knownItems_value _ _ it hit
              have hkey' : (key, it.2.2) ∈ kvs := by
                split at hkey
                · exact knownPrefix_subset _ _ _ hkey
                · exact hkey
              rw [hfield _ it.2.1 it.2.2 key (hf (it.1, it.2.1) hft) hkey']
            · simp only [parseFF]
              apply seqM_congr
              intro ft hft
              simp only [ffItem]
              cases hl : lookupKey (Key.str ft.1) kvs with
              | none => rfl
              | some fv => simp only; rw [hfield _ ft.2 fv _ (hf ft hft) (lookupKey_mem _ _ _ hl)]
  | list t =>
    simp only [step]
    cases hw : wrapSeq c.mode v with
    | none => rfl
    | some vs =>
      simp only [parseItems]
      congr 1
      apply seqM_congr
      intro iv hiv
      apply inCtx_congr
      intro c2
      apply h
      simp only [need, tyH]
      exact wrapSeq_item_need H _ t v vs iv.2 hw (indexed_snd_mem vs 0 iv hiv)
  | tuple t =>
    simp only [step]
    cases hw : wrapSeq c.mode v with
    | none => rfl
    | some vs =>
      simp only [parseItems]
      congr 1
      apply seqM_congr
      intro iv hiv
      apply inCtx_congr
      intro c2
      apply h
      simp only [need, tyH]
      exact wrapSeq_item_need H _ t v vs iv.2 hw (indexed_snd_mem vs 0 iv hiv)
  | dict kt t =>
    simp only [step]
    cases ht : toDict c.mode v with
    | none => rfl
    | some kvs =>
      simp only [parseEntries]
      congr 1
      apply seqM_congr
      intro kv hkv
      split
      · rfl
      · congr 1
        apply inCtx_congr
        intro c2
        apply h
        have hle : vsize kv.2 ≤ vsizeK kvs := vsizeK_mem kvs kv.1 kv.2 hkv
        have hlt := toDict_size_lt _ _ _ ht
        have : vsize kv.2 + 1 ≤ vsize v := by omega
        have := Nat.mul_le_mul_right (H + 2) this
        simp only [need, tyH]
        rw [Nat.add_mul] at this
        omega
  | union ts =>
    simp only [step, parseUnion]
    have hstage : ∀ m f, unionStage Q r1 c ts v m f = unionStage Q r2 c ts v m f := by
      intro m f
      simp only [unionStage]
      apply tryAll_congr
      intro t ht
      apply inCtx_congr
      intro c2
      apply h
      have := tyHL_mem ts t ht
      simp only [need, tyH]
      omega
    simp only [hstage]

/-- with `need` fuel the base parser is never consulted -/
theorem iter_indep (H : Nat) (hE : envH H E = true) (b1 b2 : Parser) (n : Nat) :
    ∀ c T v, need H T v ≤ n → iter W Q E b1 n c T v = iter W Q E b2 n c T v := by
  induction n with
  | zero => intro c T v hn; simp [need] at hn
  | succ n ih =>
    intro c T v hn
    simp only [iter]
    apply step_congr_need H hE
    intro c' T' v' hlt
    exact ih c' T' v' (by omega)

end

/-! ### exhaustion is never reported when it cannot happen -/

def NoFuelFlag (rec : Parser) : Prop := ∀ c T v f, (rec c T v).1 = .err f → f.fuel = false

theorem seqM_noFuel {α β} (p : α → Out β × Nat) (l : List α) (h : ∀ a f, (p a).1 = .err f → f.fuel = false) :
    ∀ f, (seqM p l).1 = .err f → f.fuel = false := by
  induction l with
  | nil => intro f hf; simp [seqM] at hf
  | cons a as ih =>
    intro f hf
    simp only [seqM] at hf
    rcases hp : p a with ⟨o, c⟩
    rw [hp] at hf
    cases o with
    | err g => simp at hf; subst hf; exact h a g (by rw [hp])
    | ok b =>
      rcases hs : seqM p as with ⟨o', c'⟩
      rw [hs] at hf
      cases o' with
      | ok bs => simp at hf
      | err g => simp at hf; subst hf; exact ih g (by rw [hs])

theorem tryAll_noFuel {α β} (p : α → Out β × Nat) (l : List α) (h : ∀ a f, (p a).1 = .err f → f.fuel = false) :
    ∀ f0 f, f0.fuel = false → (tryAll p l f0).1 = .err f → f.fuel = false := by
  induction l with
  | nil => intro f0 f h0 hf; simp [tryAll] at hf; subst hf; exact h0
  | cons a as ih =>
    intro f0 f h0 hf
    simp only [tryAll] at hf
    rcases hp : p a with ⟨o, c⟩
    rw [hp] at hf
    cases o with
    | ok b => simp at hf
    | err g =>
      have hg := h a g (by rw [hp])
      simp only at hf
      exact ih (f0.or g) f (by simp [Flags.or, h0, hg]) hf

theorem orElse_noFuel {β} (a : Out β × Nat) (k : Flags → Out β × Nat)
    (ha : ∀ f, a.1 = .err f → f.fuel = false) (hk : ∀ f0 f, f0.fuel = false → (k f0).1 = .err f → f.fuel = false) :
    ∀ f, (orElse a k).1 = .err f → f.fuel = false := by
  intro f hf
  rcases a with ⟨o, c⟩
  cases o with
  | ok b => simp [orElse] at hf
  | err g =>
    simp only [orElse] at hf
    rcases hs : k g with ⟨o', c'⟩
    rw [hs] at hf
    simp only at hf
    subst hf
    exact hk g _ (ha g rfl) (by rw [hs])

theorem mapOut_noFuel {β γ} (g : β → γ) (o : Out β × Nat) (h : ∀ f, o.1 = .err f → f.fuel = false) :
    ∀ f, (mapOut g o).1 = .err f → f.fuel = false := by
  rcases o with ⟨o, n⟩
  cases o with
  | ok b => intro f hf; simp [mapOut] at hf
  | err f0 => intro f hf; simp [mapOut] at hf; subst hf; exact h f0 rfl

theorem failIf_noFuel {β} (b : Bool) (o : Out β × Nat) (h : ∀ f, o.1 = .err f → f.fuel = false) :
    ∀ f, (failIf b o).1 = .err f → f.fuel = false := by
  rcases o with ⟨o, n⟩
  cases b <;> cases o <;> intro f hf <;> simp [failIf] at hf
  · subst hf; exact h _ rfl
  · subst hf; rfl
  · subst hf; exact h _ rfl

theorem inCtx_noFuel {β} (Q : Quirks) (c : Ctx) (b : Bool) (m : Mode) (p : Ctx → Out β × Nat)
    (h : ∀ c' f, (p c').1 = .err f → f.fuel = false) :
    ∀ f, (inCtx (enter Q c b m) p).1 = .err f → f.fuel = false := by
  intro f hf
  cases he : enter Q c b m with
  | ok c' => rw [he] at hf; exact h c' f hf
  | err g =>
    rw [he] at hf
    simp only [inCtx, Out.err.injEq] at hf
    subst hf
    simp only [enter] at he
    generalize (if (Q.falsyRoute && b) = true then c.depth + 1 else c.depth) = d at he
    split at he
    · simp only [Out.err.injEq] at he; subst he; rfl
    · exact absurd he (by simp)

section
variable {W : World} {Q : Quirks} {E : Env} {rec : Parser}

theorem step_noFuel (h : NoFuelFlag rec) : NoFuelFlag (step W Q E rec) := by
  have hfield : ∀ c t v f, (parseField Q rec c t v).1 = .err f → f.fuel = false := by
    intro c t v
    exact inCtx_noFuel Q c false c.mode _ (fun c' f hf => h c' t v f hf)
  intro c T v f hf
  cases T with
  | leaf =>
    simp only [step] at hf
    cases v with
    | tok n =>
      by_cases hl : W.leafOk c.mode n = true
      · simp [hl] at hf
      · simp [hl] at hf; subst hf; rfl
    | none => simp at hf; subst hf; rfl
    | list l => simp at hf; subst hf; rfl
    | dict l => simp at hf; subst hf; rfl
  | none =>
    simp only [step] at hf
    cases v <;> simp at hf <;> (subst hf; rfl)
  | data k =>
    simp only [step] at hf
    cases hk : E[k]? with
    | none => simp [hk] at hf; subst hf; rfl
    | some cd =>
      simp only [hk] at hf
      cases hu : unwrapData c.mode v with
      | none => simp [hu] at hf; subst hf; rfl
      | some v1 =>
        simp only [hu] at hf
        split at hf
        · simp at hf; subst hf; rfl
        · cases ht : toDict cd.mode v1 with
          | none => simp [ht] at hf; subst hf; rfl
          | some kvs =>
            simp only [ht] at hf
            refine mapOut_noFuel _ _ (failIf_noFuel _ _ ?_) f hf
            split
            · simp only [parseDF]
              apply mapOut_noFuel
              apply seqM_noFuel
              intro it
              exact mapOut_noFuel _ _ (hfield _ _ _)
            · simp only [parseFF]
              apply seqM_noFuel
              intro ft
              simp only [ffItem]
              cases lookupKey (Key.str ft.1) kvs with
              | none => intro g hg; simp at hg
              | some fv => exact mapOut_noFuel _ _ (hfield _ _ _)
  | list t =>
    simp only [step] at hf
    cases hw : wrapSeq c.mode v with
    | none => simp [hw] at hf; subst hf; rfl
    | some vs =>
      simp only [hw] at hf
      refine mapOut_noFuel _ _ ?_ f hf
      simp only [parseItems]
      apply seqM_noFuel
      intro iv
      exact inCtx_noFuel Q c _ _ _ (fun c' g hg => h c' t iv.2 g hg)
  | tuple t =>
    simp only [step] at hf
    cases hw : wrapSeq c.mode v with
    | none => simp [hw] at hf; subst hf; rfl
    | some vs =>
      simp only [hw] at hf
      refine mapOut_noFuel _ _ ?_ f hf
      simp only [parseItems]
      apply seqM_noFuel
      intro iv
      exact inCtx_noFuel Q c _ _ _ (fun c' g hg => h c' t iv.2 g hg)
  | dict kt t =>
    simp only [step] at hf
    cases ht : toDict c.mode v with
    | none => simp [ht] at hf; subst hf; rfl
    | some kvs =>
      simp only [ht] at hf
      refine mapOut_noFuel _ _ ?_ f hf
      simp only [parseEntries]
      apply seqM_noFuel
      intro kv
      split
      · intro g hg; simp at hg; subst hg; rfl
      · exact mapOut_noFuel _ _ (inCtx_noFuel Q c _ _ _ (fun c' g hg => h c' t kv.2 g hg))
  | union ts =>
    simp only [step, parseUnion] at hf
    have hstage : ∀ m f0 g, f0.fuel = false → (unionStage Q rec c ts v m f0).1 = .err g → g.fuel = false := by
      intro m f0 g h0 hg
      simp only [unionStage] at hg
      exact tryAll_noFuel _ ts (fun t => inCtx_noFuel Q c false m _ (fun c' g' hg' => h c' t v g' hg')) f0 g h0 hg
    split at hf
    · simp at hf
    · refine orElse_noFuel _ _ ?_ ?_ f hf
      · intro g hg
        split at hg
        · exact hstage _ _ g rfl hg
        · simp at hg; subst hg; rfl
      · intro f0 g h0 hg
        refine orElse_noFuel _ _ ?_ ?_ g hg
        · intro g' hg'
          split at hg'
          · exact hstage _ _ g' h0 hg'
          · simp at hg'; subst hg'; exact h0
        · intro f1 g' h1 hg'
          exact hstage _ _ g' h1 hg'

theorem iter_noFuel (b : Parser) (hb : NoFuelFlag b) (n : Nat) : NoFuelFlag (iter W Q E b n) := by
  induction n with
  | zero => exact hb
  | succ n ih => exact step_noFuel ih

end

end Utv.C18
