/-
C09 — model of the logical type combinators of utype.

Part A (`logical*`): `LogicalType.logical_parse`, utype/parser/rule.py:359-467 (after the `fix:` patches
utype commits 4070fa5 (xor), 592a37c and c9f6bef (AllOf)), branch for branch, over *abstract* argument
parsers: an argument is a pair ⟨`exact v` = `type(value) == con`, `run o c v` = `ctx.transformer(value, con)` for a
context with options `o` and error state `c`, returning the new state⟩, so every theorem holds for every argument type (builtin, constrained, generic, data class,
nested combinator).  The error bookkeeping of `RuntimeContext` (options.py:444-480: `errors`, `tmp_errors`,
`handle_error`, `collect_tmp_error`, `clear_tmp_error`, `raise_error`) is modelled explicitly because the
branches depend on it (an error raised by `handle_error` inside a `try` is swallowed but stays in `errors`).
`logicalXorLegacy` is the `^` branch *before* the fix (value threading, exact-type shortcut), kept for the
negation witnesses in Props/C09.

Part B (`combine`, `combineBy`, `binop`, `invert`): construction of logical types,
rule.py:152-177, 231-318 and schema.py:16-63, on a datatype of type expressions.  Python classes compare by
identity, so every freshly created class carries the serial number of the construction step that made it.

Hand-written; tied to the code by the correspondence run (harness/c09.py).
-/
namespace Utv.C09

/-! ## Part A — logical_parse -/

/-- the fields of `Options` that `logical_parse` / `RuntimeContext` read -/
structure Opts where
  noDataLoss : Bool := false
  noExplicitCast : Bool := false
  collectErrors : Bool := false
  maxErrors : Option Nat := none
  override : Bool := false
  deriving DecidableEq, Repr

/-- exceptions as trees of class ids (`CollectedParseError.errors`) -/
inductive Err where
  | mk (cls : Nat) (sub : List Err)
  deriving Repr

def Err.collectedId : Nat := 0
def Err.oneOfId : Nat := 1
def Err.negateId : Nat := 2
def Err.parseErrorId : Nat := 3
/-- convention of the class ids: ids below `nonParseBase` denote `exc.ParseError` and its subclasses,
ids from `nonParseBase` on every other exception class (TypeError, ValueError, AttributeError, …) -/
def Err.nonParseBase : Nat := 1000
def Err.cls : Err → Nat
  | .mk c _ => c
def Err.isParseError (e : Err) : Bool := e.cls < Err.nonParseBase
/-- `if not isinstance(e, exc.ParseError): e = exc.ParseError(type=con, value=value, origin_exc=e)` (rule.py:372-373) -/
def Err.wrapParse (e : Err) : Err := if e.isParseError then e else .mk Err.parseErrorId []
def Err.collected (es : List Err) : Err := .mk Err.collectedId es
def Err.oneOf : Err := .mk Err.oneOfId []
def Err.negate : Err := .mk Err.negateId []

/-- `RuntimeContext.errors` / `.tmp_errors` -/
structure Ctx where
  errors : List Err := []
  tmp    : List Err := []
  deriving Repr

/-- what a call leaves behind: the (possibly changed) context of the caller and the value or exception -/
abbrev Res (V : Type) := Ctx × Except Err V

/-- one argument of a combinator, as `logical_parse` sees it.  `run o c v` = `ctx.transformer(value, con)` where `ctx`
has options `o` and the error state `c`; the argument may change that state (a `Rule` records an error in the
context it was GIVEN before raising it; a nested combinator under `&` works on its parent's context). -/
structure Arg (V : Type) where
  exact : V → Bool                        -- `type(value) == con`
  run   : Opts → Ctx → V → Res V          -- `.error` = any `Exception`

/-- the argument measured in isolation: called with a fresh context -/
def Arg.out {V : Type} (a : Arg V) (o : Opts) (v : V) : Except Err V := (a.run o {} v).2

def Ctx.push (c : Ctx) (e : Err) : Ctx := { c with errors := c.errors ++ [e] }

/-- `handle_error` (options.py:460-476): record, then raise unless collecting (or `max_errors` reached).
Returns the new context and the exception raised, if any. -/
def handleError (o : Opts) (c : Ctx) (e : Err) : Ctx × Option Err :=
  if !o.collectErrors then (c.push e, some e)
  else match o.maxErrors with
    | some m =>
      if (c.push e).errors.length ≥ m then (c.push e, some (.collected ((c.push e).errors ++ (c.push e).tmp)))
      else (c.push e, none)
    | none => (c.push e, none)

/-- `raise_error(); return value` (options.py:444-452) -/
def raiseError {V : Type} (c : Ctx) (v : V) : Res V :=
  (c, if c.errors.isEmpty && c.tmp.isEmpty then .ok v else .error (.collected (c.errors ++ c.tmp)))

/-- a `handle_error(e)` that is not inside a `try`, followed (if it returns) by `break … raise_error(); return value` -/
def afterHandle {V : Type} (p : Ctx × Option Err) (v : V) : Res V :=
  match p with
  | (c, some e') => (c, .error e')     -- `handle_error` raises out of logical_parse
  | (c, none) => raiseError c v        -- `break`, then `raise_error()`

/-- `self.options & options` (options.py:300-311) for the two option sets `logical_parse` builds -/
def strictOpts (o : Opts) : Opts :=
  if o.override then o else { o with noDataLoss := true, noExplicitCast := true }
def noLossOpts (o : Opts) : Opts :=
  if o.override then o else { o with noDataLoss := true }

/-- the option sets of the union stages 2, 3, 4 in order (rule.py:388-429) -/
def stages (o : Opts) : List Opts :=
  (if !o.noDataLoss || !o.noExplicitCast then [strictOpts o] else [])
  ++ (if !o.noDataLoss && !o.noExplicitCast then [noLossOpts o] else [])
  ++ [o]

section
variable {V : Type}

/-! ### `&` (rule.py:366-379): the conditions run on the combinator's OWN context (no `enter`); a non-ParseError
exception of a condition is wrapped into ParseError -/

/-- the loop: context, running value, and the first exception -/
def allLoop (o : Opts) : List (Arg V) → Ctx → V → Ctx × V × Option Err
  | [], c, v => (c, v, none)
  | a :: as, c, v =>
    match a.run o c v with
    | (c', .ok v') => allLoop o as c' v'
    | (c', .error e) => (c', v, some e)

def logicalAll (as : List (Arg V)) (o : Opts) (c : Ctx) (v : V) : Res V :=
  match allLoop o as c v with
  | (c', v', none) => raiseError c' v'
  | (c', v', some e) => afterHandle (handleError o c' e.wrapParse) v'

/-! ### `|` (rule.py:381-429): every condition runs in a context of its own (`context.enter`), whose state is dropped -/

/-- one stage: try every argument under options `s`; `tmp` = `context.tmp_errors` -/
def tryArgs (s : Opts) (v : V) : List (Arg V) → List Err → Option V × List Err
  | [], tmp => (none, tmp)
  | a :: as, tmp =>
    match a.out s v with
    | .ok r => (some r, [])                     -- `clear_tmp_error(); return val`
    | .error e => tryArgs s v as (tmp ++ [e])   -- `collect_tmp_error(e)`

def unionStages (as : List (Arg V)) (v : V) : List Opts → List Err → Option V × List Err
  | [], tmp => (none, tmp)
  | s :: ss, tmp =>
    match tryArgs s v as tmp with
    | (some r, _) => (some r, [])
    | (none, tmp') => unionStages as v ss tmp'

def logicalUnion (as : List (Arg V)) (o : Opts) (c : Ctx) (v : V) : Res V :=
  if as.any (fun a => a.exact v) then (c, .ok v)          -- 1. EXACT identical type: `return value`
  else match unionStages as v (stages o) c.tmp with
    | (some r, _) => ({ c with tmp := [] }, .ok r)        -- `clear_tmp_error(); return val` (no `raise_error`)
    | (none, tmp) => raiseError { c with tmp := tmp } v

/-! ### `^` after the fix (rule.py:431-462) -/

/-- the loop: `(result of the only accepting condition so far, tmp_errors, violated?)` -/
def xorLoop (o : Opts) (v : V) : List (Arg V) → Option V → List Err → Option V × List Err × Bool
  | [], acc, tmp => (acc, tmp, false)
  | a :: as, acc, tmp =>
    match a.out o v with
    | .error e => xorLoop o v as acc (tmp ++ [e])
    | .ok r =>
      match acc with
      | none => xorLoop o v as (some r) tmp
      | some _ => (none, tmp, true)              -- second acceptance: `xor = None; handle_error; break`

def logicalXor (as : List (Arg V)) (o : Opts) (c : Ctx) (v : V) : Res V :=
  match xorLoop o v as none c.tmp with
  | (_, tmp, true) => afterHandle (handleError o { c with tmp := tmp } .oneOf) v
  | (some r, _, false) => raiseError { c with tmp := [] } r      -- `clear_tmp_error(); value = result`; `raise_error()`
  | (none, tmp, false) => raiseError { c with tmp := tmp } v

/-! ### `^` before the fix (kept for the witnesses): exact-type shortcut, the value converted by one
condition is passed to the next, and the exception raised by `handle_error` is caught by the loop's own
`except Exception` -/

def xorLoopLegacy (o : Opts) : List (Arg V) → V → Bool → Ctx → V × Bool × Ctx
  | [], v, x, c => (v, x, c)
  | a :: as, v, x, c =>
    match a.out o v with
    | .error e => xorLoopLegacy o as v x { c with tmp := c.tmp ++ [e] }
    | .ok r =>
      if !x then xorLoopLegacy o as r true c
      else match handleError o c .oneOf with
        | (c1, some e) => xorLoopLegacy o as r true { c1 with tmp := c1.tmp ++ [e] }
        | (c1, none) => (r, false, c1)

def logicalXorLegacy (as : List (Arg V)) (o : Opts) (v : V) : Except Err V :=
  if as.any (fun a => a.exact v) then .ok v
  else match xorLoopLegacy o as v false {} with
    | (v', true, c) => (raiseError { c with tmp := [] } v').2
    | (v', false, c) => (raiseError c v').2

/-! ### `~` (rule.py:464-476) -/

def negLoop (o : Opts) (v : V) : List (Arg V) → Ctx → Ctx
  | [], c => c
  | a :: as, c =>
    match a.out o v with
    | .error _ => c                               -- `except Exception: break`
    | .ok _ =>
      match handleError o c .negate with
      | (c1, some _) => c1                        -- raised inside the `try`: caught, `break`
      | (c1, none) => negLoop o v as c1

def logicalNeg (as : List (Arg V)) (o : Opts) (c : Ctx) (v : V) : Res V :=
  raiseError (negLoop o v as c) v

end

/-! ## Part B — construction -/

inductive Comb where
  | all | any | one | neg
  deriving DecidableEq, Repr

/-- Python objects that can be an operand or a result of the logical operators -/
inductive Ty where
  | cls (id : Nat)                 -- a plain class (metaclass `type`): int, str, NoneType, …
  | rule (id : Nat)                -- a `Rule` subclass without combinator (metaclass LogicalType)
  | dc (id : Nat)                  -- a data class (metaclass LogicalMeta)
  | ruleBase                       -- the class `Rule`
  | anyT                           -- typing.Any
  | noneV                          -- the value None
  | alias (key : Nat)              -- a typing generic alias such as List[int] (not a class)
  | lit (key : Nat)                -- a literal value such as 3 or 'a' (becomes Literal[...])
  | annot (key : Nat) (uid : Nat)  -- the NEW class `Rule.annotate` makes from `alias key`
  | comb (c : Comb) (args : List Ty) (uid : Nat)   -- a LogicalType with combinator
  | str (key : Nat)                -- a string operand (a forward reference by name)
  | fwd (key : Nat)                -- `ForwardRef(name)` (compares equal by name); unevaluated: C17's business
  | selfT (id : Nat)               -- `typing.Self` (kept as it is by `_parse_arg`)
  | tunion (members : List Ty)     -- `typing.Union[...]` / `Optional[...]` of classes / None (distinct, no Any: typing
                                   --   itself flattens and removes duplicates)
  | wrap (inner : Ty) (uid : Nat)  -- the anonymous `Rule[AnyOf(...)]` that `Rule.annotate` puts around a typing.Union
  deriving Repr

/-- `a == b` on these objects: identity -/
def Ty.same : Ty → Ty → Bool
  | .cls a, .cls b => a == b
  | .rule a, .rule b => a == b
  | .dc a, .dc b => a == b
  | .ruleBase, .ruleBase => true
  | .anyT, .anyT => true
  | .noneV, .noneV => true
  | .alias a, .alias b => a == b
  | .lit a, .lit b => a == b
  | .annot _ u, .annot _ v => u == v
  | .comb _ _ u, .comb _ _ v => u == v
  | .str a, .str b => a == b
  | .fwd a, .fwd b => a == b
  | .selfT _, .selfT _ => true
  | .wrap _ u, .wrap _ v => u == v
  | _, _ => false

/-- `isinstance(x, LogicalType)` -/
def Ty.isLogical : Ty → Bool
  | .rule _ | .ruleBase | .annot _ _ | .comb _ _ _ | .wrap _ _ => true
  | _ => false

def Ty.combinator : Ty → Option Comb
  | .comb c _ _ => some c
  | _ => none

def Ty.args : Ty → List Ty
  | .comb _ as _ => as
  | _ => []

/-- the reserved NoneType class id -/
def noneTypeId : Nat := 0

/-- a member of a typing.Union as `Rule.annotate` hands it to `any_of` -/
def parseMember : Ty → Ty
  | .noneV => .cls noneTypeId
  | t => t

/-- `combine`'s `isinstance(arg, str) → ForwardRef(arg)` followed by `_parse_arg` (rule.py:152-177, 238-241);
`uid` is the serial of the class `Rule.annotate` would create.  A typing.Union operand that is NOT splatted by the
operator (`&`, `^`, classmethod constructors) becomes `Rule[AnyOf(members)]`. -/
def parseArg (uid : Nat) : Ty → Ty
  | .noneV => .cls noneTypeId
  | .alias k => .annot k uid
  | .lit k => .annot k uid
  | .str k => .fwd k
  | .tunion ms => .wrap (.comb .any (ms.map parseMember) (uid * 4096 + 1)) uid
  | t => t

/-- `combine` (rule.py:231-266).  Operand `i` gets the serial `uid + 1 + i`, the result `uid`. -/
def combineLoop (op : Comb) (uid : Nat) : List Ty → List Ty → Nat → Option (List Ty)
  | [], acc, _ => some acc
  | a :: rest, acc, i =>
    let a' := parseArg (uid + 1 + i) a
    if a'.same .anyT then
      match op with
      | .any | .one => none                                   -- `return Rule`
      | .all => combineLoop op uid rest acc (i + 1)           -- `continue`
      | .neg => if acc.any (·.same a') then combineLoop op uid rest acc (i + 1)
                else combineLoop op uid rest (acc ++ [a']) (i + 1)
    else if acc.any (·.same a') then combineLoop op uid rest acc (i + 1)
    else combineLoop op uid rest (acc ++ [a']) (i + 1)

def combine (op : Comb) (uid : Nat) (args : List Ty) : Ty :=
  match combineLoop op uid args [] 0 with
  | none => .ruleBase
  | some [] => .ruleBase
  | some [a] => if op = .neg then .comb op [a] uid else a
  | some as => .comb op as uid

/-- `combine_by` (rule.py:268-278) -/
def combineBy (self : Ty) (op : Comb) (uid : Nat) (other : Ty) (reverse : Bool) : Ty :=
  let left := if self.combinator = some op then self.args else [self]
  let right := if other.isLogical && other.combinator = some op then other.args else [other]
  combine op uid (if reverse then right ++ left else left ++ right)

/-- what Python does for `l <op> r` with `op ∈ {&, |, ^}` when at least one operand is a utype class:
`LogicalType.__and__/__or__/__xor__` and their reflections (rule.py:302-322), `LogicalMeta` (schema.py:33-66).
`|` with a typing.Union on the right SPLATS its members (rule.py:309-311, schema.py:45-46).
`none` = the expression never reaches utype (Python's own `type.__or__`, typing's `__or__`) or is a TypeError. -/
def binop (op : Comb) (uid : Nat) (l r : Ty) : Option Ty :=
  if op = .neg then none else
  if l.isLogical then
    match op, r with
    | .any, .tunion ms =>                                   -- `cls.combine_by("|", other.__args__)`
      some (combine op uid ((if l.combinator = some op then l.args else [l]) ++ ms))
    | _, _ => some (combineBy l op uid r false)
  else match l with
    | .dc _ =>
      match op, r with
      | .any, .tunion ms => some (combine op uid (l :: ms))     -- `combine("|", cls, *other.__args__)`
      | _, _ =>
        if r.isLogical then some (combineBy r op uid l true)     -- `type(other).__ror__(other, cls)`
        else some (combine op uid [l, r])
    | .cls _ | .noneV | .anyT | .alias _ | .lit _ | .str _ | .selfT _ | .tunion _ | .fwd _ =>
      -- `type.__or__` / typing's `__or__` (also `ForwardRef.__or__`) win for `|` unless the right operand's
      -- metaclass overrides `__ror__`
      let typingOr : Bool := op = .any && (match l with | .anyT | .alias _ | .selfT _ | .tunion _ | .fwd _ => true | _ => false)
      if typingOr then none
      else if r.isLogical then some (combineBy r op uid l true)
      else match r with
        | .dc _ => some (combine op uid [l, r])                    -- `LogicalMeta.__ror__`
        | _ => none
    | _ => none

/-- `~t`: `LogicalType.__invert__` (rule.py:314-317), `LogicalMeta.__invert__` (schema.py:61-62) -/
def invert (uid : Nat) (t : Ty) : Option Ty :=
  if t.isLogical then
    (if t.combinator = some .neg then t.args.head? else some (combine .neg uid [t]))
  else match t with
    | .dc _ => some (combine .neg uid [t])
    | _ => none

/-- operator expressions over given objects (`LogicalType.any_of(...)` etc. are `combine` on built objects) -/
inductive Expr where
  | atom (t : Ty)
  | bin (op : Comb) (l r : Expr)
  | inv (e : Expr)
  deriving Repr

/-- the objects an expression mentions -/
def Expr.atoms : Expr → Ty → Prop
  | .atom t, a => a = t
  | .bin _ l r, a => l.atoms a ∨ r.atoms a
  | .inv e, a => e.atoms a

/-- serials: a construction step uses fewer than `stride` serials -/
def stride : Nat := 64

/-- evaluate an expression; `uid` = first free serial; returns the object and the next free serial;
`none` = the expression never reaches utype / is a TypeError of Python itself -/
def build : Expr → Nat → Option (Ty × Nat)
  | .atom t, uid => some (t, uid)
  | .bin op l r, uid =>
    match build l uid with
    | none => none
    | some (tl, u1) =>
      match build r u1 with
      | none => none
      | some (tr, u2) =>
        match binop op u2 tl tr with
        | none => none
        | some t => some (t, u2 + stride)
  | .inv e, uid =>
    match build e uid with
    | none => none
    | some (t, u1) =>
      match invert u1 t with
      | none => none
      | some t' => some (t', u1 + stride)

/-! ## semantics of a built type over leaf tables (used by the driver; instance of Part A) -/

structure Leaves (V : Type) where
  exact : Nat → V → Bool                                    -- leaf id, value
  /-- a leaf measured in isolation: the value, or ⟨errors it recorded in the context it was given, exception⟩ -/
  run   : Nat → Opts → V → Except (List Err × Err) V
  /-- the leaf is a `Rule` class: `Rule.parse` ends with `context.raise_error()` on the context it was GIVEN
  (rule.py:1768), so it fails in a context that already holds errors; converters of plain classes do not look -/
  checks : Nat → Bool

section
variable {V : Type}

/-- a leaf called with the caller's context: a failing leaf may first record errors in it (`Rule.parse`:
`context.handle_error(error, force_raise=True)`); a succeeding one leaves it untouched, and a `Rule` leaf then
runs `raise_error()` on it -/
def Leaves.call (L : Leaves V) (i : Nat) (o : Opts) (c : Ctx) (v : V) : Res V :=
  match L.run i o v with
  | .ok r => if L.checks i then raiseError c r else (c, .ok r)
  | .error (recorded, e) => ({ c with errors := c.errors ++ recorded }, .error e)

mutual
/-- `ctx.transformer(value, t)` for a built type; `c` = error state of `ctx` -/
def evalTy (L : Leaves V) : Ty → Arg V
  | .cls i => ⟨L.exact i, L.call i⟩
  | .rule i => ⟨fun _ => false, L.call i⟩
  | .dc i => ⟨L.exact i, L.call i⟩
  | .annot k _ => ⟨fun _ => false, L.call k⟩
  | .fwd k => ⟨fun _ => false, L.call k⟩
  | .selfT i => ⟨fun _ => false, L.call i⟩
  | .ruleBase => ⟨fun _ => false, fun _ c v => raiseError c v⟩        -- `Rule.parse` without origin: `raise_error()`
  | .anyT => ⟨fun _ => false, fun _ c v => (c, .ok v)⟩
  | .noneV => ⟨fun _ => false, fun _ c v => (c, .ok v)⟩         -- never an argument (parseArg)
  | .alias _ => ⟨fun _ => false, fun _ c v => (c, .ok v)⟩       -- never an argument (parseArg)
  | .lit _ => ⟨fun _ => false, fun _ c v => (c, .ok v)⟩         -- never an argument (parseArg)
  | .str _ => ⟨fun _ => false, fun _ c v => (c, .ok v)⟩         -- never an argument (parseArg)
  | .tunion _ => ⟨fun _ => false, fun _ c v => (c, .ok v)⟩      -- never an argument (parseArg)
  | .wrap t _ =>
    -- `Rule.parse` of a rule whose origin is a combinator (rule.py:1699-1770): the origin runs on the SAME context;
    -- a failure is recorded and re-raised as ParseError; then `raise_error()`
    let inner := evalTy L t
    ⟨fun _ => false, fun o c v =>
      match inner.run o c v with
      | (c', .ok r) => raiseError c' r
      | (c', .error _) => (c'.push (.mk Err.parseErrorId []), .error (.mk Err.parseErrorId []))⟩
  | .comb c as _ =>
    let args := evalArgs L as
    ⟨fun _ => false,
     match c with
     | .all => logicalAll args          -- nested conditions of `&` work on its own context
     | .any => logicalUnion args
     | .one => logicalXor args
     | .neg => logicalNeg args⟩
def evalArgs (L : Leaves V) : List Ty → List (Arg V)
  | [] => []
  | t :: ts => evalTy L t :: evalArgs L ts
end

end

end Utv.C09
