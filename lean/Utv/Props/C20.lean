import Utv.Lemmas.C20
import Utv.Lemmas.C20Reg
import Utv.Lemmas.C20Reg2
import Utv.Lemmas.C20Term
import Utv.Lemmas.C20Lazy
import Utv.Model.C20Joint
/-!
C20 — concurrent use is safe, including the first use of a type.

Model: `Utv/Model/C20.lean` (threads = sequences of calls on one shared parser; one atomic step = one source
line that touches shared state; a schedule = the list of thread ids taking the successive steps).
The theorems below are about the code *with* fixes/C20-first-parse-race.patch (`lg = false`) and hold for
every declaration (`World`), every number of threads, every program of calls per thread and every schedule —
they are proved through the inductive invariant `Inv` (Lemmas/C20.lean: `inv_init`, `inv_step`), not by search.
The pre-fix code (`lg = true`) violates the property; the witnesses at the end are replayed on the real code
by the harness (harness/corpus/C20.jsonl).
-/
namespace Utv.C20

/-- **C20.**  Under every schedule, the outcomes of the calls a thread has completed are exactly the outcomes
these calls have when run alone, in order. -/
theorem C20_linearizable (W : World) (prog : Nat → List Call) (sched : List Nat) (k : Nat) :
    ((run W false (init W prog) sched).th k).outs <+: (prog k).map (alone W) :=
  ⟨_, ((inv_reachable W prog sched).tinv k).hist⟩

/-- … and a thread that has finished has completed all of its calls. -/
theorem C20_finished_all (W : World) (prog : Nat → List Call) (sched : List Nat) (k : Nat)
    (h : ((run W false (init W prog) sched).th k).pc = .fin) :
    ((run W false (init W prog) sched).th k).outs = (prog k).map (alone W) := by
  have T := (inv_reachable W prog sched).tinv k
  have := T.hist
  rw [T.finE h] at this
  simpa using this

theorem parseOutcome_range (W : World) (c : List Use) : parseOutcome W c = .ok ∨ parseOutcome W c = .perr := by
  induction c with
  | nil => exact Or.inl rfl
  | cons u us ih => simp only [parseOutcome]; split <;> simp [ih]

/-- No schedule makes a call fail with an internal error (`KeyError`), return an unparsed value (`wrong`)
or leave the modelled behaviour: a call ends as it does alone — value, `ParseError`, or the `NameError` of a
class whose annotation names nothing (which it raises alone, too). -/
theorem C20_no_internal_error (W : World) (prog : Nat → List Call) (sched : List Nat) (k : Nat) :
    ∀ o ∈ ((run W false (init W prog) sched).th k).outs,
      o = .ok ∨ o = .perr ∨ (o = .nameError ∧ W.isFn = false ∧ undefinedRef W = true) := by
  intro o ho
  obtain ⟨c, _, hc⟩ := List.mem_map.mp ((C20_linearizable W prog sched k).subset ho)
  subst hc
  unfold alone
  split
  · rename_i h
    simp only [Bool.and_eq_true, Bool.not_eq_true'] at h
    exact Or.inr (Or.inr ⟨rfl, h⟩)
  · rcases parseOutcome_range W c with h | h <;> simp [h]

/-- Mutual exclusion: at most one thread is between the acquisition and the release of the lock. -/
theorem C20_mutual_exclusion (W : World) (prog : Nat → List Call) (sched : List Nat) (j k : Nat)
    (hj : ((run W false (init W prog) sched).th j).pc.inCS = true)
    (hk : ((run W false (init W prog) sched).th k).pc.inCS = true) : j = k := by
  have I := inv_reachable W prog sched
  have h1 := (I.tinv j).lockI.mp hj
  have h2 := (I.tinv k).lockI.mp hk
  rw [h1] at h2
  exact Option.some.inj h2

/-- No half-initialised type is observed: while any thread is parsing (its `resolve_forward_refs` has
returned), every field whose annotation names something that exists carries the fully rewritten type, and
the names still listed are exactly those that do not exist. -/
theorem C20_parsing_sees_resolved (W : World) (prog : Nat → List Call) (sched : List Nat) (k : Nat)
    (hk : ((run W false (init W prog) sched).th k).pc.parsing = true) :
    let g := (run W false (init W prog) sched).g
    (∀ i, W.ref i = true → W.defd i = true → g.fty i = .res .parsed) ∧ (∀ i ∈ g.pending, W.defd i = false) := by
  have I := inv_reachable W prog sched
  have P := (I.tinv k).pinv
  have R : Resolved W (run W false (init W prog) sched).g := by
    cases hpc : ((run W false (init W prog) sched).th k).pc <;>
      simp only [PInv, hpc, PC.parsing] at P hk <;> first | exact P | exact P.1 | cases hk
  exact ⟨fun i hr hd => resolved_fty I.ginv R hr hd, fun i hi => (R i hi).1⟩

/-- When nobody holds the lock, no field is half-way: a listed name still has its `ForwardRef`, a name that was taken
off the list has its final type.  (Since names are popped only after the fields were rewritten — also when another
reference raised — there is no third case any more.) -/
theorem C20_quiescent (W : World) (prog : Nat → List Call) (sched : List Nat)
    (hl : (run W false (init W prog) sched).g.lock = none) (i : Nat) (hr : W.ref i = true) (hd : W.defd i = true) :
    let g := (run W false (init W prog) sched).g
    (i ∈ g.pending ∧ g.fty i = .ref) ∨ (i ∉ g.pending ∧ g.fty i = .res .parsed) := by
  have I := inv_reachable W prog sched
  by_cases hp : i ∈ (run W false (init W prog) sched).g.pending
  · exact Or.inl ⟨hp, I.ginv.free hl i hp⟩
  · exact Or.inr ⟨hp, I.ginv.done i hr hd hp⟩

/-- "nothing pending ⇒ nothing left to do", in every reachable state (lock held or not): a name that exists and is
no longer listed has had its field rewritten. -/
theorem C20_unlisted_is_rewritten (W : World) (prog : Nat → List Call) (sched : List Nat) (i : Nat)
    (hr : W.ref i = true) (hd : W.defd i = true) (hp : i ∉ (run W false (init W prog) sched).g.pending) :
    (run W false (init W prog) sched).g.fty i = .res .parsed :=
  (inv_reachable W prog sched).ginv.done i hr hd hp

/-- Resolution is permanent: once nothing is left to resolve (e.g. once any call has got as far as parsing),
every later state, under every continuation of the schedule, still has every existing name rewritten. -/
theorem C20_resolved_forever (W : World) (prog : Nat → List Call) (sched sched' : List Nat)
    (hR : Resolved W (run W false (init W prog) sched).g) :
    let g' := (run W false (init W prog) (sched ++ sched')).g
    Resolved W g' ∧ ∀ i, W.ref i = true → W.defd i = true → g'.fty i = .res .parsed := by
  have I := inv_reachable W prog sched
  have I' := inv_reachable W prog (sched ++ sched')
  have hR' : Resolved W (run W false (init W prog) (sched ++ sched')).g := by
    rw [run_append]
    exact hR.mono (run_pending_mono sched' I)
  exact ⟨hR', fun i hr hd => resolved_fty I'.ginv hR' hr hd⟩

/-- No dead-lock: as long as some thread has not finished, some unfinished thread is not blocked (and no
thread is ever outside the modelled lines). -/
theorem C20_no_deadlock (W : World) (prog : Nat → List Call) (sched : List Nat)
    (h : ∃ k, ((run W false (init W prog) sched).th k).pc ≠ .fin) :
    ∃ k, ((run W false (init W prog) sched).th k).pc ≠ .fin ∧ ¬ blocked (run W false (init W prog) sched) k
      ∧ ((run W false (init W prog) sched).th k).pc.dead = false := by
  have I := inv_reachable W prog sched
  cases hl : (run W false (init W prog) sched).g.lock with
  | none =>
    obtain ⟨k, hk⟩ := h
    exact ⟨k, hk, fun hb => hb.2 hl, (I.tinv k).alive⟩
  | some o =>
    have hcs := (I.tinv o).lockI.mpr hl
    refine ⟨o, ?_, ?_, (I.tinv o).alive⟩
    · intro hf; simp [hf, PC.inCS] at hcs
    · intro hb; simp [hb.1, PC.inCS] at hcs

/-- Termination: with `n` threads, a schedule in which every step is taken by a thread that is neither finished
nor waiting for the lock (`EffRun`) is no longer than the explicit bound `total W n (init W prog)` (linear in
the number of calls, keywords, fields and pending names). -/
theorem C20_terminates (W : World) (prog : Nat → List Call) (n : Nat) (sched : List Nat)
    (h : EffRun W n (init W prog) sched) : sched.length ≤ total W n (init W prog) := by
  have := effRun_bounded (inv_init W prog) h
  omega

/-- … and when such a schedule cannot be extended, every one of the `n` threads has finished all its calls
(with the outcomes `C20_finished_all` states): every call returns. -/
theorem C20_maximal_run_finishes (W : World) (prog : Nat → List Call) (n : Nat) (sched : List Nat)
    (h : EffRun W n (init W prog) sched)
    (hmax : ∀ k, k < n → ¬ effective (run W false (init W prog) sched) k) (k : Nat) (hk : k < n) :
    ((run W false (init W prog) sched).th k).pc = .fin := by
  have I := inv_reachable W prog sched
  apply Classical.byContradiction
  intro hne
  have hb : blocked (run W false (init W prog) sched) k := by
    apply Classical.byContradiction
    intro hb; exact hmax k hk ⟨hne, hb⟩
  obtain ⟨_, hl⟩ := hb
  cases hlk : (run W false (init W prog) sched).g.lock with
  | none => exact hl hlk
  | some o =>
    have hcs := (I.tinv o).lockI.mpr hlk
    have ho : o < n := by
      apply Classical.byContradiction
      intro hno
      have := effRun_idle h o (by omega)
      rw [this] at hcs
      simp [init, PC.inCS] at hcs
    refine hmax o ho ⟨?_, ?_⟩
    · intro hf; simp [hf, PC.inCS] at hcs
    · intro hb; simp [hb.1, PC.inCS] at hcs

/-- **Value level.**  Not only the verdict: the *value* of every completed call — per keyword, whether it was converted
by its declared / referenced type or handed through unparsed — is the value the call has alone (every keyword
converted by its type; `[]` for a call that raises).  `wrong` in `C20_no_internal_error` is the same fact seen from the
verdict. -/
theorem C20_values_as_alone (W : World) (prog : Nat → List Call) (sched : List Nat) (k : Nat) :
    ((run W false (init W prog) sched).th k).vouts <+: (prog k).map (aloneVals W) :=
  ⟨_, ((inv_reachable W prog sched).tinv k).vhist⟩

theorem C20_values_finished_all (W : World) (prog : Nat → List Call) (sched : List Nat) (k : Nat)
    (h : ((run W false (init W prog) sched).th k).pc = .fin) :
    ((run W false (init W prog) sched).th k).vouts = (prog k).map (aloneVals W) := by
  have T := (inv_reachable W prog sched).tinv k
  have := T.vhist
  rw [T.finE h] at this
  simpa using this

theorem run_replicate_idle (W : World) (s : Sys) (n j : Nat) (hj : j ≠ 0) :
    (run W false s (List.replicate n 0)).th j = s.th j := by
  induction n generalizing s with
  | zero => rfl
  | succ m ih =>
    simp only [List.replicate_succ, run, List.foldl_cons]
    have := ih (s.step W false 0)
    simp only [run] at this
    rw [this]; simp [Sys.step, hj]

/-- a thread that runs alone is never made to wait and finishes within the bound `total W 1` -/
theorem alone_run_progress (W : World) (prog : Nat → List Call) (n : Nat) :
    ((run W false (init W prog) (List.replicate n 0)).th 0).pc = .fin ∨
      total W 1 (run W false (init W prog) (List.replicate n 0)) + n ≤ total W 1 (init W prog) := by
  induction n with
  | zero => right; simp [run]
  | succ m ih =>
    have hrun : run W false (init W prog) (List.replicate (m + 1) 0)
        = (run W false (init W prog) (List.replicate m 0)).step W false 0 := by
      rw [show List.replicate (m + 1) 0 = List.replicate m 0 ++ [0] from List.replicate_succ' ..]
      simp [run, List.foldl_append]
    have I := inv_reachable W prog (List.replicate m 0)
    rcases ih with h | h
    · left
      rw [hrun]
      simp [Sys.step, stepTh, h]
    · by_cases hf : ((run W false (init W prog) (List.replicate m 0)).th 0).pc = .fin
      · left; rw [hrun]; simp [Sys.step, stepTh, hf]
      · right
        have he : effective (run W false (init W prog) (List.replicate m 0)) 0 := by
          refine ⟨hf, ?_⟩
          rintro ⟨hp, hl⟩
          cases hlk : (run W false (init W prog) (List.replicate m 0)).g.lock with
          | none => exact hl hlk
          | some o =>
            have hcs := (I.tinv o).lockI.mpr hlk
            by_cases ho : o = 0
            · subst ho; simp [hp, PC.inCS] at hcs
            · rw [run_replicate_idle W _ m o ho] at hcs
              simp [init, PC.inCS] at hcs
        have := total_step_lt (n := 1) I (by omega) he
        rw [hrun]; omega

/-- … so the hypothesis of `C20_alone_is_sequential` is met: run alone, a call does finish, with outcome `alone W c` -/
theorem C20_alone_terminates (W : World) (c : Call) :
    ∃ n, ((run W false (init W fun _ => [c]) (List.replicate n 0)).th 0).pc = .fin ∧
      ((run W false (init W fun _ => [c]) (List.replicate n 0)).th 0).outs = [alone W c] ∧
      ((run W false (init W fun _ => [c]) (List.replicate n 0)).th 0).vouts = [aloneVals W c] := by
  refine ⟨total W 1 (init W fun _ => [c]) + 1, ?_⟩
  have hfin : ((run W false (init W fun _ => [c]) (List.replicate (total W 1 (init W fun _ => [c]) + 1) 0)).th 0).pc = .fin := by
    rcases alone_run_progress W (fun _ => [c]) (total W 1 (init W fun _ => [c]) + 1) with h | h
    · exact h
    · omega
  refine ⟨hfin, ?_, ?_⟩
  · simpa using C20_finished_all W (fun _ => [c]) _ 0 hfin
  · simpa using C20_values_finished_all W (fun _ => [c]) _ 0 hfin

/-- The specification `alone` is what the model itself does when a single thread runs a single call. -/
theorem C20_alone_is_sequential (W : World) (c : Call) (n : Nat)
    (h : ((run W false (init W fun _ => [c]) (List.replicate n 0)).th 0).pc = .fin) :
    ((run W false (init W fun _ => [c]) (List.replicate n 0)).th 0).outs = [alone W c] := by
  simpa using C20_finished_all W (fun _ => [c]) (List.replicate n 0) 0 h

/-! ### Non-vacuity: concrete runs of the fixed model -/

/-- one field `f0: 'B'`, class-level parser, not function-local -/
def W1 : World :=
  { nf := 1, isRef := fun _ => true, defd := fun _ => true, rawOk := fun _ => true, isLocal := false, isFn := false }
/-- the same in a function-local class (evaluated references are cleared again) -/
def W1loc : World := { W1 with isLocal := true }
/-- `f0: 'List[B]'` in a function-local class -/
def W1gen : World := { W1loc with rawOk := fun _ => false }
/-- two threads, one call `A(f0=…)` each -/
def P2 : Nat → List Call := fun k => if k < 2 then [[⟨0, false⟩]] else []

/-- thread 0 is preempted inside the critical section, thread 1 finds the lock taken (its step is not enabled,
the state does not change), thread 0 finishes, thread 1 runs: both calls return their value. -/
example :
    let s := run W1loc false (init W1loc P2) ([0,0,0,0,0,0] ++ [1,1,1,1,1] ++ List.replicate 25 0 ++ List.replicate 12 1)
    (s.th 0).pc = .fin ∧ (s.th 1).pc = .fin ∧ (s.th 0).outs = [.ok] ∧ (s.th 1).outs = [.ok] := by
  decide +kernel

/-- a complete run in which every step is effective (thread 1 is never scheduled while it would wait for the
lock): the hypotheses of `C20_terminates` / `C20_maximal_run_finishes` are satisfiable, and the run ends with both
threads finished -/
example :
    let sched := [0,0,0,0,0,0] ++ [1,1,1] ++ List.replicate 20 0 ++ List.replicate 7 1
    EffRun W1loc 2 (init W1loc P2) sched ∧ sched.length ≤ total W1loc 2 (init W1loc P2)
      ∧ ((run W1loc false (init W1loc P2) sched).th 0).pc = .fin
      ∧ ((run W1loc false (init W1loc P2) sched).th 1).pc = .fin :=
  ⟨effRun_of_B (by decide +kernel), by decide +kernel, by decide +kernel, by decide +kernel⟩

/-! ### The code before the fix (negation witnesses; replayed on the real pre-fix code by the harness) -/

/-- Pre-fix: two first parses; thread 0 is preempted after `list(self.forward_refs)`, thread 1 resolves and pops
`$f0`, thread 0 then looks the name up: `KeyError('$f0')` escapes. -/
theorem C20_legacy_keyerror_witness :
    ((run W1 true (init W1 P2) ([0,0,0,0] ++ List.replicate 30 1 ++ List.replicate 30 0)).th 0).outs = [.keyError] := by
  decide +kernel

/-- Pre-fix, function-local class: thread 1 sees an empty `forward_refs` while thread 0 has popped the name but
not yet rewritten the field; it reads the `ForwardRef`, thread 0 then clears it: "ForwardRef not evaluated". -/
theorem C20_legacy_half_initialised_witness :
    ((run W1loc true (init W1loc P2) (List.replicate 11 0 ++ [1,1,1,1] ++ List.replicate 30 0 ++ List.replicate 30 1)).th 1).outs
      = [.perr] ∧ alone W1loc [⟨0, false⟩] = .ok := by
  decide +kernel

/-- Pre-fix, `f0: 'List[B]'`: thread 1 re-evaluates the reference after thread 0 stored the parsed annotation;
thread 0 writes the raw `typing` object into `fields['f0'].type` — every later call fails, also sequentially. -/
theorem C20_legacy_corrupted_type_witness :
    let s := run W1gen true (init W1gen fun k => if k < 2 then [[⟨0, false⟩], [⟨0, false⟩]] else [])
      (List.replicate 10 0 ++ List.replicate 6 1 ++ List.replicate 40 0 ++ List.replicate 40 1)
    s.g.fty 0 = .res .raw ∧ (s.th 0).outs = [.perr, .perr] := by
  decide +kernel

/-- The property is false of the pre-fix model. -/
theorem C20_legacy_not_linearizable :
    ¬ ∀ (W : World) (prog : Nat → List Call) (sched : List Nat) (k : Nat),
        ((run W true (init W prog) sched).th k).outs <+: (prog k).map (alone W) := by
  intro h
  have h1 := h W1 P2 ([0,0,0,0] ++ List.replicate 30 1 ++ List.replicate 30 0) 0
  rw [C20_legacy_keyerror_witness] at h1
  have : (P2 0).map (alone W1) = [.ok] := by decide
  rw [this] at h1
  have := h1.length_le
  obtain ⟨t, ht⟩ := h1
  cases t <;> simp at ht


/-! ## Lookups in the shared converter registry (`TypeRegistry.resolve`, cache fill) -/

open Utv.C16 (World Entry Det lookup) in
/-- **C20, registry.**  Threads that only look converters up (what parsing does): under every schedule, for
every class world, every registry content whose cache is consistent, with or without the cache, before or
after the lookup patch — every finished lookup returned what it returns alone, i.e. the first matching entry. -/
theorem C20_registry_lookups_linearizable (W : Utv.C16.World) (co lg : Bool) (g : Reg.G)
    (prog : Nat → List Reg.Op) (hn : ∀ k, Reg.noRegister (prog k) = true)
    (hc : Reg.CacheOK W g.entries g.cache) (sched : List Nat) (k : Nat) :
    ((Reg.run W co lg (Reg.init g prog) sched).th k).outs <+: Reg.answers W g.entries (prog k) :=
  ⟨_, ((Reg.inv_run sched (Reg.inv_init (lg := lg) hn hc)).tinv k).hist⟩

theorem C20_registry_finished_all (W : Utv.C16.World) (co lg : Bool) (g : Reg.G)
    (prog : Nat → List Reg.Op) (hn : ∀ k, Reg.noRegister (prog k) = true)
    (hc : Reg.CacheOK W g.entries g.cache) (sched : List Nat) (k : Nat)
    (h : ((Reg.run W co lg (Reg.init g prog) sched).th k).pc = .fin) :
    ((Reg.run W co lg (Reg.init g prog) sched).th k).outs = Reg.answers W g.entries (prog k) := by
  have T := (Reg.inv_run (co := co) sched (Reg.inv_init (lg := lg) hn hc)).tinv k
  have := T.hist
  rw [T.finE h] at this
  simpa [Reg.answers] using this

/-- the cache stays consistent with the entries, so later sequential lookups are right as well -/
theorem C20_registry_cache_consistent (W : Utv.C16.World) (co lg : Bool) (g : Reg.G)
    (prog : Nat → List Reg.Op) (hn : ∀ k, Reg.noRegister (prog k) = true)
    (hc : Reg.CacheOK W g.entries g.cache) (sched : List Nat) :
    let s := Reg.run W co lg (Reg.init g prog) sched
    s.g.entries = g.entries ∧ Reg.CacheOK W g.entries s.g.cache :=
  let I := Reg.inv_run (co := co) sched (Reg.inv_init (lg := lg) hn hc)
  ⟨I.ent, I.cache⟩

/-! ### Before the register-race fix the hypothesis `noRegister` was needed: a registration racing with a lookup -/

/-- class 2 is a subclass of class 1 -/
def Wr : Utv.C16.World where
  issub t c := t == c || (t == 2 && c == 1)
  isinst _ _ := false
  hasattr _ _ := false
  custom _ _ := none
  shortcut _ := none
  fallback _ := none

def eB : Utv.C16.Entry := ⟨.std [1] true none none, 20, 0⟩   -- register(C1) -> f20
def eC : Utv.C16.Entry := ⟨.std [2] true none none, 30, 0⟩   -- register(C2) -> f30
def gB : Reg.G := { entries := [eB], cache := [] }
def raceProg : Nat → List Reg.Op := fun k => if k = 0 then [.res 2, .res 2] else if k = 1 then [.reg eC] else []

/-- non-vacuity of the hypotheses of `C20_registry_lookups_linearizable` -/
example : (∀ k, Reg.noRegister ((fun k => if k < 3 then [Reg.Op.res 2, .res 1] else []) k) = true)
    ∧ Reg.CacheOK Wr gB.entries gB.cache :=
  ⟨fun k => by by_cases h : k < 3 <;> simp [h, Reg.noRegister], fun _ _ h => by simp [gB, Utv.C16.lookup] at h⟩

/-- Before fixes/C20-registry-cache-lookup.patch: thread 0 finds class 2 in the cache, thread 1 registers a
converter (which clears the cache), thread 0 then indexes the cache: `KeyError` out of `resolve`. -/
theorem C20_registry_legacy_keyerror_witness :
    ((Reg.run Wr true true (Reg.init gB raceProg) [0,0,0,0,0, 1,1,1,1, 0]).th 0).outs
      = [.fn (some 20), .keyError] := by
  decide +kernel

/-- Before fixes/C20-register-race.patch (with the lookup patch no error escapes, but) a registration that races
with a lookup could still be lost for the class being looked up: thread 0 has found the old converter, thread 1 registers a better one and clears the
cache, thread 0 stores the old converter — the *next* lookup (started after the registration returned) still
gets the old one although the registry now selects the new one.  (Finding `register-races-with-lookup`, fixed: see
`C20_registry_linearizable` / `C20_registry_cache_never_stale` below for the code as it is now.) -/
theorem C20_registry_register_race_witness :
    let s := Reg.run Wr true false (Reg.init gB raceProg) [0,0,0, 1,1,1,1, 0,0]
    (s.th 0).outs = [.fn (some 20), .fn (some 20)] ∧ (s.th 1).pc = .fin
      ∧ Reg.answer Wr s.g.entries 2 = some 30 := by
  decide +kernel


/-! ## The registry after fixes/C20-register-race.patch: lookups *and registrations* in any interleaving

Model `Utv/Model/C20Reg2.lean`: `register` publishes a new sorted list under a lock after clearing the cache and counts
the registration; `resolve` reads the counter before it takes the list and fills the cache, under the lock, only if no
registration happened since.  Full statement (no `noRegister` hypothesis any more): -/

/-- **C20, registry with registrations.**  For every class world, cache on/off, initial registry with a consistent
cache, every program of lookups and registrations per thread and every schedule: every finished lookup of a class `c`
returned `answer W v c` for a list `v = vers[j]` that was the published registry at some moment between the lookup's
*first shared-state line* (`lo` = index of the newest published list when the lookup executes `self._cache.get(t)` —
or `generation = self._generation` on a non-caching registry) and its return (`hi`): `lo ≤ j ≤ hi`.  So a lookup whose
first line runs after a `register` has published (in particular after it has returned) answers from that registration
or a later one; a lookup that overlaps a registration may see the old or the new list.  (The ghost `lo` is taken at
the first line of the lookup itself, not when the thread's previous operation ended.)  The ghost witnesses `wits`
pair up with the results `outs`. -/
theorem C20_registry_linearizable (W : Utv.C16.World) (co : Bool) (entries : List Utv.C16.Entry)
    (cache : List (Nat × Nat)) (prog : Nat → List Reg.Op) (hc : Reg.CacheOK W entries cache)
    (sched : List Nat) (k : Nat) :
    let s := Reg2.run W co (Reg2.init entries cache prog) sched
    ((s.th k).outs.length = (s.th k).wits.length) ∧
    (∀ (i : Nat) (r : Reg.Res) (w : Reg2.Wit), (s.th k).outs[i]? = some r → (s.th k).wits[i]? = some w →
        r = .fn (Reg.answer W (s.g.vers.getD w.j []) w.cls) ∧ w.lo ≤ w.j ∧ w.j ≤ w.hi ∧ w.hi < s.g.vers.length) ∧
    ((s.th k).wits.map (·.cls) <+: Reg2.classes (prog k)) := by
  have I := (Reg2.inv_run (co := co) sched (Reg2.inv_init prog hc)).1
  have T := I.tinv k
  exact ⟨T.wit.length, fun i r w hr hw => T.wit.get i r w hr hw, ⟨_, T.hist⟩⟩

/-- The cache is never stale — in *every* reachable state (not only when nobody is running) each cached converter is
the one the published list selects; so no lookup, however late, can pick up a converter that a returned `register`
has replaced.  (The seeded "clear before insert" and the pre-fix "fill after clear" both break exactly this.) -/
theorem C20_registry_cache_never_stale (W : Utv.C16.World) (co : Bool) (entries : List Utv.C16.Entry)
    (cache : List (Nat × Nat)) (prog : Nat → List Reg.Op) (hc : Reg.CacheOK W entries cache) (sched : List Nat) :
    let s := Reg2.run W co (Reg2.init entries cache prog) sched
    Reg.CacheOK W s.g.entries s.g.cache :=
  (Reg2.inv_run (co := co) sched (Reg2.inv_init prog hc)).1.ginv.cache

/-- The published lists are exactly the successive results of the sequential `register` of the C16 model: the first
is the initial registry, each next one is `sortPrio (e :: previous)`, the last is the one in effect; the generation
counter counts them (it lags by one only while the registering thread is between its two assignments). -/
theorem C20_registry_versions (W : Utv.C16.World) (co : Bool) (entries : List Utv.C16.Entry)
    (cache : List (Nat × Nat)) (prog : Nat → List Reg.Op) (hc : Reg.CacheOK W entries cache) (sched : List Nat) :
    let s := Reg2.run W co (Reg2.init entries cache prog) sched
    (∃ l, s.g.vers = entries :: l) ∧ s.g.vers.getLast? = some s.g.entries ∧ Reg2.Chain s.g.vers ∧
      (s.g.lock = none → s.g.gen + 1 = s.g.vers.length) := by
  obtain ⟨I, e⟩ := Reg2.inv_run (co := co) sched (Reg2.inv_init prog hc)
  obtain ⟨l, hl⟩ := e.vers
  exact ⟨⟨l, by simpa [Reg2.init] using hl⟩, I.ginv.last, I.ginv.chain, I.ginv.free⟩

/-- the registry lock is held by at most one thread, and only inside `with self._lock:` -/
theorem C20_registry_lock_exclusive (W : Utv.C16.World) (co : Bool) (entries : List Utv.C16.Entry)
    (cache : List (Nat × Nat)) (prog : Nat → List Reg.Op) (hc : Reg.CacheOK W entries cache) (sched : List Nat)
    (j k : Nat)
    (hj : ((Reg2.run W co (Reg2.init entries cache prog) sched).th j).pc.holds = true)
    (hk : ((Reg2.run W co (Reg2.init entries cache prog) sched).th k).pc.holds = true) : j = k := by
  have I := (Reg2.inv_run (co := co) sched (Reg2.inv_init prog hc)).1
  have h1 := (I.tinv j).lockI.mp hj
  have h2 := (I.tinv k).lockI.mp hk
  rw [h1] at h2; exact Option.some.inj h2

/-- no dead-lock on the registry lock: whoever holds it is at a line it can execute -/
theorem C20_registry_no_deadlock (W : Utv.C16.World) (co : Bool) (entries : List Utv.C16.Entry)
    (cache : List (Nat × Nat)) (prog : Nat → List Reg.Op) (hc : Reg.CacheOK W entries cache) (sched : List Nat)
    (o : Nat) (hl : (Reg2.run W co (Reg2.init entries cache prog) sched).g.lock = some o) :
    let t := (Reg2.run W co (Reg2.init entries cache prog) sched).th o
    t.pc ≠ .fin ∧ t.pc ≠ .rlock ∧ t.pc ≠ .wlock := by
  have I := (Reg2.inv_run (co := co) sched (Reg2.inv_init prog hc)).1
  have h := (I.tinv o).lockI.mpr hl
  refine ⟨?_, ?_, ?_⟩ <;> intro hp <;> simp [hp, Reg2.PC.holds] at h

/-- Programs that only look up (the earlier theorem, now for the fixed code): every finished lookup returned what it
returns alone on the initial registry. -/
theorem C20_registry_lookups_only_fixed (W : Utv.C16.World) (co : Bool) (entries : List Utv.C16.Entry)
    (cache : List (Nat × Nat)) (prog : Nat → List Reg.Op) (hn : ∀ k, Reg.noRegister (prog k) = true)
    (hc : Reg.CacheOK W entries cache) (sched : List Nat) (k : Nat) :
    ((Reg2.run W co (Reg2.init entries cache prog) sched).th k).outs
      <+: (Reg2.classes (prog k)).map (fun c => Reg.Res.fn (Reg.answer W entries c)) := by
  have I := (Reg2.inv_run (co := co) sched (Reg2.inv_init prog hc)).1
  have hv : (Reg2.run W co (Reg2.init entries cache prog) sched).g.vers = [entries] :=
    Reg2.noReg_run (W := W) (co := co) sched (s := Reg2.init entries cache prog)
      (fun j => ⟨by simpa [Reg2.init] using hn j, by simp [Reg2.init, Reg2.PC.isW]⟩)
  have T := I.tinv k
  rw [T.wit.single hv, ← T.hist, List.map_append, List.map_map]
  exact ⟨_, rfl⟩

/-- the race that was the known finding `register-races-with-lookup`, now on the fixed model: thread 0 has found the
old converter, thread 1 registers a better one, thread 0 comes back — it does *not* fill the cache (its generation is
out of date), and the next lookup gets the new converter -/
example :
    let s := Reg2.run Wr true (Reg2.init [eB] [] raceProg) ([0,0,0,0] ++ List.replicate 7 1 ++ List.replicate 12 0)
    (s.th 0).outs = [.fn (some 20), .fn (some 30)] ∧ (s.th 0).pc = .fin ∧ (s.th 1).pc = .fin
      ∧ s.g.cache = [(2, 30)] := by
  decide +kernel


/-! ## Lazily initialised parser attributes (`positional_fields` & co.: `functools.cached_property`)

Model `Utv/Model/C20Lazy.lean`.  The invariant the property needs: *a published lazy value is complete* — the object
another thread can see is stored once, after its construction. -/

/-- **Protocol lemma (about `functools.cached_property`, not about utype code).**  Build-then-publish: for every index
size, every set of entries that have a field, any number of threads and every schedule of getter-body lines and other
steps — whatever a thread sees when it reads the attribute is either nothing yet or the complete index, what the getter
returns to a thread that built it is the complete index, and the stored value is never a partial one.
utype is tied to this protocol by the *static obligation* of the check (harness/c20.py `extra_static`/`scan_lazy`):
every attribute of FunctionParser / ClassParser / BaseParser / ParserField that is written after construction is either
written by one of the modelled `resolve_forward_refs` functions or is a `functools.cached_property` (whose body builds
a local value and whose single store happens after the body returned), and by replaying the scheduled body lines of
`positional_fields` on this model.  The claim for utype is therefore: "lazily initialised parser attributes are
`cached_property` (checked statically on every run), and that protocol never exposes a partial value (this lemma)". -/
theorem C20_lazy_publish_complete (W : Lazy.World) (sched : List (Nat × Bool)) (k : Nat) :
    let s := Lazy.run W false Lazy.init sched
    (∀ v ∈ (s.th k).views, v = none ∨ v = some (Lazy.full W)) ∧ (∀ r ∈ (s.th k).rets, r = Lazy.full W)
      ∧ (s.slot = none ∨ s.slot = some (Lazy.full W)) :=
  let I := Lazy.inv_run (W := W) sched (Lazy.inv_init W)
  ⟨(I.th k).views, (I.th k).rets, I.slot⟩

/-- three positional parameters, each with a field -/
def W3 : Lazy.World := { n := 3, hasField := fun _ => true }

/-- non-vacuity: two threads both miss, both build, both publish the complete index; a third step sees it -/
example :
    let s := Lazy.run W3 false Lazy.init
      ([(0, false), (1, false)] ++ List.replicate 8 (0, true) ++ List.replicate 16 (1, true) ++ List.replicate 8 (0, true)
        ++ [(0, false)])
    s.slot = some [0, 1, 2] ∧ (s.th 0).rets = [[0, 1, 2]] ∧ (s.th 1).rets = [[0, 1, 2]]
      ∧ (s.th 0).views = [none, some [0, 1, 2]] := by
  decide +kernel

/-- The anti-pattern (seeded change C20-r2-C: a hand-written lazy attribute that publishes the empty dict and then fills
it in place): while thread 0 has filled one of three entries, thread 1 reads the attribute and sees a partial index —
`total('10', 20, 30)` then binds only its first argument. -/
theorem C20_lazy_early_publish_witness :
    let s := Lazy.run W3 true Lazy.init (List.replicate 6 (0, true) ++ [(1, false)])
    (s.th 1).views = [some [0]] ∧ Lazy.full W3 = [0, 1, 2] := by
  decide +kernel


/-! ## Parser and registry together (model `Utv/Model/C20Joint.lean`)

Threads that resolve references / parse *and* look converters up (or register them), every interleaving of the two
kinds of steps, including lookups made while the parser lock is held. -/

theorem joint_proj (W : World) (RW : Utv.C16.World) (co : Bool) (sched : List (Nat × Joint.Side)) :
    ∀ (s : Joint.Sys), (Joint.run W RW co s sched).p = run W false s.p (Joint.proj .parser sched) ∧
      (Joint.run W RW co s sched).r = Reg2.run RW co s.r (Joint.proj .registry sched) := by
  induction sched with
  | nil => intro s; exact ⟨rfl, rfl⟩
  | cons e es ih =>
    intro s
    obtain ⟨k, side⟩ := e
    have := ih (Joint.step W RW co s (k, side))
    cases side <;> simpa [Joint.run, Joint.proj, Joint.step, run, Reg2.run] using this

/-- **C20, joint.**  In the product of the two models the parser component of a joint run *is* the parser-only run of the
parser steps and the registry component *is* the registry-only run of the registry steps: the two invariants hold
together, so for every joint schedule (a) every completed parse returned the verdict and the value it has alone,
(b) every finished lookup answered from a list published during the lookup and the cache is never stale. -/
theorem C20_joint_safe (W : World) (RW : Utv.C16.World) (co : Bool) (prog : Nat → List Call)
    (entries : List Utv.C16.Entry) (cache : List (Nat × Nat)) (rprog : Nat → List Reg.Op)
    (hc : Reg.CacheOK RW entries cache) (sched : List (Nat × Joint.Side)) (k : Nat) :
    let s := Joint.run W RW co (Joint.init W prog entries cache rprog) sched
    ((s.p.th k).outs <+: (prog k).map (alone W)) ∧ ((s.p.th k).vouts <+: (prog k).map (aloneVals W)) ∧
    (∀ (i : Nat) (r : Reg.Res) (w : Reg2.Wit), (s.r.th k).outs[i]? = some r → (s.r.th k).wits[i]? = some w →
        r = .fn (Reg.answer RW (s.r.g.vers.getD w.j []) w.cls) ∧ w.lo ≤ w.j ∧ w.j ≤ w.hi ∧ w.hi < s.r.g.vers.length) ∧
    Reg.CacheOK RW s.r.g.entries s.r.g.cache := by
  obtain ⟨hp, hr⟩ := joint_proj W RW co sched (Joint.init W prog entries cache rprog)
  intro s
  have hp' : s.p = run W false (init W prog) (Joint.proj .parser sched) := hp
  have hr' : s.r = Reg2.run RW co (Reg2.init entries cache rprog) (Joint.proj .registry sched) := hr
  rw [hp', hr']
  exact ⟨C20_linearizable W prog _ k, C20_values_as_alone W prog _ k,
         (C20_registry_linearizable RW co entries cache rprog hc _ k).2.1,
         C20_registry_cache_never_stale RW co entries cache rprog hc _⟩

/-- Two locks, no dead-lock: in every reachable joint state in which some thread has something left to do, some
thread can take a step — a thread in the middle of a registry operation needs that operation to be able to go on (it
cannot do parser steps meanwhile), a thread between registry operations can go on parsing or start the next one.
(Whoever holds the registry lock never waits for the parser lock; a thread holding the parser lock may wait for the
registry lock.) -/
theorem C20_joint_no_deadlock (W : World) (RW : Utv.C16.World) (co : Bool) (prog : Nat → List Call)
    (entries : List Utv.C16.Entry) (cache : List (Nat × Nat)) (rprog : Nat → List Reg.Op)
    (hc : Reg.CacheOK RW entries cache) (sched : List (Nat × Joint.Side))
    (h : ∃ k, ((Joint.run W RW co (Joint.init W prog entries cache rprog) sched).p.th k).pc ≠ .fin ∨
              ((Joint.run W RW co (Joint.init W prog entries cache rprog) sched).r.th k).pc ≠ .fin) :
    ∃ k, Joint.canStep (Joint.run W RW co (Joint.init W prog entries cache rprog) sched) k := by
  obtain ⟨hp, hr⟩ := joint_proj W RW co sched (Joint.init W prog entries cache rprog)
  generalize Joint.run W RW co (Joint.init W prog entries cache rprog) sched = s at *
  have hp' : s.p = run W false (init W prog) (Joint.proj .parser sched) := hp
  have hr' : s.r = Reg2.run RW co (Reg2.init entries cache rprog) (Joint.proj .registry sched) := hr
  have IR : Reg2.Inv RW rprog s.r := by
    rw [hr']; exact (Reg2.inv_run (co := co) (Joint.proj .registry sched) (Reg2.inv_init (W := RW) rprog hc)).1
  have IP : Inv W prog s.p := by rw [hp']; exact inv_reachable W prog (Joint.proj .parser sched)
  cases hl : s.r.g.lock with
  | some o =>
    -- the holder of the registry lock is at a line it can execute
    have hh := (IR.tinv o).lockI.mpr hl
    refine ⟨o, Or.inl ⟨⟨?_, ?_⟩, ?_⟩⟩
    · intro hq; simp [hq, Reg2.PC.holds] at hh
    · intro hq; simp [hq, Reg2.PC.holds] at hh
    · rintro ⟨hq, _⟩; rcases hq with hq | hq <;> simp [hq, Reg2.PC.holds] at hh
  | none =>
    by_cases hm : ∃ k, Joint.midOp (s.r.th k)
    · obtain ⟨k, hk⟩ := hm
      exact ⟨k, Or.inl ⟨hk, fun hb => hb.2 hl⟩⟩
    · have hm' : ∀ k, ¬ Joint.midOp (s.r.th k) := fun k hk => hm ⟨k, hk⟩
      by_cases hs : ∃ k, (s.r.th k).pc = .start
      · obtain ⟨k, hk⟩ := hs
        exact ⟨k, Or.inr ⟨hm' k, Or.inr hk⟩⟩
      · -- every registry component has finished: the parser side decides
        have hfin : ∀ k, (s.r.th k).pc = .fin := by
          intro k
          apply Classical.byContradiction; intro hne
          exact hm' k ⟨fun h1 => hs ⟨k, h1⟩, hne⟩
        obtain ⟨k, hk⟩ := h
        have hk' : (s.p.th k).pc ≠ .fin := by
          rcases hk with hk | hk
          · exact hk
          · exact absurd (hfin k) hk
        cases hpl : s.p.g.lock with
        | none => exact ⟨k, Or.inr ⟨hm' k, Or.inl ⟨hk', fun hb => hb.2 hpl⟩⟩⟩
        | some o =>
          have hcs := (IP.tinv o).lockI.mpr hpl
          refine ⟨o, Or.inr ⟨hm' o, Or.inl ⟨?_, ?_⟩⟩⟩
          · intro hf; simp [hf, PC.inCS] at hcs
          · rintro ⟨hb, _⟩; simp [hb, PC.inCS] at hcs

end Utv.C20
