import Utv.Lemmas.C15Main
/-! Building: a schema object builds iff the Rules declared for it are accepted and the members the parser reaches
build — whatever those members build to. -/
set_option linter.unusedSimpArgs false
set_option linter.unusedVariables false
namespace Utv.C15
open Utv.JsonSchema
open KnownDefect

/-! ### the declaration checks do not look at the member types -/

theorem mkRule_of_not_any (t : Ty) (cons : Cons) (h : isAny t = false) :
    mkRule t cons = (if cons.isEmpty then some t
      else match cons.lookup "const" with
        | some v => (match originOf t with
          | some p => if constFits p v then some (.rule t cons) else none
          | none => none)
        | none =>
          if (cons.lookup "enum").isSome then some (.rule t cons)
          else
            let p := (originOf t).getD .str
            if checkBounds p cons && checkLength cons then some (.rule t cons) else none) := by
  cases t <;> simp [isAny] at h <;> rfl

theorem mkRule_isSome_congr (t t' : Ty) (cons : Cons) (h1 : isAny t = false) (h2 : isAny t' = false)
    (ho : originOf t = originOf t') : (mkRule t cons).isSome = (mkRule t' cons).isSome := by
  rw [mkRule_of_not_any t cons h1, mkRule_of_not_any t' cons h2, ho]
  by_cases he : cons.isEmpty = true
  · simp [he]
  · simp only [he, Bool.false_eq_true, if_false]
    cases cons.lookup "const" with
    | some v =>
      simp only
      cases originOf t' with
      | none => rfl
      | some p => simp only; split <;> rfl
    | none =>
      simp only
      split
      · rfl
      · split <;> rfl

theorem allSome_isSome_iff {α : Type} (l : List (Option α)) : (allSome l).isSome = true ↔ ∀ x ∈ l, x.isSome = true := by
  induction l with
  | nil => simp [allSome]
  | cons x rest ih =>
    cases x with
    | none => simp [allSome]
    | some a =>
      simp only [allSome, List.mem_cons, forall_eq_or_imp, Option.isSome_some, true_and]
      rw [← ih]
      cases allSome rest <;> simp

theorem annotate_isSome_congr (t t' : Ty) (b : Bool) (cons : Cons) (h1 : isAny t = false) (h2 : isAny t' = false)
    (ho : originOf t = originOf t') (hb : bareOrigin t = bareOrigin t') (hb1 : isAny (bareOrigin t) = false) :
    (annotate t b cons).isSome = (annotate t' b cons).isSome := by
  have key : ∀ (u : Ty), (annotate u b cons).isSome =
      (allSome ((if (!(cons.filter fun c => !(c.1 == "const" || c.1 == "enum")).isEmpty || b ||
        ((cons.filter fun c => c.1 == "const") ++ (cons.filter fun c => c.1 == "enum")).isEmpty) = true
        then [mkRule u (cons.filter fun c => !(c.1 == "const" || c.1 == "enum"))] else []) ++
        ((cons.filter fun c => c.1 == "const") ++ (cons.filter fun c => c.1 == "enum")).map
          fun c => mkRule (bareOrigin u) [c])).isSome := by
    intro u
    unfold annotate
    simp only
    split <;> rename_i h <;> rw [h] <;> rfl
  rw [key t, key t', hb]
  have e := mkRule_isSome_congr t t' (cons.filter fun c => !(c.1 == "const" || c.1 == "enum")) h1 h2 ho
  apply Bool.eq_iff_iff.mpr
  rw [allSome_isSome_iff, allSome_isSome_iff]
  constructor <;> intro h x hx <;> rcases List.mem_append.mp hx with hx1 | hx1
  · split at hx1
    · have := List.mem_singleton.mp hx1; subst this
      rw [← e]; exact h _ (List.mem_append_left _ (by rw [if_pos (by assumption)]; simp))
    · exact absurd hx1 List.not_mem_nil
  · exact h x (List.mem_append_right _ hx1)
  · split at hx1
    · have := List.mem_singleton.mp hx1; subst this
      rw [e]; exact h _ (List.mem_append_left _ (by rw [if_pos (by assumption)]; simp))
    · exact absurd hx1 List.not_mem_nil
  · exact h x (List.mem_append_right _ hx1)

/-! ### the stubbed members -/

theorem stubKws_lookup (k : String) : (kws : List (String × Json)) →
    (stubKws kws).lookup k = (lookup k kws).map (stubOf k)
  | [] => by simp [stubKws, lookup]
  | (k', v) :: rest => by
    simp only [stubKws, List.lookup, lookup]
    by_cases h : (k' == k) = true
    · have : k' = k := by simpa using h
      subst this
      simp
    · have h' : (k == k') = false := by
        cases hk : (k == k') with
        | false => rfl
        | true =>
          have : k = k' := by simpa using hk
          subst this; simp at h
      have h'' : (k' == k) = false := by simpa using h
      simp only [h', h'']
      exact stubKws_lookup k rest

theorem stub_subOne (kvs : Obj) (k : String) (hk : oneKeywords.contains k = true) (v : Json) (h : lookup k kvs = some v) :
    subOne (stubKws kvs) k = some .any := by
  have hk' : k ∈ oneKeywords := by simpa using hk
  simp [subOne, stubKws_lookup, h, stubOf, hk']

theorem stub_subMany (kvs : Obj) (k : String) (hk : manyKeywords.contains k = true) (ss : List Json)
    (h : lookup k kvs = some (.arr ss)) : subMany (stubKws kvs) k = ss.map fun _ => some .any := by
  have h1 : oneKeywords.contains k = false := by
    simp [manyKeywords] at hk
    rcases hk with h | h | h | h <;> subst h <;> simp [oneKeywords]
  have h1' : ¬ k ∈ oneKeywords := by simpa using h1
  have hk' : k ∈ manyKeywords := by simpa using hk
  simp [subMany, stubKws_lookup, h, stubOf, h1', hk']

theorem stub_subProps (kvs : Obj) (ps : List (String × Json)) (h : lookup "properties" kvs = some (.obj ps)) :
    subProps (stubKws kvs) = ps.map fun p => (p.1, some .any) := by
  simp [subProps, stubKws_lookup, h, stubOf, oneKeywords, manyKeywords]

theorem allSome_const_any {α : Type} (l : List α) : allSome (l.map fun _ => some Ty.any) = some (l.map fun _ => Ty.any) := by
  induction l with
  | nil => rfl
  | cons x rest ih => simp [allSome, ih]

/-! ### arrays -/

def itemsReached (kvs : Obj) (v : Json) : Bool :=
  if prefixTruthy kvs then !isFalse v && truthy v else truthy v || isFalse v

/-- the part of `parse_array` after the prefix: with the real members and with stubs -/
theorem array_items_iff (N : Names) (kvs : Obj) (cons : Cons) (args args0 : List Ty) (hl : args.length = args0.length)
    (pre : Bool) (hpre : prefixTruthy kvs = pre) :
    ((if pre then
        (match lookup "items" kvs with
         | some v =>
           if isFalse v then annotate (.tup args .reject .any) true (capLength cons args.length)
           else if truthy v then (match subOne (parseKws N kvs) "items" with
             | some t => annotate (.tup args .typed t) true cons
             | none => none)
           else annotate (.tup args .free .any) true cons
         | none => annotate (.tup args .free .any) true cons)
      else
        (match lookup "items" kvs with
         | some v =>
           if truthy v || isFalse v then (match subOne (parseKws N kvs) "items" with
             | some t => annotate (.arr [t]) true cons
             | none => none)
           else annotate (.arr []) false cons
         | none => annotate (.arr []) false cons)).isSome = true) ↔
    ((if pre then
        (match lookup "items" kvs with
         | some v =>
           if isFalse v then annotate (.tup args0 .reject .any) true (capLength cons args0.length)
           else if truthy v then (match subOne (stubKws kvs) "items" with
             | some t => annotate (.tup args0 .typed t) true cons
             | none => none)
           else annotate (.tup args0 .free .any) true cons
         | none => annotate (.tup args0 .free .any) true cons)
      else
        (match lookup "items" kvs with
         | some v =>
           if truthy v || isFalse v then (match subOne (stubKws kvs) "items" with
             | some t => annotate (.arr [t]) true cons
             | none => none)
           else annotate (.arr []) false cons
         | none => annotate (.arr []) false cons)).isSome = true ∧
     ∀ v, lookup "items" kvs = some v → itemsReached kvs v = true → (parse N v).isSome = true) := by
  have tupc : ∀ a t a' t' b cs, (annotate (.tup args a t) b cs).isSome = (annotate (.tup args0 a' t') b cs).isSome :=
    fun a t a' t' b cs => annotate_isSome_congr _ _ b cs rfl rfl rfl rfl rfl
  have arrc : ∀ x y b cs, (annotate (.arr x) b cs).isSome = (annotate (.arr y) b cs).isSome :=
    fun x y b cs => annotate_isSome_congr _ _ b cs rfl rfl rfl rfl rfl
  cases hi : lookup "items" kvs with
  | none =>
    cases pre
    · simp
    · simp only [if_true]
      rw [tupc .free .any .free .any]
      simp
  | some iv =>
    have hsr := subOne_items N kvs iv hi
    have hss := stub_subOne kvs "items" (by simp [oneKeywords]) iv hi
    cases pre
    · simp only [Bool.false_eq_true, if_false, itemsReached, hpre]
      by_cases hc : (truthy iv || isFalse iv) = true
      · simp only [hc, if_true, hsr, hss]
        cases hpi : parse N iv with
        | none =>
          constructor
          · intro h; cases h
          · rintro ⟨_, h2⟩
            have := h2 iv rfl hc
            rw [hpi] at this; cases this
        | some t =>
          simp only [Option.isSome_some]
          rw [arrc [t] [.any]]
          constructor
          · intro h; exact ⟨h, fun v hv _ => by cases hv; rw [hpi]; rfl⟩
          · intro h; exact h.1
      · simp only [hc, Bool.false_eq_true, if_false]
        constructor
        · intro h; exact ⟨h, fun v hv hr => by cases hv; exact absurd hr hc⟩
        · intro h; exact h.1
    · simp only [if_true, itemsReached, hpre]
      by_cases hf : isFalse iv = true
      · simp only [hf, if_true, Bool.not_true, Bool.false_and]
        rw [hl, tupc .reject .any .reject .any]
        constructor
        · intro h; exact ⟨h, fun v hv hr => by cases hv; simp [hf] at hr⟩
        · intro h; exact h.1
      · simp only [hf, Bool.false_eq_true, if_false]
        by_cases ht : truthy iv = true
        · simp only [ht, if_true, hsr, hss]
          cases hpi : parse N iv with
          | none =>
            constructor
            · intro h; cases h
            · rintro ⟨_, h2⟩
              have := h2 iv rfl (by simp [hf, ht])
              rw [hpi] at this; cases this
          | some t =>
            simp only [Option.isSome_some]
            rw [tupc .typed t .typed .any]
            constructor
            · intro h; exact ⟨h, fun v hv _ => by cases hv; rw [hpi]; rfl⟩
            · intro h; exact h.1
        · simp only [ht, Bool.false_eq_true, if_false]
          rw [tupc .free .any .free .any]
          constructor
          · intro h; exact ⟨h, fun v hv hr => by cases hv; simp [ht] at hr⟩
          · intro h; exact h.1

/-- `parse_array` builds iff it does with stubbed members and the members it reaches build -/
theorem array_iff (N : Names) (kvs : Obj) (cons : Cons) :
    (parseArray kvs (parseKws N kvs) cons).isSome = true ↔
    ((parseArray kvs (stubKws kvs) cons).isSome = true ∧
     (∀ ss, lookup "prefixItems" kvs = some (.arr ss) → truthy (.arr ss) = true → ∀ s ∈ ss, (parse N s).isSome = true) ∧
     (∀ v, lookup "items" kvs = some v → itemsReached kvs v = true → (parse N v).isSome = true)) := by
  unfold parseArray
  by_cases hsingle : (keys kvs == ["type"] && cons.isEmpty) = true
  · simp only [hsingle, if_true, Option.isSome_some, true_and]
    simp only [Bool.and_eq_true] at hsingle
    have none_of : ∀ k, k ≠ "type" → lookup k kvs = none := by
      intro k hk
      cases hl : lookup k kvs with
      | none => rfl
      | some v => exact absurd (keys_single kvs hsingle.1 k v (mem_of_lookup kvs _ _ hl)) hk
    constructor
    · intro _
      refine ⟨fun ss h => ?_, fun v h => ?_⟩
      · rw [none_of "prefixItems" (by decide)] at h; cases h
      · rw [none_of "items" (by decide)] at h; cases h
    · intro _; trivial
  · simp only [hsingle, Bool.false_eq_true, if_false]
    cases hp : lookup "prefixItems" kvs with
    | none =>
      have hpre : prefixTruthy kvs = false := by simp [prefixTruthy, hp]
      have := array_items_iff N kvs cons [] [] rfl false hpre
      simp only [Bool.false_eq_true, if_false] at this ⊢
      refine Iff.trans this ?_
      constructor
      · rintro ⟨h1, h2⟩; exact ⟨h1, fun ss h => (by cases h), h2⟩
      · rintro ⟨h1, _, h2⟩; exact ⟨h1, h2⟩
    | some pv =>
      by_cases htp : truthy pv = true
      · have hpre : prefixTruthy kvs = true := by simp [prefixTruthy, hp, htp]
        simp only [htp, if_true]
        cases pv with
        | arr ss =>
          rw [subMany_of N kvs "prefixItems" (by simp [manyKeywords]) ss hp,
            stub_subMany kvs "prefixItems" (by simp [manyKeywords]) ss hp, allSome_const_any]
          simp only
          cases hargs : allSome (ss.map (parse N)) with
          | none =>
            constructor
            · intro h; cases h
            · rintro ⟨_, h2, _⟩
              have : (allSome (ss.map (parse N))).isSome = true := by
                apply (allSome_isSome_iff _).mpr
                intro x hx
                obtain ⟨s, hs, rfl⟩ := List.mem_map.mp hx
                exact h2 ss rfl htp s hs
              rw [hargs] at this; cases this
          | some args =>
            simp only
            have hlen : args.length = (ss.map fun _ => Ty.any).length := by
              have := congrArg List.length (allSome_eq_some _ _ hargs)
              simpa using this.symm
            have := array_items_iff N kvs cons args (ss.map fun _ => Ty.any) hlen true hpre
            simp only [if_true] at this
            refine Iff.trans this ?_
            have hall : ∀ s ∈ ss, (parse N s).isSome = true := by
              have h := (allSome_isSome_iff (ss.map (parse N))).mp (by rw [hargs]; rfl)
              intro s hs
              exact h _ (List.mem_map.mpr ⟨s, hs, rfl⟩)
            constructor
            · rintro ⟨h1, h2⟩; exact ⟨h1, fun ss' h _ => (by cases h; exact hall), h2⟩
            · rintro ⟨h1, _, h2⟩; exact ⟨h1, h2⟩
        | null | bool _ | num _ | str _ | obj _ =>
          have e1 : subMany (parseKws N kvs) "prefixItems" = [] := by
            simp [subMany, parseKws_lookup, hp, subOf, oneKeywords, manyKeywords]
          have e2 : subMany (stubKws kvs) "prefixItems" = [] := by
            simp [subMany, stubKws_lookup, hp, stubOf, oneKeywords, manyKeywords]
          rw [e1, e2]
          simp only [allSome]
          have := array_items_iff N kvs cons [] [] rfl true hpre
          simp only [if_true] at this
          refine Iff.trans this ?_
          constructor
          · rintro ⟨h1, h2⟩; exact ⟨h1, fun ss h => (by cases h), h2⟩
          · rintro ⟨h1, _, h2⟩; exact ⟨h1, h2⟩
      · have hpre : prefixTruthy kvs = false := by simp [prefixTruthy, hp, htp]
        simp only [htp, Bool.false_eq_true, if_false]
        have := array_items_iff N kvs cons [] [] rfl false hpre
        simp only [Bool.false_eq_true, if_false] at this
        refine Iff.trans this ?_
        constructor
        · rintro ⟨h1, h2⟩
          refine ⟨h1, fun ss h ht => ?_, h2⟩
          cases h; exact absurd ht htp
        · rintro ⟨h1, _, h2⟩; exact ⟨h1, h2⟩

/-! ### objects -/

/-- the declared properties, with the real members and with stubs: the same names -/
theorem declared_cases (N : Names) (kvs : Obj) :
    (∃ ps, lookup "properties" kvs = some (.obj ps) ∧ truthy (.obj ps) = true ∧
      declaredProps kvs (parseKws N kvs) = ps.map (fun p => (p.1, parse N p.2)) ∧
      declaredProps kvs (stubKws kvs) = ps.map (fun p => (p.1, some Ty.any))) ∨
    ((∀ ps, lookup "properties" kvs = some (.obj ps) → truthy (.obj ps) = false) ∧
      declaredProps kvs (parseKws N kvs) = [] ∧ declaredProps kvs (stubKws kvs) = []) := by
  unfold declaredProps
  cases hl : lookup "properties" kvs with
  | none => exact Or.inr ⟨fun ps h => (by cases h), rfl, rfl⟩
  | some v =>
    by_cases ht : truthy v = true
    · cases v with
      | obj ps =>
        left
        refine ⟨ps, rfl, ht, ?_, ?_⟩
        · simp only [ht, if_true]; exact subProps_of N kvs ps hl
        · simp only [ht, if_true]; exact stub_subProps kvs ps hl
      | null | bool _ | num _ | str _ | arr _ =>
        right
        refine ⟨fun ps h => (by cases h), ?_, ?_⟩
        · simp [ht, subProps, parseKws_lookup, hl, subOf, oneKeywords, manyKeywords]
        · simp [ht, subProps, stubKws_lookup, hl, stubOf, oneKeywords, manyKeywords]
    · right
      refine ⟨fun ps h => ?_, by simp [ht], by simp [ht]⟩
      cases h; simpa using ht

theorem object_iff (N : Names) (kvs : Obj) (cons : Cons) :
    (parseObject N kvs (parseKws N kvs) cons).isSome = true ↔
    ((parseObject noNames kvs (stubKws kvs) cons).isSome = true ∧
     (∀ ps, lookup "properties" kvs = some (.obj ps) → truthy (.obj ps) = true → ∀ p ∈ ps, (parse N p.2).isSome = true) ∧
     (∀ o, lookup "additionalProperties" kvs = some (.obj o) → (parse N (.obj o)).isSome = true)) := by
  unfold parseObject
  by_cases hsingle : (keys kvs == ["type"] && cons.isEmpty) = true
  · simp only [hsingle, if_true, Option.isSome_some, true_and]
    simp only [Bool.and_eq_true] at hsingle
    have none_of : ∀ k, k ≠ "type" → lookup k kvs = none := by
      intro k hk
      cases hl : lookup k kvs with
      | none => rfl
      | some v => exact absurd (keys_single kvs hsingle.1 k v (mem_of_lookup kvs _ _ hl)) hk
    constructor
    · intro _
      refine ⟨fun ps h => ?_, fun o h => ?_⟩
      · rw [none_of "properties" (by decide)] at h; cases h
      · rw [none_of "additionalProperties" (by decide)] at h; cases h
    · intro _; trivial
  · simp only [hsingle, Bool.false_eq_true, if_false]
    -- the names do not depend on what the members build to
    have hnames : (declaredProps kvs (parseKws N kvs)).map (·.1) = (declaredProps kvs (stubKws kvs)).map (·.1) := by
      rcases declared_cases N kvs with ⟨ps, _, _, h1, h2⟩ | ⟨_, h1, h2⟩
      · rw [h1, h2]; simp [List.map_map, Function.comp]
      · rw [h1, h2]
    have himp : implicitNames kvs (parseKws N kvs) = implicitNames kvs (stubKws kvs) := by
      unfold implicitNames; rw [hnames]
    have hemp : (declaredProps kvs (parseKws N kvs)).isEmpty = (declaredProps kvs (stubKws kvs)).isEmpty := by
      have := congrArg List.length hnames
      simp only [List.length_map] at this
      cases h1 : declaredProps kvs (parseKws N kvs) <;> cases h2 : declaredProps kvs (stubKws kvs) <;> simp_all
    rw [himp, hemp]
    -- the additional type
    have hap : ∀ o, lookup "additionalProperties" kvs = some (.obj o) →
        subOne (parseKws N kvs) "additionalProperties" = parse N (.obj o) ∧
        subOne (stubKws kvs) "additionalProperties" = some .any := fun o h =>
      ⟨subOne_additional N kvs _ h, stub_subOne kvs _ (by simp [oneKeywords]) _ h⟩
    -- the declared members build
    have hdecl : (∀ p ∈ declaredProps kvs (parseKws N kvs), p.2.isSome = true) ↔
        (∀ ps, lookup "properties" kvs = some (.obj ps) → truthy (.obj ps) = true → ∀ p ∈ ps, (parse N p.2).isSome = true) := by
      rcases declared_cases N kvs with ⟨ps, hl, ht, h1, _⟩ | ⟨hnone, h1, _⟩
      · rw [h1]
        constructor
        · intro h ps' hl' _ p hp
          rw [hl] at hl'; cases hl'
          exact h (p.1, parse N p.2) (List.mem_map.mpr ⟨p, hp, rfl⟩)
        · intro h q hq
          obtain ⟨p, hp, rfl⟩ := List.mem_map.mp hq
          exact h ps hl ht p hp
      · rw [h1]
        constructor
        · intro _ ps hl ht; rw [hnone ps hl] at ht; cases ht
        · intro _ q hq; simp at hq
    have hstub : ∀ p ∈ declaredProps kvs (stubKws kvs), p.2.isSome = true := by
      intro p hp
      rcases declared_cases N kvs with ⟨ps, _, _, _, h2⟩ | ⟨_, _, h2⟩
      · rw [h2] at hp; obtain ⟨q, _, rfl⟩ := List.mem_map.mp hp; rfl
      · rw [h2] at hp; simp at hp
    by_cases hplain : ((declaredProps kvs (stubKws kvs)).isEmpty && (implicitNames kvs (stubKws kvs)).isEmpty &&
        !((lookup "additionalProperties" kvs).map isFalse).getD false) = true
    · -- a plain mapping: no declared members
      simp only [hplain, if_true]
      have hnodecl : ∀ ps, lookup "properties" kvs = some (.obj ps) → truthy (.obj ps) = true →
          ∀ p ∈ ps, (parse N p.2).isSome = true := by
        apply hdecl.mp
        intro p hp
        simp only [Bool.and_eq_true] at hplain
        have : declaredProps kvs (parseKws N kvs) = [] := by
          have := hplain.1.1; rw [← hemp] at this; simpa using this
        rw [this] at hp; simp at hp
      unfold mapValue
      cases hl : lookup "additionalProperties" kvs with
      | none =>
        simp only
        rw [annotate_isSome_congr (.map .any) (.map .any) true cons rfl rfl rfl rfl rfl]
        exact ⟨fun h => ⟨h, hnodecl, fun o ho => (by cases ho)⟩, fun h => h.1⟩
      | some av =>
        cases av with
        | obj o =>
          simp only [(hap o hl).1, (hap o hl).2]
          cases hpo : parse N (.obj o) with
          | none =>
            constructor
            · intro h; cases h
            · rintro ⟨_, _, h3⟩
              have := h3 o rfl; rw [hpo] at this; cases this
          | some t =>
            simp only
            rw [annotate_isSome_congr (.map t) (.map .any) true cons rfl rfl rfl rfl rfl]
            exact ⟨fun h => ⟨h, hnodecl, fun o' ho => (by cases ho; rw [hpo]; rfl)⟩, fun h => h.1⟩
        | null | bool _ | num _ | str _ | arr _ =>
          simp only
          exact ⟨fun h => ⟨h, hnodecl, fun o ho => (by cases ho)⟩, fun h => h.1⟩
    · -- a data class: it is created whenever its members build
      simp only [hplain, Bool.false_eq_true, if_false]
      have hallsome : ∀ (subs : Subs) (ity : Option Ty), ity.isSome = true →
          (∀ p ∈ declaredProps kvs subs, p.2.isSome = true) →
          (allSome ((declaredProps kvs subs ++ (implicitNames kvs (stubKws kvs)).map fun n => (n, ity)).map
            fun p => p.2.map fun t => (p.1, t))).isSome = true := by
        intro subs ity hity hd
        apply (allSome_isSome_iff _).mpr
        intro x hx
        obtain ⟨p, hp, rfl⟩ := List.mem_map.mp hx
        rcases List.mem_append.mp hp with h | h
        · obtain ⟨t, ht⟩ := Option.isSome_iff_exists.mp (hd p h)
          simp [ht]
        · obtain ⟨n, _, rfl⟩ := List.mem_map.mp h
          obtain ⟨t, ht⟩ := Option.isSome_iff_exists.mp hity
          simp [ht]
      -- the stub side always succeeds
      have hright : ((match additionOf kvs (stubKws kvs) with
          | none => none
          | some (addK, addTy) =>
            match allSome ((declaredProps kvs (stubKws kvs) ++ (implicitNames kvs (stubKws kvs)).map
                fun n => (n, implicitTy kvs (stubKws kvs))).map fun p => p.2.map fun t => (p.1, t)) with
            | none => none
            | some props => some (layerEnums cons (objectClass noNames kvs props addK addTy))) : Option Ty).isSome = true := by
        have ha : ∃ a, additionOf kvs (stubKws kvs) = some a := by
          unfold additionOf
          cases hl : lookup "additionalProperties" kvs with
          | none => exact ⟨_, rfl⟩
          | some av =>
            cases av with
            | obj o => simp [(hap o hl).2]
            | bool b => cases b <;> exact ⟨_, rfl⟩
            | null | num _ | str _ | arr _ => exact ⟨_, rfl⟩
        obtain ⟨⟨ak, at'⟩, ha⟩ := ha
        have hi : (implicitTy kvs (stubKws kvs)).isSome = true := by
          unfold implicitTy
          cases hl : lookup "additionalProperties" kvs with
          | none => rfl
          | some av =>
            cases av with
            | obj o => simp [(hap o hl).2]
            | bool b => cases b <;> rfl
            | null | num _ | str _ | arr _ => rfl
        obtain ⟨props, hprops⟩ := Option.isSome_iff_exists.mp (hallsome (stubKws kvs) _ hi hstub)
        rw [ha]; simp only; rw [hprops]; rfl
      constructor
      · intro h
        refine ⟨hright, ?_, ?_⟩
        · apply hdecl.mp
          intro p hp
          -- from the success of allSome
          cases hadd : additionOf kvs (parseKws N kvs) with
          | none => rw [hadd] at h; cases h
          | some a =>
            obtain ⟨ak, at'⟩ := a
            rw [hadd] at h
            simp only at h
            cases hps : allSome ((declaredProps kvs (parseKws N kvs) ++ (implicitNames kvs (stubKws kvs)).map
                fun n => (n, implicitTy kvs (parseKws N kvs))).map fun p => p.2.map fun t => (p.1, t)) with
            | none => rw [hps] at h; cases h
            | some props =>
              have := (allSome_isSome_iff _).mp (by rw [hps]; rfl) (p.2.map fun t => (p.1, t))
                (List.mem_map.mpr ⟨p, List.mem_append_left _ hp, rfl⟩)
              cases hp2 : p.2 <;> simp [hp2] at this ⊢
        · intro o ho
          cases hadd : additionOf kvs (parseKws N kvs) with
          | none =>
            rw [hadd] at h; cases h
          | some a =>
            unfold additionOf at hadd
            simp only [ho, (hap o ho).1] at hadd
            cases hpo : parse N (.obj o) with
            | none => simp [hpo] at hadd
            | some t => rfl
      · rintro ⟨_, h2, h3⟩
        have ha : ∃ a, additionOf kvs (parseKws N kvs) = some a := by
          unfold additionOf
          cases hl : lookup "additionalProperties" kvs with
          | none => exact ⟨_, rfl⟩
          | some av =>
            cases av with
            | obj o =>
              obtain ⟨t, ht⟩ := Option.isSome_iff_exists.mp (h3 o hl)
              simp [(hap o hl).1, ht]
            | bool b => cases b <;> exact ⟨_, rfl⟩
            | null | num _ | str _ | arr _ => exact ⟨_, rfl⟩
        obtain ⟨⟨ak, at'⟩, ha⟩ := ha
        have hi : (implicitTy kvs (parseKws N kvs)).isSome = true := by
          unfold implicitTy
          cases hl : lookup "additionalProperties" kvs with
          | none => rfl
          | some av =>
            cases av with
            | obj o => simp only [(hap o hl).1]; exact h3 o hl
            | bool b => cases b <;> rfl
            | null | num _ | str _ | arr _ => rfl
        obtain ⟨props, hprops⟩ := Option.isSome_iff_exists.mp (hallsome (parseKws N kvs) _ hi (hdecl.mpr h2))
        rw [ha]; simp only; rw [hprops]; rfl

/-! ### combinators, one schema object -/

theorem condGroup_iff (N : Names) (kvs : Obj) (k : String) (op : Op) (hk : manyKeywords.contains k = true) :
    (condGroup kvs (parseKws N kvs) k op).isSome = true ↔
    (∀ ss, lookup k kvs = some (.arr ss) → truthy (.arr ss) = true → ∀ s ∈ ss, (parse N s).isSome = true) := by
  unfold condGroup
  cases hl : lookup k kvs with
  | none => exact ⟨fun _ ss h => (by cases h), fun _ => rfl⟩
  | some v =>
    simp only
    by_cases ht : truthy v = true
    · rw [if_pos ht]
      cases v with
      | arr ss =>
        rw [subMany_of N kvs k hk ss hl]
        constructor
        · intro h ss' hss' _ s hs
          cases hss'
          cases ha : allSome (ss.map (parse N)) with
          | none => rw [ha] at h; cases h
          | some ts =>
            exact (allSome_isSome_iff _).mp (by rw [ha]; rfl) _ (List.mem_map.mpr ⟨s, hs, rfl⟩)
        · intro h
          have : (allSome (ss.map (parse N))).isSome = true := by
            apply (allSome_isSome_iff _).mpr
            intro x hx
            obtain ⟨s, hs, rfl⟩ := List.mem_map.mp hx
            exact h ss rfl ht s hs
          obtain ⟨ts, hts⟩ := Option.isSome_iff_exists.mp this
          rw [hts]; rfl
      | null | bool _ | num _ | str _ | obj _ =>
        have hno : ¬ k ∈ oneKeywords := by
          simp [manyKeywords] at hk
          rcases hk with h | h | h | h <;> subst h <;> simp [oneKeywords]
        have hk' : k ∈ manyKeywords := by simpa using hk
        have e1 : subMany (parseKws N kvs) k = [] := by
          simp [subMany, parseKws_lookup, hl, subOf, hno, hk']
        rw [e1]
        exact ⟨fun _ ss h => (by cases h), fun _ => rfl⟩
    · rw [if_neg ht]
      exact ⟨fun _ ss h ht' => (by cases h; exact absurd ht' ht), fun _ => rfl⟩

theorem conditions_iff (N : Names) (kvs : Obj) :
    (conditions kvs (parseKws N kvs)).isSome = true ↔
    (∀ k, (k = "anyOf" ∨ k = "oneOf" ∨ k = "allOf") → ∀ ss, lookup k kvs = some (.arr ss) → truthy (.arr ss) = true →
      ∀ s ∈ ss, (parse N s).isSome = true) := by
  have ga := condGroup_iff N kvs "anyOf" .any (by simp [manyKeywords])
  have go := condGroup_iff N kvs "oneOf" .one (by simp [manyKeywords])
  have gl := condGroup_iff N kvs "allOf" .all (by simp [manyKeywords])
  unfold conditions
  constructor
  · intro h k hk
    cases ha : condGroup kvs (parseKws N kvs) "anyOf" .any with
    | none => rw [ha] at h; cases h
    | some a =>
      cases ho : condGroup kvs (parseKws N kvs) "oneOf" .one with
      | none => rw [ha, ho] at h; cases h
      | some b =>
        cases hl : condGroup kvs (parseKws N kvs) "allOf" .all with
        | none => rw [ha, ho, hl] at h; cases h
        | some c =>
          rcases hk with rfl | rfl | rfl
          · exact ga.mp (by rw [ha]; rfl)
          · exact go.mp (by rw [ho]; rfl)
          · exact gl.mp (by rw [hl]; rfl)
  · intro h
    obtain ⟨a, ha⟩ := Option.isSome_iff_exists.mp (ga.mpr (h "anyOf" (Or.inl rfl)))
    obtain ⟨b, hb⟩ := Option.isSome_iff_exists.mp (go.mpr (h "oneOf" (Or.inr (Or.inl rfl))))
    obtain ⟨c, hc⟩ := Option.isSome_iff_exists.mp (gl.mpr (h "allOf" (Or.inr (Or.inr rfl))))
    rw [ha, hb, hc]; rfl

/-- the members `baseType` reaches for the (resolved) primitive type `ty'` build -/
def BaseReach (N : Names) (kvs : Obj) (ty' : Option String) : Prop :=
  (ty' = some "array" →
    (∀ ss, lookup "prefixItems" kvs = some (.arr ss) → truthy (.arr ss) = true → ∀ s ∈ ss, (parse N s).isSome = true) ∧
    (∀ v, lookup "items" kvs = some v → itemsReached kvs v = true → (parse N v).isSome = true)) ∧
  (ty' = some "object" →
    (∀ ps, lookup "properties" kvs = some (.obj ps) → truthy (.obj ps) = true → ∀ p ∈ ps, (parse N p.2).isSome = true) ∧
    (∀ o, lookup "additionalProperties" kvs = some (.obj o) → (parse N (.obj o)).isSome = true))

theorem base_iff (N : Names) (kvs : Obj) (ty : Option String) :
    (baseType N kvs (parseKws N kvs) ty).isSome = true ↔ (declares kvs ty = true ∧ BaseReach N kvs (ty <|> inferType kvs)) := by
  unfold declares baseType BaseReach
  simp only
  by_cases ha : ((ty <|> inferType kvs) == some "array") = true
  · have hta : (ty <|> inferType kvs) = some "array" := by simpa using ha
    rw [if_pos ha, if_pos ha, hta]
    rw [array_iff]
    simp
  · rw [if_neg ha, if_neg ha]
    have hna : (ty <|> inferType kvs) ≠ some "array" := by simpa using ha
    by_cases ho : ((ty <|> inferType kvs) == some "object") = true
    · have hto : (ty <|> inferType kvs) = some "object" := by simpa using ho
      rw [if_pos ho, if_pos ho, hto]
      rw [object_iff]
      simp
    · rw [if_neg ho, if_neg ho]
      have hno : (ty <|> inferType kvs) ≠ some "object" := by simpa using ho
      constructor
      · intro h; exact ⟨h, fun h' => absurd h' hna, fun h' => absurd h' hno⟩
      · intro h; exact h.1

theorem with_iff (N : Names) (kvs : Obj) (ty : Option String) :
    (assembleWith N kvs (parseKws N kvs) ty).isSome = true ↔
    ((baseType N kvs (parseKws N kvs) ty).isSome = true ∧ (conditions kvs (parseKws N kvs)).isSome = true) := by
  unfold assembleWith
  cases baseType N kvs (parseKws N kvs) ty with
  | none => simp
  | some t =>
    cases conditions kvs (parseKws N kvs) with
    | none => simp
    | some cs => cases cs <;> simp

theorem assemble_iff (N : Names) (kvs : Obj) :
    (assemble N kvs (parseKws N kvs)).isSome = true ↔
    (emptyEnum kvs = true ∨ ∀ ty ∈ typesBuilt kvs, (assembleWith N kvs (parseKws N kvs) ty).isSome = true) := by
  unfold assemble typesBuilt
  by_cases he : emptyEnum kvs = true
  · simp [he]
  · rw [if_neg he]
    have he' : emptyEnum kvs = false := by simpa using he
    rw [he']
    simp only [Bool.false_eq_true, false_or]
    cases hl : lookup "type" kvs with
    | none => simp
    | some tv =>
      cases tv with
      | arr ts =>
        simp only
        constructor
        · intro h ty hty
          obtain ⟨t, ht, rfl⟩ := List.mem_map.mp hty
          cases ha : allSome ((ts.filterMap strOf).map fun t => assembleWith N kvs (parseKws N kvs) (some t)) with
          | none => rw [ha] at h; cases h
          | some Ts => exact (allSome_isSome_iff _).mp (by rw [ha]; rfl) _ (List.mem_map.mpr ⟨t, ht, rfl⟩)
        · intro h
          have : (allSome ((ts.filterMap strOf).map fun t => assembleWith N kvs (parseKws N kvs) (some t))).isSome = true := by
            apply (allSome_isSome_iff _).mpr
            intro x hx
            obtain ⟨t, ht, rfl⟩ := List.mem_map.mp hx
            exact h (some t) (List.mem_map.mpr ⟨t, ht, rfl⟩)
          obtain ⟨Ts, hTs⟩ := Option.isSome_iff_exists.mp this
          rw [hTs]; rfl
      | str t => simp
      | null | bool _ | num _ | obj _ => simp

end Utv.C15
