import Utv.Lemmas.C05DF
/-!
Where `Parser.wf` comes from.  `Parser.wf` has sixteen conjuncts.  Ten of them are *structural*: they hold for whatever
`ClassParser.setup` builds (`mkParserIn`), for every sequence of declarations — proved here (`buildAll_struct`).  The
remaining six are the *name-clash* conditions (`Parser.wfNames`): distinct output / attribute names, no key accepted by
two fields, no alias that is another field's key, no case-sensitive alias that lower-cases into a case-insensitive
one, every dependency resolved — what `generate_aliases` / `apply_fields` raise ConfigError for (a decidable superset
of it; compared with ConfigError on generated declarations by the correspondence run).
-/
namespace Utv.C05

variable {V : Type}

/-! ### distinct_add -/

theorem mem_distinctAdd (x : Key) (acc xs : List Key) : x ∈ distinctAdd acc xs ↔ x ∈ acc ∨ x ∈ xs := by
  induction xs generalizing acc with
  | nil => simp [distinctAdd]
  | cons y ys ih =>
    unfold distinctAdd
    split
    · rename_i h
      rw [ih]
      have hy : y ∈ acc := by simpa using h
      constructor
      · rintro (h | h)
        · exact Or.inl h
        · exact Or.inr (List.mem_cons_of_mem _ h)
      · rintro (h | h)
        · exact Or.inl h
        · rcases List.mem_cons.1 h with rfl | h
          · exact Or.inl hy
          · exact Or.inr h
    · rw [ih]
      simp only [List.mem_append, List.mem_cons, List.not_mem_nil, or_false]
      constructor
      · rintro ((h | h) | h)
        · exact Or.inl h
        · exact Or.inr (Or.inl h)
        · exact Or.inr (Or.inr h)
      · rintro (h | h | h)
        · exact Or.inl (Or.inl h)
        · exact Or.inl (Or.inr h)
        · exact Or.inr h

theorem head_distinctAdd (a : Key) (acc xs : List Key) : (distinctAdd (a :: acc) xs).head? = some a := by
  induction xs generalizing acc with
  | nil => simp [distinctAdd]
  | cons y ys ih =>
    unfold distinctAdd
    split
    · exact ih acc
    · exact ih (acc ++ [y])

/-! ### one field -/

/-- the conjuncts of `Parser.wf` that speak of one field alone -/
structure FieldOk (W : World V) (kf : Key × PField V) : Prop where
  key : kf.1 = fieldKey W kf.2
  head : kf.2.allAliases.head? = some kf.1
  all_sub : ∀ a ∈ kf.2.allAliases, a = kf.1 ∨ a ∈ kf.2.aliases
  aliases_sub : ∀ a ∈ kf.2.aliases, a ∈ kf.2.allAliases
  attname : (if kf.2.ci then W.lower kf.2.attname else kf.2.attname) ∈ kf.2.allAliases
  lowered : kf.2.ci = true → ∀ a ∈ kf.2.allAliases, W.lower a = a

def dName (d : FieldDecl V) : Key := d.alias.getD d.attname
def dFrom (d : FieldDecl V) : List Key := distinctAdd [d.attname] d.aliasFrom
def dAll (d : FieldDecl V) : List Key := distinctAdd [dName d] (dFrom d)
def dAls (d : FieldDecl V) : List Key := (dFrom d).filter (· ≠ dName d)

theorem mkField_false (W : World V) (o : Opts V) (ann : List (Key × Nat)) (d : FieldDecl V)
    (h : d.ci.getD o.caseInsensitive = false) :
    (mkField W o ann d).ci = false ∧ (mkField W o ann d).name = dName d ∧ (mkField W o ann d).attname = d.attname
    ∧ (mkField W o ann d).allAliases = dAll d ∧ (mkField W o ann d).aliases = dAls d := by
  simp only [mkField, h, Bool.false_eq_true, if_false]
  exact ⟨trivial, rfl, trivial, rfl, rfl⟩

theorem mkField_true (W : World V) (o : Opts V) (ann : List (Key × Nat)) (d : FieldDecl V)
    (h : d.ci.getD o.caseInsensitive = true) :
    (mkField W o ann d).ci = true ∧ (mkField W o ann d).name = dName d ∧ (mkField W o ann d).attname = d.attname
    ∧ (mkField W o ann d).allAliases = (dAll d).map W.lower
    ∧ (mkField W o ann d).aliases = ((dAls d).map W.lower).eraseDups := by
  simp only [mkField, h, if_true]
  exact ⟨trivial, rfl, trivial, rfl, rfl⟩

theorem mkField_ok (W : World V) (LL : LowerLaws W) (o : Opts V) (ann : List (Key × Nat)) (d : FieldDecl V) :
    FieldOk W (fieldKey W (mkField W o ann d), mkField W o ann d) := by
  have hatt : d.attname ∈ dAll d := by
    unfold dAll dFrom; rw [mem_distinctAdd, mem_distinctAdd]; exact Or.inr (Or.inl (by simp))
  have hmem : ∀ x, x ∈ dAll d → x = dName d ∨ x ∈ dAls d := by
    intro x hx
    by_cases h : x = dName d
    · exact Or.inl h
    · right
      unfold dAll at hx
      rw [mem_distinctAdd] at hx
      rcases hx with hx | hx
      · exact absurd (by simpa using hx) h
      · unfold dAls; rw [List.mem_filter]; exact ⟨hx, by simpa using h⟩
  have hsub : ∀ x, x ∈ dAls d → x ∈ dAll d := by
    intro x hx
    unfold dAls at hx; rw [List.mem_filter] at hx
    unfold dAll; rw [mem_distinctAdd]; exact Or.inr hx.1
  cases hci : d.ci.getD o.caseInsensitive
  · obtain ⟨h1, h2, h3, h4, h5⟩ := mkField_false W o ann d hci
    have hk : fieldKey W (mkField W o ann d) = dName d := by unfold fieldKey; rw [h1, h2]; rfl
    refine ⟨rfl, ?_, ?_, ?_, ?_, ?_⟩
    · simp only; rw [h4, hk]; exact head_distinctAdd _ _ _
    · simp only; rw [h4, h5, hk]; exact hmem
    · simp only; rw [h4, h5]; exact hsub
    · simp only; rw [h1, h3, h4]; exact hatt
    · simp only; rw [h1]; intro h; cases h
  · obtain ⟨h1, h2, h3, h4, h5⟩ := mkField_true W o ann d hci
    have hk : fieldKey W (mkField W o ann d) = W.lower (dName d) := by unfold fieldKey; rw [h1, h2]; rfl
    refine ⟨rfl, ?_, ?_, ?_, ?_, ?_⟩
    · simp only; rw [h4, hk, List.head?_map]; unfold dAll; rw [head_distinctAdd]; rfl
    · simp only; rw [h4, h5, hk]
      intro a ha
      obtain ⟨x, hx, rfl⟩ := List.mem_map.1 ha
      rcases hmem x hx with h | h
      · left; rw [h]
      · right; rw [List.mem_eraseDups]; exact List.mem_map.2 ⟨x, h, rfl⟩
    · simp only; rw [h4, h5]
      intro a ha
      rw [List.mem_eraseDups] at ha
      obtain ⟨x, hx, rfl⟩ := List.mem_map.1 ha
      exact List.mem_map.2 ⟨x, hsub x hx, rfl⟩
    · simp only; rw [h1, h3, h4]; exact List.mem_map.2 ⟨_, hatt, rfl⟩
    · simp only; rw [h4]
      intro _ a ha
      obtain ⟨x, _, rfl⟩ := List.mem_map.1 ha
      exact LL.idem x

/-! ### dictionaries of fields -/

theorem mem_dset_or {α : Type} (k : Key) (v : α) (d : List (Key × α)) (x : Key × α) (h : x ∈ dset k v d) :
    x = (k, v) ∨ x ∈ d := by
  induction d with
  | nil => simp [dset] at h; exact Or.inl h
  | cons y ys ih =>
    obtain ⟨k', v'⟩ := y
    unfold dset at h
    split at h
    · rcases List.mem_cons.1 h with h | h
      · exact Or.inl h
      · exact Or.inr (List.mem_cons_of_mem _ h)
    · rcases List.mem_cons.1 h with h | h
      · exact Or.inr (h ▸ List.mem_cons_self)
      · rcases ih h with h | h
        · exact Or.inl h
        · exact Or.inr (List.mem_cons_of_mem _ h)

theorem mem_dupdate {α : Type} (d e : List (Key × α)) (x : Key × α) (h : x ∈ dupdate d e) : x ∈ d ∨ x ∈ e := by
  unfold dupdate at h
  induction e generalizing d with
  | nil => exact Or.inl h
  | cons y ys ih =>
    rw [List.foldl_cons] at h
    rcases ih _ h with h | h
    · rcases mem_dset_or _ _ _ _ h with h | h
      · exact Or.inr (h ▸ List.mem_cons_self)
      · exact Or.inl h
    · exact Or.inr (List.mem_cons_of_mem _ h)

theorem nodup_keys_dupdate {α : Type} (d e : List (Key × α)) (h : (d.map (·.1)).Nodup) :
    ((dupdate d e).map (·.1)).Nodup := by
  unfold dupdate
  induction e generalizing d with
  | nil => exact h
  | cons y ys ih => rw [List.foldl_cons]; exact ih _ (nodup_keys_dset _ _ _ h)

/-! ### the parser -/

/-- the conjuncts of `Parser.wf` that hold by construction -/
structure StructOk (W : World V) (P : Parser V) : Prop where
  fields : ∀ kf ∈ P.fields, FieldOk W kf
  keys : (P.fields.map (·.1)).Nodup
  deps : ∀ kf ∈ P.fields, ∀ d ∈ kf.2.deps, d ∈ P.fields.map (·.2.name)
  amap : P.aliasMap = aliasMapOf P.fields
  cin : P.ciNames = ciNamesOf P.fields

theorem resolveDeps_sub (fields : List (Key × PField V)) (amap : List (Key × Key)) (deps : List Key) :
    ∀ d ∈ resolveDeps fields amap deps, d ∈ fields.map (·.2.name) := by
  unfold resolveDeps
  suffices h : ∀ acc : List Key, (∀ d ∈ acc, d ∈ fields.map (·.2.name)) →
      ∀ d ∈ deps.foldl (fun acc dep =>
        match (depKey fields amap dep).bind fun key => dget key fields with
        | some f => if acc.contains f.name then acc else acc ++ [f.name]
        | none => acc) acc, d ∈ fields.map (·.2.name) from h [] (by simp)
  induction deps with
  | nil => intro acc h; exact h
  | cons x xs ih =>
    intro acc h
    rw [List.foldl_cons]
    apply ih
    cases hb : (depKey fields amap x).bind fun key => dget key fields with
    | none => exact h
    | some f =>
      simp only
      split
      · exact h
      · intro d hd
        rcases List.mem_append.1 hd with hd | hd
        · exact h d hd
        · have : d = f.name := by simpa using hd
          subst this
          obtain ⟨key, _, hk⟩ := Option.bind_eq_some_iff.1 hb
          exact List.mem_map.2 ⟨(key, f), dget_mem hk, rfl⟩

theorem aliasMapOf_deps (fs : List (Key × PField V)) (g : Key × PField V → List Key) :
    aliasMapOf (fs.map fun kf => (kf.1, { kf.2 with deps := g kf })) = aliasMapOf fs := by
  unfold aliasMapOf; rw [List.flatMap_map]

theorem ciNamesOf_deps (fs : List (Key × PField V)) (g : Key × PField V → List Key) :
    ciNamesOf (fs.map fun kf => (kf.1, { kf.2 with deps := g kf })) = ciNamesOf fs := by
  unfold ciNamesOf; rw [List.flatMap_map]

theorem fieldOk_deps {W : World V} {kf : Key × PField V} (h : FieldOk W kf) (ds : List Key) :
    FieldOk W (kf.1, { kf.2 with deps := ds }) :=
  ⟨h.key, h.head, h.all_sub, h.aliases_sub, h.attname, h.lowered⟩

/-- the fields taken over from the bases -/
theorem inherited_ok (W : World V) (prev : List (Built V)) (hprev : ∀ B ∈ prev, StructOk W B.parser)
    (bs : List Nat) (acc : List (Key × PField V))
    (h1 : ∀ kf ∈ acc, FieldOk W kf) (h2 : (acc.map (·.1)).Nodup) :
    let r := bs.foldl (fun acc b => match prev[b]? with | some p => dupdate acc p.parser.fields | none => acc) acc
    (∀ kf ∈ r, FieldOk W kf) ∧ (r.map (·.1)).Nodup := by
  induction bs generalizing acc with
  | nil => exact ⟨h1, h2⟩
  | cons b bs ih =>
    simp only [List.foldl_cons]
    cases hb : prev[b]? with
    | none => exact ih acc h1 h2
    | some p =>
      have hp := hprev p (List.mem_of_getElem? hb)
      apply ih
      · intro kf hkf
        rcases mem_dupdate _ _ _ hkf with h | h
        · exact h1 kf h
        · exact hp.fields kf h
      · exact nodup_keys_dupdate _ _ h2

/-- **`ClassParser.setup` builds a structurally well-formed parser**, whatever the declaration, given that its bases
were. -/
theorem mkParserIn_struct (W : World V) (LL : LowerLaws W) (prev : List (Built V))
    (hprev : ∀ B ∈ prev, StructOk W B.parser) (c : ClassDecl V) : StructOk W (mkParserIn W prev c).parser := by
  obtain ⟨i1, i2⟩ := inherited_ok W prev hprev c.bases.reverse [] (by simp) (by simp)
  have k1 : ∀ kf ∈ (c.bases.reverse.foldl
      (fun acc b => match prev[b]? with | some p => dupdate acc p.parser.fields | none => acc) []).filter
      (fun kf => !c.drops.contains kf.1), FieldOk W kf := fun kf h => i1 kf (List.mem_filter.1 h).1
  have k2 := nodup_map_filter_of (fun kf : Key × PField V => kf.1) (fun kf => !c.drops.contains kf.1) i2
  unfold mkParserIn
  simp only
  refine ⟨?_, ?_, ?_, ?_, ?_⟩
  · intro kf hkf
    obtain ⟨kf0, h0, rfl⟩ := List.mem_map.1 hkf
    apply fieldOk_deps
    rcases mem_dupdate _ _ _ h0 with h | h
    · exact k1 kf0 h
    · obtain ⟨d, _, rfl⟩ := List.mem_map.1 h
      exact mkField_ok W LL _ _ d
  · rw [List.map_map]
    exact nodup_keys_dupdate _ _ k2
  · intro kf hkf d hd
    obtain ⟨kf0, _, rfl⟩ := List.mem_map.1 hkf
    have := resolveDeps_sub _ _ _ d hd
    rw [List.map_map]
    exact this
  · exact (aliasMapOf_deps _ _).symm
  · exact (ciNamesOf_deps _ _).symm

theorem buildAll_snoc (W : World V) (decls : List (ClassDecl V)) (c : ClassDecl V) :
    buildAll W (decls ++ [c]) = buildAll W decls ++ [mkParserIn W (buildAll W decls) c] := by
  simp [buildAll, List.foldl_append]

/-- every parser of every sequence of declarations is structurally well-formed -/
theorem buildAll_struct (W : World V) (LL : LowerLaws W) (decls : List (ClassDecl V)) :
    ∀ B ∈ buildAll W decls, StructOk W B.parser := by
  induction decls using Utv.List.rev_ind with
  | nil => intro B h; simp [buildAll] at h
  | snoc l c ih =>
    rw [buildAll_snoc]
    intro B h
    rcases List.mem_append.1 h with h | h
    · exact ih B h
    · have : B = mkParserIn W (buildAll W l) c := by simpa using h
      subst this
      exact mkParserIn_struct W LL _ ih c

/-- The name-clash conditions: what is left of `Parser.wf` once the structural conjuncts are proved.  Distinct output
names and attribute names; no key accepted by two fields; no alias that is another field's key; no alias of a
case-sensitive field that lower-cases into a case-insensitive one; every dependency names a field (and every dropped
name was a field taken over). -/
def Parser.wfNames (W : World V) (P : Parser V) : Bool :=
  nodupB (P.fields.map (·.2.name))
  && nodupB (P.fields.map (·.2.attname))
  && pairwiseB (fun f g => disjoint f.2.allAliases g.2.allAliases) P.fields
  && P.fields.all (fun kf => kf.2.aliases.all fun a => !(P.fields.map (·.1)).contains a)
  && P.fields.all (fun kf => kf.2.ci || kf.2.allAliases.all fun a => !P.ciNames.contains (W.lower a))
  && P.depsOk

theorem wf_of_struct {W : World V} {P : Parser V} (hs : StructOk W P) (hn : P.wfNames W = true) : P.wf W = true := by
  simp only [Parser.wfNames, Bool.and_eq_true] at hn
  obtain ⟨⟨⟨⟨⟨n1, n2⟩, n3⟩, n4⟩, n5⟩, n6⟩ := hn
  simp only [Parser.wf, Bool.and_eq_true]
  refine ⟨⟨⟨⟨⟨⟨⟨⟨⟨⟨⟨⟨⟨⟨⟨n1, n2⟩, ?_⟩, ?_⟩, n3⟩, ?_⟩, ?_⟩, ?_⟩, n4⟩, ?_⟩, ?_⟩, n5⟩, ?_⟩, n6⟩, ?_⟩, ?_⟩
  · exact (nodupB_iff _).2 hs.keys
  · simp only [List.all_eq_true, beq_iff_eq]; exact fun kf h => (hs.fields kf h).key
  · simp only [List.all_eq_true, beq_iff_eq]; exact fun kf h => (hs.fields kf h).head
  · simp only [List.all_eq_true, Bool.or_eq_true, beq_iff_eq, List.contains_iff_mem]
    exact fun kf h a ha => (hs.fields kf h).all_sub a ha
  · simp only [List.all_eq_true, List.contains_iff_mem]
    exact fun kf h a ha => (hs.fields kf h).aliases_sub a ha
  · simp only [List.all_eq_true, List.contains_iff_mem]
    exact fun kf h => (hs.fields kf h).attname
  · simp only [List.all_eq_true, Bool.or_eq_true, Bool.not_eq_true', beq_iff_eq]
    intro kf h
    cases hc : kf.2.ci
    · exact Or.inl rfl
    · exact Or.inr fun a ha => (hs.fields kf h).lowered hc a ha
  · simp only [List.all_eq_true, List.contains_iff_mem]
    exact fun kf h d hd => hs.deps kf h d hd
  · rw [hs.amap]; exact beq_self_eq_true _
  · rw [hs.cin]; exact beq_self_eq_true _

/-- `Parser.wf` and the name-clash conditions are the same thing for a parser that `ClassParser.setup` built -/
theorem wf_iff_wfNames {W : World V} {P : Parser V} (hs : StructOk W P) : P.wf W = true ↔ P.wfNames W = true := by
  refine ⟨fun h => ?_, wf_of_struct hs⟩
  simp only [Parser.wf, Bool.and_eq_true] at h
  obtain ⟨⟨⟨⟨⟨⟨⟨⟨⟨⟨⟨⟨⟨⟨⟨h1, h2⟩, _⟩, _⟩, h5⟩, _⟩, _⟩, _⟩, h9⟩, _⟩, _⟩, h12⟩, _⟩, h14⟩, _⟩, _⟩ := h
  simp only [Parser.wfNames, Bool.and_eq_true]
  exact ⟨⟨⟨⟨⟨h1, h2⟩, h5⟩, h9⟩, h12⟩, h14⟩
