import Utv.Lemmas.C05Contract
/-! The two views of the instance (`set_attributes` + `Schema.__post_init__`), and distinctness of result keys. -/
namespace Utv.C05
open Spec

variable {V : Type}

def KeysNodup (st : St V) : Prop := (st.result.map (·.1)).Nodup

theorem provide_nodup (L : Legacy) (W : World V) (o : Opts V) (f : PField V) (v : V) (c : Bool) (st : St V)
    (h : KeysNodup st) : KeysNodup (provide L W o f v c st).1 := by
  unfold provide KeysNodup
  split
  · split
    · exact nodup_keys_dset _ _ _ h
    · exact h
  · simp only
    have hc : ((if c = true then { st with errs := st.errs ++ [Err.aliasConflict f.name] } else st).result.map (·.1)).Nodup := by
      split <;> exact h
    split
    · exact hc
    · split
      · exact hc
      · exact nodup_keys_dset _ _ _ hc

theorem ffExcluded_nodup (o : Opts V) (f : PField V) (st : St V) (h : KeysNodup st) : KeysNodup (ffExcluded W o f st) := by
  unfold ffExcluded KeysNodup
  simp only
  split
  · exact nodup_keys_dset _ _ _ h
  · exact h

theorem absent_nodup (L : Legacy) (o : Opts V) (f : PField V) (st : St V) (h : KeysNodup st) :
    KeysNodup (absent L W o f st) := by
  unfold absent KeysNodup
  simp only
  split
  · exact h
  · split
    · exact nodup_keys_dset _ _ _ h
    · exact h

theorem dupdate_nodup (d e : List (Key × V)) (h : (d.map (·.1)).Nodup) : ((dupdate d e).map (·.1)).Nodup := by
  unfold dupdate
  induction e generalizing d with
  | nil => exact h
  | cons x xs ih => exact ih _ (nodup_keys_dset _ _ _ h)

theorem depsCheck_result (P : Parser V) (st : St V) : (depsCheck P st).result = st.result :=
  (depsCheck_fields P st).1

theorem foldl_nodup {α : Type} (step : St V → α → St V) (hstep : ∀ st a, KeysNodup st → KeysNodup (step st a))
    (l : List α) (st : St V) (h : KeysNodup st) : KeysNodup (l.foldl step st) := by
  induction l generalizing st with
  | nil => exact h
  | cons x xs ih => exact ih _ (hstep st x h)

theorem dfItems_nodup (L : Legacy) (W : World V) (P : Parser V) (o : Opts V) (c : List Key)
    (l : List (Key × Input V)) (acc : DfRun V) (h : KeysNodup acc.st) :
    KeysNodup (l.foldl (dfItemStep L W P o c) acc).st := by
  induction l generalizing acc with
  | nil => exact h
  | cons x xs ih =>
    apply ih
    unfold dfItemStep
    split
    · exact h
    · exact provide_nodup _ _ _ _ _ _ _ h

theorem dataFirst_nodup [DecidableEq V] (W : World V) (P : Parser V) (o : Opts V) (data : List (Key × V)) :
    KeysNodup (dataFirst {} W P o data) := by
  unfold dataFirst KeysNodup
  simp only
  apply dupdate_nodup
  rw [depsCheck_result]
  apply foldl_nodup
  · intro st kf h; split
    · exact h
    · exact absent_nodup _ _ _ _ h
  · apply dfItems_nodup
    simp [KeysNodup]

theorem fieldFirst_nodup [DecidableEq V] (W : World V) (P : Parser V) (o : Opts V) (data : List (Key × V)) :
    KeysNodup (fieldFirst {} W P o data) := by
  unfold fieldFirst ffAdditions KeysNodup
  simp only
  have hbase : KeysNodup (depsCheck P (List.foldl (ffFieldStep {} W o (ffMerge W P data)) {} P.fields).st) := by
    unfold KeysNodup
    rw [depsCheck_result]
    have : ∀ (l : List (Key × PField V)) (s : FfSt V), KeysNodup s.st →
        KeysNodup (l.foldl (ffFieldStep {} W o (ffMerge W P data)) s).st := by
      intro l
      induction l with
      | nil => intro s h; exact h
      | cons x xs ih =>
        intro s h
        apply ih
        unfold ffFieldStep
        simp only
        split
        · exact absent_nodup _ _ _ _ h
        · simp only
          split
          · exact ffExcluded_nodup _ _ _ (provide_nodup _ _ _ _ _ _ _ h)
          · exact provide_nodup _ _ _ _ _ _ _ h
    exact this P.fields {} (by simp [KeysNodup])
  split
  · exact hbase
  · exact dupdate_nodup _ _ hbase

/-! ### the views -/

/-- one step of `set_attributes` -/
def viewStep (W : World V) (P : Parser V) (o : Opts V) (acc : List (Key × V) × List (Key × V)) (kv : Key × V) :
    List (Key × V) × List (Key × V) :=
  match getField W P kv.1 with
  | some f => ((if isNoOutput {} W o f kv.2 then acc.1 else dset kv.1 kv.2 acc.1), dset f.attname kv.2 acc.2)
  | none => (dset kv.1 kv.2 acc.1, dset kv.1 kv.2 acc.2)

theorem viewStep_some {W : World V} {P : Parser V} (o : Opts V) (acc : List (Key × V) × List (Key × V))
    {kv : Key × V} {f : PField V} (h : getField W P kv.1 = some f) :
    viewStep W P o acc kv =
      ((if isNoOutput {} W o f kv.2 then acc.1 else dset kv.1 kv.2 acc.1), dset f.attname kv.2 acc.2) := by
  unfold viewStep; rw [h]

theorem viewStep_none {W : World V} {P : Parser V} (o : Opts V) (acc : List (Key × V) × List (Key × V))
    {kv : Key × V} (h : getField W P kv.1 = none) :
    viewStep W P o acc kv = (dset kv.1 kv.2 acc.1, dset kv.1 kv.2 acc.2) := by
  unfold viewStep; rw [h]

theorem views_eq (W : World V) (P : Parser V) (o : Opts V) (r : List (Key × V)) :
    views {} W P o r = r.foldl (viewStep W P o) ([], []) := rfl

theorem getField_name {W : World V} (LL : LowerLaws W) {P : Parser V} (wf : WF W P) {kf : Key × PField V}
    (hf : kf ∈ P.fields) : getField W P kf.2.name = some kf.2 :=
  (getField_some_iff LL wf _ _).2 ⟨kf, hf, rfl, wf.accepts_name LL hf⟩

theorem WF.attname_inj {W : World V} {P : Parser V} (wf : WF W P) {kf kg : Key × PField V}
    (hf : kf ∈ P.fields) (hg : kg ∈ P.fields) (h : kf.2.attname = kg.2.attname) : kf = kg := by
  have hn := wf.attnames_nodup
  generalize P.fields = l at hf hg hn
  induction l with
  | nil => simp at hf
  | cons x xs ih =>
    simp only [List.map_cons, List.nodup_cons] at hn
    rcases List.mem_cons.mp hf with h1 | h1 <;> rcases List.mem_cons.mp hg with h2 | h2
    · rw [h1, h2]
    · subst h1; exfalso; apply hn.1; rw [h]; exact List.mem_map_of_mem (f := fun x => x.2.attname) h2
    · subst h2; exfalso; apply hn.1; rw [← h]; exact List.mem_map_of_mem (f := fun x => x.2.attname) h1
    · exact ih h1 h2 hn.2

/-- every key of a parse result is the output name of a field or a kept unknown key -/
def ResultKeysOk (W : World V) (P : Parser V) (r : List (Key × V)) : Prop :=
  ∀ k ∈ r.map (·.1), (∃ kf ∈ P.fields, kf.2.name = k) ∨ anyAccepts W P k = false

theorem views_spec {W : World V} (LL : LowerLaws W) {P : Parser V} (wf : WF W P) (o : Opts V)
    (r : List (Key × V)) (hnd : (r.map (·.1)).Nodup) (hok : ResultKeysOk W P r) :
    (∀ kf ∈ P.fields,
        dget kf.2.attname (views {} W P o r).2 = dget kf.2.name r
        ∧ dget kf.2.name (views {} W P o r).1 = (dget kf.2.name r).filter (fun v => !noOutput W o kf.2 v))
    ∧ (∀ k, anyAccepts W P k = false →
        dget k (views {} W P o r).1 = dget k r ∧ dget k (views {} W P o r).2 = dget k r) := by
  rw [views_eq]
  induction r using Utv.List.rev_ind with
  | nil => exact ⟨fun kf _ => ⟨rfl, rfl⟩, fun k _ => ⟨rfl, rfl⟩⟩
  | snoc l kv ih =>
    rw [List.map_append, List.nodup_append] at hnd
    have hnew : kv.1 ∉ l.map (·.1) := fun hc => hnd.2.2 _ hc _ (by simp) rfl
    have hokl : ResultKeysOk W P l := fun k hk => hok k (by rw [List.map_append]; exact List.mem_append_left _ hk)
    obtain ⟨ih1, ih2⟩ := ih hnd.1 hokl
    have hnone : dget kv.1 l = none := (dget_eq_none_iff _ _).2 hnew
    rw [List.foldl_append]
    simp only [List.foldl_cons, List.foldl_nil]
    have hget : ∀ k, dget k (l ++ [kv]) = if kv.1 = k then (if dget k l = none then some kv.2 else dget k l) else dget k l := by
      intro k
      rw [dget_append]
      by_cases e : kv.1 = k
      · subst e; simp [hnone, dget_cons]
      · cases hd : dget k l <;> simp [e, dget_cons]
    rcases hok kv.1 (by simp) with ⟨kf0, hf0, hname⟩ | hrej
    · -- the key is the output name of field kf0
      have hgf : getField W P kv.1 = some kf0.2 := by rw [← hname]; exact getField_name LL wf hf0
      rw [viewStep_some o _ hgf]
      simp only
      constructor
      · intro kf hf
        by_cases hk : kf = kf0
        · rw [hk]
          have hg0 : dget kf0.2.name (l ++ [kv]) = some kv.2 := by
            rw [hget, if_pos hname.symm, hname, hnone]; simp
          rw [hg0, dget_dset, if_pos rfl]
          refine ⟨rfl, ?_⟩
          rw [isNoOutput_eq]
          cases hno : noOutput W o kf0.2 kv.2
          · simp only [Bool.false_eq_true, if_false]
            rw [dget_dset, if_pos hname.symm]
            simp [Option.filter, hno]
          · simp only [if_true]
            rw [(ih1 kf0 hf0).2, hname, hnone]
            simp [Option.filter, hno]
        · have hne1 : ¬ kf0.2.attname = kf.2.attname := fun e => hk (wf.attname_inj hf hf0 e.symm)
          have hne2 : ¬ kv.1 = kf.2.name := by
            rw [← hname]; intro e; exact hk (wf.name_inj hf hf0 e.symm)
          rw [dget_dset, hget, if_neg hne1, if_neg hne2]
          refine ⟨(ih1 kf hf).1, ?_⟩
          split
          · exact (ih1 kf hf).2
          · rw [dget_dset, if_neg hne2]; exact (ih1 kf hf).2
      · intro k hk
        have hne2 : ¬ kv.1 = k := by
          intro e; rw [← e, ← hname] at hk
          have := wf.accepts_name LL hf0
          unfold anyAccepts at hk; rw [List.any_eq_false] at hk
          exact absurd this (hk kf0 hf0)
        have hne1 : ¬ kf0.2.attname = k := by
          intro e; rw [← e] at hk
          have := wf.accepts_attname LL hf0
          unfold anyAccepts at hk; rw [List.any_eq_false] at hk
          exact absurd this (hk kf0 hf0)
        rw [hget, if_neg hne2, dget_dset, if_neg hne1]
        refine ⟨?_, (ih2 k hk).2⟩
        split
        · exact (ih2 k hk).1
        · rw [dget_dset, if_neg hne2]; exact (ih2 k hk).1
    · -- a kept unknown key
      have hgf : getField W P kv.1 = none := by
        rw [getField_none_iff LL wf]; exact (anyAccepts_false_iff W P kv.1).1 hrej
      rw [viewStep_none o _ hgf]
      simp only
      constructor
      · intro kf hf
        have hne1 : ¬ kv.1 = kf.2.attname := by
          intro e
          have := wf.accepts_attname LL hf
          rw [← e] at this
          exact absurd this (by rw [(anyAccepts_false_iff W P kv.1).1 hrej kf hf]; simp)
        have hne2 : ¬ kv.1 = kf.2.name := by
          intro e
          have := wf.accepts_name LL hf
          rw [← e] at this
          exact absurd this (by rw [(anyAccepts_false_iff W P kv.1).1 hrej kf hf]; simp)
        rw [dget_dset, dget_dset, hget, if_neg hne1, if_neg hne2, if_neg hne2]
        exact ih1 kf hf
      · intro k hk
        rw [dget_dset, dget_dset, hget]
        by_cases e : kv.1 = k
        · subst e; simp [hnone]
        · simp only [e, if_false]; exact ih2 k hk

end Utv.C05

namespace Utv.C05
open Spec
variable {V : Type}

/-- keys of the two views: output names / attribute names of fields, or kept unknown keys — nothing else -/
theorem views_keys {W : World V} (LL : LowerLaws W) {P : Parser V} (wf : WF W P) (o : Opts V)
    (r : List (Key × V)) (hok : ResultKeysOk W P r) :
    (∀ k, anyAccepts W P k = true → (∀ kf ∈ P.fields, kf.2.name ≠ k) → dget k (views {} W P o r).1 = none)
    ∧ (∀ k, anyAccepts W P k = true → (∀ kf ∈ P.fields, kf.2.attname ≠ k) → dget k (views {} W P o r).2 = none) := by
  rw [views_eq]
  induction r using Utv.List.rev_ind with
  | nil => exact ⟨fun _ _ _ => rfl, fun _ _ _ => rfl⟩
  | snoc l kv ih =>
    have hokl : ResultKeysOk W P l := fun k hk => hok k (by rw [List.map_append]; exact List.mem_append_left _ hk)
    obtain ⟨ih1, ih2⟩ := ih hokl
    rw [List.foldl_append]
    simp only [List.foldl_cons, List.foldl_nil]
    rcases hok kv.1 (by simp) with ⟨kf0, hf0, hname⟩ | hrej
    · have hgf : getField W P kv.1 = some kf0.2 := by rw [← hname]; exact getField_name LL wf hf0
      rw [viewStep_some o _ hgf]
      constructor
      · intro k hk hn
        have hne : ¬ kv.1 = k := by rw [← hname]; exact hn kf0 hf0
        simp only
        split
        · exact ih1 k hk hn
        · rw [dget_dset, if_neg hne]; exact ih1 k hk hn
      · intro k hk hn
        simp only
        rw [dget_dset, if_neg (hn kf0 hf0)]; exact ih2 k hk hn
    · have hgf : getField W P kv.1 = none := by
        rw [getField_none_iff LL wf]; exact (anyAccepts_false_iff W P kv.1).1 hrej
      rw [viewStep_none o _ hgf]
      have hne : ∀ k, anyAccepts W P k = true → ¬ kv.1 = k := by
        intro k hk e; rw [e, hk] at hrej; cases hrej
      constructor
      · intro k hk hn; simp only; rw [dget_dset, if_neg (hne k hk)]; exact ih1 k hk hn
      · intro k hk hn; simp only; rw [dget_dset, if_neg (hne k hk)]; exact ih2 k hk hn

end Utv.C05
