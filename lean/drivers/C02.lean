import Utv.Model.Rule
import Utv.Model.C02Decl
import Utv.Model.C03Copy
import Utv.Util.PyJson
open Lean Utv Utv.J Utv.Py Utv.PyJson Utv.Rule Utv.C02D

def boolJ (r : M Bool) : Json :=
  match r with
  | .ok b => Json.mkObj [("ok", Json.bool b)]
  | .error (.unmodelled w) => Json.mkObj [("unmodelled", Json.str w)]
  | .error e => Json.mkObj [("err", Json.str (excName e))]

/-! ### op "decl": a declared type (class statements / annotate / Field) given as its MRO of class bodies -/

/-- element / contains type descriptor: an origin class and strict constraints -/
structure TDesc where
  origin : Cls
  cs : List (String × PyVal)

def decodeTDesc (j : Json) : TDesc :=
  { origin := clsOfName (str! (fld j "origin")),
    cs := (arr! (fld j "cs")).map fun p => match arr! p with
      | [n, b] => (str! n, decode b) | _ => ("", PyVal.none) }

def decodeAttr (j : Json) : Attr :=
  match j with
  | .str _ => .cancel
  | _ => .val (decode (fld j "v")) (bool! (fld j "lax"))

def decodeMro (j : Json) : List Body :=
  (arr! j).map fun body => (arr! body).map fun p => match arr! p with
    | [k, a] => (str! k, decodeAttr a) | _ => ("", Attr.cancel)

/-- the item is of the descriptor's exact origin type and passes its constraints -/
def accT (P : Prims) (t : TDesc) (x : PyVal) : Bool :=
  typeOf x == t.origin && (match validate P (ordered (normalise t.cs)) x with | .ok _ => true | .error _ => false)

def tdescAt (types : List TDesc) (v : PyVal) : Option TDesc :=
  match v with
  | .opaque n => types[n]?
  | _ => none

def itemsOf (v : PyVal) : List PyVal := match v with | .seq _ xs => xs | _ => []

/-- the hooks the harness can declare (data, not code) -/
def hookOf (name : String) : PyVal → M PyVal :=
  match name with
  | "even" => fun v => match v with
    | .int i => if i % 2 == 0 then pure v else throw .valueError
    | _ => throw (.unmodelled "hook operand")
  | "nonempty" => fun v => match v with
    | .seq _ xs => if xs.isEmpty then throw .valueError else pure v
    | .str s => if s.isEmpty then throw .valueError else pure v
    | _ => throw (.unmodelled "hook operand")
  | "short" => fun v => match v with
    | .seq _ xs => if xs.length > 2 then throw .valueError else pure v
    | .str s => if s.length > 2 then throw .valueError else pure v
    | _ => throw (.unmodelled "hook operand")
  | _ => fun _ => throw (.unmodelled "unknown hook")

def handleDecl (P : Prims) (j : Json) : Json :=
  let mro := decodeMro (fld j "mro")
  let types := (arr! (fld j "types")).map decodeTDesc
  let v := decode (fld j "value")
  let origin := clsOfName (str! (fld j "origin"))
  let validators := compile mro
  let vJ := Json.arr (validators.map fun (n, b) => Json.arr #[Json.str n, encode b]).toArray
  -- contains acceptor
  let contT := match lookup mro "contains" with
    | some (.val c _) => tdescAt types c
    | _ => none
  let acc : PyVal → Bool := match contT with | some t => accT P t | none => fun _ => false
  -- args
  let argTs : List TDesc := match lookup mro "__args__" with
    | some (.val (.seq _ xs) _) => xs.filterMap (tdescAt types)
    | _ => []
  let ellipsis := match lookup mro "__ellipsis_args__" with
    | some (.val b _) => Py.truthy b
    | _ => false
  let isTuple := origin == Cls.tuple
  let itemParse : TDesc → PyVal → M PyVal := fun t x => validate P (ordered (normalise t.cs)) x
  let args : Option (PyVal → M PyVal) :=
    match argTs with
    | [] => none
    | t :: rest =>
      if isTuple && !ellipsis then
        some fun v => match v with
          | .seq k xs =>
            if xs.length != (t :: rest).length then throw (.unmodelled "tuple length differs from prefix items")
            else do
              let ys ← (List.zip (t :: rest) xs).mapM (fun (ti, x) => itemParse ti x)
              pure (.seq k ys)
          | _ => throw (.unmodelled "args on non-sequence")
      else
        some fun v => match v with
          | .seq k xs => do
            let ys ← xs.mapM (itemParse t)
            pure (.seq k ys)
          | _ => throw (.unmodelled "args on non-sequence")
  let post : PyVal → M PyVal := match lookup mro "post_validate" with
    | some (.val (.str h) _) => hookOf h
    | _ => pure
  -- fragment: every item that meets an element type must be of that type's exact origin class
  let inexact :=
    (match contT with | some t => (itemsOf v).any (fun x => typeOf x != t.origin) | none => false) ||
    (match argTs with
      | [] => false
      | [t] => (itemsOf v).any (fun x => typeOf x != t.origin)
      | ts => (List.zip ts (itemsOf v)).any (fun (t, x) => typeOf x != t.origin))
  if bool! (fld j "nomodel") then Json.mkObj [("validators", vJ), ("unmodelled", Json.str "mapping value")] else
  if inexact then Json.mkObj [("validators", vJ), ("unmodelled", Json.str "item of another type (conversion)")] else
  let pre : PyVal → M PyVal := match lookup mro "pre_validate" with
    | some (.val (.str h) _) => hookOf h
    | _ => pure
  let applied := match lookup mro "__applied__" with
    | some (.val b _) => Py.truthy b
    | _ => false
  let d := { declOf mro args acc post with pre := pre, applied := applied }
  let originOk : PyVal → Bool := fun x => Py.isinstance x origin
  let r := parseTyped P d v
  let inst := instancecheck originOk (parseTyped P d) v
  match r with
  | .error (.unmodelled w) => Json.mkObj [("validators", vJ), ("unmodelled", Json.str w)]
  | _ => Json.mkObj [("validators", vJ), ("parse", encodeOutcome r), ("isinstance", Json.bool inst)]

/-! ### op "copy" (C03): the reference `copy_value` (proved to satisfy the equation generated from the source) -/

instance : Inhabited Utv.C03C.CVal := ⟨.atom 0⟩

open Utv.C03C in
partial def decodeC (j : Json) : StateM (Array Json) CVal := do
  let seqOf (k : CCls) (x : Json) : StateM (Array Json) CVal := do
    let xs ← (arr! x).mapM decodeC
    pure (.seq k xs)
  match obj? j "l" with
  | some x => seqOf .list x
  | none =>
  match obj? j "t" with
  | some x => seqOf .tuple x
  | none =>
  match obj? j "S" with
  | some x => seqOf .set x
  | none =>
  match obj? j "F" with
  | some x => seqOf .frozenset x
  | none =>
  match obj? j "V" with
  | some x => seqOf .dictValues x
  | none =>
  match obj? j "K" with
  | some x => seqOf .dictKeys x
  | none =>
  match obj? j "m" with
  | some x => do
    let pairs := (arr! x).map fun p => match arr! p with | [k, v] => (k, v) | _ => (Json.null, Json.null)
    let ks ← pairs.mapM (fun p => decodeC p.1)
    let vs ← pairs.mapM (fun p => decodeC p.2)
    pure (.dict ks vs)
  | none => do
    let tbl ← get
    match tbl.findIdx? (· == j) with
    | some i => pure (.atom i)
    | none =>
      set (tbl.push j)
      pure (.atom tbl.size)

open Utv.C03C in
partial def encodeC (tbl : Array Json) : CVal → Json
  | .atom n => tbl[n]?.getD Json.null
  | .seq k xs =>
    let tag := match k with
      | .list => "l" | .tuple => "t" | .set => "S" | .frozenset => "F" | .dictValues => "V" | .dictKeys => "K" | _ => "l"
    Json.mkObj [(tag, Json.arr (xs.map (encodeC tbl)).toArray)]
  | .dict ks vs =>
    Json.mkObj [("m", Json.arr ((List.zip ks vs).map fun (k, v) => Json.arr #[encodeC tbl k, encodeC tbl v]).toArray)]

open Utv.C03C in
def handleCopy (j : Json) : Json :=
  let (v, tbl) := (decodeC (fld j "value")).run #[]
  let W : World := { pyEq := fun a b => a == b }
  match copyRef W v with
  | .ok r => Json.mkObj [("ok", encodeC tbl r)]
  | .error .typeError => Json.mkObj [("err", Json.str "TypeError")]
  | .error (.unmodelled w) => Json.mkObj [("unmodelled", Json.str w)]

/-! ### op "crule" (C03): a container type with an item type and constraints; the harness supplies what the real item
type made of every input item (null = it refused), the model packs them into the origin container and runs the constraints -/

def handleCrule (P : Prims) (j : Json) : Json :=
  let origin := clsOfName (str! (fld j "origin"))
  let conv : List (Option PyVal) := (arr! (fld j "converted")).map fun x => if isNull x then none else some (decode x)
  let cs := (arr! (fld j "cs")).map fun p => match arr! p with
    | [n, b] => (str! n, decode b) | _ => ("", PyVal.none)
  let cj := fld j "contains"
  let accTbl : List (PyVal × Bool) := (arr! (fld cj "acc")).map fun p => match arr! p with
    | [x, b] => (decode x, bool! b) | _ => (PyVal.none, false)
  let acc : PyVal → Bool := fun x => match accTbl.find? (fun p => Py.eq p.1 x && typeOf p.1 == typeOf x) with
    | some p => p.2 | none => false
  let cont : ContainsCfg := { declared := !(isNull cj), minC := optInt (fld cj "min"), maxC := optInt (fld cj "max") }
  let args : PyVal → M PyVal := fun _ =>
    if conv.any Option.isNone then throw .valueError else pure (.seq .list (conv.filterMap id))
  let dcl : Decl := { validators := ordered (normalise cs), args := some args, cont := cont, acc := acc, post := pure,
                      pack := Py.construct origin }
  encodeOutcome (parseTyped P dcl .none)

def handle (j : Json) : Json :=
  let P := decodePrims (fld j "prims")
  match str! (fld j "op") with
  | "validator" =>
    match validatorOf (str! (fld j "name")) with
    | some f => encodeOutcome (f P (decode (fld j "value")) (decode (fld j "bound")))
    | none => Json.mkObj [("unmodelled", Json.str "unknown validator")]
  | "rule" =>
    let cs := (arr! (fld j "constraints")).map fun p => match arr! p with
      | [n, b] => (str! n, decode b) | _ => ("", PyVal.none)
    encodeOutcome (validate P (ordered (normalise cs)) (decode (fld j "value")))
  | "decl" => handleDecl P j
  | "crule" => handleCrule P j
  | "copy" => handleCopy j
  | "skip" => Json.mkObj [("unmodelled", Json.str "skip")]
  | "cmp" =>
    let a := decode (fld j "a"); let b := decode (fld j "b")
    Json.mkObj [("lt", boolJ (Py.lt a b)), ("le", boolJ (Py.le a b)), ("eq", Json.bool (Py.eq a b)),
                ("truthy", Json.bool (Py.truthy a))]
  | "arith" =>
    let a := decode (fld j "a"); let b := decode (fld j "b")
    match str! (fld j "f") with
    | "mod" => encodeOutcome (Py.mod a b)
    | "floordiv" => encodeOutcome (Py.floordiv a b)
    | "mul" => encodeOutcome (Py.mul a b)
    | "round" => encodeOutcome (Py.round P a b)
    | "len" => encodeOutcome (Py.len a)
    | "str" => encodeOutcome (Py.str P a)
    | "sliceTo" => encodeOutcome (Py.sliceTo a b)
    | "contains" => boolJ (Py.contains a b)
    | _ => Json.mkObj [("unmodelled", Json.str "arith op")]
  | _ => Json.mkObj [("driver-error", Json.str "unknown op")]

def main : IO Unit := serve handle
