"""C02 — validation is exact on well-typed values and agrees with isinstance.  (C03 reuses this module.)

Tie: T1 (the Lean validators are regenerated from rule.py and the C02 theorems are re-checked against them) plus
T2: every generated validator and the whole validator phase are run against the real `Constraints` methods and real
constrained types on generated (constraint set, value) pairs.  Oracle: `sat` below — each constraint in its
documented sense, written independently of the code.
"""
from __future__ import annotations

import itertools
import json
import math
import random
import re
from decimal import Decimal, InvalidOperation

from .common import Check
from .pyval import CLS_BY_NAME, canon, decode, encode, walk

STRICT = ["gt", "ge", "lt", "le", "const", "enum", "regex", "decimal_places", "multiple_of", "max_digits", "length",
          "max_length", "min_length", "unique_items"]
LAXABLE = ["ge", "le", "const", "enum", "decimal_places", "multiple_of", "max_digits", "length", "max_length", "unique_items"]
TOLERANT = [{int, float}, {int, Decimal}, {float, Decimal}]


# ------------------------------------------------------------------------------------------------
# adapter (runs in worker processes against the real utype)
# ------------------------------------------------------------------------------------------------

def _outcome(fn):
    from utype.utils.exceptions import ParseError
    try:
        r = fn()
    except ParseError as e:
        return {"perr": type(e).__name__}
    except RecursionError:
        return {"escape": "RecursionError"}
    except Exception as e:
        return {"escape": type(e).__name__}
    return {"ok": encode(r), "type": type(r).__name__}


def impl(case):
    from utype.parser.rule import Constraints, Lax, Rule
    op = case["op"]
    if op == "validator":
        f = getattr(Constraints, case["name"])
        v, b = decode(case["value"]), decode(case["bound"])
        try:
            r = f(v, b)
        except RecursionError:
            return {"err": "RecursionError"}
        except Exception as e:
            return {"err": type(e).__name__}
        return {"ok": encode(r)}
    if op == "rule":
        origin = CLS_BY_NAME[case["origin"]]
        attrs = {}
        for name, b in case["constraints"]:
            val = decode(b)
            attrs[name] = Lax(val) if name in case.get("lax", []) else val
        try:
            T = type("T", (origin, Rule), attrs)
        except Exception as e:
            return {"decl": type(e).__name__}
        v = decode(case["value"])
        out = {"decl": "ok", "validators": [f.__name__ for _, _, f in T.__validators__]}
        out["parse"] = _outcome(lambda: T(v))
        try:
            out["isinstance"] = bool(isinstance(v, T))
        except Exception as e:
            out["isinstance"] = "raised " + type(e).__name__
        if "ok" in out["parse"]:
            r = decode(out["parse"]["ok"])
            out["reparse"] = _outcome(lambda: T(r))
            if "ok" in out["reparse"]:
                try:
                    out["reparse_equal"] = bool(decode(out["reparse"]["ok"]) == r)
                except Exception:
                    out["reparse_equal"] = False
        return out
    raise ValueError(op)


# ------------------------------------------------------------------------------------------------
# CPython builtins the model takes as parameters (`Prims`), computed here for the values of a case
# ------------------------------------------------------------------------------------------------

def prims_for(case) -> dict:
    vals = []
    for k in ("value", "bound", "a", "b"):
        if k in case:
            vals += list(walk(decode(case[k])))
    for _, b in case.get("constraints", []):
        vals += list(walk(decode(b)))
    fr, ds, fd, rd, rex = [], [], [], [], []
    ints = [x for x in vals if type(x) is int and abs(x) < 40]
    # close the float entries under the roundings a lax constraint can apply (two levels: lax_decimal_places then
    # lax_max_digits), so that validators running on a rounded float find its repr / Decimal in the table
    ks = set(ints) | set(range(0, 24))
    floats = [x for x in vals if type(x) is float]
    seen_f = set(map(repr, floats))
    frontier = list(floats)
    for _ in range(2):
        nxt = []
        for x in frontier:
            for k in ks:
                try:
                    y = round(x, k)
                except Exception:
                    continue
                if type(y) is float and repr(y) not in seen_f:
                    seen_f.add(repr(y))
                    nxt.append(y)
        vals += nxt
        frontier = nxt
    for x in vals:
        if type(x) is float:
            fr.append([encode(x)["f"], repr(x)])
            try:
                fd.append([encode(x)["f"], encode(Decimal(str(x)))["d"]])
            except InvalidOperation:
                fd.append([encode(x)["f"], None])
            for k in set(ints) | set(range(0, 24)):   # every places value lax_max_digits/decimal_places can ask for
                try:
                    rd.append([encode(x)["f"], str(k), encode(round(x, k))["f"]])
                except Exception:
                    pass
        if type(x) is Decimal:
            ds.append([encode(x)["d"], str(x)])
    pats = []
    if case.get("op") == "validator" and case.get("name") == "regex":
        pats.append(decode(case["bound"]))
    for n, b in case.get("constraints", []):
        if n == "regex":
            pats.append(decode(b))
    for p in pats:
        if isinstance(p, str) and "value" in case:
            try:
                s = str(decode(case["value"]))
                rex.append([p, s, re.fullmatch(p, s) is not None])
            except Exception:
                pass
    return {"floatRepr": fr, "decStr": ds, "floatToDec": fd, "floatRound": rd, "re": rex}


# ------------------------------------------------------------------------------------------------
# the documented sense of every constraint (oracle for the real code)
# ------------------------------------------------------------------------------------------------

class Undefined(Exception):
    """the documented sense does not pin this case down (oracle silent)"""


def digit_counts(v):
    d = v if isinstance(v, Decimal) else Decimal(str(v))
    if not d.is_finite():
        raise Undefined
    sign, digits, exp = d.as_tuple()
    if exp > 0 and not any(digits):
        raise Undefined          # 0E+k: rendering ambiguous
    s = format(abs(d), "f")
    ip, _, fp = s.partition(".")
    ipc = 0 if (fp and set(ip) <= {"0"}) else len(ip)
    return ipc + len(fp), len(fp)


def sat(name, v, b) -> bool:
    """does constraint `name` with bound `b` hold for `v` in its documented sense?  May raise Undefined."""
    try:
        if name == "gt":
            return bool(v > b)
        if name == "ge":
            return bool(v >= b)
        if name == "lt":
            return bool(v < b)
        if name == "le":
            return bool(v <= b)
    except (TypeError, InvalidOperation):
        raise Undefined
    if name in ("length", "max_length", "min_length"):
        n = len(v) if hasattr(v, "__len__") else len(str(v))
        return {"length": n == b, "max_length": n <= b, "min_length": n >= b}[name]
    if name == "regex":
        return re.fullmatch(b, str(v)) is not None
    if name == "const":
        try:
            if not (v == b):
                return False
        except InvalidOperation:
            raise Undefined
        if type(v) is type(b):
            return True
        if {type(v), type(b)} in TOLERANT:
            raise Undefined      # tolerated pairs: either verdict is within "type-exact with tolerance"
        return False
    if name == "enum":
        return v in b
    if name == "multiple_of":
        if isinstance(v, float) or isinstance(b, float):
            if float(v).is_integer() and float(b).is_integer() and b != 0 and abs(v) < 2 ** 50:
                return int(v) % int(b) == 0
            raise Undefined
        if b == 0:
            raise Undefined
        try:
            return v % b == 0
        except InvalidOperation:
            raise Undefined
    if name == "max_digits":
        return digit_counts(v)[0] <= b
    if name == "decimal_places":
        return digit_counts(v)[1] <= b
    if name == "unique_items":
        if not b:
            return True
        items = list(v)
        return all(not (items[i] == items[j]) for i in range(len(items)) for j in range(i))
    raise Undefined


def expected_accept(case) -> bool:
    """strict constraint set on a value of the source type"""
    v = decode(case["value"])
    cs = [(n, decode(b)) for n, b in case["constraints"]]
    names = [n for n, _ in cs]
    if "const" in names:
        cs = [c for c in cs if c[0] == "const"]      # documented: const stands alone
    elif "enum" in names:
        cs = [c for c in cs if c[0] == "enum"]
    run = v
    ok = True
    order = {n: i for i, n in enumerate(STRICT)}
    for n, b in sorted(cs, key=lambda c: order[c[0]]):
        if b is None:
            continue
        if not sat(n, run, b):
            ok = False
            break
        if n == "decimal_places" and isinstance(run, Decimal):
            # documented (rule.md): a Decimal is first completed to `decimal_places` digits, then max_digits is checked
            run = run.quantize(Decimal(1).scaleb(-b))
    return ok


# ------------------------------------------------------------------------------------------------
# generators
# ------------------------------------------------------------------------------------------------

INT_BOUNDS = [-3, -1, 0, 1, 2, 3, 5, 10, 100]
DEC_STRS = ["0", "0.0", "1", "1.5", "1.50", "2.5", "99.99", "9.995", "0.001", "-12.340", "1E+2", "100", "100.0", "0.5",
            "-0.5", "123.456", "0.0123", "12.3", "999.9", "99.95", "0.95", "1E-7", "-7", "3", "10", "2", "0.25", "7.125"]
STRS = ["", "a", "ab", "abc", "abcd", "abcde", "123", "12a", "a-b", "A", "é", "  ", "0012"]
PATTERNS = ["[a-z]+", r"\d{3}", ".*", "ab", "a.c", r"[0-9a-f]*", "a|ab", r"\w+-\w+"]


def rnd_float(rng):
    k = rng.random()
    if k < 0.05:
        return float("nan")
    if k < 0.1:
        return rng.choice([float("inf"), float("-inf")])
    if k < 0.15:
        return -0.0
    return rng.randint(-80, 80) / rng.choice([1, 2, 4, 8, 16])


def around(rng, b):
    """values at and next to a bound"""
    out = [b]
    if type(b) is int:
        out += [b - 1, b + 1, b + rng.randint(2, 9), b - rng.randint(2, 9)]
    elif type(b) is float and math.isfinite(b):
        out += [math.nextafter(b, math.inf), math.nextafter(b, -math.inf), b + 1, b - 1, float("nan")]
    elif type(b) is Decimal and b.is_finite():
        q = Decimal(1).scaleb(b.as_tuple()[2] - 1)
        out += [b + q, b - q, b + 1, b - 1]
    return out


def rnd_num(rng, origin):
    if origin == "int":
        return rng.choice([rng.randint(-12, 120), rng.choice(INT_BOUNDS), 10 ** 20, -(10 ** 19), 999, 1000, 99, 100])
    if origin == "float":
        return rnd_float(rng)
    return Decimal(rng.choice(DEC_STRS)) if rng.random() < 0.7 else Decimal(rng.randint(-99999, 99999)).scaleb(rng.randint(-4, 2))


def rnd_seq(rng, kind):
    n = rng.randint(0, 5)
    pool = [1, 2, 3, 1.0, True, 0, False, "a", "1", 2.5, Decimal("1.0"), None, (1, 2), (1, 2.0)]
    items = [rng.choice(pool) for _ in range(n)]
    if kind in ("set", "frozenset"):
        items = [x for x in items if not isinstance(x, (list,))]
        return set(items) if kind == "set" else frozenset(items)
    if rng.random() < 0.25:
        items = [rng.choice([[1], [1, 2], [1.0], []]) for _ in range(n)]
    return items if kind == "list" else tuple(items)


def gen_rule_case(rng, lax_mode=False):
    origin = rng.choice(["int", "int", "float", "Decimal", "Decimal", "str", "list", "tuple", "set"])
    cs = {}
    if origin in ("int", "float", "Decimal"):
        mk = {"int": lambda: rng.choice(INT_BOUNDS), "float": lambda: rng.randint(-20, 40) / rng.choice([1, 2, 4]),
              "Decimal": lambda: Decimal(rng.choice(DEC_STRS))}[origin]
        k = rng.random()
        if k < 0.12:
            cs["const"] = rnd_num(rng, origin) if rng.random() < 0.7 else rnd_num(rng, rng.choice(["int", "float", "Decimal"]))
        elif k < 0.22:
            cs["enum"] = [rnd_num(rng, origin) for _ in range(rng.randint(1, 4))]
        else:
            lo = mk()
            if rng.random() < 0.6:
                cs[rng.choice(["gt", "ge"])] = lo
            if rng.random() < 0.5:
                hi = lo + rng.choice([1, 2, 3, 10]) if origin != "Decimal" else lo + Decimal(rng.choice(["0.1", "1", "2.5", "10"]))
                cs[rng.choice(["lt", "le"])] = hi
            if rng.random() < 0.3:
                cs["multiple_of"] = rng.choice([1, 2, 3, 5, 10]) if origin != "Decimal" else rng.choice([2, 5, Decimal("0.5"), Decimal("2.5")])
            if rng.random() < 0.3 and origin != "int":
                cs["decimal_places"] = rng.choice([0, 1, 2, 3])
            if rng.random() < 0.35:
                cs["max_digits"] = rng.choice([1, 2, 3, 4, 5, 6])
    elif origin == "str":
        k = rng.random()
        if k < 0.15:
            cs["const"] = rng.choice(STRS)
        elif k < 0.3:
            cs["enum"] = rng.sample(STRS, rng.randint(1, 4))
        else:
            if rng.random() < 0.4:
                cs["regex"] = rng.choice(PATTERNS)
            k2 = rng.random()
            if k2 < 0.3:
                cs["length"] = rng.randint(0, 4)
            else:
                if rng.random() < 0.6:
                    cs["max_length"] = rng.randint(1, 5)
                if rng.random() < 0.5:
                    cs["min_length"] = rng.randint(0, 3)
    else:
        if rng.random() < 0.6:
            cs["unique_items"] = rng.random() < 0.9
        k2 = rng.random()
        if k2 < 0.25:
            cs["length"] = rng.randint(0, 4)
        else:
            if rng.random() < 0.5:
                cs["max_length"] = rng.randint(1, 4)
            if rng.random() < 0.4:
                cs["min_length"] = rng.randint(0, 3)
    if not cs:
        cs["ge" if origin in ("int", "float", "Decimal") else "min_length"] = 1 if origin not in ("float",) else 1.0
        if origin == "Decimal":
            cs = {"ge": Decimal(1)}
    lax = []
    if lax_mode:
        cand = [n for n in cs if n in LAXABLE]
        if cand:
            lax = rng.sample(cand, 1 if rng.random() < 0.75 else min(2, len(cand)))
    # value: of the source type, close to the bounds
    bound_vals = [b for b in cs.values() if not isinstance(b, (list, bool, str)) and b is not None]
    if origin in ("int", "float", "Decimal"):
        cands = []
        T = CLS_BY_NAME[origin]
        for b in bound_vals:
            for x in around(rng, b):
                try:
                    cands.append(T(x) if not isinstance(x, T) else x)
                except Exception:
                    pass
        if "max_digits" in cs:
            m = cs["max_digits"]
            for x in (10 ** m - 1, 10 ** m, 10 ** (m - 1)):
                try:
                    cands.append(T(x))
                    cands.append(T(x) / T(10) if origin != "int" else T(x))
                except Exception:
                    pass
        cands += [rnd_num(rng, origin) for _ in range(3)]
        if "enum" in cs:
            cands += cs["enum"]
        v = rng.choice([c for c in cands if type(c) is T] or [rnd_num(rng, origin)])
    elif origin == "str":
        v = rng.choice(STRS + ["x" * rng.randint(0, 6), "abc-def", "00a"])
    else:
        v = rnd_seq(rng, origin)
    return {"op": "rule", "origin": origin, "constraints": [[n, encode(b)] for n, b in cs.items()], "lax": lax,
            "value": encode(v)}


def gen_validator_case(rng, names):
    name = rng.choice(names)
    base = name[4:] if name.startswith("lax_") else name
    if base in ("gt", "ge", "lt", "le"):
        kind = rng.choice(["int", "float", "Decimal", "mixed", "str"])
        if kind == "str":
            b = rng.choice(STRS)
            v = rng.choice(STRS)
        else:
            b = rnd_num(rng, kind if kind != "mixed" else rng.choice(["int", "float", "Decimal"]))
            pool = around(rng, b) + [rnd_num(rng, rng.choice(["int", "float", "Decimal"])) for _ in range(2)] + [True, False]
            v = rng.choice(pool)
            if kind == "mixed":
                v = rng.choice([v, rnd_num(rng, rng.choice(["int", "float", "Decimal"]))])
    elif base in ("length", "max_length", "min_length"):
        b = rng.randint(0, 5)
        v = rng.choice([rng.choice(STRS), rnd_seq(rng, rng.choice(["list", "tuple", "set"])), rng.randint(-5, 12345), 1.5])
    elif base == "regex":
        b = rng.choice(PATTERNS)
        v = rng.choice(STRS + [123, 12, 1.5, "abc-def"])
    elif base == "const":
        b = rng.choice([1, 1.0, True, 0, False, Decimal("1.0"), "a", None, 2.5, Decimal("2.5"), [1], (1,)])
        v = rng.choice([1, 1.0, True, 0, False, Decimal("1.0"), Decimal("1"), "a", None, 2.5, Decimal("2.5"), [1], (1,), [1.0]])
    elif base == "enum":
        b = rng.choice([[1, 2, 3], ["a", "b"], [1.5, 2], (1, "a"), [Decimal("1.0"), 2], {1, 2}, [None, 0]])
        v = rng.choice([1, 1.0, True, "a", "c", 2, 4, None, 0, False, Decimal("1"), 1.5])
    elif base == "multiple_of":
        b = rng.choice([1, 2, 3, 5, -2, 0, Decimal("0.5"), Decimal("2.5"), 10])
        v = rng.choice([rng.randint(-30, 30), Decimal(rng.choice(DEC_STRS)), rng.randint(-30, 30), True, 10 ** 20 + 1])
    elif base in ("max_digits", "decimal_places"):
        b = rng.randint(0, 6)
        v = rng.choice([Decimal(rng.choice(DEC_STRS)), rng.randint(-1200, 12000), Decimal(rng.randint(-99999, 99999)).scaleb(rng.randint(-5, 3)),
                        Decimal("Infinity"), Decimal("NaN"), rng.randint(-80, 80) / rng.choice([1, 2, 4, 8])])
    else:  # unique_items
        b = rng.random() < 0.9
        v = rnd_seq(rng, rng.choice(["list", "tuple", "set", "list"]))
    return {"op": "validator", "name": name, "value": encode(v), "bound": encode(b)}


def gen_cmp_case(rng):
    pool = lambda: rng.choice([rnd_num(rng, rng.choice(["int", "float", "Decimal"])), True, False, rng.choice(STRS), None,
                               Decimal("Infinity"), Decimal("-Infinity"), [1, 2], (1,), rng.randint(-3, 3)])
    return {"op": "cmp", "a": encode(pool()), "b": encode(pool())}


def cmp_reference(case):
    """CPython's own answers for the operator audit"""
    a, b = decode(case["a"]), decode(case["b"])

    def run(f):
        try:
            return {"ok": bool(f())}
        except TypeError:
            return {"err": "TypeError"}
        except InvalidOperation:
            return {"err": "InvalidOperation"}
    return {"lt": run(lambda: a < b), "le": run(lambda: a <= b), "eq": bool(a == b), "truthy": bool(a)}


# ------------------------------------------------------------------------------------------------

class C02(Check):
    prop = "C02"
    props_modules = ["Utv.Props.C02"]
    driver = "C02"
    impl = "harness.c02:impl"
    uses_extract = True
    lax_mode = False
    validator_names = STRICT
    rule = ("(a) direct calls of every Constraints validator on (value, bound) pairs at and around the bounds (ints, dyadic floats incl. "
            "nan/inf/-0.0/±1ulp, Decimals incl. trailing zeros/exponents/carries, strs, list/tuple/set with ==-duplicates like 1/1.0/True); "
            "(b) declared constrained types (1-4 legal constraints, the library's own declaration checks decide legality) applied to values "
            "of the source type, with isinstance and a re-parse; (c) an audit of the modelled Python operators against CPython. "
            "non-trivial = value within 1 step of a bound, or length within 1 of a limit, or a rejected value, or >= 2 constraints; "
            "distinct by (constraints, value)")
    assumptions = ["Py.* operator semantics (lean/Utv/Py/Basic.lean) and Prims (repr/str of floats and Decimals, re.fullmatch, float round) "
                   "are CPython's: audited on every run by the 'cmp' stream and by running every generated validator against the real one",
                   "float arithmetic (%, //, round on floats) is outside the Lean model: covered by the correspondence/oracle only"]
    budget = {"quick": 3000, "thorough": 60000}
    search_budget = {"quick": 6000, "thorough": 60000}

    def cases(self, tier, rng, n):
        out = []
        for _ in range(n):
            k = rng.random()
            if k < 0.45:
                out.append(gen_rule_case(rng, self.lax_mode))
            elif k < 0.9:
                out.append(gen_validator_case(rng, self.validator_names))
            else:
                out.append(gen_cmp_case(rng))
        return out

    def evaluate(self, cases):
        # the 'cmp' stream is answered by CPython itself (no utype involved)
        from .common import run_driver, run_impl
        idx = [i for i, c in enumerate(cases) if c["op"] != "cmp"]
        impl_sub = run_impl(self.impl, [cases[i] for i in idx], self.case_timeout)
        impl_outs = [None] * len(cases)
        for i, o in zip(idx, impl_sub):
            impl_outs[i] = o
        for i, c in enumerate(cases):
            if c["op"] == "cmp":
                impl_outs[i] = cmp_reference(c)
        model_outs = run_driver(self.driver, [self.model_line(c) for c in cases])
        return impl_outs, model_outs

    def model_line(self, case):
        line = dict(case)
        line["prims"] = prims_for(case)
        if case["op"] == "rule":
            lax = set(case.get("lax", []))
            line["constraints"] = [[("lax_" + n) if n in lax else n, b] for n, b in case["constraints"]]
        return line

    # -- correspondence -------------------------------------------------------------------------
    def compare(self, case, io, mo):
        if not isinstance(mo, dict) or "driver-error" in mo:
            return f"driver: {mo}"
        if "unmodelled" in mo:
            return None
        op = case["op"]
        if op == "cmp":
            for k in ("lt", "le"):
                if "unmodelled" in mo[k]:
                    continue
                if mo[k] != io[k]:
                    return f"operator {k}: CPython {io[k]} model {mo[k]}"
            if mo["eq"] != io["eq"] or mo["truthy"] != io["truthy"]:
                return f"operator eq/truthy: CPython {io['eq']},{io['truthy']} model {mo['eq']},{mo['truthy']}"
            return None
        if op == "validator":
            if "ok" in io and "ok" in mo:
                return None if canon(io["ok"]) == canon(mo["ok"]) else f"validator result differs: impl {io['ok']} model {mo['ok']}"
            if "err" in io and "err" in mo:
                return None if io["err"] == mo["err"] else f"exception differs: impl {io['err']} model {mo['err']}"
            return f"verdict differs: impl {io} model {mo}"
        if op == "rule":
            if io.get("decl") != "ok":
                return None
            p = io["parse"]
            if "ok" in p and "ok" in mo:
                return None if canon(p["ok"]) == canon(mo["ok"]) else f"parse result differs: impl {p['ok']} model {mo['ok']}"
            if "perr" in p and "err" in mo:
                return None
            return f"verdict differs: impl {p} model {mo}"
        return None

    # -- the property on the real code ------------------------------------------------------------
    def spec(self, case, io, mo):
        op = case["op"]
        if op == "cmp":
            return None
        if op == "validator":
            name = case["name"]
            if name.startswith("lax_"):
                return None
            v, b = decode(case["value"]), decode(case["bound"])
            if name in ("max_digits", "decimal_places", "multiple_of") and not isinstance(v, (int, float, Decimal)):
                return None
            if name == "unique_items" and not isinstance(v, (list, tuple, set, frozenset)):
                return None
            if name == "enum" and not isinstance(b, (list, tuple, set)):
                return None
            try:
                want = sat(name, v, b)
            except Undefined:
                return None
            except Exception:
                return None
            got = "ok" in io
            if want != got:
                return f"{name}({v!r}, {b!r}): documented sense says {'accept' if want else 'reject'}, validator {'accepted' if got else 'raised ' + str(io.get('err'))}"
            if got:
                r = decode(io["ok"])
                try:
                    same = (r == v) or (r != r and v != v)
                except Exception:
                    same = False
                if not same:
                    return f"{name}({v!r}, {b!r}) returned {r!r}, not equal to its input"
            return None
        if op == "rule":
            if io.get("decl") != "ok" or case.get("lax"):
                return None
            v = decode(case["value"])
            p = io["parse"]
            if "escape" in p:
                return None   # C04's business
            try:
                want = expected_accept(case)
            except Undefined:
                return None
            except Exception:
                return None
            got = "ok" in p
            if want != got:
                return f"constraints {self._cs(case)} on {v!r}: every constraint {'holds' if want else 'does not hold'} but parse {'succeeded' if got else 'failed with ' + str(p.get('perr'))}"
            if got:
                r = decode(p["ok"])
                try:
                    same = (r == v) or (r != r and v != v)
                except Exception:
                    same = False
                if not same:
                    return f"constraints {self._cs(case)} on {v!r}: accepted but result {r!r} != input"
            if io.get("isinstance") != got:
                return f"isinstance({v!r}, T) = {io.get('isinstance')} but parse {'succeeds' if got else 'fails'} for constraints {self._cs(case)}"
            return None
        return None

    @staticmethod
    def _cs(case):
        return {n: decode(b) for n, b in case["constraints"]}

    def key(self, case, io):
        if case["op"] == "cmp":
            return None
        try:
            if case["op"] == "validator":
                v, b = decode(case["value"]), decode(case["bound"])
                near = False
                if isinstance(b, (int, float, Decimal)) and isinstance(v, (int, float, Decimal)) and not isinstance(b, bool):
                    try:
                        near = abs(v - b) <= 1
                    except Exception:
                        near = False
                if isinstance(b, int) and hasattr(v, "__len__"):
                    near = abs(len(v) - b) <= 1
                if near or "err" in io:
                    return json.dumps([case["name"], case["value"], case["bound"]], sort_keys=True)
                return None
            if io.get("decl") != "ok":
                return None
            if len(case["constraints"]) >= 2 or "perr" in io.get("parse", {}):
                return json.dumps([case["constraints"], case.get("lax"), case["value"]], sort_keys=True)
        except Exception:
            return None
        return None

    def distribution(self, case, io):
        if case["op"] == "validator":
            return f"validator/{case['name']}/{'ok' if 'ok' in io else io.get('err')}"
        if case["op"] == "rule":
            if io.get("decl") != "ok":
                return f"rule/{case['origin']}/decl-{io.get('decl')}"
            return f"rule/{case['origin']}/{'lax' if case.get('lax') else 'strict'}/{'ok' if 'ok' in io['parse'] else 'perr'}"
        return "cmp"

    def neighbours(self, case, rng):
        out = []
        if case["op"] == "validator":
            v, b = decode(case["value"]), decode(case["bound"])
            for x in around(rng, b) + around(rng, v):
                out.append(dict(case, value=encode(x)))
        elif case["op"] == "rule":
            for n, b in case["constraints"]:
                for x in around(rng, decode(b)):
                    try:
                        out.append(dict(case, value=encode(CLS_BY_NAME[case["origin"]](x))))
                    except Exception:
                        pass
            # single constraints of the same declaration
            for c in case["constraints"]:
                out.append(dict(case, constraints=[c], lax=[x for x in case.get("lax", []) if x == c[0]]))
        return out

    def extra_static(self, tier):
        notes = (self._notes())
        return [f"T1: {n}" for n in notes]

    @staticmethod
    def _notes():
        from .common import LEAN
        p = LEAN / "Utv" / "Gen" / "NOTES.txt"
        return [l for l in p.read_text().splitlines() if l.strip()] if p.exists() else ["Gen/NOTES.txt missing"]


CHECK = C02()
