import Utv.Lemmas.C01Val
/-! C01 — `decimal_places` on a Decimal: the value is completed to the declared number of places (zeros appended), which
changes neither its order nor its equality with any other number; so the bounds checked before it still hold of the
result, and the result passes `decimal_places` again. -/
namespace Utv.C01
open Utv.Py

/-- scaling both sides by a positive factor -/
theorem scaled_lt (x y F : Int) (hF : 0 < F) : decide (x * F < y * F) = decide (x < y) := by
  congr 1; exact propext (Int.mul_lt_mul_right hF)

theorem scaled_eq (x y F : Int) (hF : 0 < F) : decide (x * F = y * F) = decide (x = y) := by
  congr 1
  apply propext
  constructor
  · intro h; exact Int.eq_of_mul_eq_mul_right (Int.ne_of_gt hF) h
  · intro h; rw [h]

theorem pow10_pos (n : Nat) : (0 : Int) < 10 ^ n := Int.pow_pos (by decide)

/-- `n·10^e` written with the smaller exponent `-k` (`-k ≤ e`): the same number -/
def padQ (n : Int) (e k : Int) : Q := ⟨n * 10 ^ (e + k).toNat, 0, -k⟩

theorem scaled_pad_left (n e k : Int) (h : -k ≤ e) (y : Q) :
    ∃ F : Int, 0 < F ∧ (Q.scaled (padQ n e k) y).1 = (Q.scaled ⟨n, 0, e⟩ y).1 * F ∧
      (Q.scaled (padQ n e k) y).2 = (Q.scaled ⟨n, 0, e⟩ y).2 * F := by
  refine ⟨10 ^ (min e y.p10 - min (-k) y.p10).toNat, pow10_pos _, ?_, ?_⟩
  · simp only [Q.scaled, padQ]
    have hx : (e + k).toNat + (-k - min (-k) y.p10).toNat = (e - min e y.p10).toNat + (min e y.p10 - min (-k) y.p10).toNat := by
      omega
    calc n * 10 ^ (e + k).toNat * 2 ^ (0 - min 0 y.p2).toNat * 10 ^ (-k - min (-k) y.p10).toNat
        = n * 2 ^ (0 - min 0 y.p2).toNat * (10 ^ (e + k).toNat * 10 ^ (-k - min (-k) y.p10).toNat) := by ac_rfl
      _ = n * 2 ^ (0 - min 0 y.p2).toNat * (10 ^ (e - min e y.p10).toNat * 10 ^ (min e y.p10 - min (-k) y.p10).toNat) := by
          rw [← Int.pow_add, ← Int.pow_add, hx]
      _ = _ := by ac_rfl
  · simp only [Q.scaled, padQ]
    have hy : (y.p10 - min (-k) y.p10).toNat = (y.p10 - min e y.p10).toNat + (min e y.p10 - min (-k) y.p10).toNat := by
      omega
    rw [hy, Int.pow_add]
    ac_rfl

theorem scaled_pad_right (n e k : Int) (h : -k ≤ e) (y : Q) :
    ∃ F : Int, 0 < F ∧ (Q.scaled y (padQ n e k)).1 = (Q.scaled y ⟨n, 0, e⟩).1 * F ∧
      (Q.scaled y (padQ n e k)).2 = (Q.scaled y ⟨n, 0, e⟩).2 * F := by
  refine ⟨10 ^ (min y.p10 e - min y.p10 (-k)).toNat, pow10_pos _, ?_, ?_⟩
  · simp only [Q.scaled, padQ]
    have hy : (y.p10 - min y.p10 (-k)).toNat = (y.p10 - min y.p10 e).toNat + (min y.p10 e - min y.p10 (-k)).toNat := by
      omega
    rw [hy, Int.pow_add]
    ac_rfl
  · simp only [Q.scaled, padQ]
    have hx : (e + k).toNat + (-k - min y.p10 (-k)).toNat = (e - min y.p10 e).toNat + (min y.p10 e - min y.p10 (-k)).toNat := by
      omega
    calc n * 10 ^ (e + k).toNat * 2 ^ (0 - min y.p2 0).toNat * 10 ^ (-k - min y.p10 (-k)).toNat
        = n * 2 ^ (0 - min y.p2 0).toNat * (10 ^ (e + k).toNat * 10 ^ (-k - min y.p10 (-k)).toNat) := by ac_rfl
      _ = n * 2 ^ (0 - min y.p2 0).toNat * (10 ^ (e - min y.p10 e).toNat * 10 ^ (min y.p10 e - min y.p10 (-k)).toNat) := by
          rw [← Int.pow_add, ← Int.pow_add, hx]
      _ = _ := by ac_rfl

theorem Q_lt_pad_left (n e k : Int) (h : -k ≤ e) (y : Q) : Q.lt (padQ n e k) y = Q.lt ⟨n, 0, e⟩ y := by
  obtain ⟨F, hF, h1, h2⟩ := scaled_pad_left n e k h y
  unfold Q.lt
  cases hs : Q.scaled (padQ n e k) y with
  | mk a b =>
    cases hs' : Q.scaled ⟨n, 0, e⟩ y with
    | mk a' b' =>
      simp only [hs, hs'] at h1 h2 ⊢
      subst h1; subst h2
      exact scaled_lt a' b' F hF

theorem Q_lt_pad_right (n e k : Int) (h : -k ≤ e) (y : Q) : Q.lt y (padQ n e k) = Q.lt y ⟨n, 0, e⟩ := by
  obtain ⟨F, hF, h1, h2⟩ := scaled_pad_right n e k h y
  unfold Q.lt
  cases hs : Q.scaled y (padQ n e k) with
  | mk a b =>
    cases hs' : Q.scaled y ⟨n, 0, e⟩ with
    | mk a' b' =>
      simp only [hs, hs'] at h1 h2 ⊢
      subst h1; subst h2
      exact scaled_lt a' b' F hF

theorem Q_eq_pad_left (n e k : Int) (h : -k ≤ e) (y : Q) : Q.eq (padQ n e k) y = Q.eq ⟨n, 0, e⟩ y := by
  obtain ⟨F, hF, h1, h2⟩ := scaled_pad_left n e k h y
  unfold Q.eq
  cases hs : Q.scaled (padQ n e k) y with
  | mk a b =>
    cases hs' : Q.scaled ⟨n, 0, e⟩ y with
    | mk a' b' =>
      simp only [hs, hs'] at h1 h2 ⊢
      subst h1; subst h2
      exact scaled_eq a' b' F hF

theorem Q_eq_pad_right (n e k : Int) (h : -k ≤ e) (y : Q) : Q.eq y (padQ n e k) = Q.eq y ⟨n, 0, e⟩ := by
  obtain ⟨F, hF, h1, h2⟩ := scaled_pad_right n e k h y
  unfold Q.eq
  cases hs : Q.scaled y (padQ n e k) with
  | mk a b =>
    cases hs' : Q.scaled y ⟨n, 0, e⟩ with
    | mk a' b' =>
      simp only [hs, hs'] at h1 h2 ⊢
      subst h1; subst h2
      exact scaled_eq a' b' F hF

/-! ### the padded Decimal compares like the original -/

/-- signed coefficient -/
def sgn (s : Bool) (c : Nat) : Int := if s then -(c : Int) else c

theorem sgn_pad (s : Bool) (c K : Nat) : sgn s (c * 10 ^ K) = sgn s c * 10 ^ K := by
  unfold sgn
  cases s <;> simp [Int.neg_mul]

theorem num_dec (s : Bool) (c : Nat) (e : Int) : num? (.dec (.fin s c e)) = some (.fin ⟨sgn s c, 0, e⟩) := rfl

theorem num_pad (s : Bool) (c : Nat) (e k : Int) :
    num? (.dec (.fin s (c * 10 ^ (e + k).toNat) (-k))) = some (.fin (padQ (sgn s c) e k)) := by
  have : (if s then -((c * 10 ^ (e + k).toNat : Nat) : Int) else ((c * 10 ^ (e + k).toNat : Nat) : Int)) =
      sgn s c * 10 ^ (e + k).toNat := by
    cases s <;> simp [sgn, Int.neg_mul]
  simp only [num?, padQ, this]

theorem NumV_lt_pad_left (n e k : Int) (h : -k ≤ e) (y : NumV) :
    NumV.lt (.fin (padQ n e k)) y = NumV.lt (.fin ⟨n, 0, e⟩) y := by
  cases y with
  | fin q => simp [NumV.lt, Q_lt_pad_left n e k h q]
  | inf b => cases b <;> rfl
  | nan => rfl

theorem NumV_lt_pad_right (n e k : Int) (h : -k ≤ e) (y : NumV) :
    NumV.lt y (.fin (padQ n e k)) = NumV.lt y (.fin ⟨n, 0, e⟩) := by
  cases y with
  | fin q => simp [NumV.lt, Q_lt_pad_right n e k h q]
  | inf b => cases b <;> rfl
  | nan => rfl

theorem NumV_eq_pad_left (n e k : Int) (h : -k ≤ e) (y : NumV) :
    NumV.eq (.fin (padQ n e k)) y = NumV.eq (.fin ⟨n, 0, e⟩) y := by
  cases y with
  | fin q => simp [NumV.eq, Q_eq_pad_left n e k h q]
  | inf b => rfl
  | nan => rfl

theorem NumV_eq_pad_right (n e k : Int) (h : -k ≤ e) (y : NumV) :
    NumV.eq y (.fin (padQ n e k)) = NumV.eq y (.fin ⟨n, 0, e⟩) := by
  cases y with
  | fin q => simp [NumV.eq, Q_eq_pad_right n e k h q]
  | inf b => rfl
  | nan => rfl

/-- the value `decimal_places` hands back for a Decimal with at most `k` places -/
def padDec (s : Bool) (c : Nat) (e k : Int) : PyVal := .dec (.fin s (c * 10 ^ (e + k).toNat) (-k))

theorem lt_pad_left (s : Bool) (c : Nat) (e k : Int) (h : -k ≤ e) (b : PyVal) :
    Py.lt (padDec s c e k) b = Py.lt (.dec (.fin s c e)) b := by
  have hn := num_pad s c e k
  have hd := num_dec s c e
  unfold Py.lt padDec
  cases hb : num? b with
  | some y =>
    simp only [hn, hd, NumV_lt_pad_left _ e k h y]
    rfl
  | none =>
    simp only [hn, hd]
    cases b <;> simp_all [num?]

theorem lt_pad_right (s : Bool) (c : Nat) (e k : Int) (h : -k ≤ e) (b : PyVal) :
    Py.lt b (padDec s c e k) = Py.lt b (.dec (.fin s c e)) := by
  have hn := num_pad s c e k
  have hd := num_dec s c e
  unfold Py.lt padDec
  cases hb : num? b with
  | some y =>
    simp only [hn, hd, NumV_lt_pad_right _ e k h y]
    rfl
  | none =>
    simp only [hn, hd]
    cases b <;> simp_all [num?]

theorem eq_dec_left (d : DecV) (b : PyVal) :
    Py.eq (.dec d) b = (match num? (.dec d), num? b with | some x, some y => NumV.eq x y | _, _ => false) := by
  cases b <;> rfl

theorem eq_dec_right (b : PyVal) (d : DecV) :
    Py.eq b (.dec d) = (match num? b, num? (.dec d) with | some x, some y => NumV.eq x y | _, _ => false) := by
  cases b <;> rfl

theorem eq_pad_left (s : Bool) (c : Nat) (e k : Int) (h : -k ≤ e) (b : PyVal) :
    Py.eq (padDec s c e k) b = Py.eq (.dec (.fin s c e)) b := by
  unfold padDec
  rw [eq_dec_left, eq_dec_left, num_pad, num_dec]
  cases num? b with
  | none => rfl
  | some y => exact NumV_eq_pad_left _ e k h y

theorem eq_pad_right (s : Bool) (c : Nat) (e k : Int) (h : -k ≤ e) (b : PyVal) :
    Py.eq b (padDec s c e k) = Py.eq b (.dec (.fin s c e)) := by
  unfold padDec
  rw [eq_dec_right, eq_dec_right, num_pad, num_dec]
  cases num? b with
  | none => rfl
  | some y => exact NumV_eq_pad_right _ e k h y

/-! ### the validators -/
open Utv.Gen Utv.Rule

def orderNames : List String := ["gt", "ge", "lt", "le"]

/-- a bound that accepted the Decimal accepts the completed Decimal -/
theorem order_transfer {name : String} (hn : name ∈ orderNames) {f : Validator} (hf : validatorOf name = some f)
    (PP : Prims) (s : Bool) (c : Nat) (e k : Int) (h : -k ≤ e) (b : PyVal)
    (hacc : f PP (.dec (.fin s c e)) b = .ok (.dec (.fin s c e))) :
    f PP (padDec s c e k) b = .ok (padDec s c e k) := by
  simp only [orderNames, List.mem_cons, List.mem_nil_iff, or_false] at hn
  rcases hn with rfl | rfl | rfl | rfl <;> simp only [validatorOf, Option.some.injEq] at hf <;> subst hf
  · rw [Utv.C02.C02_gt_iff] at hacc ⊢
    refine ⟨?_, rfl⟩
    have := hacc.1
    simpa [Py.gt, lt_pad_right s c e k h b] using this
  · rw [Utv.C02.C02_ge_iff] at hacc ⊢
    refine ⟨?_, rfl⟩
    have := hacc.1
    simpa [Py.ge, Py.le, lt_pad_right s c e k h b, eq_pad_right s c e k h b] using this
  · rw [Utv.C02.C02_lt_iff] at hacc ⊢
    refine ⟨?_, rfl⟩
    have := hacc.1
    simpa [lt_pad_left s c e k h b] using this
  · rw [Utv.C02.C02_le_iff] at hacc ⊢
    refine ⟨?_, rfl⟩
    have := hacc.1
    simpa [Py.le, lt_pad_left s c e k h b, eq_pad_left s c e k h b] using this

theorem specDecimals_nonneg (c : Nat) (e : Int) : 0 ≤ Utv.C02.specDecimals c e := by
  unfold Utv.C02.specDecimals
  exact Int.natCast_nonneg _

/-- `decimal_places` on a Decimal: only a finite one with at most `k` places passes; it is completed to exactly `k`
places, and the completed value passes again unchanged -/
theorem decimal_places_dec (PP : Prims) (d : DecV) (k : Int) (r : PyVal)
    (h : Constraints.decimal_places PP (.dec d) (.int k) = .ok r) :
    ∃ s c e, d = .fin s c e ∧ -k ≤ e ∧ r = padDec s c e k ∧ Constraints.decimal_places PP r (.int k) = .ok r := by
  cases d with
  | inf sg =>
    exfalso
    simp [Constraints.decimal_places, Constraints.parseDecimal, Py.isinstance, typeOf, Cls.sub, Py.asTuple, Py.sliceFrom,
      sliceStop, Py.unpack2, Py.contains, memEq, Py.eq, Py.eqScalar, bind, Except.bind, pure, Except.pure, throw, throwThe,
      MonadExceptOf.throw] at h
  | nan sg =>
    exfalso
    cases sg <;>
    simp [Constraints.decimal_places, Constraints.parseDecimal, Py.isinstance, typeOf, Cls.sub, Py.asTuple, Py.sliceFrom,
      sliceStop, Py.unpack2, Py.contains, memEq, Py.eq, Py.eqScalar, bind, Except.bind, pure, Except.pure, throw, throwThe,
      MonadExceptOf.throw] at h
  | fin s c e =>
    obtain ⟨hle, hq⟩ := (Utv.C02.C02_decimal_places_decimal PP s c e k r).mp h
    have hd := (Utv.C02.C02_parse_decimal_spec c e).2
    unfold Utv.C02.codeDecimals at hd
    have hk : 0 ≤ k := Int.le_trans (specDecimals_nonneg c e) hle
    have he : e ≥ -k := by
      by_cases h0 : e ≥ 0
      · simp [h0] at hd; omega
      · simp [h0] at hd; omega
    have hK : (e - -k).toNat = (e + k).toNat := by congr 1; omega
    unfold decQuantize at hq
    simp only [he, if_true, hK] at hq
    split at hq
    · simp [throw, throwThe, MonadExceptOf.throw] at hq
    · rename_i hnd
      simp only [pure, Except.pure, Except.ok.injEq] at hq
      refine ⟨s, c, e, rfl, he, hq.symm, ?_⟩
      subst hq
      rw [Utv.C02.C02_decimal_places_decimal]
      have hd' := (Utv.C02.C02_parse_decimal_spec (c * 10 ^ (e + k).toNat) (-k)).2
      unfold Utv.C02.codeDecimals at hd'
      refine ⟨?_, ?_⟩
      · by_cases h0 : -k ≥ 0
        · simp [h0] at hd'; omega
        · simp [h0] at hd'; omega
      · unfold decQuantize
        have h0 : (-k - -k).toNat = 0 := by omega
        simp only [ge_iff_le, Int.le_refl, if_true, h0, Nat.pow_zero, Nat.mul_one, hnd, if_false, pure, Except.pure]

/-! ### the validator phase of a Decimal rule: bounds, then `decimal_places`, then preserving validators -/
theorem validate_append (PP : Utv.Py.Prims) : ∀ (a b : List (String × PyVal)) (v : PyVal),
    validate PP (a ++ b) v = (validate PP a v >>= validate PP b) := by
  intro a
  induction a with
  | nil => intro b v; simp [validate, bind, Except.bind, pure, Except.pure]
  | cons c cs ih =>
    intro b v
    obtain ⟨name, bound⟩ := c
    simp only [List.cons_append, validate]
    cases validatorOf name with
    | none => simp [bind, Except.bind, throw, throwThe, MonadExceptOf.throw]
    | some f =>
      simp only [bind, Except.bind]
      cases f PP v bound with
      | error e => rfl
      | ok v' => simpa [bind, Except.bind] using ih b v'

theorem orderNames_sub {n : String} (h : n ∈ orderNames) : n ∈ strictPreservingNames := by
  simp only [orderNames, List.mem_cons, List.mem_nil_iff, or_false] at h
  rcases h with rfl | rfl | rfl | rfl <;> simp [strictPreservingNames]

open Utv.Conv in
theorem validatePhase_decimal (PP : Utv.Py.Prims) (pre post : List (String × PyVal)) (k : Int) (v r : Utv.Conv.V)
    (hpre : ∀ cv ∈ pre, cv.1 ∈ orderNames) (hpost : ∀ cv ∈ post, cv.1 ∈ strictPreservingNames)
    (hv : ∃ c d, v = .dec c d)
    (h : validatePhase PP (pre ++ ("decimal_places", PyVal.int k) :: post) v = .ok r) :
    (∃ d', r = .dec 0 d') ∧ ∀ cv ∈ pre ++ ("decimal_places", PyVal.int k) :: post, Sat PP cv r := by
  obtain ⟨c0, d, rfl⟩ := hv
  unfold validatePhase at h
  have hne : (pre ++ ("decimal_places", PyVal.int k) :: post).isEmpty = false := by simp
  simp only [hne, Bool.false_eq_true, if_false] at h
  split at h
  · simp at h
  · rename_i pv hpv
    have hc0 : c0 = 0 ∧ pv = .dec d := by
      simp only [toPy] at hpv
      split at hpv
      · rename_i hc; simp at hc hpv; exact ⟨hc.1, hpv.symm⟩
      · simp at hpv
    obtain ⟨rfl, rfl⟩ := hc0
    split at h
    · rename_i pr hval
      rw [validate_append] at hval
      -- the bounds before `decimal_places` hand the Decimal back
      cases hp : validate PP pre (.dec d) with
      | error e => simp [hp, bind, Except.bind] at hval
      | ok x =>
        obtain ⟨hx, hacc⟩ := validate_preserving PP pre (.dec d) x
          (fun cv hcv => by
            cases hf : validatorOf cv.1 with
            | none =>
              exfalso
              have := hpre cv hcv
              simp only [orderNames, List.mem_cons, List.mem_nil_iff, or_false] at this
              rcases this with h' | h' | h' | h' <;> simp [h', validatorOf] at hf
            | some f => exact ⟨f, rfl, preservingAt_of_name (orderNames_sub (hpre cv hcv)) hf _⟩) hp
        subst hx
        simp only [hp, bind, Except.bind, validate, validatorOf] at hval
        -- `decimal_places` completes it
        cases hdp : Constraints.decimal_places PP (.dec d) (.int k) with
        | error e => simp [hdp] at hval
        | ok r1 =>
          obtain ⟨s, c, e, rfl, he, rfl, hidem⟩ := decimal_places_dec PP d k r1 hdp
          simp only [hdp] at hval
          -- the validators after it hand the completed value back
          obtain ⟨hpr, hacc2⟩ := validate_preserving PP post (padDec s c e k) pr
            (fun cv hcv => by
              cases hf : validatorOf cv.1 with
              | none =>
                exfalso
                have := hpost cv hcv
                simp only [strictPreservingNames, List.mem_cons, List.mem_nil_iff, or_false] at this
                rcases this with h' | h' | h' | h' | h' | h' | h' | h' | h' | h' | h' | h' <;> simp [h', validatorOf] at hf
              | some f => exact ⟨f, rfl, preservingAt_of_name (hpost cv hcv) hf _⟩) hval
          subst hpr
          simp only [padDec, ofPy] at h
          simp at h
          subst h
          refine ⟨⟨_, rfl⟩, ?_⟩
          have htp : toPy (V.dec 0 (.fin s (c * 10 ^ (e + k).toNat) (-k))) = some (padDec s c e k) := by
            simp [toPy, padDec, isSNaN]
          intro cv hcv
          simp only [List.mem_append, List.mem_cons] at hcv
          rcases hcv with hcv | rfl | hcv
          · have hn := hpre cv hcv
            obtain ⟨f, hf, hfa⟩ := hacc cv hcv
            obtain ⟨hl, hc⟩ := not_lax_of_preservingFor (nd := false) (name := cv.1)
              (by simp [preservingFor, orderNames_sub hn])
            simp only [Sat, hl, hc, Bool.false_eq_true, if_false]
            exact ⟨_, f, htp, hf, order_transfer hn hf PP s c e k he cv.2 hfa⟩
          · simp only [Sat, isLaxName, laxNames]
            refine ⟨_, Constraints.decimal_places, htp, rfl, hidem⟩
          · obtain ⟨f, hf, hfa⟩ := hacc2 cv hcv
            obtain ⟨hl, hc⟩ := not_lax_of_preservingFor (nd := false) (name := cv.1)
              (by simp [preservingFor, hpost cv hcv])
            simp only [Sat, hl, hc, Bool.false_eq_true, if_false]
            exact ⟨_, f, htp, hf, hfa⟩
    · simp at h
    · simp at h

end Utv.C01
