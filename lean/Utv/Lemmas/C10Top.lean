import Utv.Lemmas.C10
/-!
C10, top level: what a collecting run reports, in closed form (`trace`), and its relation to the items
that fail on their own.
-/
namespace Utv.C10

/-- the errors a loop hands to `handle_error` when nothing stops it, and how it ends -/
def trace (step : α → ι → Step α) : List ι → α → List Err × Res α
  | [], a => ([], .ok a)
  | i :: is, a =>
    match step a i with
    | .keep a' => trace step is a'
    | .report e a' => (e :: (trace step is a').1, (trace step is a').2)
    | .abort e x => ([e], .error x)

/-- a collecting loop without cap hands over every error and never raises by itself -/
theorem runLoop_collect_none (step : α → ι → Step α) (c : Ctx) (hc : c.mode.collect = true)
    (hm : c.mode.maxErrors = none) (items : List ι) (a : α) :
    runLoop step c items a = ({ c with errors := c.errors ++ (trace step items a).1 }, (trace step items a).2) := by
  induction items generalizing c a with
  | nil => simp [runLoop, trace]
  | cons i is ih =>
    simp only [runLoop, trace]
    cases hs : step a i with
    | keep a' => simp only; exact ih c hc hm a'
    | report e a' =>
      simp only
      have h2 := handleError_collect_none c hc hm e
      have h1 := handleError_fst c e false
      cases hh : c.handleError e with
      | mk c' r =>
        rw [hh] at h1 h2
        simp only at h1 h2
        subst h1 h2
        simp only
        rw [ih { c with errors := c.errors ++ [e] } hc hm a']
        simp
    | abort e x =>
      simp only
      have h2 := handleError_collect_none c hc hm e
      have h1 := handleError_fst c e false
      cases hh : c.handleError e with
      | mk c' r =>
        rw [hh] at h1 h2
        simp only at h1 h2
        subst h1 h2
        simp

/-- a collecting loop with cap `k`: it runs to its end while fewer than `k` errors are held, and raises the
first `k` of them otherwise -/
theorem runLoop_collect_some (step : α → ι → Step α) (c : Ctx) (k : Nat) (hc : c.mode.collect = true)
    (hm : c.mode.maxErrors = some k) (hlen : c.errors.length < k) (items : List ι) (a : α) :
    (c.errors.length + (trace step items a).1.length < k →
      runLoop step c items a = ({ c with errors := c.errors ++ (trace step items a).1 }, (trace step items a).2)) ∧
    (¬ c.errors.length + (trace step items a).1.length < k →
      ∃ c', runLoop step c items a =
        (c', .error (.collected ((c.errors ++ (trace step items a).1).take k ++ c.tmp)))) := by
  induction items generalizing c a with
  | nil => simp [runLoop, trace, hlen]
  | cons i is ih =>
    simp only [runLoop, trace]
    cases hs : step a i with
    | keep a' => simp only; exact ih c hc hm hlen a'
    | report e a' =>
      simp only
      have h1 := handleError_fst c e false
      cases hh : c.handleError e with
      | mk c' r =>
        rw [hh] at h1
        simp only at h1
        cases r with
        | some x =>
          obtain ⟨m, hm', hle, hx⟩ := handleError_collect_some c hc e x (by rw [hh])
          rw [hm] at hm'
          cases hm'
          have hk : c.errors.length + 1 = k := by omega
          simp only [List.length_cons]
          refine ⟨fun hlt => by omega, fun _ => ?_⟩
          refine ⟨c', ?_⟩
          rw [hx]
          have : (c.errors ++ e :: (trace step is a').1).take k = c.errors ++ [e] := by
            rw [← hk]
            have : c.errors ++ e :: (trace step is a').1 = (c.errors ++ [e]) ++ (trace step is a').1 := by simp
            rw [this, List.take_append_of_le_length (by simp)]
            rw [List.take_of_length_le (by simp)]
          rw [this]
        | none =>
          simp only
          have hlen' : c'.errors.length < k := by
            have hx : (c.handleError e).2 = none := by rw [hh]
            unfold Ctx.handleError at hx
            simp only [hc, hm, Bool.not_true, Bool.or_self, Bool.false_eq_true, if_false] at hx
            split at hx
            · simp at hx
            · rename_i hlt
              subst h1
              simpa using hlt
          have := ih c' (by subst h1; exact hc) (by subst h1; exact hm) hlen' a'
          subst h1
          simp only [List.length_append, List.length_cons, List.length_nil, List.append_assoc,
            List.cons_append, List.nil_append] at this ⊢
          have e1 : c.errors.length + ((trace step is a').1.length + 1) = c.errors.length + (0 + 1) + (trace step is a').1.length := by omega
          rw [e1]
          exact this
    | abort e x =>
      simp only
      have h1 := handleError_fst c e false
      cases hh : c.handleError e with
      | mk c' r =>
        rw [hh] at h1
        simp only at h1
        cases r with
        | some x' =>
          obtain ⟨m, hm', hle, hx⟩ := handleError_collect_some c hc e x' (by rw [hh])
          rw [hm] at hm'
          cases hm'
          have hk : c.errors.length + 1 = k := by omega
          simp only [List.length_cons, List.length_nil, Nat.zero_add]
          refine ⟨fun hlt => by omega, fun _ => ?_⟩
          refine ⟨c', ?_⟩
          rw [hx]
          have : (c.errors ++ [e]).take k = c.errors ++ [e] := List.take_of_length_le (by simp; omega)
          rw [this]
        | none =>
          have hx : (c.handleError e).2 = none := by rw [hh]
          unfold Ctx.handleError at hx
          simp only [hc, hm, Bool.not_true, Bool.or_self, Bool.false_eq_true, if_false] at hx
          split at hx
          · simp at hx
          · rename_i hlt
            have : c.errors.length + 1 < k := by simpa using hlt
            simp only [List.length_cons, List.length_nil, Nat.zero_add]
            refine ⟨fun _ => ?_, fun hn => absurd this hn⟩
            subst h1
            rfl

/-! ### both caps at once -/

/-- `n` held errors do not reach the cap -/
def capOk (mx : Option Nat) (n : Nat) : Prop :=
  match mx with
  | none => True
  | some k => n < k

/-- the errors a `CollectedParseError` carries under the cap -/
def cap (mx : Option Nat) (es : List Err) : List Err :=
  match mx with
  | none => es
  | some k => es.take k

theorem cap_of_ok (mx : Option Nat) (es : List Err) (h : capOk mx es.length) : cap mx es = es := by
  cases mx with
  | none => rfl
  | some k => exact List.take_of_length_le (Nat.le_of_lt h)

theorem cap_append_of_not_ok (mx : Option Nat) (es fs : List Err) (h : ¬ capOk mx es.length) :
    cap mx (es ++ fs) = cap mx es := by
  cases mx with
  | none => exact absurd trivial h
  | some k =>
    simp only [capOk, Nat.not_lt] at h
    simp only [cap]
    rw [List.take_append_of_le_length h]

theorem capOk_mono (mx : Option Nat) {a b : Nat} (hab : a ≤ b) (h : capOk mx b) : capOk mx a := by
  cases mx with
  | none => trivial
  | some k => exact Nat.lt_of_le_of_lt hab h

theorem runLoop_collect (step : α → ι → Step α) (c : Ctx) (hc : c.mode.collect = true)
    (hlen : capOk c.mode.maxErrors c.errors.length) (items : List ι) (a : α) :
    (capOk c.mode.maxErrors (c.errors.length + (trace step items a).1.length) →
      runLoop step c items a = ({ c with errors := c.errors ++ (trace step items a).1 }, (trace step items a).2)) ∧
    (¬ capOk c.mode.maxErrors (c.errors.length + (trace step items a).1.length) →
      ∃ c', runLoop step c items a =
        (c', .error (.collected (cap c.mode.maxErrors (c.errors ++ (trace step items a).1) ++ c.tmp)))) := by
  cases hm : c.mode.maxErrors with
  | none =>
    refine ⟨fun _ => runLoop_collect_none step c hc hm items a, fun h => absurd trivial h⟩
  | some k =>
    rw [hm] at hlen
    exact runLoop_collect_some step c k hc hm hlen items a

/-! ### loops that never abort -/

def NoAbort (step : α → ι → Step α) : Prop := ∀ a i e x, step a i ≠ .abort e x

/-- the accumulator a loop ends with when nothing stops it -/
def fin (step : α → ι → Step α) : List ι → α → α
  | [], a => a
  | i :: is, a =>
    match step a i with
    | .keep a' => fin step is a'
    | .report _ a' => fin step is a'
    | .abort _ _ => a

theorem trace_ok {step : α → ι → Step α} (h : NoAbort step) (items : List ι) (a : α) :
    (trace step items a).2 = .ok (fin step items a) := by
  induction items generalizing a with
  | nil => rfl
  | cons i is ih =>
    simp only [trace, fin]
    cases hs : step a i with
    | keep a' => exact ih a'
    | report e a' => exact ih a'
    | abort e x => exact absurd hs (h a i e x)

theorem fieldValue_noAbort (rec : P) (m : Mode) (o : Opts) (f : FieldDecl) (v : Val) (e : Err) (x : Exc) :
    fieldValue rec m o f v ≠ .abort e x := by
  unfold fieldValue
  split
  · simp
  · split
    · simp
    · split
      · split <;> simp
      · simp
      · simp

theorem store_noAbort (name : String) (res : Data) (s : Step (Option Val)) (h : ∀ e x, s ≠ .abort e x) (e : Err) (x : Exc) :
    store name res s ≠ .abort e x := by
  cases s with
  | keep r => cases r <;> simp [store]
  | report e' r => cases r <;> simp [store]
  | abort e' x' => exact absurd rfl (h e' x')

theorem additionStep_noAbort (rec : P) (m : Mode) (o : Opts) : NoAbort (additionStep rec m o) := by
  intro a i e x
  unfold additionStep
  cases o.addition with
  | none => simp
  | no => simp
  | yes =>
    simp only
    cases o.addTy with
    | none => simp
    | some T =>
      simp only
      cases verdict rec T m o i.2 with
      | some r => simp
      | none => cases o.invalidValues <;> simp
  | typed T0 =>
    simp only
    cases o.addTy with
    | none => simp
    | some T =>
      simp only
      cases verdict rec T m o i.2 with
      | some r => simp
      | none => cases o.invalidValues <;> simp

theorem dfStep1_noAbort (rec : P) (m : Mode) (o : Opts) (decl : List FieldDecl) (ex : List String) :
    NoAbort (dfStep1 rec m o decl ex) := by
  intro a i e x
  unfold dfStep1
  split
  · exact additionStep_noAbort rec m o a i e x
  · rename_i f hf
    split
    · exact additionStep_noAbort rec m o a i e x
    · split
      · simp
      · have := store_noAbort f.name a.1 (fieldValue rec m o f i.2) (fieldValue_noAbort rec m o f i.2)
        split
        · simp
        · simp
        · rename_i e' x' hs
          exact absurd hs (this e' x')

theorem posOnlyStep_noAbort : NoAbort posOnlyStep := by
  intro a i e x
  unfold posOnlyStep
  split
  · simp
  · split
    · simp
    · split <;> simp

theorem propStep_noAbort (rec : P) (m : Mode) (o : Opts) (res : Data) : NoAbort (propStep rec m o res) := by
  intro a p e x
  unfold propStep
  cases p.compute res with
  | none => simp
  | some attr =>
    simp only
    cases p.ty with
    | none => simp
    | some T =>
      simp only
      cases verdict rec T m o attr with
      | some r => simp
      | none => cases p.onError.getD o.invalidValues <;> simp

theorem dfStep2_noAbort (data : Data) (ex : List String) : NoAbort (dfStep2 data ex) := by
  intro a f e x
  unfold dfStep2
  split
  · simp
  · split
    · simp
    · split <;> simp

theorem ffStep1_noAbort (rec : P) (m : Mode) (o : Opts) (data : Data) (ex : List String) :
    NoAbort (ffStep1 rec m o data ex) := by
  intro a f e x
  unfold ffStep1
  split
  · simp
  · split
    · split
      · simp
      · split <;> simp
    · exact store_noAbort _ _ _ (fieldValue_noAbort rec m o f _) e x

theorem ffStep2_noAbort (rec : P) (m : Mode) (o : Opts) (decl : List FieldDecl) (ex : List String) :
    NoAbort (ffStep2 rec m o decl ex) := by
  intro a i e x
  unfold ffStep2
  split
  · simp
  · exact additionStep_noAbort rec m o a i e x

theorem posStep_noAbort (rec : P) (m : Mode) (o : Opts) (sg : Sig) : NoAbort (posStep rec m o sg) := by
  intro a i e x
  unfold posStep
  split
  · cases sg.posTy with
    | none => simp
    | some T =>
      simp only
      cases verdict rec T m o i.1 with
      | some r => simp
      | none => cases o.invalidItems <;> simp
  · cases (sg.decl.take sg.npos)[i.2]? with
    | none => simp
    | some f =>
      simp only
      have := fieldValue_noAbort rec m o f i.1
      cases hfv : fieldValue rec m o f i.1 with
      | keep r => cases r <;> simp
      | report e' r => cases r <;> simp
      | abort e' x' => exact absurd hfv (this e' x')

theorem countStep_noAbort (o : Opts) (n : Nat) : NoAbort (countStep o n) := by
  intro a i e x
  unfold countStep
  split
  · split
    · split <;> simp
    · simp
  · split
    · split <;> simp
    · simp

theorem depsStep_noAbort (rec : P) (m : Mode) (o : Opts) (decl : List FieldDecl) (ex : List String) (data : Data)
    (g : Bool) : NoAbort (depsStep rec m o decl ex data g) := by
  intro a i e x
  unfold depsStep
  split <;> simp

/-! ### what a collecting run reports, in closed form -/

/-- the errors of the key count (`g`: the checks of the whole mapping are on) -/
def countReports (o : Opts) (n : Nat) (g : Bool) : List Err :=
  (trace (countStep o n) (if g then [true, false] else []) ()).1

/-- the `DependenciesAbsenceError`, if any -/
def depsReports (rec : P) (m : Mode) (o : Opts) (decl : List FieldDecl) (ex : List String) (data : Data) (g : Bool) :
    List Err :=
  (trace (depsStep rec m o decl ex data g) [()] ()).1

def reportsDF (rec : P) (m : Mode) (o : Opts) (decl : List FieldDecl) (ex : List String) (g : Bool) (data : Data) :
    List Err :=
  (trace (dfStep1 rec m o decl ex) data ([], [])).1 ++
  ((trace (dfStep2 data ex) decl (fin (dfStep1 rec m o decl ex) data ([], [])).1).1 ++
   depsReports rec m o decl ex data g)

def valueDF (rec : P) (m : Mode) (o : Opts) (decl : List FieldDecl) (ex : List String) (data : Data) : Data :=
  fin (dfStep2 data ex) decl (fin (dfStep1 rec m o decl ex) data ([], [])).1 ++
    (fin (dfStep1 rec m o decl ex) data ([], [])).2

/-- `options.addition is not None` -/
def Addition.given : Addition → Bool
  | .none => false
  | _ => true

def reportsFF (rec : P) (m : Mode) (o : Opts) (decl : List FieldDecl) (ex : List String) (g : Bool) (data : Data) :
    List Err :=
  (trace (ffStep1 rec m o data ex) decl []).1 ++
  (depsReports rec m o decl ex data g ++
   (if o.addition.given then
     (trace (ffStep2 rec m o decl ex) data (fin (ffStep1 rec m o data ex) decl [], [])).1 else []))

def valueFF (rec : P) (m : Mode) (o : Opts) (decl : List FieldDecl) (ex : List String) (data : Data) : Data :=
  if o.addition.given then
    (fin (ffStep2 rec m o decl ex) data (fin (ffStep1 rec m o data ex) decl [], [])).1 ++
    (fin (ffStep2 rec m o decl ex) data (fin (ffStep1 rec m o data ex) decl [], [])).2
  else fin (ffStep1 rec m o data ex) decl []

/-- every error a collecting `parse_data` hands to `handle_error` when no cap stops it (`ex` = excluded keys,
`g` = with the checks of the whole mapping) -/
def reportsX (rec : P) (m : Mode) (o : Opts) (decl : List FieldDecl) (ex : List String) (g : Bool) (data : Data) :
    List Err :=
  countReports o data.length g ++
  (if o.dfs then reportsDF rec m o decl ex g data else reportsFF rec m o decl ex g data)

def valueX (rec : P) (m : Mode) (o : Opts) (decl : List FieldDecl) (ex : List String) (data : Data) : Data :=
  if o.dfs then valueDF rec m o decl ex data else valueFF rec m o decl ex data

/-- … of a data class / keyword call: nothing excluded, all checks -/
def reports (rec : P) (m : Mode) (o : Opts) (decl : List FieldDecl) (data : Data) : List Err :=
  reportsX rec m o decl [] true data

def value (rec : P) (m : Mode) (o : Opts) (decl : List FieldDecl) (data : Data) : Data :=
  valueX rec m o decl [] data

/-- outcome of a phase in collecting mode, started with the errors `es0` held: either it ran through
(errors `es0 ++ rs` held, result `a`) or the cap stopped it with the first errors -/
def Ran (mx : Option Nat) (o : Opts) (es0 rs : List Err) (a : α) (r : Ctx × Res α) : Prop :=
  (capOk mx (es0.length + rs.length) → r = ({ mode := ⟨true, mx⟩, o := o, errors := es0 ++ rs, tmp := [] }, .ok a)) ∧
  (¬ capOk mx (es0.length + rs.length) → ∃ c', r = (c', .error (.collected (cap mx (es0 ++ rs)))))

/-- the collecting context of mode `mx` holding the errors `es` -/
def held (mx : Option Nat) (o : Opts) (es : List Err) : Ctx := { mode := ⟨true, mx⟩, o := o, errors := es, tmp := [] }

theorem runLoop_ran {step : α → ι → Step α} (hna : NoAbort step) (mx : Option Nat) (o : Opts) (es0 : List Err)
    (h0 : capOk mx es0.length) (items : List ι) (a : α) :
    Ran mx o es0 (trace step items a).1 (fin step items a) (runLoop step (held mx o es0) items a) := by
  have := runLoop_collect step (held mx o es0) rfl h0 items a
  simp only [trace_ok hna, held, List.append_nil] at this
  exact this

theorem ran_andThen {mx : Option Nat} {o : Opts} {es0 rs1 rs2 : List Err} {a : α} {b : β}
    {r : Ctx × Res α} {k : Ctx → α → Ctx × Res β}
    (h1 : Ran mx o es0 rs1 a r)
    (h2 : capOk mx (es0.length + rs1.length) → Ran mx o (es0 ++ rs1) rs2 b (k (held mx o (es0 ++ rs1)) a)) :
    Ran mx o es0 (rs1 ++ rs2) b (andThen r k) := by
  by_cases hc : capOk mx (es0.length + rs1.length)
  · rw [h1.1 hc]
    simp only [andThen]
    have := h2 hc
    simp only [Ran, held, List.length_append, List.append_assoc] at this ⊢
    rw [Nat.add_assoc] at this
    exact this
  · obtain ⟨c', hc'⟩ := h1.2 hc
    rw [hc']
    simp only [andThen]
    constructor
    · intro h
      exfalso
      apply hc
      exact capOk_mono mx (by simp) h
    · intro _
      refine ⟨c', ?_⟩
      rw [← List.append_assoc, cap_append_of_not_ok mx (es0 ++ rs1) rs2 (by simpa using hc)]

theorem ran_pure (mx : Option Nat) (o : Opts) (es0 : List Err) (h0 : capOk mx es0.length) (a : α) :
    Ran mx o es0 [] a (held mx o es0, .ok a) := by
  constructor
  · intro _; simp [held]
  · intro h; simp only [List.length_nil, Nat.add_zero] at h
    exact absurd h0 h

theorem capOk_append {mx : Option Nat} {es rs : List Err} (h : capOk mx (es.length + rs.length)) :
    capOk mx (es ++ rs).length := by simpa using h

/-- a loop over no real accumulator (key count, dependency check) followed by a continuation -/
theorem unit_loop_ran {ι : Type} {step : Unit → ι → Step Unit} (hna : NoAbort step) {mx : Option Nat} {o : Opts}
    {es0 rs2 : List Err} (h0 : capOk mx es0.length) (items : List ι) {b : β} {k : Ctx → Unit → Ctx × Res β}
    (h2 : capOk mx (es0.length + (trace step items ()).1.length) →
      Ran mx o (es0 ++ (trace step items ()).1) rs2 b (k (held mx o (es0 ++ (trace step items ()).1)) ())) :
    Ran mx o es0 ((trace step items ()).1 ++ rs2) b (andThen (runLoop step (held mx o es0) items ()) k) :=
  ran_andThen (runLoop_ran hna mx o es0 h0 items ()) h2

theorem dataFirst_ran (rec : P) (mx : Option Nat) (o : Opts) (decl : List FieldDecl) (ex : List String) (g : Bool)
    (es0 : List Err) (h0 : capOk mx es0.length) (data : Data) :
    Ran mx o es0 (reportsDF rec ⟨true, mx⟩ o decl ex g data) (valueDF rec ⟨true, mx⟩ o decl ex data)
      (dataFirst rec decl ex g (held mx o es0) data) := by
  unfold dataFirst reportsDF valueDF depsReports
  refine ran_andThen (runLoop_ran (dfStep1_noAbort rec _ o decl ex) mx o es0 h0 data ([], [])) (fun h1 => ?_)
  refine ran_andThen (runLoop_ran (dfStep2_noAbort data ex) mx o _ (capOk_append h1) decl _) (fun h2 => ?_)
  have h3 := unit_loop_ran (depsStep_noAbort rec ⟨true, mx⟩ o decl ex data g) (mx := mx) (o := o) (rs2 := [])
    (capOk_append h2) [()]
    (b := fin (dfStep2 data ex) decl (fin (dfStep1 rec ⟨true, mx⟩ o decl ex) data ([], [])).1 ++
      (fin (dfStep1 rec ⟨true, mx⟩ o decl ex) data ([], [])).2)
    (k := fun c3 _ => (c3, Except.ok (fin (dfStep2 data ex) decl (fin (dfStep1 rec ⟨true, mx⟩ o decl ex) data ([], [])).1 ++
      (fin (dfStep1 rec ⟨true, mx⟩ o decl ex) data ([], [])).2)))
    (fun h3 => ran_pure mx o _ (capOk_append h3) _)
  simpa [held] using h3

theorem fieldFirst_ran (rec : P) (mx : Option Nat) (o : Opts) (decl : List FieldDecl) (ex : List String) (g : Bool)
    (es0 : List Err) (h0 : capOk mx es0.length) (data : Data) :
    Ran mx o es0 (reportsFF rec ⟨true, mx⟩ o decl ex g data) (valueFF rec ⟨true, mx⟩ o decl ex data)
      (fieldFirst rec decl ex g (held mx o es0) data) := by
  unfold fieldFirst reportsFF valueFF depsReports
  refine ran_andThen (runLoop_ran (ffStep1_noAbort rec _ o data ex) mx o es0 h0 decl []) (fun h1 => ?_)
  refine unit_loop_ran (depsStep_noAbort rec ⟨true, mx⟩ o decl ex data g) (capOk_append h1) [()] (fun h2 => ?_)
  have hgiven : Ran mx o
      ((es0 ++ (trace (ffStep1 rec ⟨true, mx⟩ o data ex) decl []).1) ++
        (trace (depsStep rec ⟨true, mx⟩ o decl ex data g) [()] ()).1)
      (trace (ffStep2 rec ⟨true, mx⟩ o decl ex) data (fin (ffStep1 rec ⟨true, mx⟩ o data ex) decl [], [])).1
      ((fin (ffStep2 rec ⟨true, mx⟩ o decl ex) data (fin (ffStep1 rec ⟨true, mx⟩ o data ex) decl [], [])).1 ++
        (fin (ffStep2 rec ⟨true, mx⟩ o decl ex) data (fin (ffStep1 rec ⟨true, mx⟩ o data ex) decl [], [])).2)
      (andThen (runLoop (ffStep2 rec ⟨true, mx⟩ o decl ex)
          (held mx o ((es0 ++ (trace (ffStep1 rec ⟨true, mx⟩ o data ex) decl []).1) ++
            (trace (depsStep rec ⟨true, mx⟩ o decl ex data g) [()] ()).1))
          data (fin (ffStep1 rec ⟨true, mx⟩ o data ex) decl [], []))
        fun c2 acc => (c2, Except.ok (acc.1 ++ acc.2))) := by
    have := ran_andThen
      (b := (fin (ffStep2 rec ⟨true, mx⟩ o decl ex) data (fin (ffStep1 rec ⟨true, mx⟩ o data ex) decl [], [])).1 ++
            (fin (ffStep2 rec ⟨true, mx⟩ o decl ex) data (fin (ffStep1 rec ⟨true, mx⟩ o data ex) decl [], [])).2)
      (k := fun c2 (acc : Data × Data) => (c2, Except.ok (acc.1 ++ acc.2)))
      (runLoop_ran (ffStep2_noAbort rec ⟨true, mx⟩ o decl ex) mx o
        ((es0 ++ (trace (ffStep1 rec ⟨true, mx⟩ o data ex) decl []).1) ++
          (trace (depsStep rec ⟨true, mx⟩ o decl ex data g) [()] ()).1)
        (capOk_append h2) data (fin (ffStep1 rec ⟨true, mx⟩ o data ex) decl [], []))
      (fun h3 => ran_pure mx o _ (capOk_append h3) _)
    simpa using this
  cases ha : o.addition with
  | none =>
    simp only [held, ha, Addition.given, Bool.false_eq_true, if_false]
    exact ran_pure mx o _ (capOk_append h2) _
  | no => simp only [held, ha, Addition.given, if_true]; exact hgiven
  | yes => simp only [held, ha, Addition.given, if_true]; exact hgiven
  | typed T => simp only [held, ha, Addition.given, if_true]; exact hgiven

theorem parseData_ran (rec : P) (mx : Option Nat) (o : Opts) (decl : List FieldDecl) (ex : List String) (g : Bool)
    (es0 : List Err) (h0 : capOk mx es0.length) (data : Data) :
    Ran mx o es0 (reportsX rec ⟨true, mx⟩ o decl ex g data) (valueX rec ⟨true, mx⟩ o decl ex data)
      (parseData rec decl ex g (held mx o es0) data) := by
  unfold parseData reportsX valueX countReports
  refine unit_loop_ran (countStep_noAbort o data.length) h0 _ (fun h1 => ?_)
  by_cases hd : o.dfs = true
  · simp only [held, hd, if_true]; exact dataFirst_ran rec mx o decl ex g _ (capOk_append h1) data
  · simp only [held, hd, Bool.false_eq_true, if_false]; exact fieldFirst_ran rec mx o decl ex g _ (capOk_append h1) data

/-- turning a `Ran` outcome followed by the closing `raise_error()` into the raised exception -/
theorem ran_finish {mx : Option Nat} {o : Opts} {rs : List Err} {a : α} {r : Ctx × Res α}
    (hk : capOk mx 0) (h : Ran mx o [] rs a r) :
    (andThen r finish).2 = if rs = [] then .ok a else .error (.collected (cap mx rs)) := by
  by_cases hc : capOk mx ([] ++ rs : List Err).length
  · have h1 := h.1 (by simpa using hc)
    rw [h1]
    simp only [andThen, List.nil_append]
    cases rs with
    | nil => simp [finish, Ctx.raiseError]
    | cons e es =>
      have : cap mx (e :: es) = e :: es := cap_of_ok mx _ (by simpa using hc)
      simp [finish, Ctx.raiseError, this]
  · obtain ⟨c', h2⟩ := h.2 (by simpa using hc)
    rw [h2]
    simp only [andThen, List.nil_append]
    have : rs ≠ [] := by
      intro hh; subst hh; exact hc (by simpa using hk)
    simp [this]

/-- a collecting run in closed form: accepted iff nothing is reported; otherwise one
`CollectedParseError` with the reports, cut at the cap -/
theorem run_collect (W : World) (n : Nat) (decl : List FieldDecl) (mx : Option Nat) (hk : capOk mx 0)
    (o : Opts) (data : Data) :
    run W n decl ⟨true, mx⟩ o data =
      if reports (parse W n) ⟨true, mx⟩ o decl data = [] then .ok (value (parse W n) ⟨true, mx⟩ o decl data)
      else .error (.collected (cap mx (reports (parse W n) ⟨true, mx⟩ o decl data))) := by
  unfold run reports value
  exact ran_finish hk (parseData_ran (parse W n) mx o decl [] true [] hk data)

/-! ### calls with positional arguments, closed form -/

/-- what the loop over the positional arguments reports / ends with -/
def posReports (rec : P) (m : Mode) (o : Opts) (sg : Sig) (args : List Val) : List Err :=
  (trace (posStep rec m o sg) args.zipIdx ([], [])).1

def posFin (rec : P) (m : Mode) (o : Opts) (sg : Sig) (args : List Val) : List Val × List String :=
  fin (posStep rec m o sg) args.zipIdx ([], [])

/-- what the loop over the positional-only parameters reports / ends with -/
def posOnlyReports (rec : P) (m : Mode) (o : Opts) (sg : Sig) (args : List Val) : List Err :=
  (trace posOnlyStep (sg.decl.take sg.nposOnly).zipIdx (posFin rec m o sg args)).1

def keysFin (rec : P) (m : Mode) (o : Opts) (sg : Sig) (args : List Val) : List Val × List String :=
  fin posOnlyStep (sg.decl.take sg.nposOnly).zipIdx (posFin rec m o sg args)

def callReports (rec : P) (m : Mode) (o : Opts) (sg : Sig) (args : List Val) (kwargs : Data) : List Err :=
  posReports rec m o sg args ++
  (posOnlyReports rec m o sg args ++ (reportsX rec m o sg.decl (keysFin rec m o sg args).2 true kwargs ++ []))

def callValue (rec : P) (m : Mode) (o : Opts) (sg : Sig) (args : List Val) (kwargs : Data) : List Val × Data :=
  ((keysFin rec m o sg args).1, valueX rec m o sg.decl (keysFin rec m o sg args).2 kwargs)

/-- `parse_params` as phases followed by the closing `raise_error()` -/
theorem parseCall_eq (rec : P) (sg : Sig) (c : Ctx) (args : List Val) (kwargs : Data)
    (hnd : dupKw sg args kwargs = false) :
    parseCall rec sg c args kwargs =
      andThen (andThen (runLoop (posStep rec c.mode c.o sg) c args.zipIdx ([], [])) fun c1 acc =>
        andThen (runLoop posOnlyStep c1 (sg.decl.take sg.nposOnly).zipIdx acc) fun c1' acc' =>
        andThen (parseData rec sg.decl acc'.2 true c1' kwargs) fun c2 kw => (c2, .ok (acc'.1, kw))) finish := by
  unfold parseCall
  simp only [hnd, Bool.false_eq_true, if_false, andThen]
  cases runLoop (posStep rec c.mode c.o sg) c args.zipIdx ([], []) with
  | mk c1 r1 =>
    cases r1 with
    | error x => rfl
    | ok acc =>
      simp only
      cases runLoop posOnlyStep c1 (sg.decl.take sg.nposOnly).zipIdx acc with
      | mk c1' r1' =>
        cases r1' with
        | error x => rfl
        | ok acc' =>
          simp only
          cases parseData rec sg.decl acc'.2 true c1' kwargs with
          | mk c2 r2 =>
            cases r2 with
            | error x => rfl
            | ok kw => rfl

theorem runCall_collect (W : World) (n : Nat) (sg : Sig) (mx : Option Nat) (hk : capOk mx 0)
    (o : Opts) (args : List Val) (kwargs : Data) (hnd : dupKw sg args kwargs = false) :
    runCall W n sg ⟨true, mx⟩ o args kwargs =
      if callReports (parse W n) ⟨true, mx⟩ o sg args kwargs = [] then
        .ok (callValue (parse W n) ⟨true, mx⟩ o sg args kwargs)
      else .error (.collected (cap mx (callReports (parse W n) ⟨true, mx⟩ o sg args kwargs))) := by
  unfold runCall
  rw [parseCall_eq _ _ _ _ _ hnd]
  apply ran_finish hk
  unfold callReports callValue posReports posOnlyReports keysFin posFin
  simp only [clean0_mode, clean0_o]
  refine ran_andThen (runLoop_ran (posStep_noAbort (parse W n) ⟨true, mx⟩ o sg) mx o [] hk args.zipIdx ([], []))
    (fun h1 => ?_)
  refine ran_andThen (runLoop_ran posOnlyStep_noAbort mx o _ (capOk_append h1) _ _) (fun h2 => ?_)
  refine ran_andThen (parseData_ran (parse W n) mx o sg.decl _ true _ (capOk_append h2) kwargs) (fun h3 => ?_)
  exact ran_pure mx o _ (capOk_append h3) _

/-! ### a Schema with output properties, closed form -/

def propReports (rec : P) (m : Mode) (o : Opts) (decl : List FieldDecl) (props : List PropDecl) (data : Data) :
    List Err :=
  (trace (propStep rec m o (value rec m o decl data)) props (value rec m o decl data)).1

def propValue (rec : P) (m : Mode) (o : Opts) (decl : List FieldDecl) (props : List PropDecl) (data : Data) : Data :=
  fin (propStep rec m o (value rec m o decl data)) props (value rec m o decl data)

/-- a collecting Schema construction: the input errors if there are any (the output properties are then not
computed), else the errors of the output properties -/
theorem runSchema_collect (W : World) (n : Nat) (decl : List FieldDecl) (props : List PropDecl) (mx : Option Nat)
    (hk : capOk mx 0) (o : Opts) (data : Data) :
    runSchema W n decl props ⟨true, mx⟩ o data =
      if reports (parse W n) ⟨true, mx⟩ o decl data = [] then
        (if propReports (parse W n) ⟨true, mx⟩ o decl props data = [] then
          .ok (propValue (parse W n) ⟨true, mx⟩ o decl props data)
         else .error (.collected (cap mx (propReports (parse W n) ⟨true, mx⟩ o decl props data))))
      else .error (.collected (cap mx (reports (parse W n) ⟨true, mx⟩ o decl data))) := by
  unfold runSchema parseSchema
  have hpd := parseData_ran (parse W n) mx o decl [] true [] hk data
  unfold reports propReports propValue value
  generalize reportsX (parse W n) ⟨true, mx⟩ o decl [] true data = rs at hpd
  generalize valueX (parse W n) ⟨true, mx⟩ o decl [] data = a at hpd
  simp only [clean0_mode, clean0_o]
  have hcl : clean0 ⟨true, mx⟩ o = held mx o [] := rfl
  rw [hcl]
  by_cases hc : capOk mx ([] ++ rs : List Err).length
  · rw [hpd.1 (by simpa using hc)]
    simp only [andThen, List.nil_append]
    cases rs with
    | nil =>
      simp only [if_true]
      have hfin : finish ({ mode := ⟨true, mx⟩, o := o, errors := [], tmp := [] } : Ctx) a =
          (held mx o [], .ok a) := by simp [finish, Ctx.raiseError, held]
      rw [hfin]
      simp only
      have hp := runLoop_ran (propStep_noAbort (parse W n) ⟨true, mx⟩ o a) mx o [] hk props a
      exact ran_finish hk hp
    | cons e es =>
      have : cap mx (e :: es) = e :: es := cap_of_ok mx _ (by simpa using hc)
      simp [finish, Ctx.raiseError, this]
  · obtain ⟨c', h2⟩ := hpd.2 (by simpa using hc)
    rw [h2]
    simp only [andThen, List.nil_append]
    have : rs ≠ [] := by
      intro hh; subst hh; exact hc (by simpa using hk)
    simp [this]

/-! ### the steps do not depend on the mode -/

theorem fieldValue_eq {rec : P} {mC : Mode} (h : Good rec mC) (o : Opts) (f : FieldDecl) (v : Val) :
    fieldValue rec .ff o f v = fieldValue rec mC o f v := by
  unfold fieldValue
  cases f.ty with
  | none => rfl
  | some T => simp only [h.verdict_eq]

theorem additionStep_eq {rec : P} {mC : Mode} (h : Good rec mC) (o : Opts) :
    additionStep rec .ff o = additionStep rec mC o := by
  funext acc kv
  simp only [additionStep, h.verdict_eq]

theorem dfStep1_eq {rec : P} {mC : Mode} (h : Good rec mC) (o : Opts) (decl : List FieldDecl) (ex : List String) :
    dfStep1 rec .ff o decl ex = dfStep1 rec mC o decl ex := by
  funext acc kv
  simp only [dfStep1, fieldValue_eq h, additionStep_eq h]

theorem ffStep1_eq {rec : P} {mC : Mode} (h : Good rec mC) (o : Opts) (data : Data) (ex : List String) :
    ffStep1 rec .ff o data ex = ffStep1 rec mC o data ex := by
  funext acc f
  simp only [ffStep1, fieldValue_eq h]

theorem ffStep2_eq {rec : P} {mC : Mode} (h : Good rec mC) (o : Opts) (decl : List FieldDecl) (ex : List String) :
    ffStep2 rec .ff o decl ex = ffStep2 rec mC o decl ex := by
  funext acc kv
  simp only [ffStep2, additionStep_eq h]

theorem posStep_eq {rec : P} {mC : Mode} (h : Good rec mC) (o : Opts) (sg : Sig) :
    posStep rec .ff o sg = posStep rec mC o sg := by
  funext acc it
  simp only [posStep, fieldValue_eq h, h.verdict_eq]

theorem excludedAsAbsent_eq {rec : P} {mC : Mode} (h : Good rec mC) (o : Opts) (f : FieldDecl) (v : Val) :
    excludedAsAbsent rec .ff o f v = excludedAsAbsent rec mC o f v := by
  unfold excludedAsAbsent
  cases f.ty with
  | none => rfl
  | some T => simp only [h.verdict_eq]

theorem depsLack_eq {rec : P} {mC : Mode} (h : Good rec mC) (o : Opts) (decl : List FieldDecl) (ex : List String)
    (data : Data) : depsLack rec .ff o decl ex data = depsLack rec mC o decl ex data := by
  have h1 : takes rec .ff o data ex = takes rec mC o data ex := by
    funext f; simp only [takes, storesB, fieldValue_eq h, excludedAsAbsent_eq h]
  have h2 : unprovidedF rec .ff o data ex = unprovidedF rec mC o data ex := by
    funext f; simp only [unprovidedF, excludedAsAbsent_eq h]
  have h3 : inResult rec .ff o data ex = inResult rec mC o data ex := by
    funext f; simp only [inResult, h1, h2]
  simp only [depsLack, h1, h2, h3]

theorem depsStep_eq {rec : P} {mC : Mode} (h : Good rec mC) (o : Opts) (decl : List FieldDecl) (ex : List String)
    (data : Data) (g : Bool) : depsStep rec .ff o decl ex data g = depsStep rec mC o decl ex data g := by
  funext a i
  simp only [depsStep, depsLack_eq h]

theorem reportsX_eq {rec : P} {mC : Mode} (h : Good rec mC) (o : Opts) (decl : List FieldDecl) (ex : List String)
    (g : Bool) (data : Data) : reportsX rec .ff o decl ex g data = reportsX rec mC o decl ex g data := by
  simp only [reportsX, reportsDF, reportsFF, depsReports, dfStep1_eq h, ffStep1_eq h, ffStep2_eq h, depsStep_eq h]

theorem reports_eq {rec : P} {mC : Mode} (h : Good rec mC) (o : Opts) (decl : List FieldDecl) (data : Data) :
    reports rec .ff o decl data = reports rec mC o decl data := reportsX_eq h o decl [] true data

theorem callReports_eq {rec : P} {mC : Mode} (h : Good rec mC) (o : Opts) (sg : Sig) (args : List Val)
    (kwargs : Data) : callReports rec .ff o sg args kwargs = callReports rec mC o sg args kwargs := by
  simp only [callReports, posReports, posOnlyReports, keysFin, posFin, posStep_eq h, reportsX_eq h]

theorem propStep_eq {rec : P} {mC : Mode} (h : Good rec mC) (o : Opts) (res : Data) :
    propStep rec .ff o res = propStep rec mC o res := by
  funext acc p
  simp only [propStep, h.verdict_eq]

/-- the two lookup strategies, two modes -/
theorem parseData_sim {rec : P} {mC : Mode} (h : Good rec mC) (decl : List FieldDecl) (ex : List String) (g : Bool)
    (o : Opts) (data : Data) :
    Sim o mC (parseData rec decl ex g (clean0 .ff o) data) (parseData rec decl ex g (clean0 mC o) data) := by
  unfold parseData
  simp only [clean0_o]
  refine sim_andThen (runLoop_sim _ mC o _ _) (fun _ => ?_) (fun c a hd => ?_)
  · by_cases hd : o.dfs = true
    · simp only [hd, if_true]
      unfold dataFirst
      simp only [clean0_mode, clean0_o, dfStep1_eq h, depsStep_eq h]
      refine sim_andThen (runLoop_sim _ mC o _ _) (fun acc => ?_) (fun c a hd => ?_)
      · refine sim_andThen (runLoop_sim _ mC o _ _) (fun a => ?_) (fun c a hd => ?_)
        · exact sim_andThen (runLoop_sim _ mC o _ _) (fun a => sim_pure o mC _) (fun c a hd => bad_of_dirty c _ hd)
        · exact bad_andThen (runLoop_dirty _ c _ _ hd) (fun c a hd => bad_of_dirty c _ hd)
      · exact bad_andThen (runLoop_dirty _ c _ _ hd) (fun c a hd =>
          bad_andThen (runLoop_dirty _ c _ _ hd) (fun c a hd => bad_of_dirty c _ hd))
    · simp only [hd, Bool.false_eq_true, if_false]
      unfold fieldFirst
      simp only [clean0_mode, clean0_o, ffStep1_eq h, ffStep2_eq h, depsStep_eq h]
      refine sim_andThen (runLoop_sim _ mC o _ _) (fun acc => ?_) (fun c a hd => ?_)
      · refine sim_andThen (runLoop_sim _ mC o _ _) (fun _ => ?_) (fun c a hd => ?_)
        · cases o.addition with
          | none => exact sim_pure o mC _
          | no => exact sim_andThen (runLoop_sim _ mC o _ _) (fun a => sim_pure o mC _) (fun c a hd => bad_of_dirty c _ hd)
          | yes => exact sim_andThen (runLoop_sim _ mC o _ _) (fun a => sim_pure o mC _) (fun c a hd => bad_of_dirty c _ hd)
          | typed T => exact sim_andThen (runLoop_sim _ mC o _ _) (fun a => sim_pure o mC _) (fun c a hd => bad_of_dirty c _ hd)
        · cases o.addition with
          | none => exact bad_of_dirty c _ hd
          | no => exact bad_andThen (runLoop_dirty _ c _ _ hd) (fun c a hd => bad_of_dirty c _ hd)
          | yes => exact bad_andThen (runLoop_dirty _ c _ _ hd) (fun c a hd => bad_of_dirty c _ hd)
          | typed T => exact bad_andThen (runLoop_dirty _ c _ _ hd) (fun c a hd => bad_of_dirty c _ hd)
      · refine bad_andThen (runLoop_dirty _ c _ _ hd) (fun c1 a hd1 => ?_)
        cases o.addition with
        | none => exact bad_of_dirty c1 _ hd1
        | no => exact bad_andThen (runLoop_dirty _ c1 _ _ hd1) (fun c a hd => bad_of_dirty c _ hd)
        | yes => exact bad_andThen (runLoop_dirty _ c1 _ _ hd1) (fun c a hd => bad_of_dirty c _ hd)
        | typed T => exact bad_andThen (runLoop_dirty _ c1 _ _ hd1) (fun c a hd => bad_of_dirty c _ hd)
  · -- the key count already reported: whatever follows ends in rejection
    have hdf : Bad (dataFirst rec decl ex g c data) := by
      unfold dataFirst
      exact bad_andThen (runLoop_dirty _ c _ _ hd) (fun c1 a hd1 =>
        bad_andThen (runLoop_dirty _ c1 _ _ hd1) (fun c2 a hd2 =>
          bad_andThen (runLoop_dirty _ c2 _ _ hd2) (fun c3 a hd3 => bad_of_dirty c3 _ hd3)))
    have hff : Bad (fieldFirst rec decl ex g c data) := by
      unfold fieldFirst
      refine bad_andThen (runLoop_dirty _ c _ _ hd) (fun c1 a hd1 =>
        bad_andThen (runLoop_dirty _ c1 _ _ hd1) (fun c2 a hd2 => ?_))
      cases c.o.addition with
      | none => exact bad_of_dirty c2 _ hd2
      | no => exact bad_andThen (runLoop_dirty _ c2 _ _ hd2) (fun c a hd => bad_of_dirty c _ hd)
      | yes => exact bad_andThen (runLoop_dirty _ c2 _ _ hd2) (fun c a hd => bad_of_dirty c _ hd)
      | typed T => exact bad_andThen (runLoop_dirty _ c2 _ _ hd2) (fun c a hd => bad_of_dirty c _ hd)
    by_cases hdfs : o.dfs = true
    · simp only [hdfs, if_true]; exact hdf
    · simp only [hdfs, Bool.false_eq_true, if_false]; exact hff

theorem dataFirst_dirty (rec : P) (decl : List FieldDecl) (ex : List String) (g : Bool) (c : Ctx) (data : Data)
    (hd : c.errors ≠ []) : Bad (dataFirst rec decl ex g c data) := by
  unfold dataFirst
  exact bad_andThen (runLoop_dirty _ c _ _ hd) (fun c1 a hd1 =>
    bad_andThen (runLoop_dirty _ c1 _ _ hd1) (fun c2 a hd2 =>
      bad_andThen (runLoop_dirty _ c2 _ _ hd2) (fun c3 a hd3 => bad_of_dirty c3 _ hd3)))

theorem fieldFirst_dirty (rec : P) (decl : List FieldDecl) (ex : List String) (g : Bool) (c : Ctx) (data : Data)
    (hd : c.errors ≠ []) : Bad (fieldFirst rec decl ex g c data) := by
  unfold fieldFirst
  refine bad_andThen (runLoop_dirty _ c _ _ hd) (fun c1 a hd1 =>
    bad_andThen (runLoop_dirty _ c1 _ _ hd1) (fun c2 a hd2 => ?_))
  cases c.o.addition with
  | none => exact bad_of_dirty c2 _ hd2
  | no => exact bad_andThen (runLoop_dirty _ c2 _ _ hd2) (fun c a hd => bad_of_dirty c _ hd)
  | yes => exact bad_andThen (runLoop_dirty _ c2 _ _ hd2) (fun c a hd => bad_of_dirty c _ hd)
  | typed T => exact bad_andThen (runLoop_dirty _ c2 _ _ hd2) (fun c a hd => bad_of_dirty c _ hd)

theorem parseData_dirty (rec : P) (decl : List FieldDecl) (ex : List String) (g : Bool) (c : Ctx) (data : Data)
    (hd : c.errors ≠ []) : Bad (parseData rec decl ex g c data) := by
  unfold parseData
  refine bad_andThen (runLoop_dirty _ c _ _ hd) (fun c0 a hd0 => ?_)
  split
  · exact dataFirst_dirty rec decl ex g c0 data hd0
  · exact fieldFirst_dirty rec decl ex g c0 data hd0

/-- fail-fast and collecting runs of a declaration: same verdict, same value -/
theorem run_strong (W : World) (n : Nat) (decl : List FieldDecl) (mC : Mode) (o : Opts) (data : Data) :
    (∃ r, run W n decl .ff o data = .ok r ∧ run W n decl mC o data = .ok r) ∨
    ((∃ x, run W n decl .ff o data = .error x) ∧ ∃ x, run W n decl mC o data = .error x) := by
  unfold run
  rcases sim_finish (parseData_sim (parse_good W mC n) decl [] true o data) with ⟨r, hF, hC⟩ | ⟨⟨c, x, hF⟩, c', x', hC⟩
  · left; exact ⟨r, by rw [hF], by rw [hC]⟩
  · right; exact ⟨⟨x, by rw [hF]⟩, x', by rw [hC]⟩

/-- … and of a call with positional arguments -/
theorem runCall_strong (W : World) (n : Nat) (sg : Sig) (mC : Mode) (o : Opts) (args : List Val) (kwargs : Data) :
    (∃ r, runCall W n sg .ff o args kwargs = .ok r ∧ runCall W n sg mC o args kwargs = .ok r) ∨
    ((∃ x, runCall W n sg .ff o args kwargs = .error x) ∧ ∃ x, runCall W n sg mC o args kwargs = .error x) := by
  unfold runCall
  by_cases hnd : dupKw sg args kwargs = true
  · right
    unfold parseCall
    simp only [hnd, if_true]
    exact ⟨⟨_, rfl⟩, _, rfl⟩
  have hnd : dupKw sg args kwargs = false := by simpa using hnd
  rw [parseCall_eq _ _ _ _ _ hnd, parseCall_eq _ _ _ _ _ hnd]
  have hg := parse_good W mC n
  simp only [clean0_mode, clean0_o, posStep_eq hg]
  have hs : Sim o mC
      (andThen (runLoop (posStep (parse W n) mC o sg) (clean0 .ff o) args.zipIdx ([], [])) fun c1 acc =>
        andThen (runLoop posOnlyStep c1 (sg.decl.take sg.nposOnly).zipIdx acc) fun c1' acc' =>
        andThen (parseData (parse W n) sg.decl acc'.2 true c1' kwargs) fun c2 kw => (c2, .ok (acc'.1, kw)))
      (andThen (runLoop (posStep (parse W n) mC o sg) (clean0 mC o) args.zipIdx ([], [])) fun c1 acc =>
        andThen (runLoop posOnlyStep c1 (sg.decl.take sg.nposOnly).zipIdx acc) fun c1' acc' =>
        andThen (parseData (parse W n) sg.decl acc'.2 true c1' kwargs) fun c2 kw => (c2, .ok (acc'.1, kw))) := by
    refine sim_andThen (runLoop_sim _ mC o _ _) (fun acc => ?_) (fun c1 acc hd => ?_)
    · refine sim_andThen (runLoop_sim _ mC o _ _) (fun acc' => ?_) (fun c1' acc' hd => ?_)
      · exact sim_andThen (parseData_sim hg sg.decl acc'.2 true o kwargs) (fun kw => sim_pure o mC _)
          (fun c2 kw hd => bad_of_dirty c2 _ hd)
      · exact bad_andThen (parseData_dirty (parse W n) sg.decl acc'.2 true c1' kwargs hd)
          (fun c2 kw hd => bad_of_dirty c2 _ hd)
    · exact bad_andThen (runLoop_dirty _ c1 _ _ hd) (fun c1' acc' hd' =>
        bad_andThen (parseData_dirty (parse W n) sg.decl acc'.2 true c1' kwargs hd')
          (fun c2 kw hd => bad_of_dirty c2 _ hd))
  rcases sim_finish hs with ⟨r, hF, hC⟩ | ⟨⟨c, x, hF⟩, c', x', hC⟩
  · left; exact ⟨r, by rw [hF], by rw [hC]⟩
  · right; exact ⟨⟨x, by rw [hF]⟩, x', by rw [hC]⟩

/-- … and of a Schema construction with output properties -/
theorem runSchema_strong (W : World) (n : Nat) (decl : List FieldDecl) (props : List PropDecl) (mC : Mode)
    (o : Opts) (data : Data) :
    (∃ r, runSchema W n decl props .ff o data = .ok r ∧ runSchema W n decl props mC o data = .ok r) ∨
    ((∃ x, runSchema W n decl props .ff o data = .error x) ∧ ∃ x, runSchema W n decl props mC o data = .error x) := by
  unfold runSchema parseSchema
  have hg := parse_good W mC n
  simp only [clean0_mode, clean0_o, propStep_eq hg]
  have hs : StrongSim o mC
      (andThen (parseData (parse W n) decl [] true (clean0 .ff o) data) fun c1 res =>
        andThen (finish c1 res) fun c2 res =>
        andThen (runLoop (propStep (parse W n) mC o res) c2 props res) fun c3 out => finish c3 out)
      (andThen (parseData (parse W n) decl [] true (clean0 mC o) data) fun c1 res =>
        andThen (finish c1 res) fun c2 res =>
        andThen (runLoop (propStep (parse W n) mC o res) c2 props res) fun c3 out => finish c3 out) := by
    refine sim_andThen_strong (parseData_sim hg decl [] true o data) (fun res => ?_) (fun c1 res hd => ?_)
    · rw [finish_clean, finish_clean]
      simp only [andThen]
      exact sim_finish (runLoop_sim _ mC o _ _)
    · obtain ⟨x, hx⟩ := finish_dirty c1 hd res
      rw [hx]
      exact ⟨c1, x, rfl⟩
  rcases hs with ⟨r, hF, hC⟩ | ⟨⟨c, x, hF⟩, c', x', hC⟩
  · left; exact ⟨r, by rw [hF], by rw [hC]⟩
  · right; exact ⟨⟨x, by rw [hF]⟩, x', by rw [hC]⟩

end Utv.C10
