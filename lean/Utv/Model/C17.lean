/-
C17 — model of utype's forward-reference machinery.

  register_forward_ref / resolve_forward_type          utype/parser/rule.py:38-97
  LogicalType.resolve_forward_refs / Rule.resolve_…    utype/parser/rule.py:183-197, 1850-1885
  ParserField.generate (string annotation → ForwardRef) utype/parser/field.py:1134-1147, 1306-1314
  BaseParser.resolve_forward_refs (lazy, first parse)  utype/parser/base.py:211-268, 342-345
  ClassParser.globals (self name injection)            utype/parser/cls.py:93-112
  ClassParser.resolve_forward_refs / generate_from_bases utype/parser/cls.py:223-275 (any depth, several bases)
  ForwardRef dereference at conversion time            utype/utils/transform.py:696-719

Hand-written, branch for branch, after the three `fix:` patches fixes/C17-*.patch (the behaviour
before them is kept behind `Cfg` switches for the negation witnesses).  Tied to the code by the
correspondence run (harness/c17.py): the same program descriptor is turned into Python source and
exec'd against the real utype, and run through `run` below; every use's outcome is compared.

What is abstracted (DESIGN §6 C17 "partial by nature"):
* a `ForwardRef` object is a *cell* id; which string leaves share one object (typing memoises
  `List['B']`) is an input of the model — the harness obtains the partition from the real `typing`;
* `typing._eval_type(ref, globals)` succeeds iff every name the string mentions is visible;
* the leaf converter (`int`) is a parameter `leaf`, so every theorem holds for every leaf parser.
-/
namespace Utv.C17

abbrev Name := Nat
abbrev Cell := Nat

/-- An annotation as written (inside a typing generic). -/
inductive Ann where
  | int
  | none                              -- NoneType member of Optional/Union
  | name (n : Name)                   -- bare name: Python evaluated it when the annotation was evaluated
  | quoted (c : Cell) (n : Name)      -- `'B'` inside a typing generic: the ForwardRef object `c`
  | list (a : Ann)
  | dict (a : Ann)                    -- Dict[str, a]
  | tuple (as : List Ann)
  | union (as : List Ann)             -- Union[...] / Optional[a] = union [a, none]
  | con (k : Nat) (a : Ann)           -- the annotation together with the Field(...)/Param(...) constraint `k`
  deriving Repr

/-- A field / parameter annotation.  `str c e`: the whole annotation is one string (written so, or
because of `from __future__ import annotations`); utype wraps it in a fresh ForwardRef `c`
(field.py:1134-1135), `e` has only `name` leaves. -/
inductive FieldAnn where
  | plain (a : Ann)
  | str (c : Cell) (e : Ann)
  deriving Repr

/-- Declared types as the parser holds them. -/
inductive Ty where
  | int
  | none
  | data (k : Name)
  | fref (c : Cell)                   -- a ForwardRef object left in the type
  | list (a : Ty)
  | dict (a : Ty)
  | tuple (as : List Ty)
  | union (as : List Ty)
  | con (k : Nat) (t : Ty)            -- `Rule.annotate(t, constraints=…)`: t, then the validators (rule.py:1727-1741)
  deriving Repr

inductive Val where
  | none
  | int (i : Int)
  | str (s : String)
  | list (xs : List Val)
  | tup (xs : List Val)
  | dict (kvs : List (Nat × Val))
  | inst (k : Name) (fs : List (Nat × Val))   -- a data-class instance (outputs only)
  deriving Repr

inductive Outcome where
  | ok (v : Val)
  | perr          -- an instance of ParseError
  | nameErr       -- NameError leaves the entry point (base.py:252-255, ignore_errors=False)
  | fuel
  deriving Repr

/-! ### The annotation written with direct references -/

mutual
def direct : Ann → Ty
  | .int => .int
  | .none => .none
  | .name n => .data n
  | .quoted _ n => .data n
  | .list a => .list (direct a)
  | .dict a => .dict (direct a)
  | .con k a => .con k (direct a)
  | .tuple as => .tuple (directL as)
  | .union as => .union (directL as)
def directL : List Ann → List Ty
  | [] => []
  | a :: as => direct a :: directL as
end

def FieldAnn.direct : FieldAnn → Ty
  | .plain a => Utv.C17.direct a
  | .str _ e => Utv.C17.direct e

mutual
def names : Ann → List Name
  | .int => []
  | .none => []
  | .name n => [n]
  | .quoted _ n => [n]
  | .list a => names a
  | .dict a => names a
  | .con _ a => names a
  | .tuple as => namesL as
  | .union as => namesL as
def namesL : List Ann → List Name
  | [] => []
  | a :: as => names a ++ namesL as
end

/-! ### Parser state -/

inductive Key where
  | att (f : Nat)          -- "$attname"  (rule.py:86)
  | bare (a : Nat)         -- the forward arg itself: refs inside generics, return annotations
  deriving DecidableEq, Repr

/-- one entry of `BaseParser.forward_refs` -/
structure Pending where
  key  : Key
  uniq : Nat               -- the "#n" suffix added by fixes/C17-multiuse.patch (0 = none)
  cell : Cell
  need : List Name         -- names the string mentions
  val  : Ty                -- what the evaluated reference denotes (direct reading)
  deriving Repr

structure PState where
  fields    : List (Nat × Ty)
  pending   : List Pending
  isLocal   : Bool         -- `<locals>` in the qualname: force_clear / clear_refs (base.py:84,249,261-267)
  ignoreErr : Bool         -- functions resolve with ignore_errors=True (func.py:942)
  selfVis   : Bool         -- ClassParser.globals injects the class's own name (cls.py:93-112)
  bases     : List Name    -- the data classes it inherits fields from, as written (cls.py:223-257)
  rule      : Option Nat   -- not a data class but a constrained scalar type `class Q(int, Rule): …`
  deriving Repr

structure State where
  visible : List Name                  -- names bound in the module namespace
  cells   : List (Cell × Ty)           -- evaluated ForwardRef objects (`__forward_value__`)
  parsers : List (Name × PState)       -- newest first
  deriving Repr

structure Cfg where
  uniqueKeys   : Bool     -- fixes/C17-multiuse.patch: every distinct ForwardRef object is registered
  resolveUnion : Bool     -- fixes/C17-union-resolve.patch: resolution descends into Optional/Union args
  inheritRefs  : Bool     -- fixes/C17-inherited-refs.patch: a subclass resolves its base's pending refs first
  abortKeeps   : Bool     -- fixes/C17-abort-keeps-pending.patch: an aborted resolution pops nothing
  deriving Repr

def Cfg.fixed : Cfg := ⟨true, true, true, true⟩
def Cfg.legacy : Cfg := ⟨false, false, false, false⟩

def lookupCell (c : Cell) : List (Cell × Ty) → Option Ty
  | [] => none
  | (k, v) :: rest => if k == c then some v else lookupCell c rest

def lookupP (k : Name) : List (Name × PState) → Option PState
  | [] => none
  | (k', p) :: rest => if k' == k then some p else lookupP k rest

def setP (k : Name) (p : PState) : List (Name × PState) → List (Name × PState)
  | [] => []
  | (k', p') :: rest => if k' == k then (k', p) :: rest else (k', p') :: setP k p rest

/-! ### Class / function creation: annotation → type, with its three effects -/

/-- `register_forward_ref` on a ForwardRef inside a generic (rule.py:62-97), the type it yields.
After fixes/C17-stale-memoised-ref.patch the name is always looked up in the namespace of the
declaration, also when typing's memoised ForwardRef object already carries a value (evaluated for
another declaration): visible → its class; not visible → stays a ForwardRef and is registered. -/
def refTy (vis : Name → Bool) (c : Cell) (n : Name) : Ty :=
  if vis n then .data n              -- rule.py:65-78: evaluated now
  else .fref c                       -- rule.py:81-97: stays a ForwardRef, registered

mutual
def mkTy (cells : List (Cell × Ty)) (vis : Name → Bool) : Ann → Ty
  | .int => .int
  | .none => .none
  | .name n => .data n
  | .quoted c n => refTy vis c n
  | .list a => .list (mkTy cells vis a)
  | .dict a => .dict (mkTy cells vis a)
  | .con k a => .con k (mkTy cells vis a)
  | .tuple as => .tuple (mkTyL cells vis as)
  | .union as => .union (mkTyL cells vis as)
def mkTyL (cells : List (Cell × Ty)) (vis : Name → Bool) : List Ann → List Ty
  | [] => []
  | a :: as => mkTy cells vis a :: mkTyL cells vis as
end

/- cells evaluated during the creation (rule.py:68-73), in traversal order -/
mutual
def evals (cells : List (Cell × Ty)) (vis : Name → Bool) : Ann → List (Cell × Ty)
  | .quoted c n => if vis n then [(c, .data n)] else []
  | .list a => evals cells vis a
  | .dict a => evals cells vis a
  | .con _ a => evals cells vis a
  | .tuple as => evalsL cells vis as
  | .union as => evalsL cells vis as
  | _ => []
def evalsL (cells : List (Cell × Ty)) (vis : Name → Bool) : List Ann → List (Cell × Ty)
  | [] => []
  | a :: as => evals cells vis a ++ evalsL cells vis as
end

/- registrations requested during the creation (rule.py:79-95), in traversal order -/
mutual
def regs (cells : List (Cell × Ty)) (vis : Name → Bool) : Ann → List (Cell × Name)
  | .quoted c n => if !vis n then [(c, n)] else []
  | .list a => regs cells vis a
  | .dict a => regs cells vis a
  | .con _ a => regs cells vis a
  | .tuple as => regsL cells vis as
  | .union as => regsL cells vis as
  | _ => []
def regsL (cells : List (Cell × Ty)) (vis : Name → Bool) : List Ann → List (Cell × Name)
  | [] => []
  | a :: as => regs cells vis a ++ regsL cells vis as
end

/-- `forward_refs.setdefault(key, (ref, constraints))` (rule.py:85-93).  After
fixes/C17-multiuse.patch the key is made unique per ForwardRef *object*:
`while key in forward_refs and forward_refs[key][0] is not annotation: n += 1; key = f"{base}#{n}"`.
During a creation nothing is popped, so the keys `base, base#1, …` held by other objects are
contiguous: the loop stops at the entry of the same object if there is one, otherwise at the number
of entries that share the base key. -/
def register (cfg : Cfg) (pend : List Pending) (p : Pending) : List Pending :=
  if cfg.uniqueKeys then
    if pend.any (fun q => q.key == p.key && q.cell == p.cell) then pend      -- same object registered already
    else pend ++ [{ p with uniq := (pend.filter (fun q => q.key == p.key)).length }]
  else
    -- before the fix: the first object registered under a name wins, any other is dropped
    if pend.any (fun q => q.key == p.key) then pend else pend ++ [p]

def registerAll (cfg : Cfg) (pend : List Pending) : List Pending → List Pending
  | [] => pend
  | p :: ps => registerAll cfg (register cfg pend p) ps

/-- key of a postponed return annotation: the string itself (`__forward_arg__`), which for a lone
name is the key the quoted leaves of that name use -/
def retKey (c : Cell) : Ann → Key
  | .name n => .bare n
  | _ => .bare (1000 + c)

/-- one field: `ParserField.generate` + `Rule.parse_annotation` (field.py:1134-1147,1306-1314;
rule.py:1441-1543).  Returns the field type, the cells evaluated, the registrations. -/
def mkField (cells : List (Cell × Ty)) (vis : Name → Bool) (isFunc : Bool) (f : Nat) :
    FieldAnn → Ty × List (Cell × Ty) × List Pending
  | .plain a =>
      (mkTy cells vis a, evals cells vis a,
       (regs cells vis a).map fun p => ⟨.bare p.2, 0, p.1, [p.2], .data p.2⟩)
  | .str c e =>
      -- a fresh ForwardRef: evaluate now (field.py:1140-1147) …
      if (names e).all vis then (direct e, [], [])
      -- … or keep it under "$attname" (return annotations: under the string itself, func.py:317)
      else (.fref c, [], [⟨if isFunc && f == 1 then retKey c e else .att f, 0, c, names e, direct e⟩])

structure Decl where
  fields  : List (Nat × FieldAnn)
  isLocal : Bool := false     -- defined inside a function (qualname contains `<locals>`)
  bound   : Bool := true      -- the name is (re)bound in the module namespace after creation
  isFunc  : Bool := false     -- @utype.parse function: field 0 = parameter, field 1 = return
  bases   : List Name := []       -- `class K(B1, B2)`: inherited fields first (shared ParserField objects)
  rule    : Option Nat := none    -- `class K(int, Rule): <constraint>`: a constrained scalar type, no fields
  deriving Repr

def mkFields (cells : List (Cell × Ty)) (vis : Name → Bool) (isFunc : Bool)
    (fields : List (Nat × FieldAnn)) : List (Nat × Ty) × List (Cell × Ty) × List Pending :=
  (fields.map fun p => (p.1, (mkField cells vis isFunc p.1 p.2).1),
   fields.flatMap fun p => (mkField cells vis isFunc p.1 p.2).2.1,
   fields.flatMap fun p => (mkField cells vis isFunc p.1 p.2).2.2)

def visOf (s : State) (selfName : Option Name) : Name → Bool :=
  fun n => s.visible.contains n || selfName == some n

/-- `class K(Schema): …` / `@utype.parse def g …` — parser creation (base.py:64-85, cls.py:114-221). -/
def define (cfg : Cfg) (s : State) (k : Name) (d : Decl) : State :=
  let self := if d.isFunc then none else some k
  let vis := visOf s self
  let (fields, ev, rg) := mkFields s.cells vis d.isFunc d.fields
  let ps : PState := { fields := fields, pending := registerAll cfg [] rg, isLocal := d.isLocal,
                       ignoreErr := d.isFunc, selfVis := !d.isFunc, bases := d.bases, rule := d.rule }
  { visible := if d.bound then k :: s.visible else s.visible
    -- force_clear (rule.py:74-76): a local class un-evaluates what it has just evaluated
    cells := if d.isLocal then s.cells else ev.reverse ++ s.cells
    parsers := (k, ps) :: s.parsers }

/-! ### Lazy resolution at the first parse -/

/- `resolve_forward_type` applied through a field type (rule.py:38-46, 183-197, 1850-1885). -/
mutual
def resolveTy (cfg : Cfg) (cells : List (Cell × Ty)) : Ty → Ty
  | .fref c => match lookupCell c cells with
      | some v => v
      | none => .fref c
  | .list a => .list (resolveTy cfg cells a)
  | .dict a => .dict (resolveTy cfg cells a)
  | .con k a => .con k (resolveTy cfg cells a)
  | .tuple as => .tuple (resolveTyL cfg cells as)
  -- before fixes/C17-union-resolve.patch `Rule.resolve_forward_refs` returned early for a rule
  -- without `__args__`, which is what Optional[...] / Union[...] become
  | .union as => if cfg.resolveUnion then .union (resolveTyL cfg cells as) else .union as
  | t => t
def resolveTyL (cfg : Cfg) (cells : List (Cell × Ty)) : List Ty → List Ty
  | [] => []
  | a :: as => resolveTy cfg cells a :: resolveTyL cfg cells as
end

structure LoopOut where
  kept     : List Pending
  cells    : List (Cell × Ty)
  resolved : Bool
  popped   : List Cell
  raised   : Bool

/-- the `for name in list(self.forward_refs)` loop (base.py:217-255) -/
def resolveLoop (vis : Name → Bool) (ignoreErr : Bool) : List Pending → List (Cell × Ty) → LoopOut
  | [], cells => ⟨[], cells, false, [], false⟩
  | p :: ps, cells =>
    -- typing evaluates afresh against the parser's namespace (localns is not globalns), memoised or not
    if p.need.all vis then
      let r := resolveLoop vis ignoreErr ps ((p.cell, p.val) :: cells)
      { r with resolved := true, popped := p.cell :: r.popped }
    else if ignoreErr then
      let r := resolveLoop vis ignoreErr ps cells
      { r with kept := p :: r.kept }
    else ⟨p :: ps, cells, false, [], true⟩      -- NameError propagates, nothing after the loop runs

/-- The parsers `ClassParser.resolve_forward_refs` visits for `k`, in visiting order: for every base its
own walk, then `k` (cls.py:259-272); each visited parser comes with the ancestors found by its own
walk (whose ParserField objects it shares).  The recursion follows `bases` by name; `fuel` = number
of parsers suffices (a base exists before its subclass) and the specification's walk up the bases
is bounded by the same fuel. -/
def chainF : Nat → List (Name × PState) → Name → List (Name × List Name)
  | 0, _, k => [(k, [])]
  | n + 1, ps, k =>
    let sub := match lookupP k ps with
      | none => []
      | some p => p.bases.flatMap (chainF n ps)
    sub ++ [(k, sub.map (·.1))]

/-- the field pass of a subclass also runs over the ParserField objects it shares with its ancestors -/
def passAnc (f : Ty → Ty) : List Name → List (Name × PState) → List (Name × PState)
  | [], ps => ps
  | a :: as, ps =>
    match lookupP a ps with
    | none => passAnc f as ps
    | some pa => passAnc f as (setP a { pa with fields := pa.fields.map (fun p => (p.1, f p.2)) } ps)

/-- `BaseParser.resolve_forward_refs` for parser `k` alone; `false` = NameError raised.  The field
pass (base.py:256-258) runs over `self.fields`, which for a subclass includes the ParserField objects
it shares with its ancestors. -/
def resolveOwn (cfg : Cfg) (s : State) (k : Name) (ancs : List Name) : State × Bool :=
  match lookupP k s.parsers with
  | none => (s, true)
  | some ps =>
    if ps.pending.isEmpty then (s, true)          -- base.py:212-213
    else
      let r := resolveLoop (visOf s (if ps.selfVis then some k else none)) ps.ignoreErr ps.pending s.cells
      if r.raised then
        -- fixes/C17-abort-keeps-pending.patch: nothing was rewritten, so nothing is popped either
        -- (before: the names evaluated so far were popped although the fields still held their ForwardRefs)
        if cfg.abortKeeps then ({ s with cells := r.cells }, false)
        else ({ s with cells := r.cells, parsers := setP k { ps with pending := r.kept } s.parsers }, false)
      else
        let fields := if r.resolved then ps.fields.map (fun p => (p.1, resolveTy cfg r.cells p.2)) else ps.fields
        let parsers1 := setP k { ps with pending := r.kept, fields := fields } s.parsers
        let parsers2 := if r.resolved then
            passAnc (resolveTy cfg r.cells) ancs parsers1
          else parsers1
        -- ForwardRef objects of local classes are un-evaluated again (base.py:261-267)
        let cells := if ps.isLocal then r.cells.filter (fun p => !r.popped.contains p.1) else r.cells
        ({ s with cells := cells, parsers := parsers2 }, true)

def resolveChain (cfg : Cfg) : State → List (Name × List Name) → State × Bool
  | s, [] => (s, true)
  | s, n :: ns =>
    match resolveOwn cfg s n.1 n.2 with
    | (s1, false) => (s1, false)          -- NameError in a base's parser propagates
    | (s1, true) => resolveChain cfg s1 ns

/-- `ClassParser.resolve_forward_refs` (cls.py, after fixes/C17-inherited-refs.patch): every base's
parser first (recursively), then the class's own. -/
def resolveParser (cfg : Cfg) (s : State) (k : Name) : State × Bool :=
  if cfg.inheritRefs then resolveChain cfg s (chainF s.parsers.length s.parsers k)
  -- before the fix only the class's own registry was looked at (its field pass still ran over all fields)
  else resolveOwn cfg s k ((chainF s.parsers.length s.parsers k).flatMap (·.2))

/-- `dict.update`: an existing key keeps its position and takes the new value -/
def dictPut (kv : Nat × Ty) : List (Nat × Ty) → List (Nat × Ty)
  | [] => [kv]
  | (k, v) :: rest => if k == kv.1 then (k, kv.2) :: rest else (k, v) :: dictPut kv rest

def dictMerge (l : List (Nat × Ty)) : List (Nat × Ty) := l.foldl (fun acc kv => dictPut kv acc) []

/-- `self.fields` of a class: `for base in reversed(bases): fields.update(parser.fields)`, then its own
(cls.py:232-252, 205-221) -/
def allFieldsF : Nat → List (Name × PState) → Name → List (Nat × Ty)
  | 0, ps, k => (match lookupP k ps with | none => [] | some p => p.fields)
  | n + 1, ps, k =>
    match lookupP k ps with
    | none => []
    | some p => dictMerge (p.bases.reverse.flatMap (allFieldsF n ps) ++ p.fields)

/-! ### Parsing (state is threaded: converting to a data class triggers *its* lazy resolution) -/

def isNoneTy : Ty → Bool
  | .none => true
  | _ => false

/-- errors below the entry point are wrapped into ParseError (field.py:1063-1089, rule.py:1914-1927) -/
def wrap : Outcome → Outcome
  | .ok v => .ok v
  | .fuel => .fuel
  | _ => .perr

def mapS {α : Type} (f : State → α → State × Outcome) : State → List α → State × (Outcome ⊕ List Val)
  | s, [] => (s, .inr [])
  | s, x :: xs =>
    match f s x with
    | (s1, .ok v) =>
      match mapS f s1 xs with
      | (s2, .inr vs) => (s2, .inr (v :: vs))
      | (s2, .inl e) => (s2, .inl e)
    | (s1, o) => (s1, .inl (wrap o))

def firstOk {α : Type} (f : State → α → State × Outcome) : State → List α → State × Outcome
  | s, [] => (s, .perr)
  | s, x :: xs =>
    match f s x with
    | (s1, .ok v) => (s1, .ok v)
    | (s1, .fuel) => (s1, .fuel)
    | (s1, _) => firstOk f s1 xs

def lookupV (k : Nat) : List (Nat × Val) → Option Val
  | [] => none
  | (k', v) :: rest => if k' == k then some v else lookupV k rest

/-- field-first search over the declared fields (base.py:353-470, default options): a field whose
key is absent is skipped (`required=False`), unknown keys are dropped -/
def fieldsS (f : State → Ty → Val → State × Outcome) (kvs : List (Nat × Val)) :
    State → List (Nat × Ty) → State × (Outcome ⊕ List (Nat × Val))
  | s, [] => (s, .inr [])
  | s, (n, t) :: rest =>
    match lookupV n kvs with
    | none => fieldsS f kvs s rest
    | some x =>
      match f s t x with
      | (s1, .ok v) =>
        match fieldsS f kvs s1 rest with
        | (s2, .inr vs) => (s2, .inr ((n, v) :: vs))
        | (s2, .inl e) => (s2, .inl e)
      | (s1, o) => (s1, .inl (wrap o))

/-- a constrained scalar type: convert, then validate -/
def scalarP (leaf : Val → Option Val) (chk : Nat → Val → Bool) (c : Nat) (v : Val) : Outcome :=
  match leaf v with
  | some r => if chk c r then .ok r else .perr
  | none => .perr

/-- the validators after a successful conversion; `None` is returned before them (rule.py:1710-1714) -/
def conP (chk : Nat → Val → Bool) (c : Nat) : Outcome → Outcome
  | .ok .none => .ok .none
  | .ok r => if chk c r then .ok r else .perr
  | o => o

def parseTy (cfg : Cfg) (leaf : Val → Option Val) (chk : Nat → Val → Bool) : Nat → State → Ty → Val → State × Outcome
  | 0, s, _, _ => (s, .fuel)
  | fuel + 1, s, ty, v =>
    match ty with
    | .int => (s, match leaf v with | some r => .ok r | none => .perr)
    | .none => (s, match v with | .none => .ok .none | _ => .perr)
    | .fref c =>
        -- transform.py:701-713: an evaluated ForwardRef is dereferenced, an unevaluated one raises
        match lookupCell c s.cells with
        | some t => parseTy cfg leaf chk fuel s t v
        | none => (s, .perr)
    | .list a =>
        match v with
        | .list xs => match mapS (fun s x => parseTy cfg leaf chk fuel s a x) s xs with
            | (s1, .inr vs) => (s1, .ok (.list vs))
            | (s1, .inl e) => (s1, e)
        | _ => (s, .perr)
    | .dict a =>
        match v with
        | .dict kvs => match mapS (fun s (kv : Nat × Val) => parseTy cfg leaf chk fuel s a kv.2) s kvs with
            | (s1, .inr vs) => (s1, .ok (.dict ((kvs.map (·.1)).zip vs)))
            | (s1, .inl e) => (s1, e)
        | _ => (s, .perr)
    | .tuple ts =>
        match v with
        | .list xs =>
            if xs.length != ts.length then (s, .perr) else
            match mapS (fun s (tx : Ty × Val) => parseTy cfg leaf chk fuel s tx.1 tx.2) s (ts.zip xs) with
            | (s1, .inr vs) => (s1, .ok (.tup vs))
            | (s1, .inl e) => (s1, e)
        | _ => (s, .perr)
    | .union ts =>
        -- exact-type stage for None, then the members in order (rule.py:359-471)
        match v, ts.any isNoneTy with
        | .none, true => (s, .ok .none)
        | _, _ => firstOk (fun s t => parseTy cfg leaf chk fuel s t v) s ts
    | .con c t =>
        match parseTy cfg leaf chk fuel s t v with
        | (s1, o) => (s1, conP chk c o)
    | .data k =>
        match (lookupP k s.parsers).bind (·.rule) with
        | some c => (s, scalarP leaf chk c v)
        | none =>
        match v with
        | .dict kvs =>
            -- BaseParser.__call__: resolve_forward_refs(ignore_errors=False), then parse_data
            match resolveParser cfg s k with
            | (s1, false) => (s1, .perr)          -- NameError below the entry point is wrapped
            | (s1, true) =>
              match lookupP k s1.parsers with
              | none => (s1, .perr)
              | some _ =>
                match fieldsS (fun s t x => parseTy cfg leaf chk fuel s t x) kvs s1
                    (allFieldsF s1.parsers.length s1.parsers k) with
                | (s2, .inr fs) => (s2, .ok (.inst k fs))
                | (s2, .inl e) => (s2, e)
        | _ => (s, .perr)

/-- the public entry point: `K(**kvs)` / `g(a=…, r=…)` -/
def useTop (cfg : Cfg) (leaf : Val → Option Val) (chk : Nat → Val → Bool) (fuel : Nat) (s : State) (k : Name) (kvs : List (Nat × Val)) :
    State × Outcome :=
  match resolveParser cfg s k with
  | (s1, false) => (s1, .nameErr)
  | (s1, true) => parseTy cfg leaf chk fuel s1 (.data k) (.dict kvs)

inductive Op where
  | defn (k : Name) (d : Decl)
  | use (k : Name) (kvs : List (Nat × Val))
  deriving Repr

def run (cfg : Cfg) (leaf : Val → Option Val) (chk : Nat → Val → Bool) (fuel : Nat) : State → List Op → List Outcome
  | _, [] => []
  | s, .defn k d :: ops => run cfg leaf chk fuel (define cfg s k d) ops
  | s, .use k kvs :: ops =>
    let (s1, o) := useTop cfg leaf chk fuel s k kvs
    o :: run cfg leaf chk fuel s1 ops

def State.init : State := ⟨[], [], []⟩

/-! ### Specification: the same declarations read with direct references — no cells, no registry,
no state, no order.  One screen. -/

def Env := Name → Option (Option Nat × List (Nat × Ty))

def mapP {α : Type} (f : α → Outcome) : List α → Outcome ⊕ List Val
  | [] => .inr []
  | x :: xs =>
    match f x with
    | .ok v => (match mapP f xs with | .inr vs => .inr (v :: vs) | .inl e => .inl e)
    | o => .inl (wrap o)

def firstP {α : Type} (f : α → Outcome) : List α → Outcome
  | [] => .perr
  | x :: xs =>
    match f x with
    | .ok v => .ok v
    | .fuel => .fuel
    | _ => firstP f xs

def fieldsP (f : Ty → Val → Outcome) (kvs : List (Nat × Val)) : List (Nat × Ty) → Outcome ⊕ List (Nat × Val)
  | [] => .inr []
  | (n, t) :: rest =>
    match lookupV n kvs with
    | none => fieldsP f kvs rest
    | some x =>
      match f t x with
      | .ok v => (match fieldsP f kvs rest with | .inr vs => .inr ((n, v) :: vs) | .inl e => .inl e)
      | o => .inl (wrap o)

def specParse (leaf : Val → Option Val) (chk : Nat → Val → Bool) (env : Env) : Nat → Ty → Val → Outcome
  | 0, _, _ => .fuel
  | fuel + 1, ty, v =>
    match ty with
    | .int => (match leaf v with | some r => .ok r | none => .perr)
    | .none => (match v with | .none => .ok .none | _ => .perr)
    | .fref _ => .perr
    | .list a =>
        match v with
        | .list xs => (match mapP (fun x => specParse leaf chk env fuel a x) xs with
            | .inr vs => .ok (.list vs) | .inl e => e)
        | _ => .perr
    | .dict a =>
        match v with
        | .dict kvs => (match mapP (fun (kv : Nat × Val) => specParse leaf chk env fuel a kv.2) kvs with
            | .inr vs => .ok (.dict ((kvs.map (·.1)).zip vs)) | .inl e => e)
        | _ => .perr
    | .tuple ts =>
        match v with
        | .list xs =>
            if xs.length != ts.length then .perr else
            (match mapP (fun (tx : Ty × Val) => specParse leaf chk env fuel tx.1 tx.2) (ts.zip xs) with
            | .inr vs => .ok (.tup vs) | .inl e => e)
        | _ => .perr
    | .union ts =>
        match v, ts.any isNoneTy with
        | .none, true => .ok .none
        | _, _ => firstP (fun t => specParse leaf chk env fuel t v) ts
    | .con c t => conP chk c (specParse leaf chk env fuel t v)
    | .data k =>
        match env k with
        | none => .perr
        | some (some c, _) => scalarP leaf chk c v
        | some (none, fields) =>
          match v with
          | .dict kvs =>
              (match fieldsP (fun t x => specParse leaf chk env fuel t x) kvs fields with
               | .inr fs => .ok (.inst k fs)
               | .inl e => e)
          | _ => .perr

def lookupD (k : Name) : List (Name × Decl) → Option Decl
  | [] => none
  | (k', d) :: rest => if k' == k then some d else lookupD k rest

/-- the fields of a declaration, inherited ones first, every reference read directly; the walk up the
bases is bounded by the number of declarations -/
def directFieldsF : Nat → List (Name × Decl) → Name → List (Nat × Ty)
  | 0, defs, k => (match lookupD k defs with | none => [] | some d => d.fields.map fun p => (p.1, p.2.direct))
  | n + 1, defs, k =>
    match lookupD k defs with
    | none => []
    | some d => dictMerge (d.bases.reverse.flatMap (directFieldsF n defs) ++ d.fields.map fun p => (p.1, p.2.direct))

/-- the declarations made so far, every reference read directly -/
def envOf (defs : List (Name × Decl)) : Env :=
  fun k => (lookupD k defs).map fun d => (d.rule, directFieldsF defs.length defs k)

def specRun (leaf : Val → Option Val) (chk : Nat → Val → Bool) (fuel : Nat) : List (Name × Decl) → List Op → List Outcome
  | _, [] => []
  | defs, .defn k d :: ops => specRun leaf chk fuel ((k, d) :: defs) ops
  | defs, .use k kvs :: ops =>
    specParse leaf chk (envOf defs) fuel (.data k) (.dict kvs) :: specRun leaf chk fuel defs ops

end Utv.C17
