import Utv.GenEq.Support
import Utv.Gen.Tables
import Utv.Gen.CodecTables
import Utv.Model.C14
/-!
C14 — T1 obligations: the tables of `utype/utils/transform.py` / `encode.py` the codec model (`Model/C14.lean`)
holds copies of are the ones regenerated from the source on every run.
-/
namespace Utv.GenEq.C14
open Utv.C14 Utv.Gen

theorem C14_gen_tables :
    DATE_FORMATS = CodecTables.DATE_FORMATS.map String.toList ∧
    DATETIME_FORMATS = CodecTables.DATETIME_FORMATS.map String.toList ∧
    NULL_VALUES = Tables.NULL_VALUES.map String.toList ∧
    FALSE_VALUES = Tables.FALSE_VALUES.map String.toList ∧
    TRUE_VALUES = Tables.TRUE_VALUES.map String.toList ∧
    (maxSafe : Int) = CodecTables.MAX_SAFE_NUMBER ∧ -(maxSafe : Int) = CodecTables.MIN_SAFE_NUMBER := by
  gen_obligation "C14_gen_tables: the regenerated code (Utv.Gen) is no longer equal to the hand model here" by
    refine ⟨?_, ?_, ?_, ?_, ?_, ?_, ?_⟩ <;> decide

end Utv.GenEq.C14
