import Utv.Model.C09
/-! Helper lemmas for Props/C09, Part B (construction algebra): invariants of the `combine` loop. -/
namespace Utv.C09

/-- an object that can be an argument after `_parse_arg`: None / typing aliases / literals have been replaced -/
def Ty.parsed : Ty → Bool
  | .noneV | .alias _ | .lit _ | .str _ | .tunion _ => false
  | _ => true

/-- an operand whose parsed form does not depend on WHEN it is parsed: everything except the operands for which
`Rule.annotate` creates a new class at each use (typing aliases, literals, typing.Union).  `None` and a forward
reference by name are stable: they parse to `NoneType` / to a `ForwardRef` that compares equal by name. -/
def Ty.stable : Ty → Bool
  | .alias _ | .lit _ | .tunion _ => false
  | _ => true

theorem parseArg_stable {t : Ty} (h : t.stable = true) (u : Nat) : parseArg u t = parseArg 0 t := by
  cases t <;> first | (cases h; done) | rfl

theorem stable_of_parsed {t : Ty} (h : t.parsed = true) : t.stable = true := by
  cases t <;> first | rfl | cases h

theorem parseArg_parsed (u : Nat) (t : Ty) : (parseArg u t).parsed = true := by
  cases t <;> rfl

theorem parseArg_of_parsed {u : Nat} {t : Ty} (h : t.parsed = true) : parseArg u t = t := by
  cases t <;> first | rfl | cases h

theorem same_refl (t : Ty) (h : t.parsed = true) : t.same t = true := by
  cases t <;> first | (cases h; done) | simp [Ty.same]

theorem parseArg_combinator (u : Nat) (t : Ty) : (parseArg u t).combinator = t.combinator := by
  cases t <;> rfl

/-! ### well-formedness of constructed types -/

/-- what "duplicates and Any are absorbed, a combinator keeps its operands" means for a constructed type
(identity-based, as the code compares classes) -/
inductive WF : Ty → Prop
  | leaf (t : Ty) : t.combinator = none → t.parsed = true → WF t
  | comb (c : Comb) (as : List Ty) (u : Nat) :
      as.Pairwise (fun a b => a.same b = false) →            -- no operand twice
      (∀ a ∈ as, a.parsed = true) →
      (c ≠ .neg → ∀ a ∈ as, a.same .anyT = false) →          -- Any never stays an operand of & | ^
      (c ≠ .neg → 2 ≤ as.length) →
      (c = .neg → as.length = 1) →
      (∀ a ∈ as, WF a) → WF (.comb c as u)

/-- "nested combinators of the same kind flatten; double negation cancels" -/
inductive Flat : Ty → Prop
  | leaf (t : Ty) : t.combinator = none → Flat t
  | comb (c : Comb) (as : List Ty) (u : Nat) :
      (∀ a ∈ as, a.combinator ≠ some c) → (∀ a ∈ as, Flat a) → Flat (.comb c as u)

/-- an operand (possibly still raw) all of whose parsed forms are well-formed and flat -/
def Good (t : Ty) : Prop := ∀ k, WF (parseArg k t) ∧ Flat (parseArg k t)

theorem good_of_parsed {t : Ty} (hp : t.parsed = true) (hw : WF t) (hf : Flat t) : Good t := by
  intro k; rw [parseArg_of_parsed hp]; exact ⟨hw, hf⟩

theorem Good.wf {t : Ty} (h : Good t) (hp : t.parsed = true) : WF t := by
  have := (h 0).1; rwa [parseArg_of_parsed hp] at this

theorem Good.flat {t : Ty} (h : Good t) (hp : t.parsed = true) : Flat t := by
  have := (h 0).2; rwa [parseArg_of_parsed hp] at this

theorem good_raw (t : Ty) (h : t.combinator = none) : Good t := by
  intro k
  have hc : (parseArg k t).combinator = none := by rw [parseArg_combinator]; exact h
  exact ⟨WF.leaf _ hc (parseArg_parsed k t), Flat.leaf _ hc⟩

/-! ### the loop of `combine` -/

structure Inv (op : Comb) (P : Ty → Prop) (l : List Ty) : Prop where
  nodup : l.Pairwise (fun a b => a.same b = false)
  parsed : ∀ a ∈ l, a.parsed = true
  noAny : op ≠ .neg → ∀ a ∈ l, a.same .anyT = false
  holds : ∀ a ∈ l, P a

theorem Inv.nil (op : Comb) (P : Ty → Prop) : Inv op P [] :=
  ⟨List.Pairwise.nil, by simp, by simp, by simp⟩

theorem Inv.snoc {op : Comb} {P : Ty → Prop} {l : List Ty} {a : Ty} (h : Inv op P l)
    (hnew : l.any (fun x => x.same a) = false) (hp : a.parsed = true)
    (hany : op ≠ .neg → a.same .anyT = false) (hP : P a) : Inv op P (l ++ [a]) := by
  refine ⟨?_, ?_, ?_, ?_⟩
  · rw [List.pairwise_append]
    refine ⟨h.nodup, List.pairwise_singleton _ _, ?_⟩
    intro x hx y hy
    simp only [List.mem_singleton] at hy
    subst hy
    have := List.any_eq_false.mp hnew x hx
    simpa using this
  · intro x hx
    rcases List.mem_append.mp hx with h1 | h1
    · exact h.parsed x h1
    · simp only [List.mem_singleton] at h1; subst h1; exact hp
  · intro hop x hx
    rcases List.mem_append.mp hx with h1 | h1
    · exact h.noAny hop x h1
    · simp only [List.mem_singleton] at h1; subst h1; exact hany hop
  · intro x hx
    rcases List.mem_append.mp hx with h1 | h1
    · exact h.holds x h1
    · simp only [List.mem_singleton] at h1; subst h1; exact hP

theorem combineLoop_inv (op : Comb) (u : Nat) (P : Ty → Prop) :
    ∀ (args acc : List Ty) (i : Nat) (res : List Ty),
      combineLoop op u args acc i = some res →
      (∀ a ∈ args, ∀ k, P (parseArg k a)) → Inv op P acc →
      Inv op P res ∧ res.length ≤ acc.length + args.length ∧ acc.length ≤ res.length := by
  intro args
  induction args with
  | nil =>
    intro acc i res h _ hinv
    simp only [combineLoop, Option.some.injEq] at h
    subst h
    exact ⟨hinv, by simp, Nat.le_refl _⟩
  | cons a rest ih =>
    intro acc i res h hP hinv
    have hPr : ∀ a ∈ rest, ∀ k, P (parseArg k a) := fun x hx => hP x (List.mem_cons_of_mem _ hx)
    have hPa := hP a (List.mem_cons_self) (u + 1 + i)
    have hpa := parseArg_parsed (u + 1 + i) a
    simp only [combineLoop] at h
    generalize parseArg (u + 1 + i) a = a' at h hPa hpa
    -- continue with the same accumulator
    have skip : ∀ {res}, combineLoop op u rest acc (i + 1) = some res →
        Inv op P res ∧ res.length ≤ acc.length + (a :: rest).length ∧ acc.length ≤ res.length := by
      intro res h
      obtain ⟨h1, h2, h3⟩ := ih acc (i + 1) res h hPr hinv
      exact ⟨h1, by simp at h2 ⊢; omega, h3⟩
    -- continue with the operand appended
    have push : ∀ {res}, acc.any (fun x => x.same a') = false → (op ≠ .neg → a'.same .anyT = false) →
        combineLoop op u rest (acc ++ [a']) (i + 1) = some res →
        Inv op P res ∧ res.length ≤ acc.length + (a :: rest).length ∧ acc.length ≤ res.length := by
      intro res hnew hany h
      obtain ⟨h1, h2, h3⟩ := ih (acc ++ [a']) (i + 1) res h hPr (hinv.snoc hnew hpa hany hPa)
      exact ⟨h1, by simp at h2 ⊢; omega, by simp at h3; omega⟩
    by_cases hA : a'.same .anyT = true
    · rw [if_pos hA] at h
      cases op with
      | any => cases h
      | one => cases h
      | all => exact skip h
      | neg =>
        simp only at h
        by_cases hd : acc.any (fun x => x.same a') = true
        · rw [if_pos hd] at h; exact skip h
        · rw [if_neg hd] at h
          exact push (by simpa using hd) (fun hop => absurd rfl hop) h
    · rw [if_neg hA] at h
      by_cases hd : acc.any (fun x => x.same a') = true
      · rw [if_pos hd] at h; exact skip h
      · rw [if_neg hd] at h
        exact push (by simpa using hd) (fun _ => by simpa using hA) h

/-- what `combine` can return -/
theorem combine_cases (op : Comb) (u : Nat) (args : List Ty) (P : Ty → Prop)
    (hP : ∀ a ∈ args, ∀ k, P (parseArg k a)) :
    combine op u args = .ruleBase ∨
    (op ≠ .neg ∧ P (combine op u args) ∧ (combine op u args).parsed = true) ∨
    (∃ as, combine op u args = .comb op as u ∧ Inv op P as ∧ 1 ≤ as.length ∧
      (op ≠ .neg → 2 ≤ as.length) ∧ as.length ≤ args.length) := by
  unfold combine
  cases h : combineLoop op u args [] 0 with
  | none => exact Or.inl rfl
  | some res =>
    obtain ⟨hinv, hlen, _⟩ := combineLoop_inv op u P args [] 0 res h hP (Inv.nil op P)
    match res, hinv, hlen with
    | [], _, _ => exact Or.inl rfl
    | [a], hinv, hlen =>
      by_cases hop : op = .neg
      · simp only [hop, if_true]
        subst hop
        exact Or.inr (Or.inr ⟨[a], rfl, hinv, by simp, fun h => absurd rfl h, by simpa using hlen⟩)
      · simp only [hop, if_false]
        exact Or.inr (Or.inl ⟨hop, hinv.holds a (by simp), hinv.parsed a (by simp)⟩)
    | a :: b :: rest, hinv, hlen =>
      exact Or.inr (Or.inr ⟨a :: b :: rest, rfl, hinv, by simp, fun _ => by simp, by simpa using hlen⟩)

/-! ### `combine` on operands with a stable identity: index independence, append, monotonicity -/

theorem combineLoop_index (op : Comb) (u : Nat) :
    ∀ (args acc : List Ty) (i j : Nat), (∀ a ∈ args, a.stable = true) →
      combineLoop op u args acc i = combineLoop op u args acc j := by
  intro args
  induction args with
  | nil => intros; rfl
  | cons a rest ih =>
    intro acc i j hp
    have ha := hp a List.mem_cons_self
    have hr : ∀ x ∈ rest, x.stable = true := fun x hx => hp x (List.mem_cons_of_mem _ hx)
    simp only [combineLoop, parseArg_stable ha (u + 1 + i), parseArg_stable ha (u + 1 + j)]
    rw [ih acc (i + 1) (j + 1) hr, ih (acc ++ [parseArg 0 a]) (i + 1) (j + 1) hr]

theorem combineLoop_append (op : Comb) (u : Nat) :
    ∀ (xs ys acc : List Ty) (i : Nat),
      combineLoop op u (xs ++ ys) acc i =
        (combineLoop op u xs acc i).bind fun acc' => combineLoop op u ys acc' (i + xs.length) := by
  intro xs
  induction xs with
  | nil => intros; simp [combineLoop]
  | cons a rest ih =>
    intro ys acc i
    have e : i + (a :: rest).length = i + 1 + rest.length := by simp; omega
    simp only [List.cons_append, combineLoop, e]
    split
    · cases op <;> simp only [Option.bind_none] <;> first | rfl | (try split) <;> rw [ih]
    · split <;> rw [ih]

theorem combineLoop_mono (op : Comb) (u : Nat) :
    ∀ (args acc : List Ty) (i : Nat) (res : List Ty),
      combineLoop op u args acc i = some res → ∀ x ∈ acc, x ∈ res := by
  intro args
  induction args with
  | nil =>
    intro acc i res h x hx
    simp only [combineLoop, Option.some.injEq] at h
    subst h; exact hx
  | cons a rest ih =>
    intro acc i res h x hx
    simp only [combineLoop] at h
    have hx' : x ∈ acc ++ [parseArg (u + 1 + i) a] := List.mem_append_left _ hx
    split at h
    · cases op with
      | any => cases h
      | one => cases h
      | all => exact ih _ _ _ h x hx
      | neg =>
        simp only at h
        split at h
        · exact ih _ _ _ h x hx
        · exact ih _ _ _ h x hx'
    · split at h
      · exact ih _ _ _ h x hx
      · exact ih _ _ _ h x hx'

/-- once an operand has been processed, processing it again changes nothing -/
theorem combineLoop_seen (op : Comb) (u : Nat) (t : Ty) (ht : t.stable = true)
    (ys acc acc2 : List Ty) (i k : Nat)
    (h : combineLoop op u (t :: ys) acc i = some acc2) (zs : List Ty) :
    combineLoop op u (t :: zs) acc2 k = combineLoop op u zs acc2 (k + 1) := by
  simp only [combineLoop, parseArg_stable ht (u + 1 + i), parseArg_stable ht (u + 1 + k)] at h ⊢
  have hp := parseArg_parsed 0 t
  generalize parseArg 0 t = t' at h hp ⊢
  by_cases hA : t'.same .anyT = true
  · rw [if_pos hA] at h ⊢
    cases op with
    | any => cases h
    | one => cases h
    | all => rfl
    | neg =>
      simp only at h ⊢
      have hin : t' ∈ acc2 := by
        split at h
        · rename_i hd
          obtain ⟨x, hx, hs⟩ := List.any_eq_true.mp hd
          -- an operand identical to Any that is already present: Any itself
          have : x = t' := by
            cases t' <;> simp [Ty.same] at hA
            cases x <;> simp [Ty.same] at hs
            rfl
          subst this
          exact combineLoop_mono _ _ _ _ _ _ h x hx
        · exact combineLoop_mono _ _ _ _ _ _ h t' (by simp)
      have : acc2.any (fun x => x.same t') = true := List.any_eq_true.mpr ⟨t', hin, same_refl t' hp⟩
      rw [if_pos this]
  · rw [if_neg hA] at h ⊢
    have hin : ∃ x ∈ acc2, x.same t' = true := by
      split at h
      · rename_i hd
        obtain ⟨x, hx, hs⟩ := List.any_eq_true.mp hd
        exact ⟨x, combineLoop_mono _ _ _ _ _ _ h x hx, hs⟩
      · exact ⟨t', combineLoop_mono _ _ _ _ _ _ h t' (by simp), same_refl t' hp⟩
    obtain ⟨x, hx, hs⟩ := hin
    have : acc2.any (fun x => x.same t') = true := List.any_eq_true.mpr ⟨x, hx, hs⟩
    rw [if_pos this]

end Utv.C09
