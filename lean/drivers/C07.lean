import Utv.Model.C07
import Utv.Util.J
open Lean Utv.J Utv.C07

/-! Driver for C07.  Values are canonical JSON texts (`V := String`); the converter of every field
type, the typed-addition converter and deferred defaults are lookup tables filled by the harness from
the library's type-level API; a property getter returns the tuple of its dependency values. -/

def strs (j : Json) : List String := (arr! j).map str!

def mkField (j : Json) : Field :=
  { attname := str! (fld j "att"), name := str! (fld j "name"), aliases := strs (fld j "aliases"),
    required := bool! (fld j "required"), immutable := bool! (fld j "immutable"),
    noOutput := bool! (fld j "no_output"), isProp := bool! (fld j "prop"),
    deps := strs (fld j "deps"), dependants := strs (fld j "dependants") }

def mkOpts (j : Json) : Opts :=
  { immutable := bool! (fld j "immutable"), ignoreRequired := bool! (fld j "ignore_required"),
    ignoreDeleteNonexistent := bool! (fld j "ignore_delete_nonexistent"), override := bool! (fld j "override"),
    addition := match str! (fld j "addition") with
      | "forbid" => .forbid | "allow" => .allow | "typed" => .typed | _ => .ignore }

def optStr (j : Json) : Option String := j.getStr?.toOption

def mkWorld (j : Json) : World String :=
  let pt : List ((String × String) × Option String) := (arr! (fld j "ptable")).map fun r =>
    match arr! r with
    | [f, x, y] => ((str! f, str! x), optStr y)
    | _ => (("", ""), none)
  let atb : List (String × Option String) := (arr! (fld j "atable")).map fun r =>
    match arr! r with
    | [x, y] => (str! x, optStr y)
    | _ => ("", none)
  let df : List (String × String) := (arr! (fld j "deferred")).map fun r =>
    match arr! r with
    | [f, y] => (str! f, str! y)
    | _ => ("", "")
  -- property getters: "tuple" returns the tuple of the dependency values; "guard" the same but raises when the
  -- first one is falsy; "ge10" returns the first one and declares the return type Ge10 (conversion table)
  let kinds : List (String × String) := (arr! (fld j "propkinds")).map fun r =>
    match arr! r with
    | [p, k] => (str! p, str! k)
    | _ => ("", "")
  let falsy : List String := ["null", "{\"i\":\"0\"}", "{\"s\":\"\"}", "{\"b\":false}"]
  let ct : List ((String × String) × Option String) := (arr! (fld j "ctable")).map fun r =>
    match arr! r with
    | [p, x, y] => ((str! p, str! x), optStr y)
    | _ => (("", ""), none)
  let tup := fun (xs : List String) => "{\"t\":[" ++ ",".intercalate xs ++ "]}"
  { parse := fun f x => match pt.lookup (f, x) with | some r => r | none => some "\"PRIM-MISS\""
    parseAdd := fun x => match atb.lookup x with | some r => r | none => some "\"PRIM-MISS\""
    getter := fun p xs => match kinds.lookup p with
      | some "guard" => (match xs with
        | x :: _ => if falsy.contains x then none else some (tup xs)
        | [] => some (tup xs))
      | some "ge10" => xs.head?
      | _ => some (tup xs)
    convert := fun p raw => match kinds.lookup p with
      | some "ge10" => (match ct.lookup (p, raw) with | some r => r | none => some "\"PRIM-MISS\"")
      | _ => some raw
    deferred := fun f => df.lookup f }

def mkMap (j : Json) : Map String := (arr! j).map fun r =>
  match arr! r with
  | [k, v] => (str! k, str! v)
  | _ => ("", "")

def mkOp (j : Json) : HOp String :=
  let i := nat! (fld j "i")
  let k := str! (fld j "k")
  let v := str! (fld j "v")
  match str! (fld j "op") with
  | "copy" => .copy i
  | "setattr" => .on i (.setattr k v)
  | "delattr" => .on i (.delattr k)
  | "setitem" => .on i (.setitem k v)
  | "delitem" => .on i (.delitem k)
  | "update" => .on i (.update (mkMap (fld j "kv")))
  | "ior" => .on i (.ior (mkMap (fld j "kv")))
  | "pop" => .on i (.pop k (optStr (fld j "d")))
  | "popitem" => .on i .popitem
  | "setdefault" => .on i (.setdefault k v)
  | _ => .on i .clear

def outMap (m : Map String) : Json := Json.arr (m.map fun (k, v) => Json.arr #[Json.str k, Json.str v]).toArray

def outOpt : Option String → Json | some s => Json.str s | none => Json.null

def excName : Exc → String
  | .update => "UpdateError" | .delete => "DeleteError" | .parse => "ParseError" | .key => "KeyError" | .attr => "AttributeError"

def outState (dc : Bool) (C : Cls) (W : World String) (s : State String) : Json :=
  Json.mkObj [("data", outMap s.data), ("attrs", outMap s.attrs),
    ("view", Json.arr (C.fields.map fun f =>
      Json.arr #[Json.str f.attname, outOpt (if dc then dcGetattr s f else getattr C W s f)]).toArray),
    ("has", Json.arr (C.fields.map fun f =>
      Json.arr #[Json.str f.attname, Json.bool (if dc then dcContains C s f.attname else contains C s f.attname)]).toArray)]

def outRes : Res String → List (String × Json)
  | .ok r => [("res", Json.str "ok"), ("ret", outOpt r)]
  | .err e => [("res", Json.str (excName e)), ("ret", Json.null)]

def handle (j : Json) : Json :=
  let dc := str! (fld j "base") == "dataclass"
  let lg := bool! (fld j "legacy")
  let C0 : Cls := { fields := (arr! (fld j "fields")).map mkField, excluded := strs (fld j "excluded"),
                    opts := mkOpts (fld j "opts") }
  -- the options of the context the instance was built in (null: built directly)
  let enc : Option Opts := if isNull (fld j "enclosing") then none else some (mkOpts (fld j "enclosing"))
  let C : Cls := if dc then dcInstanceCls C0 enc else instanceCls C0 enc
  let W := mkWorld j
  let s00 : State String := { data := mkMap (fld (fld j "init") "data"), attrs := mkMap (fld (fld j "init") "attrs") }
  let ops := (arr! (fld j "ops")).map mkOp
  if dc then
    -- a DataClass is a single instance; `copy` does not exist
    let rec go (s : State String) : List (HOp String) → List Json
      | [] => []
      | .on _ op :: rest => let r := dcStep C W s op
          Json.mkObj (outRes r.2 ++ [("heap", Json.arr #[outState true C W r.1])]) :: go r.1 rest
      | .copy _ :: rest => Json.mkObj (outRes (.err .attr) ++ [("heap", Json.arr #[outState true C W s])]) :: go s rest
    Json.mkObj [("init", Json.arr #[outState true C W s00]), ("steps", Json.arr (go s00 ops).toArray)]
  else
    match postInit C W s00 with
    | none => Json.mkObj [("init-raised", Json.bool true)]
    | some s0 =>
    let tr := htrace lg C W [s0] ops
    Json.mkObj [("init", Json.arr #[outState false C W s0]),
      ("steps", Json.arr (tr.map fun (h, r) =>
        Json.mkObj (outRes r ++ [("heap", Json.arr (h.map (outState false C W)).toArray)])).toArray)]

def main : IO Unit := serve handle
