example (l : List Nat) (p : Nat → Bool) (h : l.Nodup) : (l.filter p).Nodup := by
  exact h.sublist List.filter_sublist
#check @List.Nodup.sublist
#check @List.Pairwise.filter
