import Utv.Model.C01
/-! C01 — one lemma per converter: whatever `to_x` returns is an instance of the class it was asked for.
Every "returns its argument" branch of `Utv.Conv` is justified here. -/
namespace Utv.C01
open Utv.Conv

/-- the CPython builtins return values of their documented class (audited by the correspondence run: the
prim tables are filled with the real builtins' answers) -/
structure PrimsTyped (P : Prims) : Prop where
  complexOf : ∀ v r, P.complexOf v = .ok r → ∃ a b, r = .complex a b
  complexOf2 : ∀ a b r, P.complexOf2 a b = .ok r → ∃ x y, r = .complex x y
  utcFromTs : ∀ v r, P.utcFromTs v = .ok r → ∃ c d t, r = .datetime c d t
  strptime : ∀ s f r, P.strptime s f = .ok r → ∃ c d t, r = .datetime c d t
  timeFromIso : ∀ s r, P.timeFromIso s = .ok r → ∃ c t, r = .time c t
  timedeltaKw : ∀ s kw r, P.timedeltaKw s kw = .ok r → ∃ c us, r = .delta c us
  timedeltaSec : ∀ f r, P.timedeltaSec f = .ok r → ∃ c us, r = .delta c us
  initObj : ∀ k v r, P.initObj k v = .ok r → r = .obj k

/-! ### basic facts about `isInstT` -/

theorem isInstT_of_cls {v : V} {b : Base} {c : Nat} (h : v.cls? = some (b, c)) : isInstT v (.cls b c) = true := by
  cases c with
  | zero => simp [isInstT, isInst, h, Base.sub]
  | succ k => simp [isInstT, h]

theorem typeEq_isInstT {v : V} {t : Target} (h : typeEq v t = true) : isInstT v t = true := by
  have ht : v.typeOf = t := by simpa [typeEq] using h
  subst ht
  cases v <;> first
    | exact isInstT_of_cls rfl
    | simp [V.typeOf, isInstT]

@[simp] theorem inst_int (c : Nat) (i : Int) : isInstT (.int c i) (.cls .int c) = true := isInstT_of_cls rfl
@[simp] theorem inst_float (c : Nat) (f) : isInstT (.float c f) (.cls .float c) = true := isInstT_of_cls rfl
@[simp] theorem inst_dec (c : Nat) (d) : isInstT (.dec c d) (.cls .decimal c) = true := isInstT_of_cls rfl
@[simp] theorem inst_str (c : Nat) (s) : isInstT (.str c s) (.cls .str c) = true := isInstT_of_cls rfl
@[simp] theorem inst_bytes (k : BytesK) (c : Nat) (bs) : isInstT (.bytes k c bs) (.cls k.base c) = true := isInstT_of_cls rfl
@[simp] theorem inst_seq (k : SeqK) (c : Nat) (xs) : isInstT (.seq k c xs) (.cls k.base c) = true := isInstT_of_cls rfl
@[simp] theorem inst_dict (c : Nat) (kvs) : isInstT (.dict c kvs) (.cls .dict c) = true := isInstT_of_cls rfl
@[simp] theorem inst_date (c : Nat) (d) : isInstT (.date c d) (.cls .date c) = true := isInstT_of_cls rfl
@[simp] theorem inst_datetime (c : Nat) (d t) : isInstT (.datetime c d t) (.cls .datetime c) = true := isInstT_of_cls rfl
@[simp] theorem inst_time (c : Nat) (t) : isInstT (.time c t) (.cls .time c) = true := isInstT_of_cls rfl
@[simp] theorem inst_delta (c : Nat) (us) : isInstT (.delta c us) (.cls .timedelta c) = true := isInstT_of_cls rfl
@[simp] theorem inst_uuid (c : Nat) (n) : isInstT (.uuid c n) (.cls .uuid c) = true := isInstT_of_cls rfl
@[simp] theorem inst_bool (b : Bool) : isInstT (.bool b) (.cls .bool 0) = true := isInstT_of_cls rfl
@[simp] theorem inst_none : isInstT .none (.cls .noneType 0) = true := isInstT_of_cls rfl
@[simp] theorem inst_complex (a b) : isInstT (.complex a b) (.cls .complex 0) = true := isInstT_of_cls rfl
@[simp] theorem inst_enum (k i : Nat) : isInstT (.enum k i) (.enum k) = true := by simp [isInstT]

/-! ### reasoning about what a computation can return -/

/-- every value `x` can return satisfies `Q` -/
def Ret {α} (x : Outcome α) (Q : α → Prop) : Prop := ∀ r, x = .ok r → Q r

theorem Ret.ok {α} {Q : α → Prop} {a : α} (h : Q a) : Ret (.ok a) Q := by
  intro r hr; cases hr; exact h
theorem Ret.pure {α} {Q : α → Prop} {a : α} (h : Q a) : Ret (Pure.pure a : Outcome α) Q := Ret.ok h
theorem Ret.perr {α} {Q : α → Prop} (e) : Ret (.perr e : Outcome α) Q := by intro r hr; cases hr
theorem Ret.escape {α} {Q : α → Prop} (e) : Ret (.escape e : Outcome α) Q := by intro r hr; cases hr
theorem Ret.diverge {α} {Q : α → Prop} : Ret (.diverge : Outcome α) Q := by intro r hr; cases hr
theorem Ret.unmodelled {α} {Q : α → Prop} (w) : Ret (.unmodelled w : Outcome α) Q := by intro r hr; cases hr
theorem Ret.bind {α β} {x : Outcome α} {f : α → Outcome β} {Q : β → Prop}
    (h : ∀ a, x = .ok a → Ret (f a) Q) : Ret (x >>= f) Q := by
  intro r hr
  obtain ⟨a, ha, hfa⟩ := Outcome.bind_eq_ok.mp hr
  exact h a ha r hfa
theorem Ret.bind' {α β} {x : Outcome α} {f : α → Outcome β} {Q : β → Prop}
    (h : ∀ a, Ret (f a) Q) : Ret (x >>= f) Q := Ret.bind (fun a _ => h a)
theorem Ret.mono {α} {x : Outcome α} {Q Q' : α → Prop} (h : Ret x Q) (hq : ∀ a, Q a → Q' a) : Ret x Q' :=
  fun r hr => hq r (h r hr)
theorem Ret.orElseTV {α} {x h : Outcome α} {Q : α → Prop} (hx : Ret x Q) (hh : Ret h Q) : Ret (x.orElseTV h) Q := by
  cases x <;> simp [Outcome.orElseTV] <;> first | exact hh | exact hx
theorem Ret.orElseV {α} {x h : Outcome α} {Q : α → Prop} (hx : Ret x Q) (hh : Ret h Q) : Ret (x.orElseV h) Q := by
  cases x with
  | perr e => cases e <;> simp [Outcome.orElseV] <;> first | exact hh | exact hx
  | _ => simpa [Outcome.orElseV] using hx

/-- one step of a compositional `Ret` proof -/
macro "ret_step" : tactic => `(tactic| first
  | exact Ret.perr _ | exact Ret.escape _ | exact Ret.diverge | exact Ret.unmodelled _
  | (with_reducible (apply Ret.bind'); intro _)
  | (with_reducible (apply Ret.ok); simp; done)
  | (with_reducible (apply Ret.pure); simp; done)
  | split
  | dsimp only)
macro "ret_auto" : tactic => `(tactic| repeat' ret_step)

/-! ### to_null, to_str, to_bytes -/

theorem conv_to_null_isinstance (f : Flags) (v : V) : Ret (toNull f v) (isInstT · (.cls .noneType 0) = true) := by
  unfold toNull; ret_auto

theorem conv_to_str_isinstance (P : Prims) (E : Env) (f : Flags) (c : Nat) (v : V) :
    Ret (toStr P E f c v) (isInstT · (.cls .str c) = true) := by
  unfold toStr; ret_auto

theorem conv_to_bytes_isinstance (P : Prims) (E : Env) (f : Flags) (b : BytesK) (c : Nat) (v : V) :
    Ret (toBytes P E f b c v) (isInstT · (.cls b.base c) = true) := by
  unfold toBytes; ret_auto

/-! ### containers -/

theorem construct_inst (b : SeqK) (c : Nat) (items : List V) :
    Ret (construct b c items) (isInstT · (.cls b.base c) = true) := by
  unfold construct; ret_auto

theorem arrayTail_inst (f : Flags) (b : SeqK) (c : Nat) (d : V) :
    Ret (arrayTail f b c d) (isInstT · (.cls b.base c) = true) := by
  unfold arrayTail
  repeat' (first | with_reducible exact construct_inst _ _ _ | ret_step)

theorem constructFrom_inst (b : SeqK) (c : Nat) (v : V) :
    Ret (constructFrom b c v) (isInstT · (.cls b.base c) = true) := by
  unfold constructFrom
  repeat' (first | with_reducible exact construct_inst _ _ _ | ret_step)

theorem arrayOfString_inst (P : Prims) (f : Flags) (b : SeqK) (c : Nat) (s0 : String) :
    Ret (arrayOfString P f b c s0) (isInstT · (.cls b.base c) = true) := by
  unfold arrayOfString
  dsimp only
  split
  · split
    · split
      · exact construct_inst _ _ _
      · exact arrayTail_inst _ _ _ _
    · apply Ret.bind'; intro lit
      split
      · exact constructFrom_inst _ _ _
      · exact arrayTail_inst _ _ _ _
    all_goals ret_step
  · split
    · exact construct_inst _ _ _
    · exact arrayTail_inst _ _ _ _

theorem conv_to_array_isinstance (P : Prims) (f : Flags) (b : SeqK) (c : Nat) (v : V) :
    Ret (toArray P f b c v) (isInstT · (.cls b.base c) = true) := by
  unfold toArray
  split
  · rename_i h; exact Ret.ok h          -- `isinstance(data, t)`: the argument itself
  · repeat' (first | with_reducible exact constructFrom_inst _ _ _ | with_reducible exact arrayOfString_inst _ _ _ _ _ | with_reducible exact arrayTail_inst _ _ _ _ | ret_step)

theorem dictOfString_inst (P : Prims) (E : Env) (f : Flags) (c : Nat) (s0 : String) :
    Ret (dictOfString P E f c s0) (isInstT · (.cls .dict c) = true) := by
  unfold dictOfString
  split
  · apply Ret.bind'; intro kvs; exact Ret.ok (by simp)
  · dsimp only
    split
    · apply Ret.bind'; intro lit
      apply Ret.bind'; intro res
      split
      · exact Ret.ok (by simp)
      · exact Ret.perr _
    · split
      · split
        · apply Ret.bind'; intro qs
          apply Ret.bind'; intro kvs
          exact Ret.ok (by simp)
        · exact Ret.ok (by simp)
      · exact Ret.perr _
  all_goals ret_step

theorem dictRest_inst (P : Prims) (E : Env) (f : Flags) (c : Nat) (v : V) :
    Ret (dictRest P E f c v) (isInstT · (.cls .dict c) = true) := by
  unfold dictRest
  repeat' (first | with_reducible exact dictOfString_inst _ _ _ _ _ | ret_step)

theorem conv_to_dict_isinstance (P : Prims) (E : Env) (f : Flags) (c : Nat) (v : V) :
    Ret (toDict P E f c v) (isInstT · (.cls .dict c) = true) := by
  unfold toDict
  split
  · rename_i h; exact Ret.ok h          -- `isinstance(data, t)`: the argument itself
  · repeat' (first | with_reducible exact dictRest_inst _ _ _ _ _ | ret_step)

/-! ### numbers -/

theorem floatOf_inst (P : Prims) (c : Nat) (d : V) : Ret (floatOf P c d) (isInstT · (.cls .float c) = true) := by
  unfold floatOf; ret_auto

theorem conv_to_float_isinstance (P : Prims) (E : Env) (f : Flags) (c : Nat) (v : V) :
    Ret (toFloat P E f c v) (isInstT · (.cls .float c) = true) := by
  unfold toFloat
  repeat' (first | with_reducible exact floatOf_inst _ _ _ | ret_step)

theorem intFinish_inst (P : Prims) (f : Flags) (c : Nat) (d : V) :
    Ret (intFinish P f c d) (isInstT · (.cls .int c) = true) := by
  unfold intFinish; ret_auto

/-- `to_integer` after `_attempt_from_number`.  The boolean words give the literals `0` / `1` whatever `t` is:
conforming only for `int` itself (known finding subclass-result-plain). -/
theorem intAfter_inst (P : Prims) (f : Flags) (d : V) :
    Ret (intAfter P f 0 d) (isInstT · (.cls .int 0) = true) := by
  unfold intAfter
  split
  · repeat' (first | with_reducible exact intFinish_inst _ _ _ _ | ret_step)
  · split
    · rename_i h; exact Ret.ok (intOfInst_inst _ h)        -- `isinstance(data, t)`: `t(data)` (fix C12-int-from-sequence-keeps-bool)
    · exact intFinish_inst _ _ _ _

theorem conv_to_integer_isinstance (P : Prims) (E : Env) (f : Flags) (v : V) :
    Ret (toInteger P E f 0 v) (isInstT · (.cls .int 0) = true) := by
  unfold toInteger
  repeat' (first | with_reducible exact intFinish_inst _ _ _ _ | with_reducible exact intAfter_inst _ _ _ | ret_step)

theorem conv_to_decimal_isinstance (P : Prims) (E : Env) (f : Flags) (c : Nat) (v : V) :
    Ret (toDecimal P E f c v) (isInstT · (.cls .decimal c) = true) := by
  unfold toDecimal; ret_auto

theorem complexOf_inst (P : Prims) (hP : PrimsTyped P) (d : V) :
    Ret (Conv.complexOf P d) (isInstT · (.cls .complex 0) = true) := by
  have hp : ∀ d, Ret (P.complexOf d) (isInstT · (.cls .complex 0) = true) := by
    intro d r hr; obtain ⟨a, b, rfl⟩ := hP.complexOf d r hr; simp
  unfold Conv.complexOf
  repeat' (first | with_reducible exact hp _ | ret_step)

theorem conv_to_complex_isinstance (P : Prims) (hP : PrimsTyped P) (E : Env) (f : Flags) (v : V) :
    Ret (toComplex P E f 0 v) (isInstT · (.cls .complex 0) = true) := by
  have hp2 : ∀ a b, Ret (P.complexOf2 a b) (isInstT · (.cls .complex 0) = true) := by
    intro a b r hr; obtain ⟨x, y, rfl⟩ := hP.complexOf2 a b r hr; simp
  unfold toComplex
  split
  · rename_i h; exact Ret.ok h          -- `isinstance(data, t)`: the argument itself
  · repeat' (first | with_reducible exact complexOf_inst P hP _ | with_reducible exact hp2 _ _ | ret_step)

theorem conv_to_bool_isinstance (P : Prims) (f : Flags) (v : V) :
    Ret (Conv.toBool P f v) (isInstT · (.cls .bool 0) = true) := by
  unfold Conv.toBool; ret_auto

/-! ### date / time -/

theorem retag_datetime (c : Nat) (r : V) (h : ∃ c' d t, r = .datetime c' d t) :
    isInstT (retag c r) (.cls .datetime c) = true := by
  obtain ⟨c', d, t, rfl⟩ := h; simp [retag]

theorem timestampResult_inst (P : Prims) (hP : PrimsTyped P) (c : Nat) (x : V) :
    Ret (timestampResult P c x) (isInstT · (.cls .datetime c) = true) := by
  unfold timestampResult
  apply Ret.bind'; intro fin
  split
  · exact Ret.perr _
  · apply Ret.bind'; intro y
    apply Ret.bind; intro r hr
    exact Ret.ok (retag_datetime c r (hP.utcFromTs y r hr))

theorem firstFormat_inst (P : Prims) (hP : PrimsTyped P) (s suffix : String) (isUtc : Bool) (c : Nat) :
    ∀ fmts, Ret (firstFormat P s suffix isUtc c fmts) (fun o => ∀ r, o = some r → isInstT r (.cls .datetime c) = true) := by
  intro fmts
  induction fmts with
  | nil => exact Ret.ok (by simp)
  | cons fmt rest ih =>
    unfold firstFormat
    split
    · rename_i val hv
      apply Ret.ok
      intro r hr
      cases hr
      obtain ⟨c', d, t, rfl⟩ := hP.strptime _ _ _ hv
      cases isUtc <;> simp [retag, setUtc]
    · exact ih
    all_goals ret_step

theorem conv_to_datetime_isinstance (P : Prims) (hP : PrimsTyped P) (E : Env) (f : Flags) (c : Nat) (df : Bool) (v : V) :
    Ret (toDatetime P E f c df v) (isInstT · (.cls .datetime c) = true) := by
  unfold toDatetime
  split
  · rename_i h; exact Ret.ok h          -- `isinstance(data, t)`: the argument itself
  · split
    · exact Ret.ok (by simp)
    · exact Ret.ok (by simp)
    · apply Ret.bind'; intro d
      split
      · exact timestampResult_inst P hP c d
      · apply Ret.bind'; intro d2
        split
        · dsimp only
          apply Ret.bind; intro o1 h1
          split
          · rename_i r; exact Ret.ok (firstFormat_inst P hP _ _ _ c _ _ h1 r rfl)
          · apply Ret.bind; intro o2 h2
            split
            · rename_i r
              apply Ret.ok
              split at h2
              · exact firstFormat_inst P hP _ _ _ c _ _ h2 r rfl
              · cases h2
            · split
              · exact timestampResult_inst P hP c _
              all_goals ret_step
        all_goals ret_step

theorem conv_to_date_isinstance (P : Prims) (E : Env) (f : Flags) (v : V) :
    Ret (toDate P E f v) (isInstT · (.cls .date 0) = true) := by
  unfold toDate
  split
  · split
    · exact Ret.perr _
    · exact Ret.ok (by simp)
  · exact Ret.ok (by simp [isInstT, isInst, V.cls?, Base.sub])     -- a date (subclass) instance: the argument itself
  · apply Ret.bind'; intro dt
    split
    · split
      · exact Ret.perr _
      · exact Ret.ok (by simp)
    · exact Ret.unmodelled _

/-- `to_time` for the class `time` itself (`data.time()` and `to_datetime(...).time()` are plain `time`s:
known finding subclass-result-plain for subclasses) -/
theorem conv_to_time_isinstance (P : Prims) (hP : PrimsTyped P) (E : Env) (f : Flags) (v : V) :
    Ret (toTime P E f 0 v) (isInstT · (.cls .time 0) = true) := by
  unfold toTime
  split
  · rename_i h; exact Ret.ok h          -- `isinstance(data, t)`: the argument itself
  · apply Ret.bind'; intro d
    dsimp only
    split
    · rename_i r hr
      apply Ret.ok
      split at hr
      · cases hr
      · split at hr <;> cases hr <;> simp
    · apply Ret.bind'; intro d2
      split
      · split
        · split
          · rename_i r hr
            obtain ⟨c', t, rfl⟩ := hP.timeFromIso _ _ hr
            exact Ret.ok (by simp [retag])
          · apply Ret.bind'; intro dt
            split
            · exact Ret.ok (by simp)
            · exact Ret.unmodelled _
          · exact Ret.unmodelled _
          · rename_i hnok _ _
            intro x hx; exact (hnok x hx).elim
        · exact Ret.perr _
      · exact Ret.perr _

theorem durationKw_inst (P : Prims) (hP : PrimsTyped P) (c : Nat) (kw) :
    Ret (durationKw P c kw) (isInstT · (.cls .timedelta 0) = true) := by
  unfold durationKw
  dsimp only
  apply Ret.bind'; intro kwf
  apply Ret.bind; intro r hr
  obtain ⟨c', us, rfl⟩ := hP.timedeltaKw _ _ _ hr
  exact Ret.ok (by simp [retag])

theorem durationRegs_inst (P : Prims) (hP : PrimsTyped P) (c : Nat) (s : String) :
    ∀ is, Ret (durationRegs P c s is) (fun o => ∀ r, o = some r → isInstT r (.cls .timedelta 0) = true) := by
  intro is
  induction is with
  | nil => exact Ret.ok (by simp)
  | cons i rest ih =>
    unfold durationRegs
    apply Ret.bind'; intro m
    split
    · apply Ret.bind; intro r hr
      apply Ret.ok
      intro r' h'; cases h'
      exact durationKw_inst P hP c _ r hr
    · exact ih

/-- `to_timedelta` for the class `timedelta` itself (`sign * t(**kw)` is a plain timedelta: known finding
subclass-result-plain for subclasses) -/
theorem conv_to_timedelta_isinstance (P : Prims) (hP : PrimsTyped P) (E : Env) (f : Flags) (v : V) :
    Ret (toTimedelta P E f 0 v) (isInstT · (.cls .timedelta 0) = true) := by
  unfold toTimedelta
  split
  · rename_i h; exact Ret.ok h          -- `isinstance(data, t)`: the argument itself
  · apply Ret.bind'; intro d
    apply Ret.bind'; intro d2
    split
    · split
      · exact Ret.perr _
      · apply Ret.bind; intro r hr
        obtain ⟨c', us, rfl⟩ := hP.timedeltaSec _ _ hr
        exact Ret.ok (by simp [retag])
    · exact Ret.unmodelled _
    · split
      · apply Ret.bind; intro o ho
        split
        · rename_i r; exact Ret.ok (durationRegs_inst P hP 0 _ _ _ ho r rfl)
        · split
          · exact Ret.perr _
          · apply Ret.bind'; intro tm
            split
            · exact Ret.ok (by simp)
            · exact Ret.unmodelled _
      · exact Ret.perr _
    all_goals ret_step

theorem conv_to_uuid_isinstance (P : Prims) (f : Flags) (c : Nat) (v : V) :
    Ret (toUuid P f c v) (isInstT · (.cls .uuid c) = true) := by
  unfold toUuid
  split
  · rename_i h; exact Ret.ok h          -- `isinstance(data, t)`: the argument itself
  · ret_auto

/-! ### Enum -/

theorem enumCall_inst (E : Env) (k : Nat) (v : V) : Ret (enumCall E k v) (isInstT · (.enum k) = true) := by
  unfold enumCall; ret_auto

theorem enumNameFallback_inst (E : Env) (f : Flags) (k : Nat) (v : V) (o : Outcome V)
    (ho : Ret o (isInstT · (.enum k) = true)) : Ret (enumNameFallback E f k v o) (isInstT · (.enum k) = true) := by
  unfold enumNameFallback
  split
  · split
    · split
      · rename_i r hr
        unfold enumByName at hr
        split at hr
        · cases hr
        · split at hr
          · simp only [Option.map_eq_some_iff] at hr
            obtain ⟨a, _, rfl⟩ := hr
            exact Ret.ok (by simp)
          · cases hr
      · exact ho
    · exact ho
  · exact ho

theorem conv_to_enum_isinstance (P : Prims) (E : Env) (f : Flags) (k : Nat) (v : V) :
    Ret (toEnum P E f k v) (isInstT · (.enum k) = true) := by
  unfold toEnum
  split
  · split
    · rename_i h; exact Ret.ok (by simpa [isInstT] using h)      -- a member of the class: the argument itself
    · split
      · exact enumCall_inst _ _ _
      · exact Ret.unmodelled _
  · split
    · exact enumCall_inst _ _ _
    · split
      · exact Ret.unmodelled _
      · have hb : Ret (enumBody P E f k (by assumption) v) (isInstT · (.enum k) = true) := by
          unfold enumBody
          split
          · apply Ret.bind'; intro value; exact enumCall_inst _ _ _
          · exact enumCall_inst _ _ _
        split
        · rename_i r hr; exact Ret.ok (hb r hr)
        · exact enumNameFallback_inst _ _ _ _ _ (Ret.perr _)
        · exact enumNameFallback_inst _ _ _ _ _ (Ret.escape _)
        · exact Ret.diverge
        · exact Ret.unmodelled _

/-! ### the transformer call on a class -/

namespace KnownDefect
/-- known finding `subclass-result-plain`: `to_integer` (boolean words), `to_time` (`.time()`), `to_timedelta`
(`sign * t(**kw)`) build a value of the builtin class when a user subclass was asked for -/
def subclassPlain : Target → Bool
  | .cls .int (_ + 1) => true
  | .cls .time (_ + 1) => true
  | .cls .timedelta (_ + 1) => true
  | _ => false
end KnownDefect

/-- classes that exist: `bool` cannot be subclassed, and the value universe has no `complex` subclass -/
def targetExists : Target → Bool
  | .cls .bool (_ + 1) => false
  | .cls .complex (_ + 1) => false
  | _ => true

theorem handleUnresolved_inst (P : Prims) (hP : PrimsTyped P) (u : Unresolved) (hu : u ≠ .ignore) (t : Target) (v : V) :
    Ret (handleUnresolved P u t v) (isInstT · t = true) := by
  unfold handleUnresolved
  split
  · rename_i h; exact Ret.ok h          -- `isinstance(data, t)`: the argument itself
  · split
    · exact Ret.perr _
    · split
      · intro r hr
        rw [hP.initObj _ v r hr]; simp [isInstT]
      · exact Ret.unmodelled _
    · exact absurd rfl hu

theorem transform_isinstance (P : Prims) (hP : PrimsTyped P) (E : Env) (f : Flags) (u : Unresolved)
    (hu : u ≠ .ignore) (t : Target) (hk : KnownDefect.subclassPlain t = false) (he : targetExists t = true)
    (ha : ∀ a, t ≠ .abc a) (v : V) :
    Ret (transformU P E f u t v) (isInstT · t = true) := by
  unfold transformU
  split
  · rename_i h; exact Ret.ok (typeEq_isInstT h)      -- exact type: the argument itself
  · split
    · exact Ret.unmodelled _
    · cases t with
      | abc a => exact absurd rfl (ha a)
      | obj k => simpa [resolve] using handleUnresolved_inst P hP u hu (.obj k) v
      | enum k => simpa [resolve, runConv] using conv_to_enum_isinstance P E f k v
      | cls b c =>
        cases b
        case noneType =>
          cases c with
          | zero => simpa [resolve, runConv] using conv_to_null_isinstance f v
          | succ n => simpa [resolve] using handleUnresolved_inst P hP u hu _ v
        case bool =>
          cases c with
          | zero => simpa [resolve, runConv] using conv_to_bool_isinstance P f v
          | succ n => simp [targetExists] at he
        case int =>
          cases c with
          | zero => simpa [resolve, runConv, subOf] using conv_to_integer_isinstance P E f v
          | succ n => simp [KnownDefect.subclassPlain] at hk
        case float => simpa [resolve, runConv, subOf] using conv_to_float_isinstance P E f c v
        case complex =>
          cases c with
          | zero => simpa [resolve, runConv, subOf] using conv_to_complex_isinstance P hP E f v
          | succ n => simp [targetExists] at he
        case decimal => simpa [resolve, runConv, subOf] using conv_to_decimal_isinstance P E f c v
        case str => simpa [resolve, runConv, subOf] using conv_to_str_isinstance P E f c v
        case bytes => simpa [resolve, runConv, Base.bytesK?, BytesK.base] using conv_to_bytes_isinstance P E f .bytes c v
        case bytearray => simpa [resolve, runConv, Base.bytesK?, BytesK.base] using conv_to_bytes_isinstance P E f .bytearray c v
        case memoryview => simpa [resolve, runConv, Base.bytesK?, BytesK.base] using conv_to_bytes_isinstance P E f .memoryview c v
        case list => simpa [resolve, runConv, Base.seqK?, SeqK.base] using conv_to_array_isinstance P f .list c v
        case tuple => simpa [resolve, runConv, Base.seqK?, SeqK.base] using conv_to_array_isinstance P f .tuple c v
        case set => simpa [resolve, runConv, Base.seqK?, SeqK.base] using conv_to_array_isinstance P f .set c v
        case frozenset => simpa [resolve, runConv, Base.seqK?, SeqK.base] using conv_to_array_isinstance P f .frozenset c v
        case deque => simpa [resolve, runConv, Base.seqK?, SeqK.base] using conv_to_array_isinstance P f .deque c v
        case dict => simpa [resolve, runConv, subOf] using conv_to_dict_isinstance P E f c v
        case date =>
          cases c with
          | zero => simpa [resolve, runConv] using conv_to_date_isinstance P E f v
          | succ n => simpa [resolve] using handleUnresolved_inst P hP u hu _ v
        case datetime => simpa [resolve, runConv, subOf] using conv_to_datetime_isinstance P hP E f c false v
        case time =>
          cases c with
          | zero => simpa [resolve, runConv, subOf] using conv_to_time_isinstance P hP E f v
          | succ n => simp [KnownDefect.subclassPlain] at hk
        case timedelta =>
          cases c with
          | zero => simpa [resolve, runConv, subOf] using conv_to_timedelta_isinstance P hP E f v
          | succ n => simp [KnownDefect.subclassPlain] at hk
        case uuid => simpa [resolve, runConv, subOf] using conv_to_uuid_isinstance P f c v

end Utv.C01
