#!/usr/bin/env python3
"""Assemble MANIFEST.json from manifest.d/*.json fragments (one per property) + manifest.d/_base.json."""
import json
from pathlib import Path

HERE = Path(__file__).resolve().parent.parent
base = json.loads((HERE / "manifest.d" / "_base.json").read_text())
props = [json.loads(l)["id"] for l in (HERE / "properties.jsonl").read_text().splitlines() if l.strip()]
checks, na = [], []
for pid in props:
    f = HERE / "manifest.d" / f"{pid}.json"
    if not f.exists():
        na.append({"property_id": pid, "reason": "check not built yet (work in progress; the Lean model for this property is planned in DESIGN.md section 6)"})
        continue
    d = json.loads(f.read_text())
    if "not_applicable" in d:
        na.append({"property_id": pid, "reason": d["not_applicable"]})
        continue
    d.setdefault("property_id", pid)
    d.setdefault("quick_cmd", f"./check {pid} --tier quick")
    d.setdefault("thorough_cmd", f"./check {pid} --tier thorough")
    d.setdefault("evidence_file", f"evidence/{pid}.json")
    d.setdefault("replay_cmd_template", f"./check {pid} --replay {{path}}")
    d.setdefault("engine", "lean4-proof+correspondence")
    checks.append(d)
base["checks"] = checks
base["not_applicable"] = na
(HERE / "MANIFEST.json").write_text(json.dumps(base, indent=1) + "\n")
print(f"MANIFEST.json: {len(checks)} checks, {len(na)} not_applicable")

# known_findings.json = concatenation of findings.d/*.json (committed; never written by a check)
allf = []
for f in sorted((HERE / "findings.d").glob("*.json")):
    allf += json.loads(f.read_text()).get("findings", [])
(HERE / "known_findings.json").write_text(json.dumps({
    "comment": "Genuine defects of utilmeta/utype found by the checks. status=known: still present; the check prints KNOWN-FINDING and exits 0 for exactly this class of input. status=fixed: repaired by a 'fix:' commit in /repo (line: 'fixed: property=<id> <commit> <what failed>'); a fixed entry suppresses nothing. Assembled from findings.d/*.json by tools/mkmanifest.py; never written at run time.",
    "findings": allf}, indent=1) + "\n")
print(f"known_findings.json: {len(allf)} entries")
