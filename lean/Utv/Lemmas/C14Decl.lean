import Utv.Lemmas.C14Struct
/-! C14 — a declaration utype accepts (`declChecked`, stated on the declaration alone) resolves its own output names
(`keysAccepted`) under both lookup strategies. -/
namespace Utv.C14

theorem inj_of_distinct_map {α β : Type} [BEq β] [LawfulBEq β] (f : α → β) : ∀ (l : List α), distinct (l.map f) = true →
    ∀ a ∈ l, ∀ b ∈ l, f a = f b → a = b
  | [], _, a, ha, _, _, _ => by simp at ha
  | x :: xs, hd, a, ha, b, hb, hab => by
    simp only [List.map_cons, distinct, Bool.and_eq_true, Bool.not_eq_eq_eq_not, Bool.not_true] at hd
    have hnot : ∀ c ∈ xs, f c ≠ f x := by
      intro c hc e
      have : (xs.map f).contains (f x) = true := by
        simp only [List.contains_iff_mem]; exact List.mem_map.mpr ⟨c, hc, e⟩
      rw [this] at hd; simp at hd
    rcases List.mem_cons.mp ha with rfl | ha' <;> rcases List.mem_cons.mp hb with rfl | hb'
    · rfl
    · exact absurd hab.symm (hnot b hb')
    · exact absurd hab (hnot a ha')
    · exact inj_of_distinct_map f xs hd.2 a ha' b hb' hab

structure Checked (ms : List FieldMeta) : Prop where
  head : ∀ f ∈ ms, f.name ∈ f.keys
  names : distinct (ms.map (·.name)) = true
  keys : distinct (ms.map FieldMeta.key) = true
  noKeyAlias : ∀ f ∈ ms, ∀ a ∈ f.al, ∀ g ∈ ms, a ≠ g.key
  ciSep : ciNames ms = [] ∨ ∀ f ∈ ms, f.ci = false → (∀ a ∈ f.al, lower a ∉ ciNames ms) ∧ lower f.key ∉ ciNames ms

theorem checked_of_declChecked {ms : List FieldMeta} (h : declChecked ms = true) : Checked ms := by
  simp only [declChecked, Bool.and_eq_true, Bool.or_eq_true, List.all_eq_true] at h
  obtain ⟨⟨⟨⟨⟨h1, h2⟩, h3⟩, h4⟩, _⟩, h6⟩ := h
  refine ⟨fun f hf => by simpa using h1 f hf, h2, h3, ?_, ?_⟩
  · intro f hf a ha g hg e
    have := h4 f hf a ha
    have hm : (ms.map FieldMeta.key).contains a = true := by
      simp only [List.contains_iff_mem]; exact List.mem_map.mpr ⟨g, hg, e.symm⟩
    rw [hm] at this; simp at this
  · rcases h6 with h6 | h6
    · left; simpa using h6
    · right
      intro f hf hci
      have h7 := h6 f hf
      rw [hci] at h7
      simp only [Bool.false_or, List.all_eq_true, List.mem_append, List.mem_map, List.mem_singleton,
        Bool.not_eq_eq_eq_not, Bool.not_true] at h7
      have h7 : ∀ (x : Str), (∃ a, a ∈ f.al ∧ lower a = x) ∨ x = lower f.key → (ciNames ms).contains x = false := by
        rcases h7 with h | h
        · cases h
        · exact h
      refine ⟨fun a ha hin => ?_, fun hin => ?_⟩
      · have := h7 (lower a) (Or.inl ⟨a, ha, rfl⟩)
        have hc : (ciNames ms).contains (lower a) = true := by simpa using hin
        rw [hc] at this; cases this
      · have := h7 (lower f.key) (Or.inr rfl)
        have hc : (ciNames ms).contains (lower f.key) = true := by simpa using hin
        rw [hc] at this; cases this

/-- every accepted key of a field is its `fields` key or one of its aliases -/
theorem alias_cases (f : FieldMeta) (a : Str) (ha : a ∈ f.aliases) : a = f.key ∨ a ∈ f.al := by
  unfold FieldMeta.aliases at ha
  unfold FieldMeta.key FieldMeta.al
  by_cases hci : f.ci = true
  · simp only [hci, ↓reduceIte, List.mem_map] at ha ⊢
    obtain ⟨k, hk, rfl⟩ := ha
    by_cases hkn : k = f.name
    · left; rw [hkn]
    · right; exact ⟨k, by simp [hk, hkn], rfl⟩
  · have hci' : f.ci = false := by simpa using hci
    simp only [hci', Bool.false_eq_true, ↓reduceIte, List.mem_map] at ha ⊢
    by_cases hkn : a = f.name
    · left; exact hkn
    · right; exact ⟨a, by simp [ha, hkn], rfl⟩

theorem key_mem_aliases (f : FieldMeta) (h : f.name ∈ f.keys) : f.key ∈ f.aliases := by
  unfold FieldMeta.aliases FieldMeta.key
  by_cases hci : f.ci = true
  · simp only [hci, ↓reduceIte]; exact List.mem_map.mpr ⟨f.name, h, rfl⟩
  · have hci' : f.ci = false := by simpa using hci
    simp only [hci', Bool.false_eq_true, ↓reduceIte]; exact h

theorem lower_name_mem_ciNames {ms : List FieldMeta} {g : FieldMeta} (hg : g ∈ ms) (hci : g.ci = true)
    (h : g.name ∈ g.keys) : lower g.name ∈ ciNames ms := by
  unfold ciNames
  rw [List.mem_flatMap]
  exact ⟨g, hg, by simp [hci]; exact ⟨g.name, h, rfl⟩⟩

/-- field-first search files a field's output name under the field's `fields` key -/
theorem normKey_name {ms : List FieldMeta} (c : Checked ms) {g : FieldMeta} (hg : g ∈ ms) :
    normKey (ciNames ms) g.name = g.key := by
  unfold normKey FieldMeta.key
  by_cases hci : g.ci = true
  · have : (ciNames ms).contains (lower g.name) = true := by
      simpa using lower_name_mem_ciNames hg hci (c.head g hg)
    rw [this]; simp [hci]
  · have hci' : g.ci = false := by simpa using hci
    have : (ciNames ms).contains (lower g.name) = false := by
      rcases c.ciSep with h | h
      · simp [h]
      · have := (h g hg hci').2
        unfold FieldMeta.key at this
        simp only [hci', Bool.false_eq_true, ↓reduceIte] at this
        simpa using this
    rw [this]; simp [hci']

/-- **field-first search** (the default strategy): a declaration utype accepts resolves its own output names -/
theorem keysAccepted_field_first {ms : List FieldMeta} (h : declChecked ms = true) : keysAccepted ms false = true := by
  have c := checked_of_declChecked h
  simp only [keysAccepted, List.all_eq_true]
  intro f hf g hg
  simp only [takes, Bool.false_eq_true, ↓reduceIte, acceptsFF, normKey_name c hg]
  by_cases hn : f.name = g.name
  · have : f = g := inj_of_distinct_map (·.name) ms c.names f hf g hg hn
    subst this
    have : f.aliases.contains f.key = true := by simpa using key_mem_aliases f (c.head f hf)
    rw [this]; simp
  · have hnot : f.aliases.contains g.key = false := by
      cases hc : f.aliases.contains g.key with
      | false => rfl
      | true =>
        have hm : g.key ∈ f.aliases := by simpa using hc
        rcases alias_cases f g.key hm with e | e
        · have : g = f := inj_of_distinct_map FieldMeta.key ms c.keys g hg f hf e
          exact absurd (this ▸ rfl) hn
        · exact absurd rfl (c.noKeyAlias f hf g.key e g hg)
    have e2 : (f.name == g.name) = false := by simpa using hn
    rw [hnot, e2]; rfl


/-! ### data-first search: `get_field(key)` (base.py:141-152) -/

theorem toLower_idem (c : Char) : c.toLower.toLower = c.toLower := by
  simp only [Char.toLower]
  split
  · split
    · next h1 h2 =>
      simp only [UInt32.le_iff_toNat_le, UInt32.toNat_add, seval] at h1 h2
      omega
    · simp
  · rfl

theorem toLower_eq_self_iff {c : Char} : c.toLower = c ↔ c.isUpper = false := by
  simp only [Char.toLower, Char.isUpper]
  split <;> rename_i h <;> simpa [UInt32.le_iff_toNat_le, Char.ext_iff] using h

theorem lower_idem (s : Str) : lower (lower s) = lower s := by
  simp [lower, List.map_map, Function.comp_def, toLower_idem]

theorem lower_eq_self_iff (s : Str) : lower s = s ↔ s.any Char.isUpper = false := by
  unfold lower
  induction s with
  | nil => simp
  | cons c cs ih =>
    simp only [List.map_cons, List.cons.injEq, List.any_cons, Bool.or_eq_false_iff, ih, toLower_eq_self_iff]

theorem find?_unique {α : Type} (p : α → Bool) (l : List α) (a : α) (ha : a ∈ l) (hp : p a = true)
    (huniq : ∀ b ∈ l, p b = true → b = a) : l.find? p = some a := by
  cases h : l.find? p with
  | none => have := List.find?_eq_none.mp h a ha; simp [hp] at this
  | some b => rw [huniq b (List.mem_of_find?_eq_some h) (List.find?_some h)]

/-- `get_field` finds a field under its own output name -/
theorem getField_name {ms : List FieldMeta} (c : Checked ms) {g : FieldMeta} (hg : g ∈ ms) :
    getField ms g.name = some g := by
  have hkeyuniq : ∀ k, g.key = k → ms.find? (fun f => f.key == k) = some g := by
    intro k hk
    apply find?_unique _ ms g hg (by simp [hk])
    intro b hb hpb
    exact inj_of_distinct_map FieldMeta.key ms c.keys b hb g hg (by rw [hk]; simpa using hpb)
  by_cases hsame : g.key = g.name
  · simp [getField, getFieldExact, hkeyuniq _ hsame]
  · -- a case-insensitive field whose output name has capitals: reached through the lower-case fall-back
    have hci : g.ci = true := by
      cases h : g.ci with
      | true => rfl
      | false => exact absurd (by simp [FieldMeta.key, h]) hsame
    have hkey : g.key = lower g.name := by simp [FieldMeta.key, hci]
    have hcin : lower g.name ∈ ciNames ms := lower_name_mem_ciNames hg hci (c.head g hg)
    have hne : ciNames ms ≠ [] := fun e => by rw [e] at hcin; simp at hcin
    have hsep : ∀ f ∈ ms, f.ci = false → (∀ a ∈ f.al, lower a ∉ ciNames ms) ∧ lower f.key ∉ ciNames ms := by
      rcases c.ciSep with h | h
      · exact absurd h hne
      · exact h
    have hupper : g.name.any Char.isUpper = true := by
      cases h : g.name.any Char.isUpper with
      | true => rfl
      | false => exact absurd (hkey.trans ((lower_eq_self_iff _).mpr h)) hsame
    have h1 : ms.find? (fun f => f.key == g.name) = none := by
      rw [List.find?_eq_none]
      intro f hf hk
      have hk' : f.key = g.name := by simpa using hk
      by_cases hfci : f.ci = true
      · have : lower g.name = g.name := by
          rw [← hk']; simp only [FieldMeta.key, hfci, ↓reduceIte]; exact lower_idem _
        exact hsame (hkey.trans this)
      · have := (hsep f hf (by simpa using hfci)).2
        rw [hk'] at this; exact this hcin
    have h2 : ms.find? (fun f => (f.al.filter (fun a => !(a == f.key))).contains g.name) = none := by
      rw [List.find?_eq_none]
      intro f hf hk
      have hmem : g.name ∈ f.al := by
        have : g.name ∈ f.al.filter (fun a => !(a == f.key)) := by simpa using hk
        exact (List.mem_filter.mp this).1
      by_cases hfci : f.ci = true
      · simp only [FieldMeta.al, hfci, ↓reduceIte, List.mem_map] at hmem
        obtain ⟨k, _, hk2⟩ := hmem
        have : lower g.name = g.name := by rw [← hk2]; exact lower_idem _
        exact hsame (hkey.trans this)
      · exact (hsep f hf (by simpa using hfci)).1 g.name hmem hcin
    have h3 : isLower g.name = false := by simp [isLower, hupper]
    have h4 : (ciNames ms).contains (lower g.name) = true := by simpa using hcin
    unfold getField
    have e1 : getFieldExact ms g.name = none := by simp only [getFieldExact, h1, h2]
    have e2 : getFieldExact ms (lower g.name) = some g := by simp only [getFieldExact, hkeyuniq _ hkey]
    simp only [e1, e2, h3, h4, Bool.not_false, Bool.and_self, ↓reduceIte]

/-- **data-first search**: a declaration utype accepts resolves its own output names -/
theorem keysAccepted_data_first {ms : List FieldMeta} (h : declChecked ms = true) : keysAccepted ms true = true := by
  have c := checked_of_declChecked h
  simp only [keysAccepted, List.all_eq_true]
  intro f _ g hg
  simp only [takes, ↓reduceIte, getField_name c hg, Option.map_some]
  by_cases hn : f.name = g.name
  · simp [hn]
  · have e1 : (f.name == g.name) = false := by simpa using hn
    have e2 : (g.name == f.name) = false := by simpa using (fun e => hn e.symm : ¬ g.name = f.name)
    simp [e1, e2]

theorem keysAccepted_of_declChecked {ms : List FieldMeta} (h : declChecked ms = true) (df : Bool) :
    keysAccepted ms df = true := by
  cases df
  · exact keysAccepted_field_first h
  · exact keysAccepted_data_first h

end Utv.C14
