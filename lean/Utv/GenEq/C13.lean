import Utv.GenEq.Support
import Utv.Gen.Field
import Utv.Gen.JsonTables
import Utv.Gen.CodecTables
import Utv.Gen.Encode
import Utv.Gen.Generator
import Utv.Model.C13
/-!
C13 — T1 obligations: the field predicates the JSON-schema generator's model relies on (`Model/C13.lean`:
`alwaysNoInput alwaysNoOutput isRequired isNoInput isNoOutput defaultApplies`) are *equal* to the code regenerated
from `utype/parser/field.py` on every run (`Utv.Gen.Field.*`), for every field, every options and every world.

Encoding (trivial, total): a `FieldMeta` is the `ParserField` instance whose attributes are what the model's
fields stand for; mode strings are Python `str`; C13's fragment has no callables, no `default_factory`, no
`force_default`.  `WfField`: `Field(mode='')` is outside the model (Python treats the empty string as "no mode",
the model's `some []` would mean "a mode string naming no mode").
-/
namespace Utv.GenEq.C13
open Utv.Obj Utv.C13 Utv.Gen

abbrev U := OVal Unit

def encFlag : Flag → U
  | .no => .bool false
  | .yes => .bool true
  | .modes s => .str (String.ofList s)

def encReq : Req → U
  | .never => .bool false
  | .always => .bool true
  | .modes s => .str (String.ofList s)

def encModes : Option (List Char) → U
  | none => .none
  | some s => .str (String.ofList s)

def encMode : Option Char → U
  | none => .none
  | some c => .str (String.singleton c)

/-- the `ParserField` a `FieldMeta` stands for -/
def encField (f : FieldMeta) : U :=
  .obj "ParserField" [
    ("required", encReq f.required),
    ("default", if f.hasDefault then .val () else .unprovided),
    ("default_factory", .none),
    ("defer_default", .bool f.deferDefault),
    ("no_input", encFlag f.noInput),
    ("no_output", encFlag f.noOutput),
    ("mode", encModes f.mode),
    ("final", .bool f.final)]

/-- the `Options` an `Opts` stands for (attributes the predicates read) -/
def encOpts (o : Opts) : U :=
  .obj "Options" [
    ("mode", encMode o.mode),
    ("ignore_required", .bool o.ignoreRequired),
    ("no_default", .bool o.noDefault),
    ("defer_default", .bool o.deferDefault),
    ("force_default", .unprovided)]

def WfField (f : FieldMeta) : Prop := f.mode ≠ some []

instance (f : FieldMeta) : Decidable (WfField f) := by unfold WfField; infer_instance

/-- the hypothesis is satisfiable (and false only for `mode=''`) -/
example : WfField { (default : FieldMeta) with mode := some ['r'] } ∧ WfField { (default : FieldMeta) with mode := none } := by
  decide

macro "field_simp" : tactic =>
  `(tactic| obj_simp [Field.always_no_input, Field.always_no_output, Field.is_required, Field.is_no_input,
      Field.is_no_output, Field.no_default, Field.get_default, encField, encOpts, encFlag, encReq, encModes, encMode,
      getattr, lookupAttr, truthy, isinstance, contains, callable, isInfixB_singleton, SeqK.name,
      OVal.isUnprovided, OVal.isTrue, OVal.isNone,
      alwaysNoInput, alwaysNoOutput, isRequired, isNoInput, isNoOutput, defaultApplies, memMode])

theorem C13_gen_always_no_input (W : World Unit) (f : FieldMeta) (o : Opts) (h : WfField f) :
    Field.always_no_input W (encField f) (encOpts o) = .ok (.bool (alwaysNoInput f o)) := by
  gen_obligation "C13_gen_always_no_input: the regenerated code (Utv.Gen) is no longer equal to the hand model here" by
    obtain ⟨_, _, _, required, hasDefault, deferDefault, noInput, noOutput, mode, final, _, _, _, _, _⟩ := f
    obtain ⟨omode, _, ir, nd, dd⟩ := o
    simp only [WfField] at h
    cases final <;> cases hasDefault <;> cases noInput <;> cases omode <;> cases mode <;> field_simp <;>
      grind

theorem C13_gen_always_no_output (W : World Unit) (f : FieldMeta) (o : Opts) (h : WfField f) :
    Field.always_no_output W (encField f) (encOpts o) = .ok (.bool (alwaysNoOutput f o)) := by
  gen_obligation "C13_gen_always_no_output: the regenerated code (Utv.Gen) is no longer equal to the hand model here" by
    obtain ⟨_, _, _, required, hasDefault, deferDefault, noInput, noOutput, mode, final, _, _, _, _, _⟩ := f
    obtain ⟨omode, _, ir, nd, dd⟩ := o
    simp only [WfField] at h
    cases noOutput <;> cases omode <;> cases mode <;> field_simp <;> grind

theorem C13_gen_is_required (W : World Unit) (f : FieldMeta) (o : Opts) (h : WfField f) :
    Field.is_required W (encField f) (encOpts o) = .ok (.bool (isRequired f o)) := by
  gen_obligation "C13_gen_is_required: the regenerated code (Utv.Gen) is no longer equal to the hand model here" by
    rw [Field.is_required, C13_gen_always_no_input W f o h]
    unfold isRequired
    generalize alwaysNoInput f o = ani
    obtain ⟨_, _, _, required, hasDefault, deferDefault, noInput, noOutput, mode, final, _, _, _, _, _⟩ := f
    obtain ⟨omode, _, ir, nd, dd⟩ := o
    cases ir <;> cases required <;> cases omode <;> cases ani <;> field_simp <;> grind

/-- run-time `is_no_input(value, options)`: the value plays no part for a non-callable `no_input` -/
theorem C13_gen_is_no_input (W : World Unit) (f : FieldMeta) (o : Opts) (v : U) (h : WfField f) :
    Field.is_no_input W (encField f) v (encOpts o) = .ok (.bool (isNoInput f o)) := by
  gen_obligation "C13_gen_is_no_input: the regenerated code (Utv.Gen) is no longer equal to the hand model here" by
    obtain ⟨_, _, _, required, hasDefault, deferDefault, noInput, noOutput, mode, final, _, _, _, _, _⟩ := f
    obtain ⟨omode, _, ir, nd, dd⟩ := o
    simp only [WfField] at h
    cases final <;> cases hasDefault <;> cases noInput <;> cases omode <;> cases mode <;> field_simp <;> grind

theorem C13_gen_is_no_output (W : World Unit) (f : FieldMeta) (o : Opts) (v : U) (h : WfField f) :
    Field.is_no_output W (encField f) v (encOpts o) = .ok (.bool (isNoOutput f o)) := by
  gen_obligation "C13_gen_is_no_output: the regenerated code (Utv.Gen) is no longer equal to the hand model here" by
    obtain ⟨_, _, _, required, hasDefault, deferDefault, noInput, noOutput, mode, final, _, _, _, _, _⟩ := f
    obtain ⟨omode, _, ir, nd, dd⟩ := o
    simp only [WfField] at h
    cases noOutput <;> cases omode <;> cases mode <;> field_simp <;> grind

/-- `get_default(options, defer=False)` hands out (a copy of) the default exactly when `defaultApplies` -/
theorem C13_gen_get_default (W : World Unit) (f : FieldMeta) (o : Opts) :
    Field.get_default W (encField f) (encOpts o) (.bool false) =
      if defaultApplies f o then W.ext "copy_value" [.val ()] else .ok .unprovided := by
  gen_obligation "C13_gen_get_default: the regenerated code (Utv.Gen) is no longer equal to the hand model here" by
    obtain ⟨_, _, _, required, hasDefault, deferDefault, noInput, noOutput, mode, final, _, _, _, _, _⟩ := f
    obtain ⟨omode, _, ir, nd, dd⟩ := o
    cases hasDefault <;> cases deferDefault <;> cases nd <;> cases dd <;> field_simp

/-! ### the tables of `constant.py` (and `DEFAULT_PRIMITIVE`, `MAX_SAFE_NUMBER`) the model holds copies of -/

theorem C13_gen_tables :
    PRIMITIVES = JsonTables.PRIMITIVES ∧
    PRIMITIVE_MAP = JsonTables.PRIMITIVE_MAP ∧
    FORMAT_MAP = JsonTables.FORMAT_MAP ∧
    OPERATOR_NAMES = JsonTables.OPERATOR_NAMES ∧
    DEFAULT_CONSTRAINTS_MAP = JsonTables.DEFAULT_CONSTRAINTS_MAP ∧
    TYPE_CONSTRAINTS_MAP = JsonTables.TYPE_CONSTRAINTS_MAP ∧
    FORMAT_PATTERNS = JsonTables.FORMAT_PATTERNS ∧
    DEFAULT_PRIMITIVE = JsonTables.DEFAULT_PRIMITIVE ∧
    MAX_SAFE = CodecTables.MAX_SAFE_NUMBER ∧ -MAX_SAFE = CodecTables.MIN_SAFE_NUMBER := by
  gen_obligation "C13_gen_tables: the regenerated code (Utv.Gen) is no longer equal to the hand model here" by
    refine ⟨?_, ?_, ?_, ?_, ?_, ?_, ?_, ?_, ?_, ?_⟩ <;> decide

/-- `js_unsafe` on integers (the bounds are inlined from encode.py as they are now) is the model's `jsUnsafe` -/
theorem C13_gen_js_unsafe (W : World Unit) (i : Int) :
    Encode.js_unsafe W (.int i) = .ok (.bool (jsUnsafe (Utv.JsonSchema.Num.ofInt i))) := by
  gen_obligation "C13_gen_js_unsafe: the regenerated code (Utv.Gen) is no longer equal to the hand model here" by
    obj_simp [Encode.js_unsafe, gt, lt, intOf?, jsUnsafe, Utv.JsonSchema.Num.lt, Utv.JsonSchema.Num.ofInt, MAX_SAFE]
    by_cases h1 : 9007199254740991 < i <;> by_cases h2 : i < -9007199254740991 <;> simp [h1, h2] <;> omega

/-! ### `_get_primitive` / `_get_format`: the first table entry whose classes cover the origin -/

def encPair (kv : String × String) : U := .seq .tuple [.str kv.1, .str kv.2]

/-- a scan that returns at the first covering entry and otherwise leaves its state alone -/
theorem forIn_cover {σ : Type} (g : U → σ → M Unit (ForInStep σ)) (s0 : σ) (p : Prim) (fin : String → σ)
    (hg : ∀ k v, g (encPair (k, v)) s0 = .ok (if covers k p then .done (fin v) else .yield s0))
    (tbl : List (String × String)) :
    forIn (tbl.map encPair) s0 g = .ok (match firstCover p tbl with
      | some v => fin v
      | none => s0) := by
  induction tbl with
  | nil => rfl
  | cons kv rest ih =>
    obtain ⟨k, v⟩ := kv
    rw [List.map_cons, List.forIn_cons, hg]
    cases hc : covers k p with
    | true => simp [firstCover, hc, bind, Except.bind, pure, Except.pure]
    | false => simp [firstCover, hc, bind, Except.bind, ih]

/-- the origin class of a `Prim`: a class without a `format` attribute, whose `issubclass` against a table key (as
written in the source) is the model's `covers` -/
structure OriginOk (W : World Unit) (n : Nat) (p : Prim) : Prop where
  noFormat : W.clsAttr n "format" = none
  sub : ∀ key, W.ext "issubclass" [.cls n, .str key] = .ok (.bool (covers key p))

theorem C13_gen_get_primitive (W : World Unit) (n : Nat) (p : Prim) (hw : OriginOk W n p) :
    Generator.get_primitive W (.obj "JsonSchemaGenerator" [("DEFAULT_PRIMITIVE", .str JsonTables.DEFAULT_PRIMITIVE)]) (.cls n)
      = .ok (.str (getPrimitive p)) := by
  gen_obligation "C13_gen_get_primitive: the regenerated code (Utv.Gen) is no longer equal to the hand model here" by
    unfold Generator.get_primitive
    simp only [truthy_cls, bind, Except.bind, pure, Except.pure, Bool.not_true, Bool.false_eq_true, if_false]
    have ht : dictItems (V := Unit) (OVal.dict [(OVal.str "type(None)", OVal.str "null"), (OVal.str "bool", OVal.str "boolean"),
              (OVal.str "MAP_TYPES", OVal.str "object"), (OVal.str "SEQ_TYPES", OVal.str "array"),
              (OVal.str "int", OVal.str "integer"), (OVal.str "(float, Decimal)", OVal.str "number")])
        = .ok (.seq .list (PRIMITIVE_MAP.map encPair)) := rfl
    simp only [ht, iter, pure, Except.pure]
    rw [forIn_cover (p := p) (fin := fun v => (some (OVal.str v), ()))]
    · cases hf : firstCover p PRIMITIVE_MAP <;> simp [getPrimitive, hf, getattr, lookupAttr, pure, Except.pure] <;> rfl
    · intro k v
      cases hc : covers k p <;>
        simp [encPair, unpack2, hw.sub, hc, bind, Except.bind, pure, Except.pure]

theorem C13_gen_get_format (W : World Unit) (self : U) (n : Nat) (p : Prim) (hw : OriginOk W n p) :
    Generator.get_format W self (.cls n)
      = .ok (match getFormat p with
        | some f => .str f
        | none => .none) := by
  gen_obligation "C13_gen_get_format: the regenerated code (Utv.Gen) is no longer equal to the hand model here" by
    unfold Generator.get_format
    simp only [truthy_cls, truthy_none, getattrD, hw.noFormat, Option.getD, bind, Except.bind, pure, Except.pure, Bool.not_true,
      Bool.false_eq_true, if_false]
    have ht : dictItems (V := Unit) (OVal.dict [((OVal.str "(bytes, bytearray, memoryview)"), (OVal.str "binary")),
        ((OVal.str "float"), (OVal.str "float")), ((OVal.str "IPv4Address"), (OVal.str "ipv4")),
        ((OVal.str "IPv6Address"), (OVal.str "ipv6")), ((OVal.str "datetime"), (OVal.str "date-time")),
        ((OVal.str "date"), (OVal.str "date")), ((OVal.str "time"), (OVal.str "time")),
        ((OVal.str "timedelta"), (OVal.str "duration")), ((OVal.str "UUID"), (OVal.str "uuid"))])
        = .ok (.seq .list (FORMAT_MAP.map encPair)) := rfl
    simp only [ht, iter, pure, Except.pure]
    rw [forIn_cover (p := p) (fin := fun v => (some (OVal.str v), ()))]
    · cases hf : firstCover p FORMAT_MAP <;> simp [getFormat, hf]
    · intro k v
      cases hc : covers k p <;>
        simp [encPair, unpack2, hw.sub, hc, bind, Except.bind, pure, Except.pure]

end Utv.GenEq.C13
