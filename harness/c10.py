"""C10 — collecting errors changes reporting only, never the verdict or the value.

Every case (a data class / keyword-function declaration as a JSON descriptor, options, an input
mapping) is run on the real code fail-fast and collecting with max_errors in {None, 1, 2, 3};
additionally every top-level item (declared field, input key) is parsed *alone* (a declaration with
only that field, the input restricted to that key, fail-fast) to obtain the ground-truth failing set.
The same case runs on the Lean model `Utv.C10.run` / `failsAlone` (drivers/C10.lean); conversions
of plain classes and `type(v) == cls` are supplied to the model as tables measured on the real code
(the model is proved for every such table).  `ctx` cases run operation sequences on a real
`RuntimeContext` and on the model's context operations.

Oracle (`spec`): the property's own statement evaluated on what the implementation returned.
"""
from __future__ import annotations

import itertools
import json
import random

from .common import Check, run_driver, run_impl

LEAFS = ["int", "str", "float", "bool", "NoneType", "list", "dict", "tuple"]
MODES = [[False, None], [True, None], [True, 1], [True, 2], [True, 3]]
POLICIES = ["throw", "exclude", "preserve"]


# ----------------------------------------------------------------------------------------------
# value codec (shared with drivers/C10.lean): scalars are opaque atoms for the model
# ----------------------------------------------------------------------------------------------

def enc(v):
    if v is None or v is True or v is False:
        return v
    t = type(v)
    if t is int:
        return {"i": str(v)}
    if t is float:
        return {"f": repr(v)}
    if t is str:
        return {"s": v}
    if t is list:
        return {"l": [enc(x) for x in v]}
    if t is tuple:
        return {"t": [enc(x) for x in v]}
    if isinstance(v, dict):
        d = [[enc(k), enc(x)] for k, x in v.items()]
        return {"m": d} if t is dict else {"m": d, "cls": t.__name__}
    return {"x": f"{t.__name__}:{v!r}"[:80]}


def dec(j):
    if j is None or isinstance(j, bool):
        return j
    if "i" in j:
        return int(j["i"])
    if "f" in j:
        return float(j["f"])
    if "s" in j:
        return j["s"]
    if "l" in j:
        return [dec(x) for x in j["l"]]
    if "t" in j:
        return tuple(dec(x) for x in j["t"])
    if "m" in j:
        return {_hashable(dec(k)): dec(x) for k, x in j["m"]}
    return ("opaque", j.get("x"))


def _hashable(k):
    return tuple(k) if isinstance(k, list) else k


def vkey(j) -> str:
    return json.dumps(j, sort_keys=True)


def canon_map(j):
    """order-insensitive form of a top-level result (a dict: key order is not part of the value)"""
    return sorted(([k, v] for k, v in j), key=lambda p: p[0])


# ----------------------------------------------------------------------------------------------
# building the declaration through the public API (worker side)
# ----------------------------------------------------------------------------------------------

_cls_cache: dict = {}


def _plain(name):
    return {"int": int, "str": str, "float": float, "bool": bool, "NoneType": type(None), "list": list,
            "dict": dict, "tuple": tuple}[name]


def build_type(d):
    """type descriptor -> a type object, using only what a user would write"""
    from utype import Rule
    from utype.parser.rule import LogicalType
    if "t" in d:
        return _plain(d["t"])
    if "named" in d:                 # a type exported by utype.types (outside the model's fragment: spec sweep only)
        from utype import types
        return getattr(types, d["named"])
    if "schema" in d:                # a nested data class with its own options (outside the model: spec sweep only)
        from utype import Options, Schema
        ns = {"__annotations__": {}}
        for f in d["schema"]:
            if f.get("ty") is not None:
                ns["__annotations__"][f["name"]] = build_type(f["ty"])
            ns[f["name"]] = build_field(f)
        so = d.get("sopts") or {}
        if so:
            ns["__options__"] = Options(**so)
        return type("N", (Schema,), ns)
    if "rule" in d:
        return type("R_" + d["rule"], (_plain(d["rule"]), Rule), dict(d.get("cons") or {}))
    if "list" in d:
        return type("L", (list, Rule), dict(d.get("cons") or {}))[build_type(d["list"])]
    if "vtuple" in d:
        return type("Tv", (tuple, Rule), {})[build_type(d["vtuple"]), ...]
    if "tuple" in d:
        return type("Tp", (tuple, Rule), {})[tuple(build_type(x) for x in d["tuple"])]
    if "dict" in d:
        k, v = d["dict"]
        return type("D", (dict, Rule), dict(d.get("cons") or {}))[build_type(k), build_type(v)]
    if "opt" in d:
        if d.get("typing"):          # the typing spelling becomes a Rule whose origin is the union (rule.py parse_annotation)
            import typing
            return typing.Optional[build_type(d["opt"])]
        return LogicalType.combine("|", build_type(d["opt"]), None)
    if "comb" in d and d.get("typing") and d["comb"] == "|":
        import typing
        return typing.Union[tuple(build_type(x) for x in d["args"])]
    if "comb" in d:
        # what the operators & | ^ ~ of Rule classes call (rule.py:293-318); also takes plain classes such as bool
        return LogicalType.combine(d["comb"], *[build_type(x) for x in d["args"]])
    raise ValueError(f"bad type descriptor {d}")


def build_field(f):
    from utype import Field
    kw = {}
    if "default" in f:
        kw["default"] = dec(f["default"])
    if f.get("required") is False and "default" not in f:
        kw["required"] = False
    if f.get("on_error"):
        kw["on_error"] = f["on_error"]
    if f.get("deps"):
        kw["dependencies"] = list(f["deps"])
    if f.get("alias_from"):
        kw["alias_from"] = list(f["alias_from"])
    kw.update(f.get("fcons") or {})       # constraints declared on the field: validators of the wrapping Rule
    return Field(**kw)


def make_options_class(o, mode):
    """class-style options with inheritance (`class Base(Options): …; class Own(Base): …`): the base class — which
    declares the opposite collecting behaviour — is used (and so initialised) by another schema first; the schema under
    test names the subclass.  What counts is what the SUBCLASS declares (its own attributes over the inherited ones)."""
    from utype import Options, Schema
    kw = options_kwargs(o, mode)
    own_mode = {"collect_errors": bool(mode[0]), "max_errors": mode[1] if mode[0] else None}
    # the base: every non-mode option, and a collecting behaviour the subclass overrides
    if mode[0]:
        base_mode = {"collect_errors": True, "max_errors": 1 if mode[1] != 1 else 3} if mode[1] is None or mode[1] > 1 \
            else {"collect_errors": False}
    else:
        base_mode = {"collect_errors": True}
    base_kw = {k: v for k, v in kw.items() if k not in ("collect_errors", "max_errors")}
    base = type("BaseOptions", (Options,), dict(base_kw, **base_mode))
    # an earlier schema uses the base class (its instance is built here)
    warm = type("Warm", (Schema,), {"__annotations__": {"w": int}, "__options__": base})
    try:
        warm(w=1)
    except Exception:  # noqa
        pass
    own = dict(own_mode)
    if "addition" in base_kw:
        own["addition"] = base_kw["addition"]         # re-declared on the subclass as well
    return type("OwnOptions", (base,), own)


def options_kwargs(o, mode, extra=None):
    kw = {}
    if mode[0]:
        kw["collect_errors"] = True
        if mode[1] is not None:
            kw["max_errors"] = mode[1]
    if o.get("addition", "unset") != "unset":
        kw["addition"] = addition_type(o["addition"]) if isinstance(o["addition"], dict) else o["addition"]
    for k in ("invalid_items", "invalid_keys", "invalid_values"):
        if o.get(k):
            kw[k] = o[k]
    if o.get("dfs") is not None:
        kw["data_first_search"] = bool(o["dfs"])
    for k in ("max_params", "min_params"):
        if o.get(k):
            kw[k] = o[k]
    if extra:
        kw.update(extra)
    return kw


def make_options(o, mode, extra=None):
    from utype import Options
    return Options(**options_kwargs(o, mode, extra))


_addty_cache: dict = {}


def addition_type(desc):
    """the type object of a typed addition / **kwargs annotation (one object per descriptor)"""
    k = json.dumps(desc, sort_keys=True)
    if k not in _addty_cache:
        _addty_cache[k] = build_type(desc)
    return _addty_cache[k]


def build_property(p):
    """an output @property: getter = a constant or a field of the instance, return annotation, Field(on_error=…)"""
    from utype import Field
    if "field" in p:
        def fn(self, _n=p["field"]):
            return getattr(self, _n)
    else:
        def fn(self, _v=dec(p["const"])):
            return _v
    fn.__name__ = p["name"]
    if p.get("ty") is not None:
        fn.__annotations__ = {"return": build_type(p["ty"])}
    if p.get("on_error"):
        fn = Field(on_error=p["on_error"], required=False)(fn)
    return property(fn)


def build_callable(api, decl, options_obj, var=None, kwty=None, props=None):
    """returns parse(data, runtime_options) for the declaration"""
    import utype
    from utype import Schema
    if api == "schema":
        ns = {"__annotations__": {}}
        for f in decl:
            if f.get("ty") is not None:
                ns["__annotations__"][f["name"]] = build_type(f["ty"])
            ns[f["name"]] = build_field(f)
        for p in props or []:
            ns[p["name"]] = build_property(p)
        if options_obj is not None:
            ns["__options__"] = options_obj
        cls = type("S", (Schema,), ns)

        def call(data, ropts, args=()):
            inst = cls.__from__(dict(data), options=ropts) if ropts is not None else cls(**dict(data))
            return dict(inst)
        return call, cls
    # function: positional-or-keyword params first, then *args / *, keyword-only params, **kwargs
    g = {"utype": utype}
    posonly, pos, kwonly = [], [], []
    for i, f in enumerate(decl):
        g[f"T{i}"] = build_type(f["ty"]) if f.get("ty") is not None else None
        g[f"F{i}"] = build_field(f)
        ann = f": T{i}" if f.get("ty") is not None else ""
        (posonly if f.get("posonly") else pos if f.get("pos") else kwonly).append(f"{f['name']}{ann} = F{i}")
    params = list(posonly) + (["/"] if posonly else []) + list(pos)
    if var is not None:
        if var.get("ty") is not None:
            g["TV"] = build_type(var["ty"])
            params.append("*args: TV")
        else:
            params.append("*args")
    elif kwonly:
        params.append("*")
    params += kwonly
    if api == "funckw":
        if kwty is not None:
            g["TK"] = addition_type(kwty)
            params.append("**kw: TK")
        else:
            params.append("**kw")
    names = [f"{f['name']}={f['name']}" for f in decl]
    if var is not None:
        names.append("__args=list(args)")
    if api == "funckw":
        names.append("**kw")
    src = f"def fn({', '.join(params)}):\n    return dict({', '.join(names)})\n"
    # dont_inherit: this module's `from __future__ import annotations` must not turn the annotations into strings
    exec(compile(src, "<c10-generated>", "exec", dont_inherit=True), g)
    fn = utype.parse(g["fn"], options=options_obj) if options_obj is not None else utype.parse(g["fn"])

    def call(data, ropts, args=()):
        return fn(*args, **dict(data))
    return call, fn


def outcome(thunk):
    from utype import exc
    from utype.utils.datastructures import unprovided
    try:
        r = thunk()
    except exc.CollectedParseError as e:
        return {"err": "collected", "errors": [[type(x).__name__, _item(x)] for x in e.errors]}
    except exc.ParseError as e:
        return {"err": "raw", "errors": [[type(e).__name__, _item(e)]]}
    except Exception as e:  # not a ParseError: C04's business, but a verdict nevertheless
        return {"escape": type(e).__name__}
    return {"ok": canon_map([[k, enc(v)] for k, v in r.items() if not unprovided(v)])}


KNOWN_KINDS = {"ParseError", "AbsenceError", "ExceedError", "TupleExceedError", "ConstraintError",
               "OneOfViolatedError", "NegateViolatedError", "CollectedParseError"}


def _kind(e):
    """error class as the model names it: the classes the error sites create, `other` for what a converter raised"""
    n = type(e).__name__
    return n if n in KNOWN_KINDS else "other"


def outcome_type(thunk):
    """a bare type called on a value: the errors of that level, in order"""
    from utype import exc
    try:
        r = thunk()
    except exc.CollectedParseError as e:
        return {"err": "collected", "errors": [[_kind(x), _item(x)] for x in e.errors]}
    except exc.ParseError as e:
        return {"err": "raw", "errors": [[_kind(e), _item(e)]]}
    except Exception as e:
        return {"escape": type(e).__name__}
    return {"ok": enc(r)}


def impl_type(case):
    """kind=type: `type_transform(value, T, options)` in the five modes"""
    from utype import type_transform
    o = case["opts"]
    try:
        T = build_type(case["type"])
    except Exception as e:
        return {"config_error": f"{type(e).__name__}: {e}"[:200]}
    v = dec(case["value"])
    out = {"runs": [outcome_type(lambda m=m: type_transform(v, T, options=make_options(o, m))) for m in MODES]}
    try:
        cons_table: list = []
        ty = resolve(T, cons_table)
        opt_add = resolve(addition_type(o["addition"]), cons_table) if isinstance(o.get("addition"), dict) else None
        cl = Closure(o, opt_add)
        cl.need(ty, {vkey(case["value"]): case["value"]}, {(False, False)})
        out["resolved_type"] = strip(ty)
        out["ropts"] = {"addition": {"typed": strip(opt_add)} if opt_add is not None else
                        (None if o.get("addition", "unset") == "unset" else o["addition"]), "addTy": None}
        out["tables"] = {"conv": list(cl.conv.values()), "exact": list(cl.exact.values()), "constraints": cons_table}
    except Unmodelled as e:
        out["unmodelled"] = str(e)
    return out


def _item(e):
    it = getattr(e, "item", None)
    if isinstance(it, str) and it.startswith("**") and ":" in it:
        it = it.split(":", 1)[1]           # FunctionParser names an additional key `**kwargs:key` (func.py:608)
    return it if it is None or isinstance(it, str) else str(it)


# ----------------------------------------------------------------------------------------------
# introspection of the built types -> the tree the model runs on; conversion tables
# ----------------------------------------------------------------------------------------------

class Unmodelled(Exception):
    pass


def resolve(t, cons_table):
    from utype import Rule
    from utype.parser.rule import LogicalType
    if isinstance(t, LogicalType):
        if t.combinator:
            return {"comb": t.combinator, "args": [resolve(a, cons_table) for a in t.args], "_o": t}
        if not issubclass(t, Rule):
            raise Unmodelled("logical type that is neither a combinator nor a Rule")
        if t is Rule or t.__origin__ is None:
            raise Unmodelled("rule without origin")
        if getattr(t, "contains", None) or getattr(t, "__applied__", False) or getattr(t, "__abstract__", False):
            raise Unmodelled("contains/applied/abstract")
        ap = t.__args_parser__
        apn = getattr(ap, "__name__", None) if ap else None
        kind = {"_parse_seq_args": "seq", "_parse_tuple_args": "tuple", "_parse_map_args": "map", None: "none"}.get(apn)
        if kind is None:
            raise Unmodelled(f"args parser {apn}")
        tag = 0
        if kind == "seq":
            if t.__origin__ is list:
                tag = 0
            elif t.__origin__ is tuple:
                tag = 1
            else:
                raise Unmodelled("sequence origin")
        cons = []
        for key, constraint, _validator in t.__validators__:
            if key not in ("gt", "ge", "lt", "le", "min_length", "max_length", "length") or type(constraint) is not int:
                raise Unmodelled(f"constraint {key}")
            cons_table.append([key, constraint])
            cons.append(len(cons_table) - 1)
        return {"rule": {"origin": resolve(t.__origin__, cons_table), "kind": kind, "tag": tag,
                         "args": [resolve(a, cons_table) for a in (t.__args__ or [])] if kind != "none" else [],
                         "cons": cons}, "_o": t}
    if isinstance(t, type) and t.__name__ in LEAFS and t is _plain(t.__name__):
        return {"leaf": LEAFS.index(t.__name__)}
    raise Unmodelled(f"type {t!r}")


_conv_cache: dict = {}


def conv(ndl, nec, t, vj):
    """`transformer(value, cls)` of a plain class under the two flags, on the real code"""
    from utype import Options, type_transform
    k = (ndl, nec, t, vkey(vj))
    if k not in _conv_cache:
        try:
            r = type_transform(dec(vj), _plain(LEAFS[t]), options=Options(no_data_loss=ndl, no_explicit_cast=nec))
            _conv_cache[k] = {"v": enc(r)}
        except Exception:
            _conv_cache[k] = None
    return _conv_cache[k]


def strip(T):
    """the resolved tree without the Python objects"""
    if T is None:
        return None
    if "leaf" in T:
        return T
    if "rule" in T:
        r = T["rule"]
        return {"rule": dict(r, origin=strip(r["origin"]), args=[strip(a) for a in r["args"]])}
    return {"comb": T["comb"], "args": [strip(a) for a in T["args"]]}


class Closure:
    """every plain-class conversion the model can ask for on this case: a type-directed walk; the values that
    reach a sub-type are the real results of the sub-types before it (measured fail-fast)"""

    def __init__(self, o, opt_add=None):
        self.conv = {}
        self.exact = {}
        self.o = o
        self.opt_add = opt_add          # resolved type of a typed `addition` option (converts the rest of a tuple)
        self.memo = {}

    def real(self, T, S, F):
        """results of the real sub-type T["_o"] on the values S under the flag sets F"""
        from utype import type_transform
        R = {}
        for k, vj in S.items():
            for (a, b) in F:
                mk = (id(T["_o"]), a, b, k)
                if mk not in self.memo:
                    try:
                        r = type_transform(dec(vj), T["_o"], options=make_options(self.o, MODES[0], dict({"no_data_loss": a, "no_explicit_cast": b},
                                                                                         **({"addition": False, "invalid_items": "throw", "invalid_keys": "throw",
                                                                                             "invalid_values": "throw"} if a else {}))))
                        self.memo[mk] = enc(r)
                    except Exception:
                        self.memo[mk] = ("fail",)
                r = self.memo[mk]
                if r != ("fail",):
                    R[vkey(r)] = r
        return R

    def need(self, T, S, F):
        """S: {vkey: encoded value}; F: set of (ndl, nec); returns possible results {vkey: encoded}"""
        if not S:
            return {}
        if "leaf" in T:
            t = T["leaf"]
            R = {}
            for k, vj in S.items():
                if type(dec(vj)) is _plain(LEAFS[t]):
                    self.exact[(t, k)] = [t, vj]
                for (a, b) in F:
                    r = conv(a, b, t, vj)
                    self.conv[(a, b, t, k)] = [a, b, t, vj, r]
                    if r is not None:
                        R[vkey(r["v"])] = r["v"]
            return R
        if "rule" in T:
            r = T["rule"]
            R0 = self.need(r["origin"], S, F)
            kind = r["kind"]
            vals = [v for v in R0.values() if v is not None]
            if kind == "seq":
                el = {}
                for v in vals:
                    for x in (v.get("l") or v.get("t") or []) if isinstance(v, dict) else []:
                        el[vkey(x)] = x
                self.need(r["args"][0], el, F)
            elif kind == "tuple":
                for i, a in enumerate(r["args"]):
                    el = {}
                    for v in vals:
                        xs = (v.get("l") or v.get("t") or []) if isinstance(v, dict) else []
                        if i < len(xs):
                            el[vkey(xs[i])] = xs[i]
                    self.need(a, el, F)
                if self.opt_add is not None:
                    rest = {}
                    for v in vals:
                        xs = (v.get("l") or v.get("t") or []) if isinstance(v, dict) else []
                        for x in xs[len(r["args"]):]:
                            rest[vkey(x)] = x
                    self.need(self.opt_add, rest, F)
            elif kind == "map":
                ks, vs = {}, {}
                for v in vals:
                    for k, x in (v.get("m") or []) if isinstance(v, dict) else []:
                        ks[vkey(k)] = k
                        vs[vkey(x)] = x
                self.need(r["args"][0], ks, F)
                if len(r["args"]) > 1:
                    self.need(r["args"][1], vs, F)
            return self.real(T, S, F)
        op, args = T["comb"], T["args"]
        if op == "|":
            F2 = set(F)
            for (a, b) in F:
                if not a or not b:
                    F2.add((True, True))
                if not a and not b:
                    F2.add((True, False))
            for a in args:
                self.need(a, S, F2)
        elif op == "&":
            cur = S
            for a in args:
                cur = self.need(a, cur, F)
        elif op == "^":
            for a in args:            # every argument sees the original input (rule.py:437-440)
                self.need(a, S, F)
        else:
            for a in args:
                self.need(a, S, F)
        return self.real(T, S, F)


def _cached(key, make):
    if key not in _cls_cache:
        if len(_cls_cache) > 4000:
            _cls_cache.clear()
        try:
            _cls_cache[key] = ("ok", make())
        except Exception as e:  # ConfigError etc.: the declaration is not legal
            _cls_cache[key] = ("config", f"{type(e).__name__}: {e}"[:200])
    return _cls_cache[key]


def get_decl(api, decl, o, optmode, mode, var=None, kwty=None, props=None):
    """(status, (call, object), runtime options) for the declaration in the given mode"""
    if optmode in ("class", "optclass"):
        key = json.dumps([api, decl, o, mode, var, kwty, props, optmode], sort_keys=True)
        mk = make_options_class if optmode == "optclass" else make_options
        st, v = _cached(key, lambda: build_callable(api, decl, mk(o, mode), var, kwty, props))
        return st, v, None
    key = json.dumps([api, decl, var, kwty, props], sort_keys=True)
    st, v = _cached(key, lambda: build_callable(api, decl, None, var, kwty, props))
    return st, v, make_options(o, mode)


def run_decl(api, decl, o, optmode, mode, data, args=(), var=None, kwty=None, props=None):
    """one parse of `data` (and positional `args`) against the declaration with the given mode"""
    st, v, ropts = get_decl(api, decl, o, optmode, mode, var, kwty, props)
    if st != "ok":
        return {"config_error": v}
    call = v[0]
    return outcome(lambda: call(data, ropts, args))


def impl(case):
    import warnings
    warnings.simplefilter("ignore")
    if case.get("kind") == "ctx":
        return impl_ctx(case)
    if case.get("kind") == "type":
        return impl_type(case)
    api, decl, o, data = case["api"], case["decl"], case["opts"], case["data"]
    args_j, var, kwty = case.get("args") or [], case.get("var"), case.get("kwty")
    props = case.get("props") or None
    optmode = case.get("optmode", "runtime")
    if api != "schema" and optmode == "runtime":
        optmode = "class"
    pdata = [(k, dec(v)) for k, v in data]
    pargs = tuple(dec(v) for v in args_j)
    if api == "func" and o.get("addition", "unset") not in ("unset", False):
        return {"config_error": "function without **kwargs cannot keep additions"}
    runs = [run_decl(api, decl, o, optmode, m, pdata, pargs, var, kwty, props) for m in MODES]
    if any("config_error" in r for r in runs):
        return {"config_error": [r.get("config_error") for r in runs if "config_error" in r][0]}
    # ground truth: every top-level item on its own, fail-fast
    posnames = [f["name"] for f in decl if f.get("pos") or f.get("posonly")]
    given = posnames[:len(pargs)]
    alone = []
    o_full, decl_full = o, decl
    # "on its own" is the item-level notion: without the key-count limits and the dependencies of the whole mapping
    o = {k: v for k, v in o.items() if k not in ("max_params", "min_params")}
    decl = [{k: v for k, v in f.items() if k != "deps"} for f in decl]
    for j, v in enumerate(pargs):
        if j < len(posnames):
            # the parameter it is bound to, given alone (by keyword)
            d1 = [dict(f, pos=False, posonly=False) for f in decl if f["name"] == posnames[j]]
            r = run_decl(api, d1, o, optmode, MODES[0], [(posnames[j], v)], (), None, kwty)
            alone.append([posnames[j], "ok" not in r])
        elif var is not None:
            r = run_decl(api, [], o, optmode, MODES[0], [], (v,), var, kwty)
            alone.append([f"*args:{j}", "ok" not in r])
    accepted = {f["name"]: {f["name"], *(f.get("alias_from") or [])} for f in decl}
    owner = {k: n for n, ks in accepted.items() for k in ks}
    for it in dict.fromkeys([f["name"] for f in decl if f["name"] not in given] + [owner.get(k, k) for k, _ in data]):
        # a field's item covers every key it accepts (aliases: outside the model, oracle only)
        d1 = [dict(f, pos=False, posonly=False) for f in decl if f["name"] == it and it not in given]
        keys = accepted.get(it, {it})
        r = run_decl(api, d1, o, optmode, MODES[0], [(k, v) for k, v in pdata if k in keys], (), None, kwty)
        alone.append([it, "ok" not in r])
    out = {"runs": runs, "alone": alone}
    # output properties on their own: the source is fine (a constant, or its field parses alone) and the computed
    # value is rejected by the return annotation
    if props:
        afail = {i for i, b in alone if b}
        palone = []
        for p in props:
            if "field" in p:
                src = [f for f in decl if f["name"] == p["field"]]
                keys = accepted.get(p["field"], {p["field"]})
                if p["field"] in afail or not any(k in keys for k, _ in pdata) and not any("default" in f for f in src):
                    palone.append([p["name"], False])
                    continue
                r = run_decl(api, src, o, optmode, MODES[0], [(k, v) for k, v in pdata if k in keys], (), None, None, [p])
            else:
                r = run_decl(api, [], o, optmode, MODES[0], [], (), None, None, [p])
            palone.append([p["name"], "ok" not in r])
        out["palone"] = palone
    o, decl = o_full, decl_full
    # the tree the model runs on + the conversions it may ask for
    try:
        st, v, _ = get_decl(api, decl, o, optmode, MODES[0], var, kwty, props)
        obj = v[1]
        parser = obj.__parser__
        fields = parser.fields
        cons_table: list = []
        rdecl = []
        # effective `addition` of the context (runtime options included) and the parser's declared addition type
        eff = dict(o)
        if api == "funckw":
            eff["addition"] = kwty if kwty is not None else True     # FunctionParser (func.py:242-247)
        opt_add = resolve(addition_type(eff["addition"]), cons_table) if isinstance(eff.get("addition"), dict) else None
        add_ty = resolve(parser.addition_type, cons_table) if parser.addition_type is not None else None
        cl = Closure(eff, opt_add)
        base_flags = {(False, False)}
        byname = {f["name"]: f for f in decl}
        pnames = [p["name"] for p in props or []]
        if sorted(n for n in fields if n not in pnames) != sorted(byname):
            raise Unmodelled("declared fields differ from the parser's")
        order = [n for n in fields if n not in pnames]          # the parser's own field order (annotated attributes first)
        if [n for n in order if byname[n].get("pos")] != order[:len(posnames)] or \
                [n for n in order if byname[n].get("pos")] != posnames:
            raise Unmodelled("positional parameters are not the first fields")
        for fname in order:
            f = byname[fname]
            pf = fields[f["name"]]
            if pf.name != f["name"] or list(pf.all_aliases) != [f["name"]] or pf.discriminator_map:
                raise Unmodelled("field aliases")
            deps = sorted(pf.dependencies or [])
            if any(d not in byname for d in deps):
                raise Unmodelled("dependency on something that is not a declared field")
            if bool(getattr(pf, "positional_only", False)) != bool(f.get("posonly")):
                raise Unmodelled("positional-only flag differs")
            ty = resolve(pf.type, cons_table) if pf.type is not None else None
            rdecl.append({"name": f["name"], "ty": strip(ty), "required": bool(pf.is_required(make_options(o, MODES[0]))),
                          **({"default": f["default"]} if "default" in f else {}), "on_error": f.get("on_error"),
                          "deps": deps, "posOnly": bool(f.get("posonly"))})
            if ty is not None:
                S = {vkey(v): v for k, v in data if k == f["name"]}
                if f["name"] in given:
                    a = args_j[posnames.index(f["name"])]
                    S[vkey(a)] = a
                cl.need(ty, S, base_flags)
        if add_ty is not None:
            extra = {vkey(v): v for k, v in data if k not in byname or k in given}
            cl.need(add_ty, extra, base_flags)
        if var is not None:
            pos_ty = resolve(parser.position_type, cons_table) if parser.position_type is not None else None
            if pos_ty is not None:
                cl.need(pos_ty, {vkey(v): v for v in args_j[len(posnames):]}, base_flags)
            out["call"] = {"npos": len(posnames), "hasVar": True, "posTy": strip(pos_ty), "args": args_j}
        elif posnames or args_j:
            out["call"] = {"npos": len(posnames), "hasVar": False, "posTy": None, "args": args_j}
        if "call" in out:
            out["call"]["nposOnly"] = sum(1 for f in decl if f.get("posonly"))
        if props:
            rprops = []
            for p in props:
                pf = fields[p["name"]]
                pty = resolve(pf.output_type, cons_table) if pf.output_type is not None else None
                rp = {"name": p["name"], "ty": strip(pty), "on_error": p.get("on_error")}
                if "field" in p:
                    rp["field"] = p["field"]
                    # the value the getter returns: a result of the field's type, or its default
                    src = byname[p["field"]]
                    S = {}
                    if pty is not None:
                        fty = resolve(fields[p["field"]].type, []) if fields[p["field"]].type is not None else None
                        for k, v in data:
                            if k == p["field"]:
                                S[vkey(v)] = v          # kept raw under the preserve policy
                                if fty is None:
                                    pass
                                else:
                                    S.update(cl.need(fty, {vkey(v): v}, base_flags))
                        if "default" in src and src["default"] is not None:
                            S[vkey(src["default"])] = src["default"]
                        if "default" in src and src["default"] is None:
                            S["null"] = None
                        cl.need(pty, S, base_flags)
                else:
                    rp["const"] = p["const"]
                    if pty is not None:
                        cl.need(pty, {vkey(p["const"]): p["const"]}, base_flags)
                rprops.append(rp)
            out["rprops"] = rprops
        out["resolved"] = rdecl
        out["ropts"] = {"addition": {"typed": strip(opt_add)} if opt_add is not None else
                        (None if eff.get("addition", "unset") == "unset" else eff["addition"]),
                        "addTy": strip(add_ty)}
        out["tables"] = {"conv": list(cl.conv.values()), "exact": list(cl.exact.values()), "constraints": cons_table}
    except Unmodelled as e:
        out["unmodelled"] = str(e)
    return out


def impl_ctx(case):
    from utype import Options, exc
    kw = {}
    if case["mode"][0]:
        kw["collect_errors"] = True
        if case["mode"][1] is not None:
            kw["max_errors"] = case["mode"][1]
    ctx = Options(**kw).make_context()

    def mk(op):
        cls = exc.AbsenceError if op["kind"] == "AbsenceError" else exc.ExceedError
        return cls(item=op.get("item"))

    def state(c):
        return {"errors": [[type(x).__name__, _item(x)] for x in c.errors], "tmp": [[type(x).__name__, _item(x)] for x in c.tmp_errors]}

    outs = []
    for op in case["ctx"]:
        raised = None
        try:
            if op["op"] == "handle":
                ctx.handle_error(mk(op), force_raise=bool(op.get("force")))
            elif op["op"] == "tmp":
                ctx.collect_tmp_error(mk(op))
            elif op["op"] == "clear":
                ctx.clear_tmp_error()
            elif op["op"] == "raise":
                ctx.raise_error()
            elif op["op"] == "enter":
                ctx = ctx.enter("r")
        except exc.CollectedParseError as e:
            raised = {"err": "collected", "errors": [[type(x).__name__, _item(x)] for x in e.errors]}
        except exc.ParseError as e:
            raised = {"err": "raw", "errors": [[type(e).__name__, _item(e)]]}
        outs.append({"raised": raised, "state": state(ctx)})
    return {"ctx": outs}


# ----------------------------------------------------------------------------------------------
# generator
# ----------------------------------------------------------------------------------------------

INTS = [0, 1, -1, 5, 7, 12, 100]
STRS = ["", "a", "abc", "abcdef", "5", "-3", "12", "1.5", "x1", "true", "null"]
FLOATS = [1.5, 2.0, -0.5]


def gen_scalar_ty(rng):
    k = rng.random()
    if k < 0.3:
        return {"t": rng.choice(["int", "str", "float", "bool", "int", "str"])}
    if k < 0.7:
        c = rng.choice(["gt", "ge", "lt", "le"])
        cons = {c: rng.choice([0, 1, 5, 10])}
        if rng.random() < 0.25:
            if c in ("gt", "ge"):
                cons[rng.choice(["lt", "le"])] = cons[c] + rng.choice([2, 4, 10])
            else:
                cons[rng.choice(["gt", "ge"])] = cons[c] - rng.choice([2, 4, 10])
        return {"rule": "int", "cons": cons}
    c = rng.choice(["min_length", "max_length", "length"])
    cons = {c: rng.choice([1, 2, 3, 5])}
    if c == "min_length" and rng.random() < 0.3:
        cons["max_length"] = cons[c] + rng.choice([0, 2, 4])
    return {"rule": "str", "cons": cons}


def gen_ty(rng, depth=2):
    k = rng.random()
    if depth <= 0 or k < 0.35:
        return gen_scalar_ty(rng)
    if k < 0.50:
        d = {"list": gen_ty(rng, depth - 1)}
        if rng.random() < 0.4:
            d["cons"] = {rng.choice(["min_length", "max_length"]): rng.choice([1, 2, 3])}
        return d
    if k < 0.56:
        return {"tuple": [gen_ty(rng, depth - 1) for _ in range(rng.choice([1, 2, 2, 3]))]}
    if k < 0.60:
        return {"vtuple": gen_ty(rng, depth - 1)}
    if k < 0.68:
        d = {"dict": [rng.choice([{"t": "str"}, {"t": "int"}, gen_scalar_ty(rng)]), gen_ty(rng, depth - 1)]}
        if rng.random() < 0.3:
            d["cons"] = {rng.choice(["min_length", "max_length"]): rng.choice([1, 2])}
        return d
    if k < 0.74:
        return {"opt": gen_ty(rng, depth - 1), "typing": rng.random() < 0.5}
    if k < 0.765:
        fs = []
        for name in ["p", "q"][:rng.choice([1, 2])]:
            f = {"name": name, "ty": gen_ty(rng, depth - 1), "required": rng.random() < 0.6}
            if not f["required"]:
                f["default"] = gen_val(rng, f["ty"], good=True)
            fs.append(f)
        d = {"schema": fs}
        if rng.random() < 0.5:
            d["sopts"] = rng.choice([{"collect_errors": True}, {"addition": False}, {"collect_errors": True, "max_errors": 1}])
        return d
    op = rng.choice(["|", "|", "&", "&", "^", "~"])
    if op == "~":
        return {"comb": "~", "args": [gen_ty(rng, depth - 1)]}
    n = rng.choice([2, 2, 3])
    d = {"comb": op, "args": [gen_ty(rng, depth - 1) for _ in range(n)]}
    if op == "|" and rng.random() < 0.4:
        d["typing"] = True
    return d


def gen_val(rng, ty, good=True, depth=3):
    """a value aimed at `ty` (good) or aimed past it (not good); validity is decided by the real code"""
    if depth <= 0:
        return enc(rng.choice(INTS + STRS))
    if "t" in ty or "rule" in ty:
        base = ty.get("t") or ty["rule"]
        cons = ty.get("cons") or {}
        if base == "int":
            if not good:
                return enc(rng.choice(["x1", "abc", "", [1], None, "1.5x"]))
            pool = list(INTS) + [b + d for b in cons.values() for d in (-1, 0, 1)]
            v = rng.choice(pool)
            ok = all((v > b if c == "gt" else v >= b if c == "ge" else v < b if c == "lt" else v <= b) for c, b in cons.items())
            if not ok and rng.random() < 0.6:
                cand = [x for x in pool + list(range(-2, 25)) if all((x > b if c == "gt" else x >= b if c == "ge" else x < b if c == "lt" else x <= b) for c, b in cons.items())]
                if cand:
                    v = rng.choice(cand)
            r = rng.random()
            return enc(str(v) if r < 0.25 else float(v) if r < 0.3 else v)
        if base == "str":
            if not good and cons:
                n = max(cons.values()) + rng.choice([1, 2]) if ("max_length" in cons or "length" in cons) else max(0, min(cons.values()) - 1)
                return enc("z" * n)
            n = cons.get("length", cons.get("min_length", rng.choice([0, 1, 3])))
            if "max_length" in cons:
                n = min(max(n, cons.get("min_length", 0)), cons["max_length"])
            return enc(rng.choice(["k" * n, "q" * n, rng.choice(STRS)]) if rng.random() < 0.8 else rng.choice(INTS))
        if base == "float":
            return enc(rng.choice(FLOATS + [1, "2.5"])) if good else enc(rng.choice(["abc", "", [1.5, 2.5]]))
        if base == "bool":
            return enc(rng.choice([True, False, "true", 0, 1])) if good else enc(rng.choice(["maybe", 7, [1, 2]]))
        return enc(rng.choice(INTS + STRS))
    if "list" in ty or "vtuple" in ty:
        el = ty.get("list") or ty.get("vtuple")
        cons = ty.get("cons") or {}
        n = rng.choice([0, 1, 2, 2, 3, 4])
        if good and "min_length" in cons:
            n = max(n, cons["min_length"])
        if good and "max_length" in cons:
            n = min(n, cons["max_length"])
        bad_at = set() if good else set(rng.sample(range(max(n, 1)), k=min(max(n, 1), rng.choice([1, 1, 2]))))
        if not good and n == 0:
            n = 1
        xs = [dec(gen_val(rng, el, good=(i not in bad_at) if rng.random() < 0.95 else False, depth=depth - 1)) for i in range(n)]
        if not good and rng.random() < 0.15:
            return enc(rng.choice(["abc", 5, None]))
        return enc(tuple(xs) if rng.random() < 0.2 else xs)
    if "tuple" in ty:
        ts = ty["tuple"]
        xs = [dec(gen_val(rng, t, good=good or rng.random() < 0.5, depth=depth - 1)) for t in ts]
        r = rng.random()
        if not good or r < 0.15:
            if r < 0.4 and xs:
                xs = xs[:-1]
            elif r < 0.7:
                xs = xs + [rng.choice(INTS)]
        return enc(xs if rng.random() < 0.6 else tuple(xs))
    if "dict" in ty:
        kt, vt = ty["dict"]
        n = rng.choice([0, 1, 2, 3])
        d = {}
        for i in range(n):
            k = dec(gen_val(rng, kt, good=good or rng.random() < 0.6, depth=1))
            if isinstance(k, (list, dict)) or k is None:
                k = f"k{i}"
            if type(k) in (int, float, bool):
                k = k if rng.random() < 0.5 else str(k)
            v = dec(gen_val(rng, vt, good=good or rng.random() < 0.4, depth=depth - 1))
            if all(str(k) != str(k2) for k2 in d):
                d[k] = v
        if not good and rng.random() < 0.15:
            return enc(rng.choice(["abc", 5]))
        return enc(d)
    if "schema" in ty:
        d = {}
        for f in ty["schema"]:
            g = good or rng.random() < 0.5
            if not g and rng.random() < 0.3:
                continue
            d[f["name"]] = dec(gen_val(rng, f["ty"], good=g, depth=depth - 1))
        if not good and rng.random() < 0.3:
            d["w"] = 1
        return enc(d)
    if "opt" in ty:
        if rng.random() < 0.25:
            return None if good else enc("nil?")
        return gen_val(rng, ty["opt"], good, depth)
    args = ty["args"]
    if ty["comb"] == "~":
        return gen_val(rng, args[0], not good, depth)
    return gen_val(rng, rng.choice(args), good, depth)


NAMES = ["a", "b", "c", "d", "e"]
EXTRA = ["x", "y", "zz"]


def gen_case(rng, api=None):
    api = api or rng.choice(["schema", "schema", "schema", "func", "funckw"])
    nf = rng.choice([1, 2, 2, 3, 3, 4])
    decl = []
    for name in NAMES[:nf]:
        f = {"name": name, "ty": gen_ty(rng, rng.choice([0, 1, 1, 2, 2, 3])) if rng.random() < 0.95 else None}
        r = rng.random()
        if r < 0.5:
            f["required"] = True
        elif r < 0.8:
            f["required"] = False
            f["default"] = gen_val(rng, f["ty"] or {"t": "int"}, good=True)
        else:
            f["required"] = False
        if api != "schema" and f["required"] is False and "default" not in f:
            f["default"] = None
        if rng.random() < 0.2:
            f["on_error"] = rng.choice(POLICIES if not f["required"] else ["throw", "preserve"])
        if rng.random() < 0.08:
            # a union of int/str scalars with a bound declared on the field: Rule[AnyOf(...)](ge=..)
            ints = [{"t": "int"}, {"rule": "int", "cons": {rng.choice(["gt", "ge"]): rng.choice([0, 1, 5])}}]
            args = [rng.choice(ints), rng.choice(ints + [{"rule": "str", "cons": {"max_length": rng.choice([1, 3])}}])]
            if rng.random() < 0.5:
                args.reverse()
            f["ty"] = rng.choice([{"comb": "|", "args": args, "typing": True}, {"opt": rng.choice(ints), "typing": True}])
            f["fcons"] = {rng.choice(["ge", "le", "gt", "lt"]): rng.choice([0, 3, 7])}
            if "default" in f:
                f["default"] = gen_val(rng, f["ty"], good=True)
        decl.append(f)
    o = {"addition": rng.choice(["unset", "unset", False, False, True]), "dfs": rng.choice([None, False, True, True])}
    addty = None
    if api == "schema" and rng.random() < 0.14:
        addty = gen_addty(rng)
        o["addition"] = addty          # typed additional keys: plain class or constrained Rule
    if api == "func" and o["addition"] is True:
        o["addition"] = False
    kwty = None
    if api == "funckw":
        o["addition"] = "unset"
        if rng.random() < 0.35:
            kwty = addty = gen_addty(rng)      # **kw: T
    for k in ("invalid_items", "invalid_keys", "invalid_values"):
        if rng.random() < 0.15:
            o[k] = rng.choice(POLICIES)
    if rng.random() < 0.1:
        o["max_params"] = rng.choice([1, 2, 3])
    if rng.random() < 0.08:
        o["min_params"] = rng.choice([1, 2, 3, 4])
    if nf >= 2 and rng.random() < 0.16:
        # dependencies between the declared fields
        for f in rng.sample(decl, k=rng.choice([1, 1, 2])):
            others = [g["name"] for g in decl if g["name"] != f["name"]]
            f["deps"] = rng.sample(others, k=min(len(others), rng.choice([1, 1, 2])))
    alias_of = {}
    if rng.random() < 0.09:
        # aliases are outside the model: these cases feed the oracle only.  An earlier field is preferred so that
        # valid fields come after a possible alias conflict
        f = decl[0] if rng.random() < 0.6 else rng.choice(decl)
        f["alias_from"] = [f["name"] + "1"]
        alias_of[f["name"]] = f["name"] + "1"
    data = []
    nbad = rng.choice([0, 0, 1, 1, 2, 2, 3, 4])
    bad = set(rng.sample(range(nf), k=min(nf, nbad)))
    order = list(range(nf))
    rng.shuffle(order)
    for i in order:
        f = decl[i]
        if i in bad and rng.random() < 0.3:
            continue                     # missing
        if i not in bad and not f["required"] and rng.random() < 0.3:
            continue
        ty = f["ty"] or {"t": "int"}
        data.append([f["name"], gen_val(rng, ty, good=i not in bad)])
    nextra = rng.choice([0, 0, 1, 1, 2, 3]) if addty is None else rng.choice([1, 2, 3, 3])
    for k in rng.sample(EXTRA, k=nextra):
        v = enc(rng.choice(INTS + STRS)) if addty is None else gen_val(rng, addty, good=rng.random() < 0.5)
        data.insert(rng.randrange(len(data) + 1), [k, v])
    for name, al in alias_of.items():
        r = rng.random()
        for i, (k, v) in enumerate(list(data)):
            if k == name:
                if r < 0.35:
                    data[i] = [al, v]
                elif r < 0.85:
                    # given under both keys: the same value, or (mostly) another one -> AliasConflictError for this field only
                    ty = next((g["ty"] for g in decl if g["name"] == name), None) or {"t": "int"}
                    other = gen_val(rng, ty, good=True) if rng.random() < 0.5 else enc(rng.choice(INTS + STRS))
                    data.insert(i + 1, [al, v if rng.random() < 0.25 else other])
                break
    case = {"kind": "parse", "api": api, "optmode": rng.choice(["runtime", "class", "optclass"]), "decl": decl, "opts": o, "data": data}
    if kwty is not None:
        case["kwty"] = kwty
    if api == "schema" and rng.random() < 0.3:
        case["props"] = gen_props(rng, decl)
    if api != "schema" and rng.random() < 0.55:
        make_positional(rng, case)
    return case


def gen_props(rng, decl):
    """output @property fields: the getter returns a constant or a field that is always set on success"""
    props = []
    for name in ["p1", "p2"][:rng.choice([1, 1, 2])]:
        ty = rng.choice([gen_scalar_ty(rng), gen_scalar_ty(rng), {"list": gen_scalar_ty(rng)}, None])
        p = {"name": name, "ty": ty}
        refs = [f["name"] for f in decl if f["required"] or f.get("default") is not None]
        if refs and rng.random() < 0.5:
            p["field"] = rng.choice(refs)
        else:
            p["const"] = gen_val(rng, ty or {"t": "int"}, good=rng.random() < 0.5)
        if rng.random() < 0.35:
            p["on_error"] = rng.choice(POLICIES)
        props.append(p)
    return props


def gen_addty(rng):
    r = rng.random()
    if r < 0.3:
        return {"t": rng.choice(["int", "str", "float"])}
    if r < 0.75:
        lo = rng.choice([0, 1, 5])
        return {"rule": "int", "cons": {"ge": lo, "le": lo + rng.choice([2, 5, 100])}}
    if r < 0.9:
        return {"rule": "str", "cons": {"min_length": 1, "max_length": rng.choice([2, 3])}}
    return {"list": {"rule": "int", "cons": {"ge": 0}}}


def make_positional(rng, case):
    """turn a keyword call into one that gives the first parameters by position (and maybe *args)"""
    decl, data = case["decl"], dict(map(tuple, case["data"]))
    # positional parameters come first; the exclude policy would silently shift the later arguments (C08/C11's subject)
    npos = rng.randint(1, len(decl))
    for i, f in enumerate(decl):
        f["pos"] = i < npos
        if f.get("on_error") == "exclude":
            f["on_error"] = "preserve"
    if case["opts"].get("invalid_values") == "exclude":
        case["opts"]["invalid_values"] = "throw"
    # the parser keeps annotated parameters first: untyped positional ones would be reordered
    for f in decl[:npos]:
        if f["ty"] is None:
            f["ty"] = {"t": "int"}
    # positional-only parameters (`/`): a prefix of the positional ones, required ones first (utype insists)
    r = rng.random()
    nposonly = 0 if r < 0.5 else npos if r < 0.75 else rng.randint(1, npos)
    decl[:nposonly] = sorted(decl[:nposonly], key=lambda f: not f["required"])
    given = 0
    for f in decl[:npos]:
        if f["name"] in data and rng.random() < 0.8:
            given += 1
        else:
            break
    args = [data.pop(f["name"]) for f in decl[:given]]
    for f in decl[:given]:
        for al in f.get("alias_from") or []:
            data.pop(al, None)        # a parameter is not given both by position and by (alias) keyword
    if rng.random() < 0.45:
        case["var"] = {"ty": rng.choice([None, {"t": "int"}, {"rule": "int", "cons": {"ge": 0}},
                                         {"rule": "str", "cons": {"max_length": 2}}])}
        if given == npos:
            vt = case["var"]["ty"] or {"t": "int"}
            args += [gen_val(rng, vt, good=rng.random() < 0.6) for _ in range(rng.choice([0, 1, 2, 3]))]
    elif given == npos and rng.random() < 0.1:
        args.append(enc(7))           # an excess positional argument (ignored by parse_params)
    # positional-only parameters are never passed by keyword
    for f in decl[:nposonly]:
        f["posonly"] = True
        data.pop(f["name"], None)
        for al in f.get("alias_from") or []:
            data.pop(al, None)
    if nposonly == len(decl) and case["api"] == "func" and rng.random() < 0.6:
        data.clear()                  # an all-positional-only signature called without any keyword
    case["args"] = args
    case["data"] = [[k, v] for k, v in case["data"] if k in data]


def gen_type_case(rng):
    """a bare type on one value: makes the error list of every nested level visible at the top"""
    ty = gen_ty(rng, rng.choice([1, 2, 2, 3]))
    while "schema" in json.dumps(ty):
        ty = gen_ty(rng, rng.choice([1, 2, 2, 3]))
    o = {"addition": rng.choice(["unset", "unset", False, True])}
    if rng.random() < 0.12:
        o["addition"] = gen_addty(rng)
    for k in ("invalid_items", "invalid_keys", "invalid_values"):
        if rng.random() < 0.2:
            o[k] = rng.choice(POLICIES)
    return {"kind": "type", "type": ty, "opts": o, "value": gen_val(rng, ty, good=rng.random() < 0.35)}


def gen_ctx_case(rng):
    mode = rng.choice(MODES + [[True, 4]])
    ops = []
    for _ in range(rng.randint(2, 9)):
        r = rng.random()
        it = rng.choice(["a", "b", "c"])
        kind = rng.choice(["AbsenceError", "ExceedError"])
        if r < 0.45:
            ops.append({"op": "handle", "kind": kind, "item": it, "force": rng.random() < 0.15})
        elif r < 0.65:
            ops.append({"op": "tmp", "kind": kind, "item": it})
        elif r < 0.75:
            ops.append({"op": "clear"})
        elif r < 0.9:
            ops.append({"op": "raise"})
        else:
            ops.append({"op": "enter"})
    ops.append({"op": "raise"})
    return {"kind": "ctx", "mode": mode, "ctx": ops}


def exhaustive_cases():
    """every subset of {invalid, missing, valid} over 3 fields x excess key x addition x strategy x api"""
    out = []
    tys = [{"rule": "int", "cons": {"gt": 0}}, {"list": {"rule": "int", "cons": {"ge": 0}}},
           {"comb": "&", "args": [{"t": "int"}, {"comb": "~", "args": [{"rule": "int", "cons": {"gt": 5}}]}]}]
    good = [enc(3), enc([1, "2"]), enc(2)]
    bad = [enc(0), enc([1, -1, "x"]), enc(9)]
    for states in itertools.product(["good", "bad", "missing"], repeat=3):
        for req in itertools.product([True, False], repeat=3):
            if req[1] != req[2] and req[0]:
                continue
            for extra in (False, True):
                for addition in ("unset", False):
                    for dfs in (False, True):
                        for api in ("schema", "func"):
                            decl = []
                            for i in range(3):
                                f = {"name": NAMES[i], "ty": tys[i], "required": req[i]}
                                if not req[i]:
                                    f["default"] = good[i]
                                decl.append(f)
                            data = [[NAMES[i], good[i] if s == "good" else bad[i]] for i, s in enumerate(states) if s != "missing"]
                            if extra:
                                data.insert(1 if data else 0, ["zz", enc(1)])
                            out.append({"kind": "parse", "api": api, "optmode": "runtime", "decl": decl,
                                        "opts": {"addition": addition, "dfs": dfs}, "data": data})
    return out


# ----------------------------------------------------------------------------------------------
# the check
# ----------------------------------------------------------------------------------------------

def norm_opts(o, ropts):
    """the model's options: the case's, with the effective `addition` / declared addition type measured by the adapter"""
    return {"ndl": False, "nec": False, "addition": ropts["addition"], "addTy": ropts["addTy"],
            "invalid_items": o.get("invalid_items"), "invalid_keys": o.get("invalid_keys"),
            "invalid_values": o.get("invalid_values"), "dfs": bool(o.get("dfs")),
            "max_params": o.get("max_params") or None, "min_params": o.get("min_params") or None}


GLOBAL_KINDS = {"ParamsExceedError", "ParamsLackError", "DependenciesAbsenceError"}


def global_truth(case, io):
    """what the mapping as a whole must / may report, from the case alone: the key count is exact; a dependency
    can only be lacking when a given field demands a field that is not given or fails"""
    o, decl = case["opts"], case["decl"]
    n = len(case["data"])
    posnames = [f["name"] for f in decl if f.get("pos")]
    owner = {k: f["name"] for f in decl for k in [f["name"], *(f.get("alias_from") or [])]}
    bykw = {owner.get(k, k) for k, _ in case["data"]}
    given = set(posnames[:len(case.get("args") or [])]) | bykw
    # every positional-only parameter is in parsed_keys — given, defaulted, or (since fix 1d9950e) reported absent —
    # and parse_data counts excluded keys as provided for the dependency check (base.py `dependant.update(excluded_keys)`);
    # a missing required one is reported by its own AbsenceError, so no failing item is lost and both modes reject
    given |= {f["name"] for f in decl if f.get("posonly")}
    failing = set(failing_items(io))
    exceed = bool(o.get("max_params")) and n > o["max_params"]
    lack = bool(o.get("min_params")) and n < o["min_params"]
    excl = o.get("invalid_values") == "exclude"
    # only a field parsed by parse_data (given by keyword) demands its dependencies; a positional one satisfies others'
    byname = {f["name"]: f for f in decl}
    # a dependency given but dropped by the `exclude` policy counts as not given (ParserField.EXCLUDED)
    deps_possible = any(f["name"] in bykw and any(d not in given or d in failing or excl or
                                                  byname.get(d, {}).get("on_error") == "exclude" for d in f["deps"])
                        for f in decl if f.get("deps"))
    deps_certain = any(f["name"] in bykw and f["name"] not in failing and not excl and f.get("on_error") != "exclude"
                       and any(d not in given for d in f["deps"]) for f in decl if f.get("deps"))
    return exceed, lack, deps_possible, deps_certain


def failing_items(io):
    return sorted(i for i, b in io["alone"] if b)


class C10(Check):
    prop = "C10"
    props_modules = ["Utv.Props.C10"]
    driver = "C10"
    impl = "harness.c10:impl"
    rule = ("random declarations (Schema classes through __from__/class options, functions called by keyword and by "
            "position incl. *args: T, with and without **kwargs / **kwargs: T; typed `addition` (plain class or "
            "constrained Rule) with the invalid_values policies; 1-4 fields; field types of depth<=3 over int/str/float/bool with bound/length constraints, "
            "List/Tuple/Dict/Optional and the combinators & | ^ ~; required/default/on_error; addition None/False/True; "
            "invalid_* policies; both lookup strategies) x inputs with any subset of fields invalid/missing + excess "
            "keys, each run fail-fast and collecting with max_errors in {None,1,2,3} and every item parsed alone; "
            "plus RuntimeContext operation sequences.  non-trivial = at least one item fails or an error site was "
            "passed under a policy; distinct by (declaration, options, input)")
    assumptions = ["plain-class conversions and type(v)==cls are measured on the real code per case and handed to the "
                   "model as tables; the theorems hold for every such table (World)",
                   "fragment: no aliases/dependencies/no_input/discriminator/max_params/positional-only or excluded (_x) "
                   "parameters; no parameter given both by position and by keyword; constraints gt/ge/lt/le on int "
                   "and length constraints (the validators are abstract in the theorems)"]
    case_timeout = 90.0      # the cases are cheap; on a loaded box a 10 s per-case kill produced spurious `hang`s
    budget = {"quick": 1800, "thorough": 30000}
    search_budget = {"quick": 2500, "thorough": 25000}

    def cases(self, tier, rng, n):
        out = []
        if tier == "thorough":
            out += exhaustive_cases()
        nctx = max(50, n // 12)
        ntype = n // 6
        out += [gen_ctx_case(rng) for _ in range(nctx)]
        out += [gen_type_case(rng) for _ in range(ntype)]
        out += [gen_case(rng) for _ in range(n - nctx - ntype)]
        return out

    # the model line needs the tables measured by the adapter: run the implementation first
    def evaluate(self, cases):
        impl_outs = run_impl(self.impl, cases, self.case_timeout, extra_env=self.impl_env)
        lines, idx = [], []
        for i, (c, io) in enumerate(zip(cases, impl_outs)):
            ml = self.model_line2(c, io)
            if ml is not None:
                lines.append(ml)
                idx.append(i)
        outs = run_driver(self.driver, lines)
        model_outs = [None] * len(cases)
        for i, o in zip(idx, outs):
            model_outs[i] = o
        if not hasattr(self, "_stats"):          # the main sweep (the search, if any, comes later)
            parse = [(c, io, mo) for c, io, mo in zip(cases, impl_outs, model_outs) if c.get("kind") == "parse" and isinstance(io, dict)]
            self._stats = {
                "parse_cases": len(parse),
                "ctx_cases": sum(1 for c in cases if c.get("kind") == "ctx"),
                "modelled": sum(1 for _, io, mo in parse if "resolved" in io),
                "outside_model_fragment_spec_only": sum(1 for _, io, _ in parse if "unmodelled" in io),
                "illegal_declaration_skipped": sum(1 for _, io, _ in parse if "config_error" in io),
                "prim_miss": sum(1 for _, _, mo in parse if isinstance(mo, dict) and mo.get("miss")),
                "rejected_inputs": sum(1 for _, io, _ in parse if "runs" in io and "ok" not in io["runs"][0]),
                "accepted_inputs": sum(1 for _, io, _ in parse if "runs" in io and "ok" in io["runs"][0]),
                "runs_on_real_code": sum(len(io["runs"]) + len(io["alone"]) for _, io, _ in parse if "runs" in io),
                "calls_with_positional_args": sum(1 for c, io, _ in parse if c.get("args") and "runs" in io),
                "calls_with_var_positional": sum(1 for c, io, _ in parse if c.get("var") and "runs" in io),
                "typed_addition": sum(1 for c, io, _ in parse if (isinstance(c["opts"].get("addition"), dict) or c.get("kwty")) and "runs" in io),
            }
            self._samples = [{"case": c, "implementation": {k: v for k, v in io.items() if k != "tables"}, "model": mo}
                             for c, io, mo in parse if "resolved" in io and failing_items(io)][5:7]
        return impl_outs, model_outs

    def model_line2(self, case, io):
        if case.get("kind") == "ctx":
            return {"ctx": case["ctx"], "mode": case["mode"]}
        if case.get("kind") == "type":
            if not isinstance(io, dict) or "resolved_type" not in io:
                return None
            t = io["tables"]
            return {"type": io["resolved_type"], "opts": norm_opts(case["opts"], io["ropts"]), "value": case["value"],
                    "modes": MODES, "conv": t["conv"], "exact": t["exact"], "constraints": t["constraints"]}
        if not isinstance(io, dict) or "resolved" not in io:
            return None
        t = io["tables"]
        line = {"decl": io["resolved"], "opts": norm_opts(case["opts"], io["ropts"]), "data": case["data"], "modes": MODES,
                "conv": t["conv"], "exact": t["exact"], "constraints": t["constraints"],
                "legacy": bool(case.get("legacy")), "items": [i for i, _ in io["alone"]]}
        if "call" in io:
            line["call"] = io["call"]
        if io.get("rprops"):
            line["props"] = io["rprops"]
        return line

    def compare(self, case, io, mo):
        if case.get("kind") == "ctx":
            if not isinstance(mo, dict) or "ctx" not in mo:
                return f"driver: {mo}"
            if io.get("ctx") != mo["ctx"]:
                k = next((i for i, (a, b) in enumerate(zip(io.get("ctx") or [], mo["ctx"])) if a != b), -1)
                return f"context op #{k}: impl={io.get('ctx', [None] * (k + 1))[k]} model={mo['ctx'][k]}"
            return None
        if "config_error" in io or "unmodelled" in io:
            return None
        if "runs" not in io:
            return f"impl: {io}"
        if not isinstance(mo, dict) or "model" not in mo:
            return f"driver: {mo}"
        if mo.get("miss"):
            return "model asked for a conversion the implementation never needs (prim-miss)"
        m = mo["model"]
        if case.get("kind") == "type":
            for mode, a, b in zip(MODES, io["runs"], m["runs"]):
                if "escape" in a:
                    if "ok" in b:
                        return f"mode {mode}: impl escapes {a['escape']} but model accepts"
                    continue
                if "ok" in a or "ok" in b:
                    if a != b:
                        return f"mode {mode}: impl={a} model={b}"
                    continue
                # the error list of this level: classes in order; items where the model names one
                ea, eb = a["errors"], b["errors"]
                if a["err"] != b["err"] or len(ea) != len(eb) or any(
                        x[0] != y[0] or (y[1] is not None and x[1] != y[1]) for x, y in zip(ea, eb)):
                    return f"mode {mode}: error list of the type differs: impl={a} model={b}"
            return None
        for mode, a, b in zip(MODES, io["runs"], m["runs"]):
            if "escape" in a:
                if "ok" in b:
                    return f"mode {mode}: impl escapes {a['escape']} but model accepts"
                continue
            if "ok" in a or "ok" in b:
                if "ok" not in a or "ok" not in b or a["ok"] != canon_map(self.bound(io, b["ok"])):
                    return f"mode {mode}: impl={a} model={b}"
            elif a != b:
                return f"mode {mode}: impl={a} model={b}"
        if io["alone"] != m["alone"]:
            return f"items failing alone: impl={io['alone']} model={m['alone']}"
        if io.get("palone") and io["palone"] != m.get("palone"):
            return f"output properties failing alone: impl={io['palone']} model={m.get('palone')}"
        return None

    @staticmethod
    def bound(io, ok):
        """the model's result as the mapping the function body sees: positional values under their parameter names"""
        if not isinstance(ok, dict):
            return ok
        call = io["call"]
        names = [f["name"] for f in io["resolved"]][:call["npos"]]
        # positional part: what was given plus the defaults of omitted positional-only parameters; the rest is *args
        g = call["npos"] if (call["hasVar"] and len(call["args"]) >= call["npos"]) else min(len(ok["args"]), call["npos"])
        out = [[names[j], ok["args"][j]] for j in range(min(g, len(ok["args"])))]
        if call["hasVar"]:
            out.append(["__args", {"l": ok["args"][g:]}])
        return out + ok["kw"]

    def spec(self, case, io, mo):
        """the property, evaluated on what the implementation returned"""
        if case.get("kind") == "ctx" or "config_error" in io:
            return None
        if case.get("kind") == "type":
            ff = io["runs"][0]
            for mode, r in zip(MODES[1:], io["runs"][1:]):
                if ("ok" in ff) != ("ok" in r):
                    return (f"type verdict differs: fail-fast {'accepts' if 'ok' in ff else 'rejects'} but "
                            f"collect_errors=True,max_errors={mode[1]} {'accepts' if 'ok' in r else 'rejects'}")
                if "ok" in ff and ff["ok"] != r["ok"]:
                    return f"type value differs: fail-fast {ff['ok']} vs collect_errors=True,max_errors={mode[1]} {r['ok']}"
            return None
        if "runs" not in io:
            return f"adapter returned no runs: {io}"
        ff = io["runs"][0]
        failing = failing_items(io)
        exceed, too_few, deps_possible, deps_certain = global_truth(case, io)
        pnames = {p["name"] for p in case.get("props") or []}
        pfail = sorted(p for p, b in io.get("palone") or [] if b)
        for mode, r in zip(MODES[1:], io["runs"][1:]):
            tag = f"collect_errors=True,max_errors={mode[1]}"
            if ("ok" in ff) != ("ok" in r):
                return (f"verdict differs: fail-fast {'accepts' if 'ok' in ff else 'rejects'} but {tag} "
                        f"{'accepts' if 'ok' in r else 'rejects'} the same input")
            if "ok" in ff:
                if ff["ok"] != r["ok"]:
                    return f"value differs for an accepted input: fail-fast {ff['ok']} vs {tag} {r['ok']}"
                continue
            if "escape" in r:
                continue      # not a ParseError at all: C04's subject; the verdict (rejected) agrees
            if r.get("err") != "collected":
                return f"{tag}: rejection is not one CollectedParseError but {r}"
            # errors of the whole mapping name no item; every other error must name one
            glob = [k for k, it in r["errors"] if it is None]
            bad = [k for k in glob if k not in GLOBAL_KINDS]
            if bad:
                return f"{tag}: a collected error names no item: {r['errors']}"
            if ("ParamsExceedError" in glob and not exceed) or ("ParamsLackError" in glob and not too_few) or \
                    ("DependenciesAbsenceError" in glob and not deps_possible) or len(glob) != len(set(glob)):
                return f"{tag}: reports {glob} for the mapping as a whole, which the input does not warrant"
            if mode[1] is None and ((exceed and "ParamsExceedError" not in glob) or (too_few and "ParamsLackError" not in glob)
                                    or (deps_certain and "DependenciesAbsenceError" not in glob)):
                return f"{tag}: the mapping as a whole fails (exceed={exceed}, lack={too_few}, dependency={deps_certain}) but reports only {glob}"
            named = [it for _, it in r["errors"] if it is not None]
            if any(it in pnames for it in named):
                # second phase (__post_init__): only reached when the input was accepted; the errors name the output
                # properties whose computed value the return annotation rejects
                if failing or glob or exceed or too_few or deps_certain:
                    return f"{tag}: output properties {named} reported although the input itself fails ({failing}, {glob})"
                extra = sorted(set(named) - set(pfail))
                if extra:
                    return f"{tag}: reports output propert(ies) {extra} that do not fail on their own (failing: {pfail})"
                if mode[1] is None and sorted(set(named)) != pfail:
                    return f"{tag}: failing output propert(ies) {sorted(set(pfail) - set(named))} are not reported"
                if mode[1] is not None and len(r["errors"]) > mode[1]:
                    return f"{tag}: {len(r['errors'])} errors reported, more than max_errors"
                continue
            extra = sorted(set(named) - set(failing))
            if extra:
                return f"{tag}: reports item(s) {extra} that do not fail on their own (failing: {failing})"
            if mode[1] is None:
                lack = sorted(set(failing) - set(named))
                if lack:
                    return f"{tag}: failing item(s) {lack} are not reported (reported: {sorted(set(named))})"
            elif len(r["errors"]) > mode[1]:
                return f"{tag}: {len(r['errors'])} errors reported, more than max_errors"
        if "ok" in ff and failing:
            return f"accepted although item(s) {failing} fail on their own"
        if "ok" in ff and (exceed or too_few or deps_certain):
            return f"accepted although the mapping as a whole fails (exceed={exceed}, lack={too_few}, dependency={deps_certain})"
        if "ok" in ff and pfail:
            return f"accepted although the computed output propert(ies) {pfail} fail their return annotation"
        if "ok" not in ff and not failing and not pfail and not (exceed or too_few or deps_possible):
            return "rejected although no top-level item fails on its own and the mapping as a whole has nothing to report"
        return None

    def classify(self, case, io, why):
        return None

    def key(self, case, io):
        if case.get("kind") == "ctx":
            return None
        if not isinstance(io, dict) or "runs" not in io:
            return None
        if case.get("kind") == "type":
            # non-trivial: the value is rejected (an error list is compared)
            return json.dumps(["type", case["type"], case["opts"], case["value"]], sort_keys=True) if "ok" not in io["runs"][0] else None
        if failing_items(io) or any(f.get("on_error") for f in case["decl"]):
            return json.dumps([case["api"], case["decl"], case["opts"], case["data"]], sort_keys=True)
        return None

    def distribution(self, case, io):
        if case.get("kind") == "ctx":
            return "ctx-ops"
        if not isinstance(io, dict):
            return "adapter-failure"
        if "config_error" in io:
            return "config-error"
        if "runs" not in io:
            return "adapter-failure"
        if case.get("kind") == "type":
            r = io["runs"][1]
            return ("unmodelled/" if "unmodelled" in io else "") + "type/" + ("ok" if "ok" in r else "escape" if "escape" in r else f"errors={min(len(r['errors']), 3)}")
        nfail = len(failing_items(io))
        s = json.dumps(case["decl"])
        combs = "".join(op for op in "&|^~" if f'"comb": "{op}"' in s)
        tag = "unmodelled/" if "unmodelled" in io else ""
        strat = "DF" if case["opts"].get("dfs") else "FF"
        shape = ("+pos" if case.get("args") else "") + ("+*args" if case.get("var") else "") + \
                ("+typed-add" if isinstance(case["opts"].get("addition"), dict) or case.get("kwty") else "")
        return f"{tag}{case['api']}{shape}/{strat}/failing={min(nfail, 3)}/comb={'y' if combs else '-'}"

    def neighbours(self, case, rng):
        if case.get("kind") != "parse":
            return []
        out = []
        for dfs in (False, True):
            for add in ("unset", False, True):
                out.append(dict(case, opts=dict(case["opts"], dfs=dfs, addition=add)))
        for i in range(len(case["data"])):
            out.append(dict(case, data=case["data"][:i] + case["data"][i + 1:]))
        for i in range(len(case["decl"])):
            d = case["decl"][:i] + case["decl"][i + 1:]
            if d:
                out.append(dict(case, decl=d))
        for api in ("schema", "func", "funckw"):
            out.append(dict(case, api=api))
        return out

    def finish_evidence(self, ev, tier):
        ev["coverage"]["stats"] = getattr(self, "_stats", {})
        ev["coverage"]["samples"] = getattr(self, "_samples", []) + ev["coverage"]["samples"]
        if tier == "thorough":
            ev["coverage"]["exhaustive_part"] = ("every assignment of {valid, invalid, missing} to 3 fields x required/default "
                                                 "x excess key x addition x lookup strategy x {Schema, function}")


CHECK = C10()
