"""C06 — the result does not depend on the field-lookup strategy.

Same stream of declarations / inputs / options as C05 (harness/c05.py); every case is parsed once with
`Options(data_first_search=True)` and once with `False` on the real code.  Oracle (the strict reading of "a failure of
the same kind", `SameOutcomeStrict` in Props/C06.lean): equal mapping, `__dict__` and attribute access when both
succeed; otherwise both raise the SAME <kind, item>, or both collect the same set of <kind, item>.
Known finding `failfast-first-error-order` (`KnownDefect` in Props/C06.lean): when not every violation is reported
(fail-fast, or `max_errors`) and the input has two different ones, which is reported depends on the loop order of the
strategy.  `classify` admits exactly that class: both strategies, made to collect everything, report the same set V,
V has two different members, and what each reported is a member of V.
Correspondence: each of the two runs against the Lean model of its strategy (`dataFirst` / `fieldFirst`).
"""
from __future__ import annotations

import json

from .c05 import C05, gen_func_case, judge


def same(df, ff, collect, max_errors):
    for name, o in (("data-first", df), ("field-first", ff)):
        if "escape" in o:
            return f"{name}: a non-ParseError exception escaped: {o['escape']}"
    if "ok" in df and "ok" in ff:
        for k, what in (("mapping", "instance mapping"), ("attrs", "__dict__"), ("getattr", "attribute access")):
            if df["ok"][k] != ff["ok"][k]:
                return f"{what} differs: data-first {df['ok'][k]} vs field-first {ff['ok'][k]}"
        return None
    if "ok" in df or "ok" in ff:
        return f"one strategy succeeds, the other fails: data-first {df} vs field-first {ff}"
    if ("raised" in df) != ("raised" in ff):
        return f"failure of a different kind: data-first {df} vs field-first {ff}"
    a, b = reported(df), reported(ff)
    if a != b:
        if "raised" in df:
            return f"{ORDER}: data-first raises {sorted(a, key=str)[0]}, field-first raises {sorted(b, key=str)[0]}"
        if max_errors is not None:
            return (f"{ORDER} (max_errors={max_errors}): data-first collects {sorted(a, key=str)}, field-first "
                    f"{sorted(b, key=str)}")
        return f"collected errors differ: data-first {sorted(a, key=str)} vs field-first {sorted(b, key=str)}"
    return None


ORDER = "which error is reported depends on the strategy"


def reported(o) -> set:
    es = [o["raised"]] if "raised" in o else o.get("collected", [])
    return {(k, tuple(i) if isinstance(i, list) else i) for k, i in es}


class C06(C05):
    prop = "C06"
    props_modules = ["Utv.Props.C06"]
    rule = ("the C05 stream (declarations of 1-4 fields from the Field parameter product x class/runtime Options x inputs over "
            "aliases, case variants, duplicates, extra keys), each case parsed once per strategy on the real code; non-trivial "
            "= the input uses an alias or case variant, gives a field twice, leaves a field out, hits a no_input/no_output/mode "
            "rule, has an unknown key or active dependencies, or fails; distinct by the whole case.  One sixth more cases declare "
            "the same parameters on a keyword-only function (@utype.parse) and call it under both strategies (oracle only)")
    assumptions = C05.assumptions + [
        "function declarations (FunctionParser.parse_params: as_attname / excluded_keys) are outside the modelled fragment; "
        "they share data_first_parse / field_first_parse with data classes and are covered by the oracle only: one sixth of "
        "the stream are keyword-only functions with the same parameter declarations, called under both strategies",
    ]

    def cases(self, tier, rng, n):
        out = super().cases(tier, rng, n)
        out += [gen_func_case(rng) for _ in range(max(1, n // 6))]
        return out

    def spec(self, case, io, mo):
        if not isinstance(io, dict) or "out" not in io:
            return f"no outcome: {io}"
        if "config_error" in io["out"]:
            return None
        from .c05 import norm_opts
        from .c05 import flat
        own = case["cls"].get("opts") if case.get("kind") == "func" else flat(case).get("opts")
        o = norm_opts(case["runtime"] if case.get("runtime") is not None else own)
        why = same(io["df"], io["ff"], o["collect_errors"], o["max_errors"])
        if why and why.startswith(ORDER) and isinstance(mo, dict) and mo.get("wf") and "spec" in mo:
            # the Lean side of the classification: the violations of the contract (KnownDefect needs two different ones)
            io["_lean_violations"] = len({json.dumps(e, sort_keys=True) for e in mo["spec"]["errs"]})
        return why

    def classify(self, case, io, why):
        """`failfast-first-error-order` and nothing else: both strategies fail, neither reports everything, and — made
        to collect without a cap — both handle the same set V of violations, V has two different members, and what each
        run reported is in V."""
        if not why.startswith(ORDER):
            return None
        da, fa = io.get("df_all"), io.get("ff_all")
        if not (isinstance(da, dict) and isinstance(fa, dict) and "collected" in da and "collected" in fa):
            return None
        V = reported(da)
        if V != reported(fa) or len(V) < 2:
            return None
        if not (reported(io["df"]) <= V and reported(io["ff"]) <= V):
            return None
        if io.get("_lean_violations", 2) < 2:
            return None
        return "failfast-first-error-order"


CHECK = C06()
