import Utv.Model.C03Copy
import Utv.Gen.Functional
/-!
C03 — defaults and data classes (second Props module of C03; kept apart from `Props/C03.lean` so that a change of
`utils/functional.py` breaks exactly the obligations that are about it).

* `copy_value` as regenerated from the source (T1, `Utv.Gen.Functional.copy_value_step`): every function satisfying the
  generated equation returns a value with the same container class at every level and the same elements.
* a data class whose field types are idempotent and whose defaults conform re-parses to itself.
-/
namespace Utv.C03

/-! ### defaults: `copy_value` (T1-generated from utils/functional.py) hands back an equal value with the same
container class at every level; a data class whose defaults conform to their field types re-parses to itself -/

section Copy
open Utv.C03C Utv.Gen.Functional

mutual
/-- data as a declared default holds it: lists, tuples, sets, frozensets (elements pairwise different, i.e. building
the set again from its elements gives the same elements), dicts; no dict views -/
def WF (W : World) : CVal → Prop
  | .atom _ => True
  | .seq k xs => (k = .list ∨ k = .tuple ∨ ((k = .set ∨ k = .frozenset) ∧ CV.dedup W xs = xs)) ∧ WFs W xs
  | .dict _ vs => WFs W vs
def WFs (W : World) : List CVal → Prop
  | [] => True
  | x :: xs => WF W x ∧ WFs W xs
end

/-- a function that satisfies `copy_value`'s defining equation (as regenerated from the source) -/
def IsCopyValue (W : World) (rec : CVal → C03C.M CVal) : Prop := ∀ v, rec v = copy_value_step W rec v

theorem mapM_ok_self (rec : CVal → C03C.M CVal) : ∀ xs : List CVal, (∀ x ∈ xs, rec x = .ok x) → xs.mapM rec = .ok xs := by
  intro xs
  induction xs with
  | nil => intro _; rfl
  | cons x xs ih =>
    intro h
    rw [List.mapM_cons, h x (by simp), ih (fun y hy => h y (by simp [hy]))]
    rfl

theorem WFs_mem (W : World) : ∀ xs : List CVal, WFs W xs → ∀ x ∈ xs, WF W x := by
  intro xs
  induction xs with
  | nil => intro _ x hx; cases hx
  | cons y ys ih =>
    intro hw x hx
    rcases List.mem_cons.mp hx with rfl | hx'
    · exact hw.1
    · exact ih hw.2 x hx'

theorem copy_value_identity_aux (W : World) (rec : CVal → C03C.M CVal) (h : IsCopyValue W rec) :
    ∀ n : Nat, ∀ v : CVal, sizeOf v ≤ n → WF W v → rec v = .ok v := by
  intro n
  induction n with
  | zero =>
    intro v hv _
    cases v <;> simp at hv <;> omega
  | succ n ih =>
    intro v hv hw
    cases v with
    | atom m =>
      rw [h]; simp [copy_value_step, multi, CV.isinstance, CV.typeOf, pure, Except.pure, bind, Except.bind]
    | seq k xs =>
      have hxs : xs.mapM rec = .ok xs := by
        apply mapM_ok_self
        intro x hx
        have hlt := List.sizeOf_lt_of_mem hx
        simp at hv
        exact ih x (by omega) (WFs_mem W xs hw.2 x hx)
      rw [h]
      rcases hw.1 with rfl | rfl | ⟨rfl | rfl, hd⟩
      · simp [copy_value_step, multi, CV.isinstance, CV.typeOf, CV.iter, CV.construct, hxs, pure, Except.pure, bind, Except.bind]
      · simp [copy_value_step, multi, CV.isinstance, CV.typeOf, CV.iter, CV.construct, hxs, pure, Except.pure, bind, Except.bind]
      · simp [copy_value_step, multi, CV.isinstance, CV.typeOf, CV.iter, CV.construct, hxs, pure, Except.pure, bind, Except.bind, hd]
      · simp [copy_value_step, multi, CV.isinstance, CV.typeOf, CV.iter, CV.construct, hxs, pure, Except.pure, bind, Except.bind, hd]
    | dict ks vs =>
      have hvs : vs.mapM rec = .ok vs := by
        apply mapM_ok_self
        intro x hx
        have hlt := List.sizeOf_lt_of_mem hx
        simp at hv
        exact ih x (by omega) (WFs_mem W vs hw x hx)
      rw [h]
      simp [copy_value_step, multi, CV.isinstance, CV.typeOf, CV.dictMapValues, hvs, pure, Except.pure, bind, Except.bind]

/-- **copy_value is the identity up to memory**: same container class at every level, same elements, same keys — for
every function satisfying the generated equation, every nesting depth, every `==` -/
theorem C03_copy_value_identity (W : World) (rec : CVal → C03C.M CVal) (h : IsCopyValue W rec) (v : CVal)
    (hw : WF W v) : rec v = .ok v :=
  copy_value_identity_aux W rec h (sizeOf v) v (Nat.le_refl _) hw

theorem copyRefs_eq_mapM (W : World) : ∀ xs : List CVal, copyRefs W xs = xs.mapM (copyRef W) := by
  intro xs
  induction xs with
  | nil => simp [copyRefs]
  | cons x xs ih => simp [copyRefs, ih, List.mapM_cons]

/-- the hand-written reference satisfies the generated equation: the hypothesis `IsCopyValue` is satisfiable, and the
function the driver runs against the real `copy_value` is the translated one -/
theorem C03_copy_ref_is_copy_value (W : World) : IsCopyValue W (copyRef W) := by
  intro v
  cases v with
  | atom n => simp [copyRef, copy_value_step, multi, CV.isinstance, CV.typeOf, pure, Except.pure, bind, Except.bind]
  | seq k xs =>
    cases k <;>
      simp [copyRef, isMultiCls, copy_value_step, multi, CV.isinstance, CV.typeOf, CV.iter, CV.dictMapValues,
        copyRefs_eq_mapM, pure, Except.pure, bind, Except.bind, throw, throwThe, MonadExceptOf.throw]
  | dict ks vs =>
    simp [copyRef, copy_value_step, multi, CV.isinstance, CV.typeOf, CV.dictMapValues, copyRefs_eq_mapM, pure,
      Except.pure, bind, Except.bind]

/-- in particular the class of the copy is the class of the original: a tuple default stays a tuple -/
theorem C03_copy_value_keeps_class (W : World) (rec : CVal → C03C.M CVal) (h : IsCopyValue W rec) (v r : CVal)
    (hw : WF W v) (hr : rec v = .ok r) : CV.typeOf r = CV.typeOf v := by
  rw [C03_copy_value_identity W rec h v hw] at hr
  injection hr with hr
  rw [hr]

/-- non-vacuity: a nested default with every container kind is well-formed (for any `==` that tells 1 from 2) -/
example (W : World) (h12 : W.pyEq (.atom 2) (.atom 1) = false) :
    WF W (.seq .list [.seq .tuple [.atom 0, .seq .set [.atom 1, .atom 2]], .dict [.atom 3] [.seq .frozenset [.atom 4]]]) := by
  simp [WF, WFs, CV.dedup, h12]

/-- dict views are *not* copied: `type(data)([...])` cannot build them (the code raises; not reachable from a default) -/
theorem C03_copy_value_dict_view_raises (W : World) (rec : CVal → C03C.M CVal) (h : IsCopyValue W rec) (xs : List CVal)
    (hx : ∀ x ∈ xs, rec x = .ok x) : rec (.seq .dictValues xs) = .error .typeError := by
  rw [h]
  simp [copy_value_step, multi, CV.isinstance, CV.typeOf, CV.iter, CV.construct, mapM_ok_self rec xs hx, pure, Except.pure,
    bind, Except.bind, throw, throwThe, MonadExceptOf.throw]

end Copy

/-! ### a data class re-parses to itself when its field types are idempotent and its defaults conform -/

section DataClass
open Utv.C03C
variable {V E : Type}

/-- the result entries are keyed by fields of the class -/
theorem parseDC_keys (copy : V → Except E V) (absent : E) :
    ∀ (fs : List (FieldD V E)) (input r : List (String × V)), parseDC copy absent fs input = .ok r →
      ∀ e ∈ r, ∃ f ∈ fs, f.key = e.1 := by
  intro fs
  induction fs with
  | nil => intro input r h e he; simp [parseDC, pure, Except.pure] at h; subst h; cases he
  | cons f fs ih =>
    intro input r h e he
    simp only [parseDC, bind, Except.bind] at h
    cases ho : fieldStep copy absent f input with
    | error x => simp [ho] at h
    | ok o =>
      cases hr : parseDC copy absent fs input with
      | error x => simp [ho, hr] at h
      | ok rest =>
        simp only [ho, hr, pure, Except.pure, Except.ok.injEq] at h
        subst h
        cases o with
        | none =>
          obtain ⟨g, hg, hk⟩ := ih input rest hr e he
          exact ⟨g, by simp [hg], hk⟩
        | some e0 =>
          rcases List.mem_cons.mp he with rfl | he'
          · refine ⟨f, by simp, ?_⟩
            unfold fieldStep at ho
            cases hl : input.lookup f.key with
            | some x =>
              simp only [hl, bind, Except.bind] at ho
              cases hp : f.parse x with
              | error _ => simp [hp] at ho
              | ok y =>
                simp only [hp, pure, Except.pure, Except.ok.injEq] at ho
                split at ho <;> simp at ho
                rw [← ho]
            | none =>
              simp only [hl] at ho
              split at ho
              · cases ho
              · cases hd : f.default with
                | none => simp [hd, pure, Except.pure] at ho
                | some d =>
                  simp only [hd, bind, Except.bind] at ho
                  cases hc : copy d with
                  | error _ => simp [hc] at ho
                  | ok c =>
                    simp only [hc, pure, Except.pure, Except.ok.injEq] at ho
                    split at ho <;> simp at ho
                    rw [← ho]
          · obtain ⟨g, hg, hk⟩ := ih input rest hr e he'
            exact ⟨g, by simp [hg], hk⟩

theorem lookup_none_of_no_key (r : List (String × V)) (k : String) (h : ∀ e ∈ r, e.1 ≠ k) : r.lookup k = none := by
  induction r with
  | nil => rfl
  | cons e r ih =>
    obtain ⟨a, b⟩ := e
    have hne : a ≠ k := h (a, b) (by simp)
    have : (k == a) = false := by simp [Ne.symm hne]
    simp only [List.lookup, this]
    exact ih (fun e he => h e (by simp [he]))

/-- the conditions on one field: its type's parse is idempotent, its default is a value of its type (re-parses to
itself) and is handed back by `copy_value` as it is (the theorem above), and — known finding
`no-output-required-dropped` — it is not both required and excluded from the output -/
structure FieldOk (copy : V → Except E V) (f : FieldD V E) : Prop where
  idem : ∀ x y, f.parse x = .ok y → f.parse y = .ok y
  conforms : ∀ d, f.default = some d → f.parse d = .ok d
  copied : ∀ d, f.default = some d → copy d = .ok d
  notDropped : ¬ (f.required = true ∧ f.noOutput = true)

theorem parseDC_reparse_aux (copy : V → Except E V) (absent : E) :
    ∀ (fs : List (FieldD V E)) (input r R : List (String × V)),
      (fs.map (·.key)).Nodup → (∀ f ∈ fs, FieldOk copy f) →
      parseDC copy absent fs input = .ok r → (∀ f ∈ fs, R.lookup f.key = r.lookup f.key) →
      parseDC copy absent fs R = .ok r := by
  intro fs
  induction fs with
  | nil => intro input r R _ _ h _; simpa [parseDC] using h
  | cons f fs ih =>
    intro input r R hnd hok h hR
    have hf := hok f (by simp)
    simp only [List.map_cons, List.nodup_cons] at hnd
    simp only [parseDC, bind, Except.bind] at h ⊢
    cases ho : fieldStep copy absent f input with
    | error x => simp [ho] at h
    | ok o =>
      cases hr : parseDC copy absent fs input with
      | error x => simp [ho, hr] at h
      | ok rest =>
        simp only [ho, hr, pure, Except.pure, Except.ok.injEq] at h
        -- entries of `rest` never carry `f.key`
        have hrest : rest.lookup f.key = none := by
          apply lookup_none_of_no_key
          intro e he hk
          obtain ⟨g, hg, hgk⟩ := parseDC_keys copy absent fs input rest hr e he
          exact hnd.1 (List.mem_map.mpr ⟨g, hg, by rw [hgk, hk]⟩)
        have hRf := hR f (by simp)
        -- the same field step on the result
        have hstep : fieldStep copy absent f R = .ok o := by
          unfold fieldStep at ho ⊢
          cases o with
          | some e0 =>
            -- the entry is (f.key, y) with y a fixed point of f.parse
            have : ∃ y, e0 = (f.key, y) ∧ f.parse y = .ok y ∧ f.noOutput = false := by
              cases hl : input.lookup f.key with
              | some x =>
                simp only [hl, bind, Except.bind] at ho
                cases hp : f.parse x with
                | error _ => simp [hp] at ho
                | ok y =>
                  simp only [hp, pure, Except.pure, Except.ok.injEq] at ho
                  cases hn : f.noOutput <;> simp [hn] at ho
                  exact ⟨y, ho.symm, hf.idem x y hp, rfl⟩
              | none =>
                simp only [hl] at ho
                split at ho
                · cases ho
                · cases hd : f.default with
                  | none => simp [hd, pure, Except.pure] at ho
                  | some d =>
                    simp only [hd, bind, Except.bind, hf.copied d hd, pure, Except.pure, Except.ok.injEq] at ho
                    cases hn : f.noOutput <;> simp [hn] at ho
                    exact ⟨d, ho.symm, hf.conforms d hd, rfl⟩
            obtain ⟨y, rfl, hy, hn⟩ := this
            subst h
            have : R.lookup f.key = some y := by rw [hRf]; simp [List.lookup]
            simp [this, hy, hn, bind, Except.bind, pure, Except.pure]
          | none =>
            subst h
            have hRn : R.lookup f.key = none := by rw [hRf]; exact hrest
            simp only [hRn]
            -- why was nothing emitted the first time?
            cases hl : input.lookup f.key with
            | some x =>
              simp only [hl, bind, Except.bind] at ho
              cases hp : f.parse x with
              | error _ => simp [hp] at ho
              | ok y =>
                simp only [hp, pure, Except.pure, Except.ok.injEq] at ho
                cases hn : f.noOutput with
                | false => simp [hn] at ho
                | true =>
                  have hreq : f.required = false := by
                    cases hq : f.required with
                    | false => rfl
                    | true => exact absurd ⟨hq, hn⟩ hf.notDropped
                  cases hd : f.default with
                  | none => simp [hreq, pure, Except.pure]
                  | some d => simp [hreq, hf.copied d hd, hn, bind, Except.bind, pure, Except.pure]
            | none =>
              simp only [hl] at ho
              exact ho
        rw [hstep]
        have hih := ih input rest R hnd.2 (fun g hg => hok g (by simp [hg])) hr (by
          intro g hg
          rw [hR g (by simp [hg])]
          cases o with
          | none => rw [← h]
          | some e0 =>
            rw [← h]
            -- e0's key is f.key ≠ g.key
            have hk : e0.1 = f.key := by
              obtain ⟨g', hg', hgk⟩ := parseDC_keys copy absent [f] input [e0] (by
                simp [parseDC, ho, bind, Except.bind, pure, Except.pure]) e0 (by simp)
              simp at hg'
              rw [← hgk, hg']
            obtain ⟨a, b⟩ := e0
            simp only at hk
            subst hk
            have hne : g.key ≠ f.key := by
              intro heq
              exact hnd.1 (List.mem_map.mpr ⟨g, hg, heq⟩)
            have : (g.key == f.key) = false := by simp [hne]
            simp [List.lookup, this])
        simp only [hih, pure, Except.pure]
        rw [h]

/-- **data classes**: for a class with distinct field names whose fields satisfy `FieldOk`, the result of a parse
re-parses (as plain data) to itself — defaults included, whatever the input was -/
theorem C03_dataclass_idempotent (copy : V → Except E V) (absent : E) (fs : List (FieldD V E))
    (input r : List (String × V)) (hnd : (fs.map (·.key)).Nodup) (hok : ∀ f ∈ fs, FieldOk copy f)
    (h : parseDC copy absent fs input = .ok r) : parseDC copy absent fs r = .ok r :=
  parseDC_reparse_aux copy absent fs input r r hnd hok h (fun _ _ => rfl)

/-- negation witness for the excluded region (known finding `no-output-required-dropped`): a required field with
`no_output` is dropped from the result, which then does not re-parse -/
theorem C03_no_output_required_witness :
    let f : FieldD Nat String := { key := "pw", parse := .ok, required := true, default := none, noOutput := true }
    parseDC (V := Nat) (E := String) .ok "absent" [f] [("pw", 1)] = .ok [] ∧
    parseDC (V := Nat) (E := String) .ok "absent" [f] [] = .error "absent" := by
  constructor <;> rfl

/-- non-vacuity: a two-field class (one with a default that is used) satisfies the hypotheses and re-parses -/
example :
    let fs : List (FieldD Nat String) :=
      [{ key := "a", parse := fun x => .ok (x % 10), required := true, default := none, noOutput := false },
       { key := "lim", parse := fun x => .ok (x % 10), required := false, default := some 7, noOutput := false }]
    parseDC .ok "absent" fs [("a", 13)] = .ok [("a", 3), ("lim", 7)] ∧
    parseDC .ok "absent" fs [("a", 3), ("lim", 7)] = .ok [("a", 3), ("lim", 7)] := by
  constructor <;> rfl

end DataClass

/-! ### the two halves joined: defaults copied by (any function satisfying the generated) `copy_value` -/

section Join
open Utv.C03C

/-- **data classes over `CVal` with the real `copy_value`**: `FieldOk.copied` is discharged by `C03_copy_value_identity` for
well-formed defaults; what remains per field is idempotence of its type's parse and conformance of its default -/
theorem C03_dataclass_idempotent_copy (W : World) (rec : CVal → C03C.M CVal) (hrec : IsCopyValue W rec) (absent : CExc)
    (fs : List (FieldD CVal CExc)) (input r : List (String × CVal)) (hnd : (fs.map (·.key)).Nodup)
    (hidem : ∀ f ∈ fs, ∀ x y, f.parse x = .ok y → f.parse y = .ok y)
    (hconf : ∀ f ∈ fs, ∀ d, f.default = some d → f.parse d = .ok d ∧ WF W d)
    (hdrop : ∀ f ∈ fs, ¬ (f.required = true ∧ f.noOutput = true))
    (h : parseDC rec absent fs input = .ok r) : parseDC rec absent fs r = .ok r :=
  C03_dataclass_idempotent rec absent fs input r hnd
    (fun f hf => ⟨hidem f hf, fun d hd => (hconf f hf d hd).1,
      fun d hd => C03_copy_value_identity W rec hrec d (hconf f hf d hd).2, hdrop f hf⟩) h

/-- non-vacuity with a `FieldOk` term actually built: a field with a nested tuple default, copied by the reference `copy_value` -/
example (W : World) :
    let f : FieldD CVal CExc := { key := "lim", parse := .ok, required := false,
                                   default := some (.seq .tuple [.atom 0, .seq .list [.atom 1]]), noOutput := false }
    FieldOk (copyRef W) f ∧ parseDC (copyRef W) .typeError [f] [] = .ok [("lim", .seq .tuple [.atom 0, .seq .list [.atom 1]])] ∧
      parseDC (copyRef W) .typeError [f] [("lim", .seq .tuple [.atom 0, .seq .list [.atom 1]])] =
        .ok [("lim", .seq .tuple [.atom 0, .seq .list [.atom 1]])] := by
  refine ⟨⟨?_, ?_, ?_, ?_⟩, rfl, rfl⟩
  · intro x y h; injection h with h; subst h; rfl
  · intro d _; rfl
  · intro d hd
    simp only [Option.some.injEq] at hd
    subst hd
    exact C03_copy_value_identity W (copyRef W) (C03_copy_ref_is_copy_value W) _ (by simp [WF, WFs])
  · simp

end Join

/-! ### round 4: every key of a result is a key of the class — no "additional" key when the result is parsed again -/

section Excess
open Utv.C03C
variable {V E : Type}

/-- the keys of `data` that belong to no field of the class (what `addition=False` / `no_data_loss` refuse, base.py:678-690) -/
def excessKeys (fs : List (FieldD V E)) (data : List (String × V)) : List String :=
  (data.map (·.1)).filter fun k => !(fs.map (·.key)).contains k

/-- **the output of a parse never carries an excess key**: whatever the fields are (inputs, defaults, outputs that are not
inputs), re-parsing the result under `addition=False` cannot fail with ExceedError -/
theorem C03_result_has_no_excess_keys (copy : V → Except E V) (absent : E) (fs : List (FieldD V E))
    (input r : List (String × V)) (h : parseDC copy absent fs input = .ok r) : excessKeys fs r = [] := by
  unfold excessKeys
  rw [List.filter_eq_nil_iff]
  intro k hk
  obtain ⟨e, he, rfl⟩ := List.mem_map.mp hk
  obtain ⟨f, hf, hfk⟩ := parseDC_keys copy absent fs input r h e he
  simp only [Bool.not_eq_true, Bool.not_eq_false', List.contains_iff_mem]
  exact List.mem_map.mpr ⟨f, hf, hfk⟩

end Excess

end Utv.C03
