import Utv.Model.C09
/-!
C09 — logical type combinators mean what they say.

Part A: laws of `logical_parse` for EVERY list of argument parsers, every option set and every input
(no bound on the number of arguments; arguments may themselves be combinators).
Part B: the algebra of construction (`combine`, `combine_by`, the operators of `LogicalType` and `LogicalMeta`).

The `^` branch of the pinned tree violated the property (value threading, exact-type shortcut); it was
repaired (fixes/C09-xor-exactly-one.patch), the model mirrors the repaired code and the full statements
`C09_xor_exactly_one` / `C09_xor_perm` hold.  The pre-fix branch is kept as `logicalXorLegacy` and the two
negation witnesses are proved of it by `decide`.
-/
namespace Utv.C09

variable {V : Type}

/-! ### vocabulary of the property (independent of the code) -/

/-- "argument `a` accepts `v`" under options `o` -/
def Arg.accepts (a : Arg V) (o : Opts) (v : V) : Bool := (a.run o v).isOk

/-- the outputs of the accepting arguments, in argument order -/
def oks (as : List (Arg V)) (o : Opts) (v : V) : List V := as.filterMap fun a => (a.run o v).toOption

/-- C12's subset law for the arguments: the option sets of the union stages only restrict -/
def Mono (as : List (Arg V)) (o : Opts) : Prop :=
  ∀ a ∈ as, ∀ s ∈ stages o, ∀ v, (a.run s v).isOk = true → (a.run o v).isOk = true

/-- transform.py:706-708: a value of exactly the argument's type is returned as it is -/
def ExactLaw (as : List (Arg V)) : Prop := ∀ a ∈ as, ∀ o v, a.exact v = true → a.run o v = .ok v

/-- specification of a union: the input itself for an exact type, otherwise the output of the first
accepting argument of the first stage in which some argument accepts -/
def unionSpec (as : List (Arg V)) (o : Opts) (v : V) : Option V :=
  if as.any (fun a => a.exact v) then some v
  else (stages o).findSome? fun s => as.findSome? fun a => (a.run s v).toOption

/-- specification of exclusive-or: the output of the one and only accepting argument -/
def xorSpec (as : List (Arg V)) (o : Opts) (v : V) : Option V :=
  match oks as o v with
  | [r] => some r
  | _ => none

/-- specification of conjunction: the arguments applied in order to the running value -/
def allSpec (as : List (Arg V)) (o : Opts) (v : V) : Except Err V := as.foldlM (fun w a => a.run o w) v

/-! ### helper lemmas -/

theorem isOk_iff_toOption {ε α : Type} (x : Except ε α) : x.isOk = true ↔ ∃ r, x.toOption = some r := by
  cases x <;> simp [Except.isOk, Except.toBool, Except.toOption]

theorem toOption_ok {ε α : Type} (x : Except ε α) (r : α) : x.toOption = some r ↔ x = .ok r := by
  cases x <;> simp [Except.toOption]

theorem raiseError_empty (v : V) : raiseError ({} : Ctx) v = .ok v := rfl

theorem raiseError_errors (c : Ctx) (v : V) (h : c.errors ≠ []) :
    raiseError c v = .error (.collected (c.errors ++ c.tmp)) := by
  unfold raiseError
  cases he : c.errors with
  | nil => exact absurd he h
  | cons x xs => simp

theorem raiseError_tmp (c : Ctx) (v : V) (h : c.tmp ≠ []) :
    raiseError c v = .error (.collected (c.errors ++ c.tmp)) := by
  unfold raiseError
  cases he : c.tmp with
  | nil => exact absurd he h
  | cons x xs => simp

/-- whatever `handle_error` does, the error stays recorded -/
theorem handleError_fst (o : Opts) (c : Ctx) (e : Err) : (handleError o c e).1 = c.push e := by
  unfold handleError
  split
  · rfl
  · split
    · split <;> rfl
    · rfl

theorem push_errors (c : Ctx) (e : Err) : (c.push e).errors ≠ [] := by simp [Ctx.push]

theorem handleError_errors (o : Opts) (c : Ctx) (e : Err) : (handleError o c e).1.errors ≠ [] := by
  rw [handleError_fst]; exact push_errors c e

/-- after `handle_error`, logical_parse cannot return normally -/
theorem handle_then_raise (o : Opts) (c : Ctx) (e : Err) (v : V) :
    ∃ e', afterHandle (handleError o c e) v = .error e' := by
  have h := handleError_errors o c e
  generalize handleError o c e = p at h
  obtain ⟨c', r⟩ := p
  cases r with
  | some e' => exact ⟨e', rfl⟩
  | none => exact ⟨_, raiseError_errors c' v h⟩

/-! ### conjunction -/

theorem allLoop_spec (o : Opts) (as : List (Arg V)) (v : V) :
    (∃ r, allSpec as o v = .ok r ∧ allLoop o as v = (r, none)) ∨
    (∃ e w, allSpec as o v = .error e ∧ allLoop o as v = (w, some e)) := by
  induction as generalizing v with
  | nil => exact Or.inl ⟨v, rfl, rfl⟩
  | cons a as ih =>
    unfold allSpec
    simp only [List.foldlM_cons, allLoop]
    cases h : a.run o v with
    | error e => exact Or.inr ⟨e, v, rfl, rfl⟩
    | ok w => exact ih w

/-- Conjunction applies its arguments in order to the running value: it returns exactly what the fold of
the arguments returns, and fails exactly when the fold fails (all options, incl. collecting errors). -/
theorem C09_all_fold (as : List (Arg V)) (o : Opts) (v : V) :
    (logicalAll as o v).toOption = (allSpec as o v).toOption := by
  unfold logicalAll
  rcases allLoop_spec o as v with ⟨r, hs, hl⟩ | ⟨e, w, hs, hl⟩
  · rw [hl, hs]; rfl
  · rw [hl, hs]
    obtain ⟨e', he'⟩ := handle_then_raise o {} e w
    simp only [he']; rfl

/-- without error collection even the exception is the one the failing argument raised -/
theorem C09_all_fold_exact (as : List (Arg V)) (o : Opts) (v : V) (h : o.collectErrors = false) :
    logicalAll as o v = allSpec as o v := by
  unfold logicalAll
  rcases allLoop_spec o as v with ⟨r, hs, hl⟩ | ⟨e, w, hs, hl⟩
  · rw [hl, hs]; rfl
  · rw [hl, hs]; simp [handleError, h, afterHandle]

/-! ### union -/

theorem tryArgs_spec (s : Opts) (v : V) (as : List (Arg V)) (tmp : List Err) :
    (∃ r, (as.findSome? fun a => (a.run s v).toOption) = some r ∧ tryArgs s v as tmp = (some r, [])) ∨
    ((as.findSome? fun a => (a.run s v).toOption) = none ∧
      ∃ t, tryArgs s v as tmp = (none, t) ∧ t.length = tmp.length + as.length) := by
  induction as generalizing tmp with
  | nil => exact Or.inr ⟨rfl, tmp, rfl, by simp⟩
  | cons a as ih =>
    simp only [List.findSome?_cons, tryArgs]
    cases h : a.run s v with
    | ok r => exact Or.inl ⟨r, rfl, rfl⟩
    | error e =>
      simp only [Except.toOption]
      rcases ih (tmp ++ [e]) with ⟨r, h1, h2⟩ | ⟨h1, t, h2, h3⟩
      · exact Or.inl ⟨r, h1, h2⟩
      · exact Or.inr ⟨h1, t, h2, by simp at h3 ⊢; omega⟩

theorem unionStages_spec (as : List (Arg V)) (v : V) (ss : List Opts) (tmp : List Err) :
    (∃ r, (ss.findSome? fun s => as.findSome? fun a => (a.run s v).toOption) = some r ∧
      unionStages as v ss tmp = (some r, [])) ∨
    ((ss.findSome? fun s => as.findSome? fun a => (a.run s v).toOption) = none ∧
      ∃ t, unionStages as v ss tmp = (none, t) ∧ t.length = tmp.length + ss.length * as.length) := by
  induction ss generalizing tmp with
  | nil => exact Or.inr ⟨rfl, tmp, rfl, by simp⟩
  | cons s ss ih =>
    simp only [List.findSome?_cons, unionStages]
    rcases tryArgs_spec s v as tmp with ⟨r, h1, h2⟩ | ⟨h1, t, h2, h3⟩
    · rw [h1, h2]; exact Or.inl ⟨r, rfl, rfl⟩
    · rw [h1, h2]
      rcases ih t with ⟨r, h4, h5⟩ | ⟨h4, t', h5, h6⟩
      · exact Or.inl ⟨r, h4, h5⟩
      · refine Or.inr ⟨h4, t', h5, ?_⟩
        rw [h6, h3, List.length_cons, Nat.succ_mul]; omega

theorem stages_ne_nil (o : Opts) : stages o ≠ [] := by
  unfold stages; simp

theorem self_mem_stages (o : Opts) : o ∈ stages o := by
  unfold stages; simp

/-- A value of exactly one of the argument types is accepted unchanged. -/
theorem C09_union_exact (as : List (Arg V)) (o : Opts) (v : V) (h : as.any (fun a => a.exact v) = true) :
    logicalUnion as o v = .ok v := by
  unfold logicalUnion; rw [if_pos h]

/-- The union returns exactly what its specification says: the input for an exact type, otherwise the
output of the first accepting argument at the first stage (strict, then lossless, then the caller's
options) at which any argument accepts; it fails iff no argument accepts at any stage. -/
theorem C09_union_refines (as : List (Arg V)) (o : Opts) (v : V) (hne : as ≠ []) :
    (logicalUnion as o v).toOption = unionSpec as o v := by
  unfold logicalUnion unionSpec
  split
  · rfl
  · rcases unionStages_spec as v (stages o) [] with ⟨r, h1, h2⟩ | ⟨h1, t, h2, h3⟩
    · rw [h1, h2]; rfl
    · rw [h1, h2]
      have : t ≠ [] := by
        intro ht
        have h0 : (stages o).length * as.length = 0 := by simpa [ht] using h3.symm
        rcases Nat.mul_eq_zero.mp h0 with h | h
        · exact stages_ne_nil o (List.length_eq_zero_iff.mp h)
        · exact hne (List.length_eq_zero_iff.mp h)
      show (raiseError ({ tmp := t } : Ctx) v).toOption = none
      rw [raiseError_tmp ({ tmp := t } : Ctx) v this]; rfl

/-- … and otherwise accepts exactly when at least one argument accepts (at some stage's options). -/
theorem C09_union_accepts_iff_stage (as : List (Arg V)) (o : Opts) (v : V) (hne : as ≠ [])
    (hx : as.any (fun a => a.exact v) = false) :
    (logicalUnion as o v).isOk = true ↔ ∃ s ∈ stages o, ∃ a ∈ as, (a.run s v).isOk = true := by
  rw [isOk_iff_toOption, C09_union_refines as o v hne]
  unfold unionSpec
  simp only [hx, Bool.false_eq_true, if_false]
  constructor
  · rintro ⟨r, hr⟩
    obtain ⟨s, hs, hr⟩ := List.exists_of_findSome?_eq_some hr
    obtain ⟨a, ha, hr⟩ := List.exists_of_findSome?_eq_some hr
    exact ⟨s, hs, a, ha, (isOk_iff_toOption _).mpr ⟨r, hr⟩⟩
  · rintro ⟨s, hs, a, ha, hok⟩
    cases hf : (stages o).findSome? fun s => as.findSome? fun a => (a.run s v).toOption with
    | some r => exact ⟨r, rfl⟩
    | none =>
      exfalso
      rw [List.findSome?_eq_none_iff] at hf
      have := hf s hs
      rw [List.findSome?_eq_none_iff] at this
      have := this a ha
      obtain ⟨r, hr⟩ := (isOk_iff_toOption _).mp hok
      rw [hr] at this; cases this

/-- The property's sentence, for arguments obeying the subset law (C12): the union accepts exactly when it
is an exact type or at least one argument accepts the input under the caller's options. -/
theorem C09_union_accepts_iff (as : List (Arg V)) (o : Opts) (v : V) (hne : as ≠ []) (hm : Mono as o) :
    (logicalUnion as o v).isOk = true ↔
      (as.any (fun a => a.exact v) = true ∨ ∃ a ∈ as, a.accepts o v = true) := by
  cases hx : as.any (fun a => a.exact v) with
  | true => simp [C09_union_exact as o v hx, Except.isOk, Except.toBool]
  | false =>
    rw [C09_union_accepts_iff_stage as o v hne hx]
    simp only [Bool.false_eq_true, false_or, Arg.accepts]
    constructor
    · rintro ⟨s, hs, a, ha, hok⟩
      exact ⟨a, ha, hm a ha s hs v hok⟩
    · rintro ⟨a, ha, hok⟩
      exact ⟨o, self_mem_stages o, a, ha, hok⟩

/-- with transform.py's exact-type law for the arguments the exact-type case is an instance of "some argument accepts" -/
theorem C09_union_accepts_iff' (as : List (Arg V)) (o : Opts) (v : V) (hne : as ≠ []) (hm : Mono as o)
    (hx : ExactLaw as) :
    (logicalUnion as o v).isOk = true ↔ ∃ a ∈ as, a.accepts o v = true := by
  rw [C09_union_accepts_iff as o v hne hm]
  constructor
  · rintro (h | h)
    · obtain ⟨a, ha, he⟩ := List.any_eq_true.mp h
      exact ⟨a, ha, by simp [Arg.accepts, hx a ha o v he, Except.isOk, Except.toBool]⟩
    · exact h
  · exact Or.inr

/-- The value a union returns is the input itself (exact type) or the output of an argument that accepts
the input — under the subset law, an argument that accepts it under the caller's options. -/
theorem C09_union_result (as : List (Arg V)) (o : Opts) (v r : V) (hne : as ≠ [])
    (h : logicalUnion as o v = .ok r) :
    (as.any (fun a => a.exact v) = true ∧ r = v) ∨
    ∃ a ∈ as, ∃ s ∈ stages o, a.run s v = .ok r ∧ (Mono as o → a.accepts o v = true) := by
  have h' : (logicalUnion as o v).toOption = some r := by rw [h]; rfl
  rw [C09_union_refines as o v hne] at h'
  unfold unionSpec at h'
  split at h'
  · rename_i hx
    exact Or.inl ⟨hx, by cases h'; rfl⟩
  · obtain ⟨s, hs, hr⟩ := List.exists_of_findSome?_eq_some h'
    obtain ⟨a, ha, hr⟩ := List.exists_of_findSome?_eq_some hr
    have hrun : a.run s v = .ok r := (toOption_ok _ _).mp hr
    refine Or.inr ⟨a, ha, s, hs, hrun, fun hm => hm a ha s hs v ?_⟩
    rw [hrun]; rfl

/-! ### exclusive-or -/

theorem oks_cons_error {a : Arg V} {as : List (Arg V)} {o : Opts} {v : V} {e : Err}
    (h : a.run o v = .error e) : oks (a :: as) o v = oks as o v := by
  simp [oks, h, Except.toOption]

theorem oks_cons_ok {a : Arg V} {as : List (Arg V)} {o : Opts} {v r : V}
    (h : a.run o v = .ok r) : oks (a :: as) o v = r :: oks as o v := by
  simp [oks, h, Except.toOption]

theorem xorLoop_spec (o : Opts) (v : V) (as : List (Arg V)) (acc : Option V) (tmp : List Err) :
    (acc.toList ++ oks as o v = [] →
      ∃ t, xorLoop o v as acc tmp = (none, t, false) ∧ t.length = tmp.length + as.length) ∧
    (∀ r, acc.toList ++ oks as o v = [r] → ∃ t, xorLoop o v as acc tmp = (some r, t, false)) ∧
    (2 ≤ (acc.toList ++ oks as o v).length → ∃ t, xorLoop o v as acc tmp = (none, t, true)) := by
  induction as generalizing acc tmp with
  | nil =>
    cases acc with
    | none => exact ⟨fun _ => ⟨tmp, rfl, by simp⟩, fun r h => by simp [oks] at h, fun h => by simp [oks] at h⟩
    | some r =>
      refine ⟨fun h => by simp [oks] at h, fun r' h => ?_, fun h => by simp [oks] at h⟩
      simp [oks] at h; subst h; exact ⟨tmp, rfl⟩
  | cons a as ih =>
    cases h : a.run o v with
    | error e =>
      rw [oks_cons_error h]
      simp only [xorLoop, h]
      obtain ⟨h1, h2, h3⟩ := ih acc (tmp ++ [e])
      refine ⟨fun hk => ?_, h2, h3⟩
      obtain ⟨t, ht, hl⟩ := h1 hk
      exact ⟨t, ht, by simp at hl ⊢; omega⟩
    | ok r =>
      rw [oks_cons_ok h]
      simp only [xorLoop, h]
      cases acc with
      | none =>
        obtain ⟨h1, h2, h3⟩ := ih (some r) tmp
        exact ⟨fun hk => by simp at hk, fun r' hk => h2 r' (by simpa using hk), fun hk => h3 (by simpa using hk)⟩
      | some r0 =>
        exact ⟨fun hk => by simp at hk, fun r' hk => by simp at hk, fun _ => ⟨tmp, rfl⟩⟩

/-- Exclusive-or returns the output of the one and only accepting argument and fails in every other case
(none accepts, or more than one accepts) — every argument is judged on the ORIGINAL input. -/
theorem C09_xor_refines (as : List (Arg V)) (o : Opts) (v : V) (hne : as ≠ []) :
    (logicalXor as o v).toOption = xorSpec as o v := by
  unfold logicalXor xorSpec
  obtain ⟨h1, h2, h3⟩ := xorLoop_spec o v as none []
  simp only [Option.toList, List.nil_append] at h1 h2 h3
  match hk : oks as o v with
  | [] =>
    obtain ⟨t, ht, hl⟩ := h1 hk
    rw [ht]
    have : t ≠ [] := by
      intro h0; rw [h0] at hl
      exact hne (List.length_eq_zero_iff.mp (by simpa using hl.symm))
    simp only []
    show (raiseError ({ tmp := t } : Ctx) v).toOption = none
    rw [raiseError_tmp ({ tmp := t } : Ctx) v this]; rfl
  | [r] =>
    obtain ⟨t, ht⟩ := h2 r hk
    rw [ht]; rfl
  | _ :: _ :: _ =>
    obtain ⟨t, ht⟩ := h3 (by rw [hk]; simp)
    rw [ht]
    obtain ⟨e', he'⟩ := handle_then_raise o { tmp := t } .oneOf v
    simp only [he']; rfl

theorem oks_length (as : List (Arg V)) (o : Opts) (v : V) :
    (oks as o v).length = as.countP fun a => a.accepts o v := by
  induction as with
  | nil => rfl
  | cons a as ih =>
    cases h : a.run o v with
    | error e =>
      rw [oks_cons_error h, List.countP_cons, ih]
      simp [Arg.accepts, h, Except.isOk, Except.toBool]
    | ok r =>
      rw [oks_cons_ok h, List.countP_cons, List.length_cons, ih]
      simp [Arg.accepts, h, Except.isOk, Except.toBool]

/-- Exclusive-or accepts exactly when one and only one argument accepts the given input. -/
theorem C09_xor_exactly_one (as : List (Arg V)) (o : Opts) (v : V) (hne : as ≠ []) :
    (logicalXor as o v).isOk = true ↔ (as.countP fun a => a.accepts o v) = 1 := by
  rw [isOk_iff_toOption, C09_xor_refines as o v hne, ← oks_length]
  unfold xorSpec
  split
  · rename_i heq; simp [heq]
  · rename_i h
    constructor
    · rintro ⟨r, hr⟩; cases hr
    · intro hl
      exfalso
      match hk : oks as o v, hl with
      | [r], _ => exact h r hk

/-- … independent of argument order: any permutation of the arguments gives the same verdict and value. -/
theorem C09_xor_perm (as as' : List (Arg V)) (o : Opts) (v : V) (hp : as.Perm as') :
    (logicalXor as o v).toOption = (logicalXor as' o v).toOption := by
  by_cases hne : as = []
  · subst hne
    have : as' = [] := List.Perm.eq_nil (List.Perm.symm hp)
    subst this; rfl
  · have hne' : as' ≠ [] := fun h => hne (by subst h; exact List.Perm.eq_nil hp)
    rw [C09_xor_refines as o v hne, C09_xor_refines as' o v hne']
    have hq : (oks as o v).Perm (oks as' o v) := List.Perm.filterMap _ hp
    unfold xorSpec
    match h1 : oks as o v, h2 : oks as' o v with
    | [], l =>
      rw [h1, h2] at hq
      have : l = [] := List.Perm.eq_nil (List.Perm.symm hq)
      subst this; rfl
    | [r], l =>
      rw [h1, h2] at hq
      have : l = [r] := List.Perm.eq_singleton (List.Perm.symm hq)
      subst this; rfl
    | _ :: _ :: _, l =>
      rw [h1, h2] at hq
      have hl := hq.length_eq
      match l, hl with
      | _ :: _ :: _, _ => rfl

theorem C09_xor_perm_accepts (as as' : List (Arg V)) (o : Opts) (v : V) (hp : as.Perm as') :
    (logicalXor as o v).isOk = (logicalXor as' o v).isOk := by
  have h := C09_xor_perm as as' o v hp
  cases h1 : logicalXor as o v <;> cases h2 : logicalXor as' o v <;>
    simp_all [Except.toOption, Except.isOk, Except.toBool]

/-- the value exclusive-or returns is the output of an argument that accepted the input -/
theorem C09_xor_result (as : List (Arg V)) (o : Opts) (v r : V) (hne : as ≠ [])
    (h : logicalXor as o v = .ok r) : ∃ a ∈ as, a.run o v = .ok r := by
  have h' : (logicalXor as o v).toOption = some r := by rw [h]; rfl
  rw [C09_xor_refines as o v hne] at h'
  unfold xorSpec at h'
  split at h'
  · rename_i r' heq
    cases h'
    have : r ∈ oks as o v := by rw [heq]; simp
    unfold oks at this
    obtain ⟨a, ha, hr⟩ := List.mem_filterMap.mp this
    exact ⟨a, ha, (toOption_ok _ _).mp hr⟩
  · cases h'

/-! ### negation -/

theorem negLoop_errors (o : Opts) (v : V) (as : List (Arg V)) (c : Ctx) (h : c.errors ≠ []) :
    (negLoop o v as c).errors ≠ [] := by
  induction as generalizing c with
  | nil => exact h
  | cons a as ih =>
    simp only [negLoop]
    split
    · exact h
    · have he := handleError_errors o c .negate
      split
      · rename_i heq; rw [heq] at he; exact he
      · rename_i heq; rw [heq] at he; exact ih _ he

/-- Negation accepts exactly when its argument rejects, and returns the input unchanged. -/
theorem C09_neg (a : Arg V) (rest : List (Arg V)) (o : Opts) (v r : V) :
    logicalNeg (a :: rest) o v = .ok r ↔ (a.accepts o v = false ∧ r = v) := by
  unfold logicalNeg Arg.accepts
  simp only [negLoop]
  cases h : a.run o v with
  | error e =>
    simp only [Except.isOk, Except.toBool, true_and]
    rw [raiseError_empty]
    constructor
    · intro h; cases h; rfl
    · intro h; rw [h]
  | ok w =>
    simp only [Except.isOk, Except.toBool, Bool.true_eq_false, false_and, iff_false]
    have he := handleError_errors o {} .negate
    generalize handleError o {} Err.negate = p at he
    obtain ⟨c1, r1⟩ := p
    have hc : ∀ c : Ctx, c.errors ≠ [] → ¬ raiseError c v = Except.ok r := by
      intro c hc; rw [raiseError_errors c v hc]; intro h; cases h
    cases r1 with
    | some e => exact hc _ he
    | none => exact hc _ (negLoop_errors o v rest _ he)

theorem C09_neg_accepts_iff (a : Arg V) (o : Opts) (v : V) :
    (logicalNeg [a] o v).isOk = true ↔ a.accepts o v = false := by
  rw [isOk_iff_toOption]
  constructor
  · rintro ⟨r, hr⟩
    exact ((C09_neg a [] o v r).mp ((toOption_ok _ _).mp hr)).1
  · intro h
    exact ⟨v, (toOption_ok _ _).mpr ((C09_neg a [] o v v).mpr ⟨h, rfl⟩)⟩

/-! ### the hypotheses are satisfiable, and the laws are not vacuous -/

/-- two concrete arguments over `V = Nat`: value 0 = '3.0', value 1 = 3.
`intA` converts both to 1; `dottedA` accepts only 0 -/
def intA : Arg Nat := ⟨fun v => v == 1, fun _ _ => .ok 1⟩
def dottedA : Arg Nat := ⟨fun _ => false, fun _ v => if v == 0 then .ok 0 else .error (.mk 9 [])⟩
/-- `strA` accepts everything unchanged and is the exact type of value 0; `slugA` accepts everything unchanged -/
def strA : Arg Nat := ⟨fun v => v == 0, fun _ v => .ok v⟩
def slugA : Arg Nat := ⟨fun _ => false, fun _ v => .ok v⟩
/-- `loose` accepts 5 only under options without `no_data_loss` -/
def looseA : Arg Nat := ⟨fun _ => false, fun o v => if o.noDataLoss then .error (.mk 9 []) else .ok (v + 1)⟩

example : Mono [intA, dottedA, looseA] {} ∧ ExactLaw [intA, strA] ∧ [intA, dottedA] ≠ [] := by
  refine ⟨?_, ?_, by simp⟩
  · intro a ha s hs v
    simp only [List.mem_cons, List.not_mem_nil, or_false] at ha
    rcases ha with rfl | rfl | rfl
    · intro _; rfl
    · intro h; exact h
    · intro _; rfl
  · intro a ha o v
    simp only [List.mem_cons, List.not_mem_nil, or_false] at ha
    rcases ha with rfl | rfl
    · intro h; simp [intA] at h ⊢; exact h.symm
    · intro _; rfl

/-- a union that succeeds only at the last stage, with the last argument -/
example : (logicalUnion [dottedA, looseA] {} 5).toOption = some 6 := by decide
/-- exactly one accepts / both accept / none accepts -/
example : (logicalXor [intA, dottedA] {} 1).toOption = some 1 ∧ (logicalXor [intA, dottedA] {} 0).isOk = false
    ∧ (logicalXor [dottedA, dottedA] {} 1).isOk = false := by decide

/-! ### the pinned (pre-fix) `^` branch violates the property: negation witnesses

Full statements (true of the repaired code, above): `C09_xor_exactly_one`, `C09_xor_perm`. -/

/-- `(Int ^ Dotted)('3.0')` is accepted (the converted 3 is handed to `Dotted`, which rejects it) but
`(Dotted ^ Int)('3.0')` is rejected: the verdict depended on argument order. -/
theorem C09_legacy_xor_order_dependent_witness :
    ∃ (a b : Arg Nat) (v : Nat),
      (logicalXorLegacy [a, b] {} v).isOk ≠ (logicalXorLegacy [b, a] {} v).isOk :=
  ⟨intA, dottedA, 0, by decide⟩

/-- `(str ^ SlugStr)('abc')`: both arguments accept, yet the exact-type shortcut returns the value -/
theorem C09_legacy_xor_shortcut_witness :
    ∃ (a b : Arg Nat) (v : Nat),
      a.accepts {} v = true ∧ b.accepts {} v = true ∧ (logicalXorLegacy [a, b] {} v).isOk = true :=
  ⟨strA, slugA, 0, by decide⟩

/-- the repaired branch rejects both witnesses' inputs in both orders -/
example : (logicalXor [intA, dottedA] {} 0).isOk = false ∧ (logicalXor [dottedA, intA] {} 0).isOk = false
    ∧ (logicalXor [strA, slugA] {} 0).isOk = false := by decide

end Utv.C09
