import Utv.Lemmas.C15Build
/-! Building succeeds, shape by shape. -/
set_option linter.unusedSimpArgs false
set_option linter.unusedVariables false
namespace Utv.C15
open Utv.JsonSchema
open KnownDefect

/-- the induction hypothesis for one sub-schema -/
def SubBuilds (N : Names) (s : Json) : Prop :=
  inFragment s = true → degenerate s = false → (parse N s).isSome = true

/-- a const among the kept constraints is the schema's const -/
theorem const_source (kvs : Obj) (hd : strDistinct (keys kvs) = true) (hf : fragKws kvs kvs = true) (ty : Option String)
    (c : String × Json) (hc : c ∈ getConstraints kvs ty) (h1 : (c.1 == "const") = true) : lookup "const" kvs = some c.2 := by
  obtain ⟨k, hkv, hck, _⟩ := getConstraints_mem kvs ty c hc
  have hfe := fragKws_mem kvs kvs hf k c.2 hkv
  simp only [fragEntry, Bool.and_eq_true] at hfe
  have e : c.1 = "const" := by simpa using h1
  rw [e] at hck
  have hs := frag_cmap_simple k "const" hfe.1 hck
  simp [simpleKws] at hs
  subst hs
  exact lookup_of_mem_distinct kvs hd _ _ hkv

theorem constFits_typeOfValue (v : Json) : constFits (typeOfValue v) v = true := by
  cases v with
  | num n => by_cases h : isPyInt n = true <;> simp [typeOfValue, h, constFits]
  | _ => simp [typeOfValue, constFits]

theorem typeOfValue_ne_decimal (v : Json) : typeOfValue v ≠ .decimal := by
  cases v with
  | num n => by_cases h : isPyInt n = true <;> simp [typeOfValue, h]
  | _ => simp [typeOfValue]

/-- the class a format names, as the keyword table sees it -/
theorem formatClass_bind (kvs : Obj) (t : String) (p : Prim) (h : formatClass kvs t = some p) :
    (lookupStr "format" kvs).bind typeMap = some p := by
  unfold formatClass at h
  split at h
  · rename_i f hf
    split at h
    · rename_i q hq
      split at h
      · cases h; simp [hf, hq]
      · simp at h
    · simp at h
  · simp at h

/-- the scalar class is `Any` or a builtin class; a Decimal comes from the format -/
theorem scalarClass_shape (kvs : Obj) (ty : Option String) (hprim : ∀ t, ty = some t → primitiveNames.contains t = true) :
    scalarClass kvs ty = .any ∨ ∃ p, scalarClass kvs ty = .prim p ∧
      (p = .decimal → (lookupStr "format" kvs).bind typeMap = some .decimal) := by
  cases ty with
  | some t =>
    right
    obtain ⟨p0, hp0⟩ := typeMap_some t (hprim t rfl)
    cases hfc : formatClass kvs t with
    | none =>
      refine ⟨p0, by simp [scalarClass, hfc, hp0], fun hd => ?_⟩
      subst hd
      have := typeMap_primitive t _ (hprim t rfl) hp0
      have h2 := hprim t rfl
      rw [← this] at hp0
      simp [primitiveOf, typeMap] at hp0
    | some p =>
      refine ⟨p, by simp [scalarClass, hfc], fun hd => ?_⟩
      subst hd
      exact formatClass_bind kvs t _ hfc
  | none =>
    unfold scalarClass
    simp only
    split
    · exact Or.inr ⟨_, rfl, fun h => absurd h (typeOfValue_ne_decimal _)⟩
    · split
      · exact Or.inr ⟨_, rfl, fun h => absurd h (typeOfValue_ne_decimal _)⟩
      · exact Or.inl rfl

/-- a const that fits the primitive type fits the scalar class built for it -/
theorem constFits_scalar (kvs : Obj) (t : String) (p : Prim) (v : Json) (ht : primitiveNames.contains t = true)
    (hcls : scalarClass kvs (some t) = .prim p) (hn : p ≠ .null) (hm : constMisfit kvs v t = false) : constFits p v = true := by
  unfold constMisfit at hm
  cases hfc : formatClass kvs t with
  | some p' =>
    have hp : p = p' := by simp [scalarClass, hfc] at hcls; exact hcls.symm
    subst hp
    have hprim := formatClass_primitive kvs t p hfc
    have hfmt := formatClass_bind kvs t p hfc
    have htn : (t != "null") = true := by
      cases p <;> simp [primitiveOf] at hprim <;> subst hprim <;> simp at hn ⊢
    rw [htn, hfmt] at hm
    simp only [Bool.true_and, hprim, beq_self_eq_true, Bool.or_eq_false_iff] at hm
    obtain ⟨⟨h1, h2⟩, _⟩ := hm
    have hti : typeIs (primitiveOf p) v = true := by rw [hprim]; simpa using h1
    clear hcls hfc ht htn
    cases p <;> simp only [primitiveOf] at hprim <;> subst hprim <;> cases v <;>
      simp_all [primitiveOf, typeIs, constFits]
  | none =>
    obtain ⟨p0, hp0⟩ := typeMap_some t ht
    have hp : p = p0 := by simp [scalarClass, hfc, hp0] at hcls; exact hcls.symm
    subst hp
    have hprim := typeMap_primitive t p ht hp0
    have htn : (t != "null") = true := by
      cases p <;> simp [primitiveOf] at hprim <;> subst hprim <;> simp at hn ⊢
    rw [htn] at hm
    simp only [Bool.true_and, Bool.or_eq_false_iff] at hm
    have hti : typeIs t v = true := by simpa using hm.1.1
    simp [primitiveNames] at ht
    rcases ht with rfl | rfl | rfl | rfl | rfl | rfl | rfl <;> simp [typeMap] at hp0 <;> subst hp0 <;>
      cases v <;> simp_all [typeIs, constFits]

/-- the scalar part of `baseType` builds -/
theorem scalar_builds (kvs : Obj) (hd : strDistinct (keys kvs) = true) (hf : fragKws kvs kvs = true) (ty : Option String)
    (hprim : ∀ t, ty = some t → primitiveNames.contains t = true) (hnone : ty = none → inferType kvs = none)
    (hb : boundsBad kvs = false) (hs : sizesBad kvs = false)
    (hcm : ∀ t v, ty = some t → lookup "const" kvs = some v → constMisfit kvs v t = false) :
    (constrain (scalarClass kvs ty) (getConstraints kvs ty)).isSome = true := by
  unfold constrain
  by_cases he : (getConstraints kvs ty).isEmpty = true
  · rw [if_pos he]; rfl
  · rw [if_neg he]
    have hann : ∀ t0, scalarClass kvs ty = t0 → (t0 = .any ∨ ∃ p, t0 = .prim p ∧ p ≠ .null ∧
          (p = .decimal → (lookupStr "format" kvs).bind typeMap = some .decimal)) →
        (annotate t0 false (getConstraints kvs ty)).isSome = true := by
      intro t0 ht0 hshape
      apply annotate_isSome
      · apply mkRule_plain_isSome _ _ (rest_no_const _) (rest_no_enum _)
        · apply checkBounds_ok kvs hd hf ty _ _ hb
          intro hdec
          rcases hshape with rfl | ⟨p, rfl, _, hpd⟩
          · simp [originOf] at hdec
          · simp [originOf] at hdec
            exact hpd hdec
        · exact checkLength_ok kvs hd hf ty hprim hnone _ hs
      · intro c hc h1
        have hlc := const_source kvs hd hf ty c hc h1
        rcases hshape with rfl | ⟨p, rfl, hpn, _⟩
        · exfalso
          cases ty with
          | some t => obtain ⟨p, hp, _⟩ := scalarClass_some kvs t (hprim t rfl); rw [hp] at ht0; simp at ht0
          | none => simp [scalarClass, hlc] at ht0
        · refine ⟨p, by simp [bareOrigin, originOf], ?_⟩
          cases ty with
          | some t => exact constFits_scalar kvs t p c.2 (hprim t rfl) ht0 hpn (hcm t c.2 rfl hlc)
          | none =>
            simp [scalarClass, hlc] at ht0
            subst ht0
            exact constFits_typeOfValue c.2
    rcases scalarClass_shape kvs ty hprim with h | ⟨p, hp, hpd⟩
    · rw [h]; exact hann _ h (Or.inl rfl)
    · rw [hp]
      by_cases hn : p = .null
      · subst hn; rfl
      · have : (match Ty.prim p with
            | .prim .null => some (if nullPasses (getConstraints kvs ty) then Ty.prim p else Ty.never)
            | _ => annotate (Ty.prim p) false (getConstraints kvs ty)) = annotate (Ty.prim p) false (getConstraints kvs ty) := by
          cases p <;> simp at hn ⊢
        exact (congrArg Option.isSome this).trans (hann _ hp (Or.inr ⟨p, rfl, hn, hpd⟩))

end Utv.C15
