import Utv.Model.C08
/-!
C08 — the specification, in the property's own words and independent of `parse_params`:

* `Spec.accepted`   which keyword spellings a parameter documents (its name, `alias`, `alias_from`; any case when
                    case-insensitive);
* `Spec.normalise`  the call with every accepted spelling replaced by the parameter's name;
* `Spec.convCall`   every given value converted to the annotation of the parameter (or `*args` / `**kwargs`) it goes to;
* `Spec.expected`   if Python binds the normalised call: ParseError without entering the body when a conversion fails,
                    otherwise the body runs with Python's binding of the converted call (omitted parameters = defaults).
                    `none` = Python itself would not bind the call: the property is silent.
* `Spec.pointwise`  the generator clause on lists: sends converted one by one, the undecorated machine's trace on the
                    converted history (`rawTrace`), its yields / return converted one by one, cut at the first failure.
-/
namespace Utv.C08
variable {N V T : Type} [DecidableEq N] [DecidableEq V]

namespace Spec

def convO (W : World N V T) (t : Option T) (v : V) : Option V :=
  match t with
  | none => some v
  | some t => W.conv t v

/-- parameters that Python lets the caller pass by keyword -/
def kwParams (s : Sig N V T) : List (Param N V T) := s.pos.filter (fun p => !p.posOnly) ++ s.kos

def accepted (W : World N V T) (p : Param N V T) (k : N) : Bool :=
  let ns := p.name :: (p.alias.toList ++ p.aliasFrom)
  ns.contains k || (p.ci && (ns.map W.lower).contains (W.lower k))

def normKey (W : World N V T) (s : Sig N V T) (k : N) : N :=
  match (kwParams s).find? (fun p => accepted W p k) with
  | some p => p.name
  | none => k

def normalise (W : World N V T) (s : Sig N V T) (kw : List (N × V)) : List (N × V) :=
  kw.map (fun e => (normKey W s e.1, e.2))

/-- positional arguments, each converted to the annotation of the slot it fills; the surplus to that of `*args` -/
def convArgs (W : World N V T) (vpT : Option T) : List (Param N V T) → List V → Option (List V)
  | _, [] => some []
  | [], a :: as => (a :: as).mapM (convO W vpT)
  | p :: ps, a :: as =>
    match convO W p.ann a, convArgs W vpT ps as with
    | some v, some vs => some (v :: vs)
    | _, _ => none

/-- the annotation that governs keyword `k`: that of the parameter it names, else that of `**kwargs` -/
def annOfKey (s : Sig N V T) (k : N) : Option T :=
  match (kwParams s).find? (fun p => p.name == k) with
  | some p => p.ann
  | none => match s.vk with
    | some (_, t) => t
    | none => none

def convKw (W : World N V T) (s : Sig N V T) : List (N × V) → Option (List (N × V))
  | [] => some []
  | (k, v) :: rest =>
    match convO W (annOfKey s k) v, convKw W s rest with
    | some v', some r => some ((k, v') :: r)
    | _, _ => none

/-- Python's binding of a call; a call never carries one keyword twice -/
def pyBind (s : Sig N V T) (args : List V) (kw : List (N × V)) : Option (Binding N V) :=
  if (kw.map (·.1)).Nodup then pyBindCore s args kw else none

def expected (W : World N V T) (s : Sig N V T) (args : List V) (kw : List (N × V)) : Option (Outcome N V) :=
  let nkw := normalise W s kw
  match pyBind s args nkw with
  | none => none
  | some _ =>
    match convArgs W (s.vp.bind (·.2)) s.pos args, convKw W s nkw with
    | some a, some k => (pyBindCore s a k).map .body
    | _, _ => some .perr

/-- what the caller of the function gets once the body has run with binding `b`: the body's result converted to the
return annotation, or a ParseError when it does not convert; errors before the body stay what they are -/
def result (W : World N V T) (ret : Option T) (body : Binding N V → V) : Outcome N V → Ret N V
  | .body b => match convO W ret (body b) with
    | some v => .returned b v
    | none => .resultErr b
  | .perr => .perr
  | .tyerr => .tyerr

/-- the undecorated generator with its tail hand-overs followed: the generator it yields takes over and is started
with `next()`; whatever was sent to the old one was consumed by the old one -/
def flat {σ : Type} (raw : σ → Option V → RawStep σ V) : Nat → σ → Option V → Step σ V
  | 0, _, _ => .diverged
  | fuel + 1, st, inp =>
    match raw st inp with
    | .yield v st' => .yield v st'
    | .ret r => .ret r
    | .delegate st' => flat raw fuel st' none

/-! #### the generator clause, stated on lists

"The sequence of values yielded, sent and returned is that of the undecorated function with each value converted to
its declared type": take the caller's input history, convert the sends one by one (up to the first that does not
convert), run the UNDECORATED machine on the converted history (`rawTrace`, a plain list function), convert what it
yields / returns one by one (up to the first that does not convert, where the caller gets a ParseError); if a send did
not convert and the generator was still waiting for it, the caller gets the ParseError there. -/

/-- the sends converted one by one: the converted prefix, and whether a send that does not convert stopped it -/
def convSends (W : World N V T) (g : GenTypes T) : List (Option V) → List (Option V) × Bool
  | [] => ([], false)
  | none :: rest => ((none :: (convSends W g rest).1), (convSends W g rest).2)
  | some x :: rest =>
    match convO W g.sendT x with
    | none => ([], true)
    | some x' => ((some x' :: (convSends W g rest).1), (convSends W g rest).2)

/-- the undecorated events converted one by one, cut at the first value that does not convert -/
def convEvents (W : World N V T) (g : GenTypes T) : List (Ev V) → List (Ev V)
  | [] => []
  | .yielded v :: rest =>
    match convO W g.yieldT v with
    | none => [.raised]
    | some y => .yielded y :: convEvents W g rest
  | .returned none :: _ => [.returned none]
  | .returned (some r) :: _ =>
    match convO W g.retT r with
    | none => [.raised]
    | some v => [.returned (some v)]
  | e :: _ => [e]

def Ev.isYielded : Ev V → Bool
  | .yielded _ => true
  | _ => false

/-- the generator clause: `inp` is the (already converted) value of the current resumption, `sends` the caller's
later inputs -/
def pointwise (W : World N V T) (g : GenTypes T) {σ : Type} (step : σ → Option V → Step σ V)
    (st : σ) (inp : Option V) (sends : List (Option V)) : List (Ev V) :=
  let pre := (convSends W g sends).1
  let outs := convEvents W g (rawTrace step st inp pre)
  if (convSends W g sends).2 && outs.length == pre.length + 1 && outs.all Ev.isYielded then outs ++ [.raised]
  else outs

end Spec
end Utv.C08
