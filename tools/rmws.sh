#!/bin/bash
# usage: tools/rmws.sh Cxx   -> remove the builder workspace (branch build/Cxx is kept)
P=$1
git -C /verif worktree remove --force /tmp/w/$P/verif 2>/dev/null
git -C /repo worktree remove --force /tmp/w/$P/repo 2>/dev/null
rm -rf /tmp/w/$P
git -C /verif worktree prune; git -C /repo worktree prune
