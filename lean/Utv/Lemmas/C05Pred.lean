import Utv.Lemmas.C05Fields
/-! The field predicates of the (repaired) code are the documented ones; one field's statements are
one application of its contract. -/
namespace Utv.C05
open Spec

variable {V : Type}

theorem modeExcludes_eq (o : Opts V) (f : PField V) (m : Nat) (hm : o.mode = some m) :
    modeExcludes f.mode m = modeOff o f := by
  unfold modeExcludes modeOff; rw [hm]; cases f.mode <;> rfl

theorem modeOff_of_none (o : Opts V) (f : PField V) (hm : o.mode = none) : modeOff o f = false := by
  unfold modeOff; rw [hm]

theorem flagHolds_eq (W : World V) (o : Opts V) (f : PField V) (fl : Flag) (v : V) :
    flagHolds {} W o.mode f.mode fl v = flagOn W o f fl v := by
  unfold flagHolds flagOn flagAt
  cases hm : o.mode with
  | none =>
    rw [modeOff_of_none o f hm]
    cases fl with
    | pred k => cases hp : W.pred k v <;> simp [hp]
    | _ => simp
  | some m =>
    rw [← modeExcludes_eq o f m hm]
    cases fl with
    | no => simp
    | yes => simp
    | modes ms => by_cases h : ms.contains m = true <;> simp [h]
    | pred k => cases hp : W.pred k v <;> simp [hp]

theorem isNoInput_eq (W : World V) (o : Opts V) (f : PField V) (v : V) :
    isNoInput {} W o f v = noInput W o f v := flagHolds_eq W o f f.noInput v

theorem isNoOutput_eq (W : World V) (o : Opts V) (f : PField V) (v : V) :
    isNoOutput {} W o f v = noOutput W o f v := flagHolds_eq W o f f.noOutput v

theorem alwaysNoInput_eq (o : Opts V) (f : PField V) : alwaysNoInput {} o f = neverInput o f := by
  unfold alwaysNoInput neverInput
  cases hm : o.mode with
  | none =>
    rw [modeOff_of_none o f hm]
    cases f.noInput <;> simp
  | some m =>
    rw [← modeExcludes_eq o f m hm]
    cases f.noInput with
    | yes => simp
    | no => simp
    | pred k => simp
    | modes ms => by_cases h : ms.contains m = true <;> simp [h]

theorem isRequired_eq (o : Opts V) (f : PField V) : isRequired {} o f = required o f := by
  unfold isRequired required
  rw [alwaysNoInput_eq]
  cases o.ignoreRequired <;> cases neverInput o f <;> cases f.required <;> simp
  all_goals (cases o.mode <;> simp)

theorem getDefault_false_eq (W : World V) (o : Opts V) (f : PField V) : getDefault W o f false = filled W o f := by
  unfold getDefault filled
  cases o.noDefault <;> cases f.deferDefault <;> cases o.deferDefault <;> simp
  all_goals (cases o.forceDefault <;> rfl)

theorem getDefault_true_eq (W : World V) (o : Opts V) (f : PField V) : getDefault W o f true = deferred W o f := by
  unfold getDefault deferred
  cases o.noDefault <;> cases f.deferDefault <;> cases o.deferDefault <;> simp
  all_goals (cases o.forceDefault <;> rfl)

/-- what one field's contract does to the parser state -/
def applyOut (f : PField V) (fo : FieldOut V) (st : St V) : St V :=
  { result := (match fo.value with | some v => dset f.name v st.result | none => st.result)
    deps := if fo.active then st.deps ++ f.deps else st.deps
    unprov := if fo.provided then st.unprov else st.unprov ++ [f.name]
    errs := st.errs ++ fo.errs }

theorem absent_eq [DecidableEq V] (W : World V) (o : Opts V) (f : PField V) (data : List (Key × V)) (st : St V)
    (hc : candidates W f data = []) :
    absent {} W o f st = applyOut f (fieldContract W o f data) st := by
  unfold absent fieldContract applyOut
  rw [hc, isRequired_eq, getDefault_false_eq]
  cases hr : required o f
  · cases hf : filled W o f <;> simp
  · simp

/-- the field's chosen input was dropped by the 'exclude' policy (and the field is not required) -/
def isExcluded [DecidableEq V] (W : World V) (o : Opts V) (f : PField V) (data : List (Key × V)) : Bool :=
  match candidates W f data with
  | [] => false
  | c :: _ => !noInput W o f c && (convert W f c).isNone
              && decide (f.onError.getD o.invalidValues = .exclude) && !required o f

/-- what the shared statements do for a field that was given: the whole contract, except that for a dropped
value only the errors are handled (the rest is left to the strategy) -/
def outA [DecidableEq V] (W : World V) (o : Opts V) (data : List (Key × V)) (f : PField V) : FieldOut V :=
  if isExcluded W o f data then
    { value := none, errs := (fieldContract W o f data).errs, provided := true, active := false }
  else fieldContract W o f data

/-- what is left for a dropped value: the field as one that was not given -/
def outB [DecidableEq V] (W : World V) (o : Opts V) (data : List (Key × V)) (f : PField V) : FieldOut V :=
  if isExcluded W o f data then
    { value := (fieldContract W o f data).value, errs := [], provided := false, active := false }
  else fieldContract W o f data

theorem provide_eq [DecidableEq V] (W : World V) (o : Opts V) (f : PField V) (data : List (Key × V)) (st : St V)
    (c : V) (rest : List V) (hc : candidates W f data = c :: rest) :
    (provide {} W o f c (!o.ignoreAliasConflicts && rest.any (· ≠ c)) st).1 = applyOut f (outA W o data f) st
    ∧ (provide {} W o f c (!o.ignoreAliasConflicts && rest.any (· ≠ c)) st).2 = isExcluded W o f data := by
  unfold provide outA isExcluded fieldContract applyOut parseValue getOnError
  rw [hc, isNoInput_eq, isRequired_eq, getDefault_false_eq]
  cases hn : noInput W o f c
  · by_cases hcf : (o.ignoreAliasConflicts = false ∧ ∃ x, x ∈ rest ∧ ¬ x = c) <;>
    cases hfp : convert W f c with
    | some r => simp [hn, hfp, hcf]
    | none =>
      cases hoe : f.onError.getD o.invalidValues
      · simp [hn, hfp, hoe, hcf]
      · cases hr : required o f <;> cases hf : filled W o f <;> simp [hn, hfp, hoe, hr, hf, hcf]
      · simp [hn, hfp, hoe, hcf]
  · cases hf : filled W o f <;> simp [hn, hf]

/-- field-first completes a dropped value at once -/
theorem ffExcluded_eq [DecidableEq V] (W : World V) (o : Opts V) (f : PField V) (data : List (Key × V)) (st : St V)
    (h : isExcluded W o f data = true) :
    ffExcluded W o f (applyOut f (outA W o data f) st) = applyOut f (fieldContract W o f data) st := by
  unfold ffExcluded outA
  rw [h, getDefault_false_eq]
  unfold isExcluded at h
  unfold fieldContract applyOut
  cases hc : candidates W f data with
  | nil => rw [hc] at h; cases h
  | cons c rest =>
    rw [hc] at h
    simp only [Bool.and_eq_true, Bool.not_eq_true', Option.isNone_iff_eq_none, decide_eq_true_eq] at h
    obtain ⟨⟨⟨hn, hfp⟩, hoe⟩, hr⟩ := h
    cases hf : filled W o f <;> simp [hn, hfp, hoe, hr, hf]

/-- data-first completes it in the fill loop, with the statements for a field without input -/
theorem absent_excluded_eq [DecidableEq V] (W : World V) (o : Opts V) (f : PField V) (data : List (Key × V))
    (st : St V) (h : isExcluded W o f data = true) :
    absent {} W o f st = applyOut f (outB W o data f) st := by
  unfold absent outB
  rw [h, isRequired_eq, getDefault_false_eq]
  unfold isExcluded at h
  unfold fieldContract applyOut
  cases hc : candidates W f data with
  | nil => rw [hc] at h; cases h
  | cons c rest =>
    rw [hc] at h
    simp only [Bool.and_eq_true, Bool.not_eq_true', Option.isNone_iff_eq_none, decide_eq_true_eq] at h
    obtain ⟨⟨⟨hn, hfp⟩, hoe⟩, hr⟩ := h
    cases hf : filled W o f <;> simp [hn, hfp, hoe, hr, hf]

theorem isExcluded_of_nil [DecidableEq V] (W : World V) (o : Opts V) (f : PField V) (data : List (Key × V))
    (hc : candidates W f data = []) : isExcluded W o f data = false := by
  unfold isExcluded; rw [hc]

/-- the contract's `provided`: given, and not dropped -/
theorem provided_eq [DecidableEq V] (W : World V) (o : Opts V) (f : PField V) (data : List (Key × V)) :
    (fieldContract W o f data).provided = (given W f data && !isExcluded W o f data) := by
  unfold fieldContract given isExcluded
  cases candidates W f data with
  | nil => simp only; split <;> rfl
  | cons c rest =>
    simp only [List.isEmpty_cons, Bool.not_false, Bool.true_and]
    cases hn : noInput W o f c
    · cases hfp : convert W f c with
      | some r => simp [hn, hfp]
      | none =>
        cases hoe : f.onError.getD o.invalidValues
        · simp [hn, hfp, hoe]
        · cases hr : required o f <;> simp [hn, hfp, hoe, hr]
        · simp [hn, hfp, hoe]
    · simp [hn]

end Utv.C05
