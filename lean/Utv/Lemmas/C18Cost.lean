import Utv.Model.C18
import Utv.Lemmas.C18
/-!
Cost lemmas for C18: the generic loops add up the costs of their items; sizes of the parts of a value
add up to (less than) the size of the value.
-/
namespace Utv.C18

theorem seqM_cost_le {α β} (p : α → Out β × Nat) (g : α → Nat) (l : List α) (h : ∀ a ∈ l, (p a).2 ≤ g a) :
    (seqM p l).2 ≤ (l.map g).sum := by
  induction l with
  | nil => simp [seqM]
  | cons a as ih =>
    simp only [seqM, List.map_cons, List.sum_cons]
    have ha := h a (by simp)
    have ih := ih (fun a' ha' => h a' (by simp [ha']))
    rcases hp : p a with ⟨o, c⟩
    rw [hp] at ha
    cases o with
    | err f => simp only; simp only at ha; omega
    | ok b =>
      rcases hs : seqM p as with ⟨o', c'⟩
      rw [hs] at ih
      cases o' <;> simp only at ih ha ⊢ <;> omega

theorem snd_shift {β} (x : Out β × Nat) (c : Nat) :
    (match x with | (o, c') => (o, c + c')).2 = c + x.2 := by
  rcases x with ⟨o, c'⟩; rfl

theorem tryAll_cost_le {α β} (p : α → Out β × Nat) (g : α → Nat) (l : List α) (h : ∀ a ∈ l, (p a).2 ≤ g a)
    (f : Flags) : (tryAll p l f).2 ≤ (l.map g).sum := by
  induction l generalizing f with
  | nil => simp [tryAll]
  | cons a as ih =>
    simp only [tryAll, List.map_cons, List.sum_cons]
    have ha := h a (by simp)
    have ih := fun f' => ih (fun a' ha' => h a' (by simp [ha'])) f'
    rcases hp : p a with ⟨o, c⟩
    rw [hp] at ha
    cases o with
    | ok b => simp only; simp only at ha; omega
    | err g' =>
      have := ih (f.or g')
      simp only at ha ⊢
      omega

theorem orElse_cost_le {β} (a : Out β × Nat) (k : Flags → Out β × Nat) (n : Nat) (h : ∀ f, (k f).2 ≤ n) :
    (orElse a k).2 ≤ a.2 + n := by
  rcases a with ⟨o, c⟩
  cases o with
  | ok b => simp [orElse]
  | err f =>
    have := h f
    simp only [orElse]
    rcases hk : k f with ⟨o', c'⟩
    rw [hk] at this
    simp only at this ⊢
    omega

theorem inCtx_cost_le {β} (e : Out Ctx) (p : Ctx → Out β × Nat) (n : Nat) (h : ∀ c, e = .ok c → (p c).2 ≤ n) :
    (inCtx e p).2 ≤ n := by
  cases e with
  | err f => simp [inCtx]
  | ok c => exact h c rfl

theorem enter_mode (Q : Quirks) (c : Ctx) (b : Bool) (m : Mode) (c' : Ctx) (h : enter Q c b m = .ok c') :
    c'.mode = m := by
  simp only [enter] at h
  generalize (if (Q.falsyRoute && b) = true then c.depth + 1 else c.depth) = d at h
  split at h
  · exact absurd h (by simp)
  · simp only [Out.ok.injEq] at h
    rw [← h]

/-! ### sizes -/

theorem vsize_pos : ∀ v : Val, 1 ≤ vsize v
  | .tok _ => by simp [vsize]
  | .none => by simp [vsize]
  | .list _ => by simp [vsize]
  | .dict _ => by simp [vsize]

theorem sum_indexed (B : Nat) (vs : List Val) (i : Nat) :
    ((indexed i vs).map fun iv => B * vsize iv.2).sum = B * vsizeL vs := by
  induction vs generalizing i with
  | nil => simp [indexed, vsizeL]
  | cons v vs ih => simp [indexed, vsizeL, ih, Nat.mul_add]

theorem sum_entries (B : Nat) (kvs : List (Key × Val)) :
    (kvs.map fun kv => B * vsize kv.2).sum = B * vsizeK kvs := by
  induction kvs with
  | nil => simp [vsizeK]
  | cons kv kvs ih => rcases kv with ⟨k, v⟩; simp [vsizeK, ih, Nat.mul_add]

theorem wrapSeq_size (m : Mode) (v : Val) (vs : List Val) (h : wrapSeq m v = some vs) : vsizeL vs ≤ vsize v := by
  cases v with
  | list l => simp [wrapSeq] at h; subst h; simp [vsize]
  | tok n => simp [wrapSeq] at h; obtain ⟨_, rfl⟩ := h; simp [vsizeL]
  | none => simp [wrapSeq] at h; obtain ⟨_, rfl⟩ := h; simp [vsizeL]
  | dict kvs =>
    cases kvs with
    | nil => simp [wrapSeq] at h; obtain ⟨_, rfl⟩ := h; simp [vsizeL]
    | cons kv rest => simp [wrapSeq] at h; obtain ⟨_, rfl⟩ := h; simp [vsizeL]

/-- size of the value found under a key (0 when absent) -/
def sizeAt (kvs : List (Key × Val)) (k : Key) : Nat :=
  match lookupKey k kvs with
  | some v => vsize v
  | none => 0

theorem sum_sizeAt_le (keys : List Key) (hn : keys.Nodup) (kvs : List (Key × Val)) :
    (keys.map (sizeAt kvs)).sum ≤ vsizeK kvs := by
  induction kvs generalizing keys with
  | nil =>
    have : ∀ k, sizeAt [] k = 0 := fun k => by simp [sizeAt, lookupKey]
    clear hn
    induction keys with
    | nil => simp
    | cons k ks ihk => simp [this, ihk]
  | cons kv rest ih =>
    rcases kv with ⟨k0, v0⟩
    simp only [vsizeK]
    -- keys other than k0 look into `rest`; k0 (at most once) finds v0
    have hsplit : ∀ (ks : List Key), ks.Nodup →
        (ks.map (sizeAt ((k0, v0) :: rest))).sum ≤ vsize v0 + ((ks.filter fun x => !decide (x = k0)).map (sizeAt rest)).sum := by
      intro ks hks
      induction ks with
      | nil => simp
      | cons k ks ihk =>
        rw [List.nodup_cons] at hks
        by_cases hk : k = k0
        · subst hk
          have hnot : ∀ k' ∈ ks, k' ≠ k := fun k' hk' he => hks.1 (he ▸ hk')
          have hf : (ks.filter fun x => !decide (x = k)) = ks := List.filter_eq_self.2 (by simpa using hnot)
          have hrest : (ks.map (sizeAt ((k, v0) :: rest))).sum = (ks.map (sizeAt rest)).sum := by
            congr 1
            apply List.map_congr_left
            intro k' hk'
            have : k ≠ k' := fun he => hnot k' hk' he.symm
            simp [sizeAt, lookupKey, this]
          simp [sizeAt, lookupKey, hf, hrest]
        · have := ihk hks.2
          have hne : k0 ≠ k := fun he => hk he.symm
          simp only [List.map_cons, List.sum_cons, List.filter_cons, hk, decide_false, Bool.not_false, if_true]
          have hs : sizeAt ((k0, v0) :: rest) k = sizeAt rest k := by simp [sizeAt, lookupKey, hne]
          rw [hs]
          omega
    have h1 := hsplit keys hn
    have h2 := ih (keys.filter fun x => !decide (x = k0)) (hn.sublist List.filter_sublist)
    omega

theorem dedupFst_sum_le {α} (g : String × α → Nat) (l : List (String × α)) :
    ((dedupFst l).map g).sum ≤ (l.map g).sum := by
  induction l with
  | nil => simp [dedupFst]
  | cons x xs ih =>
    simp only [dedupFst, List.map_cons, List.sum_cons]
    have : (((dedupFst xs).filter fun y => y.1 != x.1).map g).sum ≤ ((dedupFst xs).map g).sum := by
      generalize dedupFst xs = ys
      induction ys with
      | nil => simp
      | cons y ys ihy =>
        simp only [List.filter_cons]
        split <;> simp only [List.map_cons, List.sum_cons] <;> omega
    omega

theorem sum_tyWtL (m : Mode) (ts : List Ty) (n : Nat) :
    (ts.map fun t => tyWt m t * n).sum = tyWtL m ts * n := by
  induction ts with
  | nil => simp [tyWtL]
  | cons t ts ih => simp [tyWtL, ih, Nat.add_mul]

theorem noDataL_mem (ts : List Ty) (h : noDataL ts = true) : ∀ t ∈ ts, noData t = true := by
  induction ts with
  | nil => intro t ht; cases ht
  | cons t ts ih =>
    simp only [noDataL, Bool.and_eq_true] at h
    intro t' ht'
    rcases List.mem_cons.1 ht' with rfl | hm
    · exact h.1
    · exact ih h.2 t' hm

theorem knownItems_sum_le (B : Nat) (fields : List (String × Ty)) (kvs : List (Key × Val)) :
    ((knownItems fields kvs).map fun it => B * vsize it.2.2).sum ≤ B * vsizeK kvs := by
  unfold knownItems
  refine Nat.le_trans (dedupFst_sum_le _ _) ?_
  induction kvs with
  | nil => simp [vsizeK]
  | cons kv rest ih =>
    rcases kv with ⟨k, v⟩
    simp only [List.filterMap_cons, vsizeK, Nat.mul_add]
    cases k with
    | int i => simp only; omega
    | other n => simp only; omega
    | str s =>
      simp only
      cases fields.lookup s with
      | none => simp only [Option.map_none]; omega
      | some t => simp only [Option.map_some, List.map_cons, List.sum_cons]; omega

theorem knownItems_field (fields : List (String × Ty)) (kvs : List (Key × Val)) (it : String × Ty × Val)
    (h : it ∈ knownItems fields kvs) : (it.1, it.2.1) ∈ fields := by
  have h' := dedupFst_subset _ it h
  obtain ⟨kv, _, hkv⟩ := List.mem_filterMap.1 h'
  cases hk : kv.1 with
  | int i => simp [hk] at hkv
  | other n => simp [hk] at hkv
  | str s =>
    simp only [hk] at hkv
    cases hl : fields.lookup s with
    | none => simp [hl] at hkv
    | some t =>
      simp only [hl, Option.map_some, Option.some.injEq] at hkv
      subst hkv
      exact lookup_some_mem _ _ _ hl

theorem knownPrefix_size (fields : List (String × Ty)) (kvs : List (Key × Val)) :
    vsizeK (knownPrefix fields kvs) ≤ vsizeK kvs := by
  unfold knownPrefix
  induction kvs with
  | nil => simp [vsizeK]
  | cons kv rest ih =>
    rcases kv with ⟨k, v⟩
    simp only [List.takeWhile_cons]
    split
    · simp only [vsizeK]; omega
    · simp [vsizeK]

theorem toDict_size (m : Mode) (v : Val) (kvs : List (Key × Val)) (h : toDict m v = some kvs) :
    vsizeK kvs ≤ vsize v := by
  cases v with
  | tok n => simp [toDict] at h
  | none => simp [toDict] at h
  | dict l => simp [toDict] at h; subst h; simp [vsize]
  | list l =>
    cases l with
    | nil => simp only [toDict] at h; split at h <;> simp_all [vsizeK]
    | cons w ws =>
      simp only [toDict] at h
      split at h
      · cases h
      · split at h
        · cases h
        · cases w with
          | dict k0 => simp at h; subst h; simp [vsize, vsizeL]; omega
          | list l0 =>
            cases l0 with
            | nil => simp at h; subst h; simp [vsizeK]
            | cons a b => simp at h
          | tok n => simp at h
          | none => simp at h

theorem unwrapData_size (m : Mode) (v v1 : Val) (h : unwrapData m v = some v1) : vsize v1 ≤ vsize v := by
  cases v with
  | tok n => simp [unwrapData] at h; subst h; exact Nat.le_refl _
  | none => simp [unwrapData] at h; subst h; exact Nat.le_refl _
  | dict l => simp [unwrapData] at h; subst h; exact Nat.le_refl _
  | list l =>
    cases l with
    | nil => simp [unwrapData] at h; subst h; exact Nat.le_refl _
    | cons w ws =>
      rcases unwrapData_cases m w ws v1 h with rfl | rfl
      · simp [vsize, vsizeL]; omega
      · exact Nat.le_refl _

end Utv.C18
