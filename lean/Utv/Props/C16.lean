import Utv.Model.C16
import Utv.Util.ListLemmas
/-!
C16 — converter resolution is a pure function of the registration history.

`C16_resolve_refines` : for every class world, every cache setting and every finite history of
register / resolve operations, every resolve answers exactly what the one-screen specification
`specResolve` computes from the registrations made so far (highest priority, most recent wins ties).
No bound on the history, on the number of classes or on priorities.
-/
namespace Utv.C16

def Sorted (l : List Entry) : Prop := l.Pairwise (fun a b => a.prio ≥ b.prio)

/-- one update step of `best` -/
def upd (W : World) (t : Nat) (acc : Option Entry) (e : Entry) : Option Entry :=
  if e.det.matches W t then
    match acc with
    | none => some e
    | some b => if e.prio ≥ b.prio then some e else some b
  else acc

theorem best_append (W : World) (t : Nat) (regs : List Entry) (e : Entry) :
    best W t (regs ++ [e]) = upd W t (best W t regs) e := by
  unfold best
  rw [List.foldl_append]
  rfl

theorem ins_sorted (e : Entry) (l : List Entry) (h : Sorted l) : Sorted (ins e l) := by
  induction l with
  | nil => simp [ins, Sorted]
  | cons x xs ih =>
    unfold Sorted at *
    rw [List.pairwise_cons] at h
    simp only [ins]
    split
    · rename_i hgt
      rw [List.pairwise_cons]
      refine ⟨?_, ih h.2⟩
      intro a ha
      have : a = e ∨ a ∈ xs := by
        clear ih h
        induction xs with
        | nil => simp [ins] at ha; exact Or.inl ha
        | cons y ys ihy =>
          simp only [ins] at ha
          split at ha
          · rcases List.mem_cons.mp ha with h1 | h1
            · exact Or.inr (by simp [h1])
            · rcases ihy h1 with h2 | h2
              · exact Or.inl h2
              · exact Or.inr (by simp [h2])
          · rcases List.mem_cons.mp ha with h1 | h1
            · exact Or.inl h1
            · exact Or.inr h1
      rcases this with h1 | h1
      · subst h1; omega
      · exact h.1 a h1
    · rename_i hle
      rw [List.pairwise_cons]
      refine ⟨?_, List.pairwise_cons.mpr h⟩
      intro a ha
      rcases List.mem_cons.mp ha with h1 | h1
      · subst h1; omega
      · have := h.1 a h1; omega

theorem sortPrio_of_sorted (l : List Entry) (h : Sorted l) : sortPrio l = l := by
  induction l with
  | nil => rfl
  | cons x xs ih =>
    unfold Sorted at *
    rw [List.pairwise_cons] at h
    simp only [sortPrio, ih h.2]
    cases xs with
    | nil => rfl
    | cons y ys =>
      have := h.1 y (by simp)
      simp only [ins]
      split
      · omega
      · rfl

theorem find_ins (p : Entry → Bool) (e : Entry) (l : List Entry) (h : Sorted l) :
    (ins e l).find? p =
      if p e then
        (match l.find? p with
         | some x => if x.prio > e.prio then some x else some e
         | none => some e)
      else l.find? p := by
  induction l with
  | nil => simp [ins, List.find?]
  | cons y ys ih =>
    unfold Sorted at *
    rw [List.pairwise_cons] at h
    simp only [ins]
    split
    · rename_i hgt
      simp only [List.find?_cons]
      cases hy : p y with
      | true => simp [hgt]
      | false => simpa using ih h.2
    · rename_i hle
      simp only [List.find?_cons]
      cases hpe : p e with
      | false => simp
      | true =>
        simp only [if_true]
        cases hy : p y with
        | true => simp [hle]
        | false =>
          simp only
          cases hf : ys.find? p with
          | none => rfl
          | some x =>
            have hx : x ∈ ys := List.mem_of_find?_eq_some hf
            have := h.1 x hx
            have : ¬ x.prio > e.prio := by omega
            simp [this]

theorem not_mem_keys_of_lookup_none (t : Nat) (l : List (Nat × Nat)) (h : lookup t l = none) :
    t ∉ l.map (·.1) := by
  induction l with
  | nil => simp
  | cons x xs ih =>
    obtain ⟨k, v⟩ := x
    simp only [lookup] at h
    split at h
    · cases h
    · rename_i hk
      simp only [List.map_cons, List.mem_cons, not_or]
      exact ⟨fun hh => hk (by simp [hh]), ih h⟩

/-- The representation invariant relating a registry state to the registration history. -/
structure Inv (W : World) (r : Reg) (regs : List Entry) : Prop where
  sorted : Sorted r.entries
  first  : ∀ t, r.entries.find? (fun e => e.det.matches W t) = best W t regs
  cache  : ∀ t f, lookup t r.cache = some f → ∃ e, best W t regs = some e ∧ e.fn = f
  /-- a class is cached at most once (`self._cache` is a dict; `resolve` only stores what it did not find there) -/
  nodup  : (r.cache.map (·.1)).Nodup

theorem inv_init (W : World) (c : Bool) : Inv W { cacheOn := c } [] :=
  ⟨by simp [Sorted], by intro t; simp [best], by intro t f h; simp [lookup] at h, by simp⟩

theorem inv_register (W : World) (r : Reg) (regs : List Entry) (e : Entry) (h : Inv W r regs) :
    Inv W (register r e) (regs ++ [e]) := by
  have hs : sortPrio (e :: r.entries) = ins e r.entries := by
    simp [sortPrio, sortPrio_of_sorted _ h.sorted]
  refine ⟨?_, ?_, ?_, by simp [register]⟩
  · simp only [register, hs]; exact ins_sorted e _ h.sorted
  · intro t
    simp only [register, hs]
    rw [find_ins _ e _ h.sorted, best_append, h.first t]
    unfold upd
    cases hm : e.det.matches W t with
    | false => simp
    | true =>
      simp only [if_true]
      cases hb : best W t regs with
      | none => rfl
      | some b =>
        simp only
        by_cases hgt : b.prio > e.prio
        · have : ¬ e.prio ≥ b.prio := by omega
          simp [hgt, this]
        · have : e.prio ≥ b.prio := by omega
          simp [hgt, this]
  · intro t f hl; simp [register, lookup] at hl

theorem resolve_spec (W : World) (r : Reg) (regs : List Entry) (t : Nat) (h : Inv W r regs) :
    (resolve W r t).2 = specResolve W regs t ∧ Inv W (resolve W r t).1 regs := by
  unfold resolve specResolve
  cases hsc : W.shortcut t with
  | some f => exact ⟨rfl, h⟩
  | none =>
    simp only
    cases hc : (if r.cacheOn then lookup t r.cache else none) with
    | some f =>
      simp only
      have hl : lookup t r.cache = some f := by
        split at hc
        · exact hc
        · cases hc
      obtain ⟨e, he, hf⟩ := h.cache t f hl
      simp [he, hf, h]
    | none =>
      simp only
      rw [h.first t]
      cases hb : best W t regs with
      | none => exact ⟨rfl, h⟩
      | some e =>
        refine ⟨rfl, ?_⟩
        cases hco : r.cacheOn with
        | false => simpa [hco] using h
        | true =>
          simp only [if_true]
          have hl0 : lookup t r.cache = none := by simpa [hco] using hc
          refine ⟨h.sorted, h.first, ?_, ?_⟩
          · intro t' f' hl
            simp only [lookup] at hl
            split at hl
            · rename_i heq
              have : t = t' := by simpa using heq
              subst this
              exact ⟨e, hb, by simpa using hl⟩
            · exact h.cache t' f' hl
          · simp only [List.map_cons, List.nodup_cons]
            exact ⟨not_mem_keys_of_lookup_none t r.cache hl0, h.nodup⟩

theorem run_refines (W : World) (ops : List Op) :
    ∀ (r : Reg) (regs : List Entry), Inv W r regs → (run W r ops).2 = specRun W regs ops := by
  induction ops with
  | nil => intro r regs _; rfl
  | cons op ops ih =>
    intro r regs h
    cases op with
    | reg e =>
      have := ih _ _ (inv_register W r regs e h)
      simpa [run, runWith, step, specRun] using this
    | res t =>
      obtain ⟨ho, hi⟩ := resolve_spec W r regs t h
      have := ih _ _ hi
      simp only [run, runWith, step, specRun] at this ⊢
      rw [← ho, ← this]

/-- **C16.**  Every resolve in every history, on every class world, with or without the cache,
returns the specification's answer for the registrations made before it. -/
theorem C16_resolve_refines (W : World) (cacheOn : Bool) (h : List Op) :
    (run W { cacheOn := cacheOn } h).2 = specRun W [] h :=
  run_refines W h _ _ (inv_init W cacheOn)

def regsOf : List Op → List Entry
  | [] => []
  | .reg e :: ops => e :: regsOf ops
  | .res _ :: ops => regsOf ops

theorem specRun_append (W : World) (h ops : List Op) :
    ∀ regs, specRun W regs (h ++ ops) = specRun W regs h ++ specRun W (regs ++ regsOf h) ops := by
  induction h with
  | nil => intro regs; simp [specRun, regsOf]
  | cons op h ih =>
    intro regs
    cases op with
    | reg e => simpa [specRun, regsOf, List.append_assoc] using ih (regs ++ [e])
    | res t => simp [specRun, regsOf, ih regs]

/-- Corollary in the words of the property: a registration made after a class has already been
resolved (and cached) takes effect at the next resolve of that class. -/
theorem C16_late_registration_effective (W : World) (c : Bool) (h : List Op) (e : Entry) (t : Nat) :
    (run W { cacheOn := c } (h ++ [.res t, .reg e, .res t])).2.getLast? =
      some (specResolve W (regsOf h ++ [e]) t) := by
  rw [C16_resolve_refines, specRun_append]
  simp [specRun]

/-! ### Declarative reading of `best` (what "highest priority, most recent wins ties" means) -/

theorem C16_best_characterisation (W : World) (t : Nat) (regs : List Entry) (e : Entry)
    (h : best W t regs = some e) :
    ∃ l₁ l₂, regs = l₁ ++ e :: l₂ ∧ e.det.matches W t = true
      ∧ (∀ x ∈ l₁, x.det.matches W t = true → x.prio ≤ e.prio)
      ∧ (∀ x ∈ l₂, x.det.matches W t = true → x.prio < e.prio) := by
  induction regs using Utv.List.rev_ind generalizing e with
  | nil => simp [best] at h
  | snoc l a ih =>
    rw [best_append] at h
    unfold upd at h
    by_cases hm : a.det.matches W t = true
    · simp only [hm, if_true] at h
      cases hb : best W t l with
      | none =>
        rw [hb] at h
        cases h
        refine ⟨l, [], rfl, hm, ?_, by simp⟩
        intro x hx hxm
        -- no matching entry in l when best = none
        exfalso
        clear ih
        have : ∀ l : List Entry, best W t l = none → ∀ x ∈ l, x.det.matches W t = false := by
          intro l
          induction l using Utv.List.rev_ind with
          | nil => simp
          | snoc l' a' ih' =>
            intro hn x hx
            rw [best_append] at hn
            unfold upd at hn
            by_cases hm' : a'.det.matches W t = true
            · simp only [hm', if_true] at hn
              split at hn
              · cases hn
              · split at hn <;> cases hn
            · simp only [hm'] at hn
              rcases List.mem_append.mp hx with h1 | h1
              · exact ih' (by simpa using hn) x h1
              · simp at h1; subst h1; simpa using hm'
        have := this l hb x hx
        simp [hxm] at this
      | some b =>
        rw [hb] at h
        simp only at h
        obtain ⟨l₁, l₂, hl, hbm, h1, h2⟩ := ih b hb
        split at h
        · rename_i hge
          cases h
          refine ⟨l, [], rfl, hm, ?_, by simp⟩
          intro x hx hxm
          subst hl
          rcases List.mem_append.mp hx with hx | hx
          · have := h1 x hx hxm; omega
          · rcases List.mem_cons.mp hx with hx | hx
            · subst hx; omega
            · have := h2 x hx hxm; omega
        · rename_i hlt
          cases h
          refine ⟨l₁, l₂ ++ [a], by simp [hl], hbm, h1, ?_⟩
          intro x hx hxm
          rcases List.mem_append.mp hx with hx | hx
          · exact h2 x hx hxm
          · simp at hx; subst hx; omega
    · simp only [hm] at h
      obtain ⟨l₁, l₂, hl, hbm, h1, h2⟩ := ih e (by simpa using h)
      refine ⟨l₁, l₂ ++ [a], by simp [hl], hbm, h1, ?_⟩
      intro x hx hxm
      rcases List.mem_append.mp hx with hx | hx
      · exact h2 x hx hxm
      · simp at hx; subst hx; exact absurd hxm hm

theorem detClosure_iff (W : World) (cs : List Nat) (sub : Bool) (m a : Option Nat) (t : Nat) :
    detClosure W cs sub m a t = true ↔
      ((cs ≠ [] → (sub = true → ∃ c, c ∈ cs ∧ W.issub t c = true) ∧ (sub = false → t ∈ cs))
       ∧ (∀ m', m = some m' → W.isinst t m' = true) ∧ (∀ a', a = some a' → W.hasattr t a' = true)) := by
  cases sub <;> cases m <;> cases a <;> cases cs <;> simp [detClosure]

theorem attrName_eq (a : RegArgs) (n : Nat) : a.attrName = some n ↔ a.attr = .name n := by
  unfold RegArgs.attrName
  cases a.attr <;> simp

theorem C16_matches_iff_criteria (W : World) (a : RegArgs) (d : Det) (t : Nat) (h : registerOuter a = .ok d) :
    d.matches W t = true ↔ Accepts W a t := by
  unfold registerOuter at h
  unfold Accepts
  cases hd : a.detector with
  | some k =>
    rw [hd] at h
    cases h
    simp only [Det.matches]
    cases W.custom k t <;> simp
  | none =>
    rw [hd] at h
    simp only at h
    split at h
    · cases h
    · split at h
      · cases h
      · split at h
        · cases h
        · cases h
          simp only [Det.matches, detClosure_iff, attrName_eq]

/-- the argument checks of the outer `register` accept exactly the calls that have something to match by -/
theorem registerOuter_ok_iff (a : RegArgs) :
    (∃ d, registerOuter a = .ok d) ↔
      (a.detector = none →
        (a.classes ≠ [] ∨ a.attr ≠ .absent ∨ a.metaclass ≠ none)
        ∧ (∀ c, c ∈ a.classes → c ≠ .notClass) ∧ a.attr ≠ .notStr) := by
  unfold registerOuter
  cases hd : a.detector with
  | some k => simp
  | none =>
    simp only [forall_const]
    have hany : (a.classes.any (· == ClsArg.notClass)) = true ↔ ¬ ∀ c, c ∈ a.classes → c ≠ ClsArg.notClass := by
      rw [List.any_eq_true]
      constructor
      · rintro ⟨x, hx, hxe⟩ hall
        exact hall x hx (by simpa using hxe)
      · intro hn
        apply Classical.byContradiction
        intro hne
        apply hn
        intro c hc hce
        exact hne ⟨c, hc, by simp [hce]⟩
    have hempty : (a.classes.isEmpty && a.attr == AttrArg.absent && a.metaclass.isNone) = true ↔
        ¬ (a.classes ≠ [] ∨ a.attr ≠ AttrArg.absent ∨ a.metaclass ≠ none) := by
      cases a.classes <;> cases a.attr <;> cases a.metaclass <;> simp
    have hattr : (a.attr == AttrArg.notStr) = true ↔ ¬ a.attr ≠ AttrArg.notStr := by
      cases a.attr <;> simp
    by_cases h1 : (a.classes.isEmpty && a.attr == AttrArg.absent && a.metaclass.isNone) = true
    · have := hempty.mp h1
      simp only [h1, if_true]
      constructor
      · rintro ⟨d, hd⟩; cases hd
      · intro h; exact absurd h.1 this
    · have h1' : a.classes ≠ [] ∨ a.attr ≠ AttrArg.absent ∨ a.metaclass ≠ none :=
        Classical.byContradiction fun hh => h1 (hempty.mpr hh)
      simp only [h1]
      by_cases h2 : (a.classes.any (· == ClsArg.notClass)) = true
      · have := hany.mp h2
        simp only [h2, if_true]
        constructor
        · rintro ⟨d, hd⟩; cases hd
        · intro h; exact absurd h.2.1 this
      · have h2' : ∀ c, c ∈ a.classes → c ≠ ClsArg.notClass :=
          Classical.byContradiction fun hh => h2 (hany.mpr hh)
        simp only [h2]
        by_cases h3 : (a.attr == AttrArg.notStr) = true
        · have := hattr.mp h3
          simp only [h3, if_true]
          constructor
          · rintro ⟨d, hd⟩; cases hd
          · intro h; exact absurd h.2.2 this
        · have h3' : a.attr ≠ AttrArg.notStr := Classical.byContradiction fun hh => h3 (hattr.mpr hh)
          simp only [h3]
          exact ⟨fun _ => ⟨h1', h2', h3'⟩, fun _ => ⟨_, rfl⟩⟩

theorem C16_register_accepted_iff (W : World) (r : Reg) (a : RegArgs) (f : Nat) :
    (registerCall W r a f).2 = none ↔ WellFormed W a f := by
  unfold WellFormed
  rw [← registerOuter_ok_iff]
  unfold registerCall
  cases ho : registerOuter a with
  | error e => simp
  | ok d => cases hv : W.valid f <;> simp

theorem C16_refused_registration_no_effect (W : World) (r : Reg) (a : RegArgs) (f : Nat)
    (h : (registerCall W r a f).2 ≠ none) : (registerCall W r a f).1 = r := by
  unfold registerCall at *
  cases ho : registerOuter a with
  | error e => rfl
  | ok d =>
    rw [ho] at h
    cases hv : W.valid f with
    | false => simp
    | true => simp [hv] at h



/-! ### `best`, both directions -/

theorem best_none_forall (W : World) (t : Nat) :
    ∀ l : List Entry, best W t l = none → ∀ x ∈ l, x.det.matches W t = false := by
  intro l
  induction l using Utv.List.rev_ind with
  | nil => simp
  | snoc l' a' ih' =>
    intro hn x hx
    rw [best_append] at hn
    unfold upd at hn
    by_cases hm' : a'.det.matches W t = true
    · simp only [hm', if_true] at hn
      split at hn
      · cases hn
      · split at hn <;> cases hn
    · simp only [hm'] at hn
      rcases List.mem_append.mp hx with h1 | h1
      · exact ih' (by simpa using hn) x h1
      · simp at h1; subst h1; simpa using hm'

/-- no answer from the registrations exactly when none of them matches -/
theorem C16_best_none_iff (W : World) (t : Nat) (regs : List Entry) :
    best W t regs = none ↔ ∀ x ∈ regs, x.det.matches W t = false := by
  refine ⟨best_none_forall W t regs, ?_⟩
  induction regs using Utv.List.rev_ind with
  | nil => intro _; rfl
  | snoc l a ih =>
    intro h
    rw [best_append, ih (fun x hx => h x (by simp [hx]))]
    have : a.det.matches W t = false := h a (by simp)
    simp [upd, this]



theorem best_keep (W : World) (t : Nat) (l : List Entry) (e : Entry) (h : best W t l = some e) :
    ∀ l₂ : List Entry, (∀ x ∈ l₂, x.det.matches W t = true → x.prio < e.prio) → best W t (l ++ l₂) = some e := by
  intro l₂
  induction l₂ using Utv.List.rev_ind with
  | nil => intro _; simpa using h
  | snoc l' a ih =>
    intro hlt
    rw [← List.append_assoc, best_append, ih (fun x hx => hlt x (by simp [hx]))]
    unfold upd
    by_cases hm : a.det.matches W t = true
    · have := hlt a (by simp) hm
      have : ¬ a.prio ≥ e.prio := by omega
      simp [hm, this]
    · simp [hm]

/-- the converse of `C16_best_characterisation`: an occurrence that matches, is not outranked by an earlier match and
outranks every later match is the answer -/
theorem C16_best_of_split (W : World) (t : Nat) (l₁ l₂ : List Entry) (e : Entry)
    (hm : e.det.matches W t = true)
    (h1 : ∀ x ∈ l₁, x.det.matches W t = true → x.prio ≤ e.prio)
    (h2 : ∀ x ∈ l₂, x.det.matches W t = true → x.prio < e.prio) :
    best W t (l₁ ++ e :: l₂) = some e := by
  have hfront : best W t (l₁ ++ [e]) = some e := by
    rw [best_append]
    unfold upd
    simp only [hm, if_true]
    cases hb : best W t l₁ with
    | none => rfl
    | some b =>
      obtain ⟨a, c, hl, hbm, _, _⟩ := C16_best_characterisation W t l₁ b hb
      have : b.prio ≤ e.prio := h1 b (by simp [hl]) hbm
      have : e.prio ≥ b.prio := by omega
      simp [this]
  have := best_keep W t (l₁ ++ [e]) e hfront l₂ h2
  simpa using this

/-! ### histories of public calls against the property's sentence -/

def detOf (a : RegArgs) : Det :=
  match registerOuter a with
  | .ok d => d
  | .error _ => .custom 0

def entryOf (x : Registration) : Entry := ⟨detOf x.args, x.fn, x.args.priority⟩

def OkArgs (regs : List Registration) : Prop := ∀ x, x ∈ regs → ∃ d, registerOuter x.args = .ok d

theorem matches_entryOf (W : World) (x : Registration) (t : Nat) (h : ∃ d, registerOuter x.args = .ok d) :
    (entryOf x).det.matches W t = true ↔ Accepts W x.args t := by
  obtain ⟨d, hd⟩ := h
  have : (entryOf x).det = d := by simp [entryOf, detOf, hd]
  rw [this]
  exact C16_matches_iff_criteria W x.args d t hd

/-- the specification function answers the `Chosen` converter -/
theorem chosen_of_spec (W : World) (regs : List Registration) (t : Nat) (hok : OkArgs regs) :
    Chosen W regs t (specResolve W (regs.map entryOf) t) := by
  unfold specResolve
  cases hs : W.shortcut t with
  | some f => exact Chosen.shortcut f hs
  | none =>
    simp only
    cases hb : best W t (regs.map entryOf) with
    | none =>
      refine Chosen.fallback hs ?_
      intro x hx hacc
      have := (C16_best_none_iff W t _).mp hb (entryOf x) (List.mem_map_of_mem hx)
      rw [(matches_entryOf W x t (hok x hx)).mpr hacc] at this
      cases this
    | some e =>
      obtain ⟨l₁, l₂, hl, hm, h1, h2⟩ := C16_best_characterisation W t _ e hb
      obtain ⟨r₁, r₂', hr, hr1, hr2⟩ := List.map_eq_append_iff.mp hl
      obtain ⟨x, r₂, hr2', hxe, hr2''⟩ := List.map_eq_cons_iff.mp hr2
      subst hr hr2' hr1 hxe hr2''
      have hxok := hok x (by simp)
      refine Chosen.reg r₁ r₂ x hs rfl ((matches_entryOf W x t hxok).mp hm) ?_ ?_
      · intro y hy hacc
        exact h1 (entryOf y) (List.mem_map_of_mem hy) ((matches_entryOf W y t (hok y (by simp [hy]))).mpr hacc)
      · intro y hy hacc
        exact h2 (entryOf y) (List.mem_map_of_mem hy) ((matches_entryOf W y t (hok y (by simp [hy]))).mpr hacc)

/-- … and nothing else is `Chosen`: the sentence determines the converter -/
theorem spec_of_chosen (W : World) (regs : List Registration) (t : Nat) (o : Option Nat) (hok : OkArgs regs)
    (h : Chosen W regs t o) : o = specResolve W (regs.map entryOf) t := by
  unfold specResolve
  cases h with
  | shortcut f hs => simp [hs]
  | reg l₁ l₂ e hs hl hacc h1 h2 =>
    subst hl
    have hb : best W t ((l₁ ++ e :: l₂).map entryOf) = some (entryOf e) := by
      rw [List.map_append, List.map_cons]
      apply C16_best_of_split
      · exact (matches_entryOf W e t (hok e (by simp))).mpr hacc
      · intro x hx hm
        obtain ⟨y, hy, rfl⟩ := List.mem_map.mp hx
        exact h1 y hy ((matches_entryOf W y t (hok y (by simp [hy]))).mp hm)
      · intro x hx hm
        obtain ⟨y, hy, rfl⟩ := List.mem_map.mp hx
        exact h2 y hy ((matches_entryOf W y t (hok y (by simp [hy]))).mp hm)
    rw [hs]; simp only; rw [hb]; rfl
  | fallback hs hnone =>
    have hb : best W t (regs.map entryOf) = none := by
      rw [C16_best_none_iff]
      intro x hx
      obtain ⟨y, hy, rfl⟩ := List.mem_map.mp hx
      cases hm : (entryOf y).det.matches W t with
      | false => rfl
      | true => exact absurd ((matches_entryOf W y t (hok y hy)).mp hm) (hnone y hy)
    simp [hs, hb]

/-- **C16, the sentence is a function.**  Among well-formed registrations at most one converter is `Chosen`. -/
theorem C16_chosen_unique (W : World) (regs : List Registration) (t : Nat) (o₁ o₂ : Option Nat) (hok : OkArgs regs)
    (h₁ : Chosen W regs t o₁) (h₂ : Chosen W regs t o₂) : o₁ = o₂ := by
  rw [spec_of_chosen W regs t o₁ hok h₁, spec_of_chosen W regs t o₂ hok h₂]

theorem calls_spec (W : World) (cs : List Call) :
    ∀ (r : Reg) (regs : List Registration), Inv W r (regs.map entryOf) → OkArgs regs →
      SpecCalls W regs cs (runCalls W r cs).2 := by
  induction cs with
  | nil => intro r regs _ _; exact SpecCalls.nil regs
  | cons c cs ih =>
    intro r regs hinv hok
    cases c with
    | register a f =>
      simp only [runCalls]
      have hacc := C16_register_accepted_iff W r a f
      have hno := C16_refused_registration_no_effect W r a f
      cases hrc : registerCall W r a f with
      | mk r1 eo =>
        rw [hrc] at hacc hno
        cases eo with
        | some e =>
          simp only
          have hr1 : r1 = r := hno (by simp)
          subst hr1
          exact SpecCalls.refused regs a f cs _ e (fun hw => by simpa using hacc.mpr hw) (ih _ _ hinv hok)
        | none =>
          simp only
          have hwf : WellFormed W a f := hacc.mp rfl
          obtain ⟨d, hd⟩ := (registerOuter_ok_iff a).mpr hwf.2
          have hr1 : r1 = register r (entryOf ⟨a, f⟩) := by
            have : registerCall W r a f = (register r ⟨d, f, a.priority⟩, none) := by
              simp [registerCall, hd, hwf.1]
            rw [this] at hrc
            simp only [entryOf, detOf, hd]
            exact (congrArg Prod.fst hrc).symm
          subst hr1
          refine SpecCalls.accepted regs a f cs _ hwf (ih _ _ ?_ ?_)
          · simpa using inv_register W r _ (entryOf ⟨a, f⟩) hinv
          · intro x hx
            rcases List.mem_append.mp hx with hx | hx
            · exact hok x hx
            · simp at hx; subst hx; exact ⟨d, hd⟩
    | resolve t =>
      simp only [runCalls]
      obtain ⟨ho, hi⟩ := resolve_spec W r _ t hinv
      cases hres : resolve W r t with
      | mk r1 o =>
        rw [hres] at ho hi
        simp only at ho hi ⊢
        refine SpecCalls.resolve regs t cs _ o ?_ (ih _ _ hi hok)
        rw [ho]
        exact chosen_of_spec W regs t hok

/-- **C16, in the property's own words.**  For every class world, with or without the lookup cache, every finite
history of public calls `register(…)(f)` / `resolve(t)` on a fresh registry meets the specification `SpecCalls`: each
resolve returns the `Chosen` converter for the well-formed registrations made before it (criteria = `Accepts`),
ill-formed registrations are refused and change nothing. -/
theorem C16_calls_meet_spec (W : World) (cacheOn : Bool) (h : List Call) :
    SpecCalls W [] h (runCalls W { cacheOn := cacheOn } h).2 :=
  calls_spec W h _ [] (by simpa using inv_init W cacheOn) (by intro x hx; cases hx)

/-! ### a live base registry -/

theorem matches_fallback (W : World) (g : Nat → Option Nat) (d : Det) (t : Nat) :
    d.matches { W with fallback := g } t = d.matches W t := by
  cases d <;> rfl

theorem best_fallback (W : World) (g : Nat → Option Nat) (t : Nat) (regs : List Entry) :
    best { W with fallback := g } t regs = best W t regs := by
  rfl

theorem inv_fallback (W : World) (g : Nat → Option Nat) (r : Reg) (regs : List Entry) (h : Inv W r regs) :
    Inv { W with fallback := g } r regs := by
  refine ⟨h.sorted, ?_, ?_, h.nodup⟩
  · intro t
    rw [best_fallback, ← h.first t]
    rfl
  · intro t f hl
    rw [best_fallback]
    exact h.cache t f hl

theorem resolve_not_found (W : World) (r : Reg) (t : Nat) (h : found W r t = false) :
    resolve W r t = (r, W.fallback t) := by
  unfold found at h
  simp only [Bool.or_eq_false_iff] at h
  obtain ⟨⟨h1, h2⟩, h3⟩ := h
  have hs : W.shortcut t = none := by cases hh : W.shortcut t <;> simp_all
  have hc : (if r.cacheOn then lookup t r.cache else none) = none := by
    cases hco : r.cacheOn with
    | false => simp
    | true => cases hl : lookup t r.cache <;> simp_all
  have hf : r.entries.find? (fun e => e.det.matches W t) = none := by
    rw [List.find?_eq_none]
    intro x hx
    have := List.any_eq_false.mp h3 x hx
    simpa using this
  simp only [resolve, hs, hc, hf]

theorem resolve_found (W : World) (g : Nat → Option Nat) (r : Reg) (t : Nat) (h : found W r t = true) :
    resolve { W with fallback := g } r t = resolve W r t := by
  have hm : (fun e : Entry => e.det.matches { W with fallback := g } t) = fun e => e.det.matches W t := by
    funext e; rw [matches_fallback]
  unfold resolve
  simp only [hm]
  cases hs : W.shortcut t with
  | some f => rfl
  | none =>
    simp only
    cases hc : (if r.cacheOn then lookup t r.cache else none) with
    | some f => rfl
    | none =>
      simp only
      cases hf : r.entries.find? (fun e => e.det.matches W t) with
      | some e => rfl
      | none =>
        exfalso
        unfold found at h
        have h3 : r.entries.any (fun e => e.det.matches W t) = false := by
          rw [List.any_eq_false]
          intro x hx
          have := (List.find?_eq_none.mp hf) x hx
          simpa using this
        have h2 : (r.cacheOn && (lookup t r.cache).isSome) = false := by
          cases hco : r.cacheOn with
          | false => rfl
          | true => simp [hco] at hc; simp [hc]
        simp [hs, h2, h3] at h

theorem resolve_state_fallback (W : World) (g : Nat → Option Nat) (r : Reg) (t : Nat) :
    (resolve { W with fallback := g } r t).1 = (resolve W r t).1 := by
  cases h : found W r t with
  | true => rw [resolve_found W g r t h]
  | false =>
    rw [resolve_not_found W r t h]
    have : found { W with fallback := g } r t = false := by
      rw [← h]; unfold found
      have hm : (fun e : Entry => e.det.matches { W with fallback := g } t) = fun e => e.det.matches W t := by
        funext e; rw [matches_fallback]
      rw [hm]
    rw [resolve_not_found _ r t this]

theorem run2_refines (W Wb : World) (ops : List Op2) :
    ∀ (own base : Reg) (regs bregs : List Entry), Inv W own regs → Inv Wb base bregs →
      run2 W Wb own base ops = specRun2 W Wb regs bregs ops := by
  induction ops with
  | nil => intros; rfl
  | cons op ops ih =>
    intro own base regs bregs ho hb
    cases op with
    | reg e => simpa [run2, specRun2] using ih _ _ _ _ (inv_register W own regs e ho) hb
    | regBase e => simpa [run2, specRun2] using ih _ _ _ _ ho (inv_register Wb base bregs e hb)
    | resBase t =>
      obtain ⟨h1, h2⟩ := resolve_spec Wb base bregs t hb
      simp only [run2, specRun2]
      rw [h1, ih _ _ _ _ ho h2]
    | res t =>
      simp only [run2, specRun2]
      -- the world the own registry sees: its fallback is what the base's registrations select
      let g : Nat → Option Nat := fun t' => specResolve Wb bregs t'
      obtain ⟨h1, h2⟩ := resolve_spec { W with fallback := g } own regs t (inv_fallback W g own regs ho)
      obtain ⟨b1, b2⟩ := resolve_spec Wb base bregs t hb
      have hst : (resolve W own t).1 = (resolve { W with fallback := g } own t).1 :=
        (resolve_state_fallback W g own t).symm
      have ho' : Inv W (resolve W own t).1 regs := by
        rw [hst]
        have := inv_fallback _ W.fallback _ regs h2
        exact this
      cases hf : found W own t with
      | true =>
        simp only [resolve2, hf, if_true]
        have e := resolve_found W g own t hf
        rw [← h1, e, ih _ _ _ _ ho' hb]
      | false =>
        simp only [resolve2, hf]
        have hfg : found { W with fallback := g } own t = false := by
          rw [← hf]; unfold found
          have hm : (fun e : Entry => e.det.matches { W with fallback := g } t) = fun e => e.det.matches W t := by
            funext e; rw [matches_fallback]
          rw [hm]
        have : specResolve { W with fallback := g } regs t = specResolve Wb bregs t := by
          rw [← h1, resolve_not_found _ own t hfg]
        simp only [Bool.false_eq_true, if_false]
        rw [this, b1, ih _ _ _ _ ho' b2]


/-- **C16 with a live base registry** (`TypeRegistry(base=…)`): registrations into the own registry and into its
base, resolves of either, in any order, with either cache on or off — every resolve of the own registry answers from
its own registrations so far and otherwise what the base's registrations so far select. -/
theorem C16_base_registry_refines (W Wb : World) (c cb : Bool) (ops : List Op2) :
    run2 W Wb { cacheOn := c } { cacheOn := cb } ops = specRun2 W Wb [] [] ops :=
  run2_refines W Wb ops _ _ [] [] (inv_init W c) (inv_init Wb cb)

theorem runD_refines (W : World) (ops : List OpD) :
    ∀ (r : Reg) (ds : List (Nat × Option Nat)) (regs : List Entry), Inv W r regs →
      runD false W r ds ops = specRunD W regs (ds.map (·.1)) ops := by
  induction ops with
  | nil => intros; rfl
  | cons op ops ih =>
    intro r ds regs h
    cases op with
    | reg e => simpa [runD, specRunD] using ih _ ds _ (inv_register W r regs e h)
    | res t =>
      obtain ⟨h1, h2⟩ := resolve_spec W r regs t h
      simp only [runD, specRunD]
      rw [h1, ih _ ds _ h2]
    | decl t =>
      obtain ⟨_, h2⟩ := resolve_spec W r regs t h
      simp only [runD, specRunD]
      rw [ih _ _ _ h2]
      simp
    | use k =>
      simp only [runD, specRunD, List.getElem?_map]
      cases hk : ds[k]? with
      | none => simp [ih _ ds _ h]
      | some d =>
        obtain ⟨t, bound⟩ := d
        obtain ⟨h1, h2⟩ := resolve_spec W r regs t h
        simp only [Bool.false_and, Bool.false_eq_true, if_false, Option.map_some]
        rw [h1, ih _ ds _ h2]

/-- **C16 for declared consumers.**  Registrations, lookups, declarations of consumers (fields, item types, property
and function annotations) and conversions through them, in any order: a conversion through a consumer of class `t`
uses what the registrations made so far select for `t`, whenever the consumer was declared. -/
theorem C16_declared_consumers_refine (W : World) (cacheOn : Bool) (h : List OpD) :
    runD false W { cacheOn := cacheOn } [] h = specRunD W [] [] h :=
  runD_refines W h _ [] [] (inv_init W cacheOn)

/-- the registry state after any history satisfies the invariant (used to lift the T1 obligations over histories) -/
theorem run_inv (W : World) (ops : List Op) :
    ∀ (r : Reg) (regs : List Entry), Inv W r regs → Inv W (run W r ops).1 (regs ++ regsOf ops) := by
  induction ops with
  | nil => intro r regs h; simpa [run, runWith, regsOf] using h
  | cons op ops ih =>
    intro r regs h
    cases op with
    | reg e =>
      have := ih _ _ (inv_register W r regs e h)
      simpa [run, runWith, step, regsOf, List.append_assoc] using this
    | res t =>
      have := ih _ _ (resolve_spec W r regs t h).2
      simpa [run, runWith, step, regsOf] using this

/-- every registry state reachable from a fresh registry caches a class at most once — the hypothesis of the T1
obligation `C16_gen_resolve` holds on every reachable state -/
theorem C16_reachable_cache_keys_nodup (W : World) (c : Bool) (h : List Op) :
    ((run W { cacheOn := c } h).1.cache.map (·.1)).Nodup :=
  (run_inv W h _ [] (inv_init W c)).nodup

/-! ### "…takes effect for the next conversion of that type and of its subclasses" -/

/-- a registration for a class matches every subclass of it (`allow_subclasses=True`, the default) -/
theorem subclass_registration_matches (W : World) (cl t' : Nat) (h : W.issub t' cl = true) :
    (Det.std [cl] true none none).matches W t' = true := by
  simp [Det.matches, detClosure, h]

/-- A registration made after `t` *and another class `t'` it matches* (e.g. a subclass of the registered class)
have been resolved — and cached — is what the next resolve of `t'` returns, provided no earlier matching
registration outranks it. -/
theorem C16_late_registration_reaches_subclasses (W : World) (c : Bool) (h : List Op) (e : Entry) (t t' : Nat)
    (hs : W.shortcut t' = none) (hm : e.det.matches W t' = true)
    (hp : ∀ x ∈ regsOf h, x.det.matches W t' = true → x.prio ≤ e.prio) :
    (run W { cacheOn := c } (h ++ [.res t, .res t', .reg e, .res t'])).2.getLast? = some (some e.fn) := by
  rw [C16_resolve_refines, specRun_append]
  have hb := C16_best_of_split W t' (regsOf h) [] e hm hp (by simp)
  simp [specRun, specResolve, hs, hb]

/-! ### Non-vacuity, and the two fixed findings replayed on the pre-fix model -/

def W₀ : World where
  issub t c := t == c || (t == 2 && c == 1)      -- class 2 is a subclass of class 1
  isinst _ _ := false
  hasattr _ _ := false
  custom _ _ := none
  shortcut _ := none
  fallback _ := none

def eA : Entry := ⟨.std [1] true none none, 10, 1⟩   -- register(C1, priority=1) -> f10
def eB : Entry := ⟨.std [1] true none none, 20, 0⟩   -- register(C1)             -> f20
def eC : Entry := ⟨.std [2] true none none, 30, 0⟩   -- register(C2)             -> f30

/-- the model: a later priority-0 registration does not override priority 1 … -/
example : (run W₀ { cacheOn := true } [.reg eA, .reg eB, .res 1]).2 = [some 10] := by decide
/-- … and a registration after a cached lookup takes effect. -/
example : (run W₀ { cacheOn := true } [.reg eB, .res 2, .reg eC, .res 2]).2 = [some 20, some 30] := by
  decide
/-- the hypotheses of `C16_late_registration_reaches_subclasses` are satisfiable with `t' ≠ t`, `t'` a proper
subclass of the registered class and a cached earlier answer for `t'` -/
example : W₀.shortcut 2 = none ∧ eA.det.matches W₀ 2 = true ∧
    (∀ x ∈ regsOf [Op.reg eB, .res 2], x.det.matches W₀ 2 = true → x.prio ≤ eA.prio) ∧
    (run W₀ { cacheOn := true } ([.reg eB, .res 2] ++ [.res 1, .res 2, .reg eA, .res 2])).2
      = [some 20, some 20, some 20, some 10] := by decide
/-- a reachable state whose cache is not empty (the `nodup` clause of `Inv` is about something) -/
example : (run W₀ { cacheOn := true } [.reg eB, .res 2, .res 1, .res 2]).1.cache.map (·.1) = [1, 2] := by decide

def aSub : RegArgs := { classes := [.cls 1] }                                   -- register(C1)
def aExact : RegArgs := { classes := [.cls 1], allowSub := false }              -- register(C1, allow_subclasses=False)
def aNothing : RegArgs := {}                                                    -- register()            -> ValueError
def aNotClass : RegArgs := { classes := [.cls 1, .notClass] }                   -- register(C1, 5)       -> AssertionError
def aBadAttr : RegArgs := { classes := [.cls 1], attr := .notStr }              -- register(C1, attr=5)  -> AssertionError
def W₁ : World := { W₀ with valid := fun f => f != 0 }                          -- target 0 is not callable

/-- `WellFormed` holds of some calls and fails for each reason the code refuses a call (and the model reports the
error the code raises) -/
example : (runCalls W₁ { cacheOn := true }
    [.register aSub 20, .resolve 2, .register aExact 30, .resolve 2, .resolve 1,
     .register aNothing 40, .register aNotClass 41, .register aBadAttr 42, .register aSub 0, .resolve 2]).2
    = [.conv (some 20), .conv (some 20), .conv (some 30),
       .err .valueError, .err .assertionError, .err .assertionError, .err .typeError, .conv (some 20)] := by decide
example : WellFormed W₁ aSub 20 ∧ ¬ WellFormed W₁ aNothing 40 ∧ ¬ WellFormed W₁ aNotClass 41
    ∧ ¬ WellFormed W₁ aBadAttr 42 ∧ ¬ WellFormed W₁ aSub 0 := by
  refine ⟨?_, ?_, ?_, ?_, ?_⟩ <;> simp [WellFormed, W₁, W₀, aSub, aNothing, aNotClass, aBadAttr]
/-- exact-class matching is not subclass matching -/
example : Accepts W₀ aSub 2 ∧ ¬ Accepts W₀ aExact 2 ∧ Accepts W₀ aExact 1 := by
  refine ⟨?_, ?_, ?_⟩ <;> simp [Accepts, aSub, aExact, RegArgs.classIds, W₀]

/-- `OkArgs` (hypothesis of `C16_chosen_unique`) holds of a list of accepted registrations, and `Chosen` picks the
later of two equal-priority registrations that both accept the class -/
example : OkArgs [⟨aSub, 20⟩, ⟨aExact, 30⟩] ∧ Chosen W₀ [⟨aSub, 20⟩, ⟨aExact, 30⟩] 1 (some 30) := by
  have hok : OkArgs [⟨aSub, 20⟩, ⟨aExact, 30⟩] := by
    intro x hx
    simp only [List.mem_cons, List.not_mem_nil, or_false] at hx
    rcases hx with rfl | rfl
    · exact ⟨_, rfl⟩
    · exact ⟨_, rfl⟩
  exact ⟨hok, chosen_of_spec W₀ _ 1 hok⟩

/-- a live base: a registration into the base after the own registry has answered from the base takes effect, and the
own registry's registrations win over the base's whatever the priorities -/
example : run2 W₀ W₀ { cacheOn := true } { cacheOn := true }
    [.regBase eB, .res 2, .regBase eC, .res 2, .reg ⟨.std [1] true none none, 40, -5⟩, .res 2, .resBase 2]
    = [some 20, some 30, some 40, some 30] := by decide

/-- a consumer declared while one converter is in force follows a later registration … -/
example : runD false W₀ { cacheOn := true } [] [.reg eB, .decl 2, .use 0, .reg eC, .use 0, .res 2]
    = [some 20, some 30, some 30] := by decide

/-- … which the code before `fixes/C16-declared-types-late-registration` did not for item types of generics
(finding `declared-item-types-stale`, fixed): the converter found at declaration was kept.  About `runD true`. -/
theorem legacy_declared_binding_witness :
    runD true W₀ { cacheOn := true } [] [.reg eB, .decl 2, .use 0, .reg eC, .use 0, .res 2]
      ≠ specRunD W₀ [] [] [.reg eB, .decl 2, .use 0, .reg eC, .use 0, .res 2] := by decide

/-- Pre-fix code (61137ef^; finding `prio0-unsorted`, fixed): priority 0 after a positive priority is inserted in
front unsorted.  About `registerLegacy`, not about the current code. -/
theorem legacy_unsorted_witness :
    (runLegacy W₀ { cacheOn := false } [.reg eA, .reg eB, .res 1]).2
      ≠ specRun W₀ [] [.reg eA, .reg eB, .res 1] := by decide

/-- Pre-fix code (finding `stale-cache`, fixed): the cache is never invalidated. -/
theorem legacy_stale_cache_witness :
    (runLegacy W₀ { cacheOn := true } [.reg eB, .res 2, .reg eC, .res 2]).2
      ≠ specRun W₀ [] [.reg eB, .res 2, .reg eC, .res 2] := by decide

end Utv.C16
