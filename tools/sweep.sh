#!/bin/bash
# usage: tools/sweep.sh Cxx FROM TO [tier]  -- run the check with seeds FROM..TO, print the summary line of every run that is not clean
P=$1; A=$2; B=$3; T=${4:-quick}; bad=0
for s in $(seq $A $B); do
  out=$(VERIF_SEED=$s ./check $P --tier $T 2>&1); rc=$?
  if [ $rc -ne 0 ]; then bad=$((bad+1)); echo "seed=$s rc=$rc"; echo "$out" | grep -E "VIOLATION|broken|infrastructure|Traceback" | head -5; fi
done
echo "sweep $P $T seeds $A..$B: $bad bad"
