import Lean.Data.Json
/-! JSON helpers for the line-protocol drivers (drivers only; models never import this). -/
namespace Utv.J
open Lean

def obj? (j : Json) (k : String) : Option Json := (j.getObjVal? k).toOption
def nat! (j : Json) : Nat := (j.getNat?.toOption).getD 0
def int! (j : Json) : Int := (j.getInt?.toOption).getD 0
def bool! (j : Json) : Bool := (j.getBool?.toOption).getD false
def str! (j : Json) : String := (j.getStr?.toOption).getD ""
def arr! (j : Json) : List Json := ((j.getArr?.toOption).getD #[]).toList
def fld (j : Json) (k : String) : Json := (obj? j k).getD Json.null
def optNat (j : Json) : Option Nat := j.getNat?.toOption
def optInt (j : Json) : Option Int := j.getInt?.toOption
def isNull : Json → Bool | .null => true | _ => false

/-- read stdin line by line, answer one line per input line -/
partial def serve (f : Json → Json) : IO Unit := do
  let stdin ← IO.getStdin
  let stdout ← IO.getStdout
  let rec loop : IO Unit := do
    let line ← stdin.getLine
    if line.isEmpty then return ()
    let l := line.trimAscii.toString
    if l.isEmpty then loop else
    match Json.parse l with
    | .ok j => stdout.putStrLn (f j).compress
    | .error e => stdout.putStrLn (Json.mkObj [("driver-error", Json.str e)]).compress
    loop
  loop
  stdout.flush

end Utv.J
