import Utv.Model.C18
import Utv.Util.J
open Lean Utv.J Utv.C18

/-- the harness' counting leaf converter (harness/c18.py `to_leaf`): token classes mod 4 -/
def driverWorld : World :=
  { leafOk := fun m n => n % 4 == 0 || (n % 4 == 2 && !m.noLoss) || (n % 4 == 3 && !m.noCast) }

instance : Inhabited Ty := ⟨.none⟩
instance : Inhabited Val := ⟨.none⟩
instance : Inhabited Res := ⟨.none⟩

partial def mkTy (j : Json) : Ty :=
  match j with
  | .str "leaf" => .leaf
  | .str "none" => .none
  | _ =>
    match obj? j "data" with
    | some k => .data (nat! k)
    | none =>
    match obj? j "list" with
    | some t => .list (mkTy t)
    | none =>
    match obj? j "tuple" with
    | some t => .tuple (mkTy t)
    | none =>
    match obj? j "dict" with
    | some t => .dict (if str! (fld j "key") == "int" then .int else if str! (fld j "key") == "any" then .any else .str) (mkTy t)
    | none =>
    match obj? j "union" with
    | some ts => .union ((arr! ts).map mkTy)
    | none => .none

def mkKey (j : Json) : Key :=
  match j with
  | .str s => .str s
  | .null => .other 0
  | .bool false => .other 1
  | .bool true => .other 2
  | _ => .int (int! j)

partial def mkVal (j : Json) : Val :=
  match j with
  | .null => .none
  | _ =>
    match obj? j "t" with
    | some n => .tok (nat! n)
    | none =>
    match obj? j "l" with
    | some xs => .list ((arr! xs).map mkVal)
    | none =>
    match obj? j "d" with
    | some kvs => .dict ((arr! kvs).map fun p => match arr! p with
        | [k, v] => (mkKey k, mkVal v)
        | _ => (.str "?", .none))
    | none => .none

def mkClass (j : Json) : ClassDecl :=
  let o := fld j "opts"
  { fields := (arr! (fld j "fields")).map fun p => match arr! p with
      | [n, t] => (str! n, mkTy t)
      | _ => ("?", .none)
    mode := ⟨bool! (fld o "no_data_loss"), bool! (fld o "no_explicit_cast")⟩
    maxDepth := optNat (fld o "max_depth")
    dfs := bool! (fld o "dfs") }

def keyJ : Key → Json
  | .str s => Json.str s
  | .int i => Json.num i
  | .other 0 => Json.null
  | .other 1 => Json.bool false
  | .other _ => Json.bool true

partial def resJ : Res → Json
  | .leaf n => Json.mkObj [("x", Json.num n)]
  | .none => Json.null
  | .data k fs => Json.mkObj [("k", Json.num k), ("f", Json.arr (fs.map fun p => Json.arr #[Json.str p.1, resJ p.2]).toArray)]
  | .list rs => Json.mkObj [("l", Json.arr (rs.map resJ).toArray)]
  | .tuple rs => Json.mkObj [("tu", Json.arr (rs.map resJ).toArray)]
  | .dict kvs => Json.mkObj [("m", Json.arr (kvs.map fun p => Json.arr #[keyJ p.1, resJ p.2]).toArray)]

def outJ (E : Env) (o : Out Res × Nat) : Json :=
  match o with
  | (.ok r, c) => Json.mkObj [("ok", resJ r), ("cost", Json.num c), ("rdepth", Json.num (rdepth r)),
                              ("within", Json.bool (within E 0 r))]
  | (.err f, c) => Json.mkObj [("err", Json.str (if f.fuel then "fuel" else if f.depth then "depth" else "parse")),
                               ("cost", Json.num c)]

/-- the data-class instances of a result in pre-order (declaration order of fields, list order): (class, level) -/
partial def instancesOf (n : Nat) : Res → List (Nat × Nat)
  | .leaf _ => []
  | .none => []
  | .data k fs => (k, n + 1) :: fs.flatMap fun p => instancesOf (n + 1) p.2
  | .list rs => rs.flatMap (instancesOf n)
  | .tuple rs => rs.flatMap (instancesOf n)
  | .dict kvs => kvs.flatMap fun p => instancesOf n p.2

def fieldName (E : Env) (k : Nat) (j : Json) : String :=
  match j with
  | .str s => s
  | _ =>
    match E[k]? with
    | some cd => if cd.fields.isEmpty then "zz" else (cd.fields[nat! j % cd.fields.length]?.map (·.1)).getD "zz"
    | none => "zz"

def assignJ (o : Out Res × Nat) (_f : String) : Json :=
  match o with
  | (.ok r, c) => Json.mkObj [("ok", resJ r), ("cost", Json.num c)]
  | (.err f', c) => Json.mkObj [("err", Json.str (if f'.fuel then "fuel" else if f'.depth then "depth" else "parse")),
                               ("cost", Json.num c)]

/-- one assignment step on the `nth` instance of class `cls` of the parsed tree (a fresh instance when there is none) -/
def stepJ (E : Env) (Q : Quirks) (fuel : Nat) (tree : Out Res × Nat) (st : Json) : Json :=
  match tree with
  | (.err _, _) => Json.null
  | (.ok r, _) =>
    let k := nat! (fld st "cls")
    let cands := (instancesOf 0 r).filter fun p => p.1 == k
    let level := if cands.isEmpty then 0 else ((cands[nat! (fld st "nth") % cands.length]?).map (·.2)).getD 0
    let f := fieldName E k (fld st "field")
    assignJ (parseAssign driverWorld Q E fuel level k f (mkVal (fld st "value"))) f

def handle (j : Json) : Json :=
  let E : Env := (arr! (fld j "classes")).map mkClass
  let v := mkVal (fld j "value")
  let Q := if bool! (fld j "legacy") then Quirks.legacy else Quirks.fixed
  let via := str! (fld j "entry") == "transform"
  let k := nat! (fld j "root")
  let fuel := 100000
  let tl := parseTop driverWorld Q E fuel via k v
  let lim := outJ E tl
  let steps := arr! (fld j "steps")
  if bool! (fld j "skip_unl") then Json.mkObj [("lim", lim)]
  else
    let tu := parseTop driverWorld Q (unlimited E) fuel via k v
    Json.mkObj [("lim", lim), ("unl", outJ E tu),
                ("steps", Json.arr (steps.map fun st =>
                  Json.mkObj [("lim", stepJ E Q fuel tl st), ("unl", stepJ (unlimited E) Q fuel tu st)]).toArray)]

def main : IO Unit := serve handle
