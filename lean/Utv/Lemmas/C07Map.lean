import Utv.Model.C07
/-! Lookup lemmas for the insertion-ordered maps of the C07 model. -/
namespace Utv.C07.Map
variable {V : Type}

@[simp] theorem get_nil (k : String) : get ([] : Map V) k = none := rfl

theorem get_cons (k' : String) (v : V) (m : Map V) (k : String) :
    get ((k', v) :: m) k = if k' = k then some v else get m k := rfl

theorem has_iff (m : Map V) (k : String) : has m k = true ↔ ∃ v, get m k = some v := by
  unfold has
  cases get m k <;> simp

theorem has_false_iff (m : Map V) (k : String) : has m k = false ↔ get m k = none := by
  unfold has
  cases get m k <;> simp

theorem get_replace_ne (m : Map V) (k k' : String) (v : V) (h : k' ≠ k) :
    get (replace m k v) k' = get m k' := by
  induction m with
  | nil => rfl
  | cons p m ih =>
    obtain ⟨a, b⟩ := p
    simp only [replace]
    split
    · rename_i hak
      subst hak
      simp only [get_cons]
      have : ¬ a = k' := fun e => h e.symm
      simp [this, ih]
    · simp only [get_cons, ih]

theorem get_replace_eq (m : Map V) (k : String) (v : V) (h : has m k = true) :
    get (replace m k v) k = some v := by
  induction m with
  | nil => simp [has] at h
  | cons p m ih =>
    obtain ⟨a, b⟩ := p
    simp only [replace]
    split
    · rename_i hak
      simp [get_cons]
    · rename_i hak
      simp only [get_cons, hak, if_false]
      apply ih
      simpa [has, get_cons, hak] using h

theorem get_append_single (m : Map V) (k k' : String) (v : V) :
    get (m ++ [(k, v)]) k' = match get m k' with
      | some x => some x
      | none => if k = k' then some v else none := by
  induction m with
  | nil => simp [get_cons]
  | cons p m ih =>
    obtain ⟨a, b⟩ := p
    simp only [List.cons_append, get_cons]
    split
    · rfl
    · exact ih

theorem get_set (m : Map V) (k k' : String) (v : V) :
    get (set m k v) k' = if k' = k then some v else get m k' := by
  unfold set
  split
  · rename_i hh
    split
    · rename_i e; subst e; exact get_replace_eq m _ v hh
    · rename_i e; exact get_replace_ne m k k' v e
  · rename_i hh
    have hn : get m k = none := (has_false_iff m k).mp (by simpa using hh)
    rw [get_append_single]
    by_cases e : k' = k
    · subst e
      simp [hn]
    · have e2 : ¬ k = k' := fun e' => e e'.symm
      cases get m k' <;> simp [e, e2]

theorem get_del (m : Map V) (k k' : String) :
    get (del m k) k' = if k' = k then none else get m k' := by
  induction m with
  | nil => simp [del]
  | cons p m ih =>
    obtain ⟨a, b⟩ := p
    simp only [del]
    split
    · rename_i hak
      subst hak
      rw [ih]
      split
      · rfl
      · rename_i e
        have : ¬ a = k' := fun e' => e e'.symm
        simp [get_cons, this]
    · rename_i hak
      simp only [get_cons, ih]
      split
      · rename_i e
        subst e
        simp [hak]
      · rfl

theorem has_set (m : Map V) (k k' : String) (v : V) :
    has (set m k v) k' = (decide (k' = k) || has m k') := by
  unfold has
  rw [get_set]
  split <;> simp [*]

theorem has_del (m : Map V) (k k' : String) :
    has (del m k) k' = (!decide (k' = k) && has m k') := by
  unfold has
  rw [get_del]
  split <;> simp [*]

end Utv.C07.Map
