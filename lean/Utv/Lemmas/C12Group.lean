import Utv.Lemmas.C12
/-! Helper lemmas for `C12_group_*`: which inputs each converter accepts under no_explicit_cast. -/
namespace Utv.C12
open Utv.Conv Utv.Conv.Outcome
open Utv.Py (FloatV DecV NumV Q)
attribute [local irreducible] bracketed pyStrip splitFirstSep pyLower removeAll strContains endsWith startsWith rstripChar stripL

/-! ## (3) no_explicit_cast: conversion within the primitive group -/

def isNull : V → Bool | .none => true | _ => false
/-- number group: int (incl. bool), float, Decimal, complex -/
def isNumber (v : V) : Bool :=
  isInst v .int || isInst v .float || isInst v .decimal || (match v with | .complex _ _ => true | _ => false)
/-- string group: str, bytes, bytearray, memoryview -/
def isString : V → Bool | .str _ _ => true | .bytes _ _ _ => true | _ => false
/-- array group -/
def isArray : V → Bool | .seq _ _ _ => true | _ => false
/-- object group -/
def isObject : V → Bool | .dict _ _ => true | _ => false
def isTemporal : V → Bool | .date _ _ => true | .datetime _ _ _ => true | .time _ _ => true | .delta _ _ => true | _ => false
def isUuid : V → Bool | .uuid _ _ => true | _ => false
/-- boolean group: True, False and the numbers 0 and 1 -/
def okTrue : Outcome Bool → Bool | .ok true => true | _ => false
def isBoolLike (v : V) : Bool :=
  (match v with | .bool _ => true | _ => false) || okTrue (eqSmall v 1) || okTrue (eqSmall v 0)

/-- the group table with the documented exceptions: `Decimal` also from the string group; the date/time types
from the string group and from numbers (timestamps); `UUID` has no native form: string group -/
def GroupOK (cv : Conv) (v : V) : Bool :=
  match cv with
  | .null => isNull v
  | .bool => isBoolLike v
  | .int => isNumber v
  | .float => isNumber v
  | .decimal => isNumber v || isString v
  | .complex => isNumber v
  | .str => isString v
  | .bytes => isString v
  | .array => isArray v
  | .dict => isObject v
  | .mapping => isObject v
  | .iter => isArray v || isString v || isObject v      -- abstract classes pass their instances through
  | .date => isTemporal v || isNumber v || isString v
  | .datetime => isTemporal v || isNumber v || isString v
  | .timedelta => isTemporal v || isNumber v || isString v
  | .time => isTemporal v || isString v
  | .uuid => isUuid v || isString v
  | .enum => true

/-- known defect `complex-from-str-under-nec`: `to_complex` takes str / bytes under no_explicit_cast -/
def KnownDefect.complexFromStr (cv : Conv) (v : V) : Bool := cv == .complex && isString v

theorem isInstT_isInst (v : V) (b : Base) (c : Nat) (h : isInstT v (.cls b c) = true) : isInst v b = true := by
  cases c with
  | zero => exact h
  | succ n =>
    simp [isInstT] at h
    simp [isInst, h, Base.sub]

theorem isInst_cases (v : V) (b : Base) (h : isInst v b = true) :
    ∃ b' c, v.cls? = some (b', c) ∧ b'.sub b = true := by
  unfold isInst at h
  split at h
  · rename_i b' c hc; exact ⟨b', c, hc, h⟩
  · simp at h

theorem isInst_dict (v : V) (h : isInst v .dict = true) : isObject v = true := by
  cases v <;> simp [isInst, V.cls?, Base.sub] at h <;>
    first | rfl | (rename_i k _ _; cases k <;> simp [BytesK.base, SeqK.base] at h)

theorem isInst_seq (v : V) (k : SeqK) (h : isInst v k.base = true) : isArray v = true := by
  cases v with
  | seq _ _ _ => rfl
  | bytes k' _ _ => cases k' <;> cases k <;> simp [isInst, V.cls?, Base.sub, SeqK.base, BytesK.base] at h
  | _ => cases k <;> simp [isInst, V.cls?, Base.sub, SeqK.base] at h

theorem isInst_temporal (v : V) (b : Base) (hb : b = .datetime ∨ b = .timedelta ∨ b = .time ∨ b = .date)
    (h : isInst v b = true) : isTemporal v = true := by
  rcases hb with rfl | rfl | rfl | rfl <;>
  (cases v <;> simp [isInst, V.cls?, Base.sub] at h <;>
    first | rfl | (rename_i k _ _; cases k <;> simp [BytesK.base, SeqK.base] at h))

theorem isInst_uuid (v : V) (h : isInst v .uuid = true) : isUuid v = true := by
  cases v <;> simp [isInst, V.cls?, Base.sub] at h <;>
    first | rfl | (rename_i k _ _; cases k <;> simp [BytesK.base, SeqK.base] at h)

theorem isInst_complex (v : V) (h : isInst v .complex = true) : isNumber v = true := by
  cases v <;> simp [isInst, V.cls?, Base.sub] at h <;>
    first | rfl | (rename_i k _ _; cases k <;> simp [BytesK.base, SeqK.base] at h)

theorem scalar_group (d : V)
    (hi : (isInst d .int || isInst d .float || isInst d .str || isInst d .decimal) = true) :
    (isNumber d || isString d) = true := by
  cases d with
  | seq k _ _ => cases k <;> simp [isInst, V.cls?, Base.sub, SeqK.base] at hi
  | bytes k _ _ => simp [isString]
  | _ => simp [isInst, V.cls?, Base.sub] at hi <;> simp [isNumber, isString, isInst, V.cls?, Base.sub]

theorem fromByteLike_group (P : Prims) (f : Flags) (v d : V) (hd : fromByteLike P f v = .ok d)
    (h : (isNumber d || isString d) = true) : (isNumber v || isString v) = true := by
  cases v with
  | bytes k _ _ => simp [isString]
  | _ => simp [fromByteLike] at hd; subst hd; exact h

theorem fromByteLike_str_string (P : Prims) (f : Flags) (v : V) (c : Nat) (s : String)
    (h : fromByteLike P f v = .ok (.str c s)) : isString v = true := by
  cases v <;> simp [fromByteLike] at h <;> rfl

theorem toDatetime_nec_group (P : Prims) (E : Env) (c : Nat) (df : Bool) (v r : V)
    (h : toDatetime P E ⟨true, false⟩ c df v = .ok r) :
    (isTemporal v || isNumber v || isString v) = true := by
  unfold toDatetime at h
  split at h
  · rename_i hi
    simp [isInst_temporal v _ (Or.inl rfl) (isInstT_isInst v _ _ hi)]
  · split at h
    · simp [isTemporal]
    · simp [isTemporal]
    · simp only [attemptFrom, if_true, Outcome.ok_bind] at h
      split at h
      · rename_i hi
        simp at hi
        rcases hi with (hi | hi) | hi <;> simp [isNumber, hi]
      · obtain ⟨d2, hd2, h3⟩ := Outcome.bind_eq_ok.mp h
        split at h3
        · rename_i c' s; simp [fromByteLike_str_string P _ v c' s hd2]
        all_goals simp at h3

theorem isInstAbc_group (v : V) (a : Abc) (h : isInstAbc v a = true) :
    (isArray v || isString v || isObject v) = true := by
  cases v with
  | str _ _ => simp [isString]
  | bytes _ _ _ => simp [isString]
  | seq _ _ _ => simp [isArray]
  | dict _ _ => simp [isObject]
  | _ => cases a <;> simp [isInstAbc, isInst, V.cls?, Base.sub] at h

theorem nec_reduce {X : Flags → Outcome V} (hA : Sub (X ⟨true, true⟩) (X ⟨true, false⟩)) (d : Bool) (r : V)
    (h : X ⟨true, d⟩ = .ok r) : X ⟨true, false⟩ = .ok r := by
  cases d
  · exact h
  · exact hA r h

end Utv.C12
