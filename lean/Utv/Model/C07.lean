/-
C07 — model of the mutators of a data-class instance.

`Schema` (dict-based, utype/schema.py:228-538 after `fixes/C07-mutators.patch` and `fixes/C07-recompute-failure.patch`) and `DataClass`
(attribute-based, utype/parser/cls.py:275-359), hand-written branch for branch.  Tied to the code by the
correspondence run (harness/c07.py): the same operation sequences run on real instances and on `hrun`
below and both views of every instance are compared after every operation.

What is *not* the property's business is abstract (`World`): the converter of every declared field
type (`parse`, C01/C02's business), the typed-addition converter, the body of a property getter
(`getter`, a function of the values of its declared dependencies), deferred defaults.  Values are an
arbitrary type `V`; the model never inspects one.

`lg = true` selects the behaviour before the repair (the mutators `Schema` inherited from `dict`
unchanged, the raw addition, the `__dict__` key mix-up) and is only used by the negation witnesses.
-/
namespace Utv.C07

/-! ### insertion-ordered string-keyed maps (Python `dict`) -/

abbrev Map (V : Type) := List (String × V)

namespace Map
variable {V : Type}

def get : Map V → String → Option V
  | [], _ => none
  | (k', v) :: m, k => if k' = k then some v else get m k

def has (m : Map V) (k : String) : Bool := (get m k).isSome

def replace : Map V → String → V → Map V
  | [], _, _ => []
  | (k', v') :: m, k, v => if k' = k then (k, v) :: replace m k v else (k', v') :: replace m k v

/-- `d[k] = v`: an existing key keeps its position, a new key goes last -/
def set (m : Map V) (k : String) (v : V) : Map V :=
  if has m k then replace m k v else m ++ [(k, v)]

/-- `del d[k]` (the caller has checked membership) -/
def del : Map V → String → Map V
  | [], _ => []
  | (k', v) :: m, k => if k' = k then del m k else (k', v) :: del m k

/-- `next(reversed(d))` -/
def lastKey (m : Map V) : Option String := m.getLast?.map (·.1)

end Map

/-! ### declarations -/

/-- One `ParserField` (parser/field.py:389-504), reduced to what the mutators read. -/
structure Field where
  attname    : String
  name       : String                 -- output key (`alias` or the attribute name)
  aliases    : List String            -- `all_aliases`: every key `get_field` resolves to this field
  required   : Bool := false          -- `is_required` under `ignore_required=False` (field.py:821-830)
  immutable  : Bool := false          -- field.py:521-524 (`Final` or `immutable=True`)
  noOutput   : Bool := false          -- `no_output=True`
  isProp     : Bool := false          -- a getter-only `@property` field
  deps       : List String := []      -- property: names of the fields it is computed from (declared order)
  dependants : List String := []      -- names of the properties computed from this field (iteration order)
  deriving Repr, DecidableEq

/-- `Options.addition` (options.py:51-56) -/
inductive Addition | ignore | forbid | allow | typed
  deriving Repr, DecidableEq

structure Opts where
  immutable : Bool := false
  ignoreRequired : Bool := false
  ignoreDeleteNonexistent : Bool := false
  addition : Addition := .ignore
  override : Bool := false            -- options.py:101: these options take over in nested data classes
  deriving Repr, DecidableEq

structure Cls where
  fields   : List Field
  excluded : List String := []        -- `parser.exclude_vars`
  opts     : Opts := {}
  deriving Repr

structure World (V : Type) where
  parse    : String → V → Option V        -- field name → raw value → converted (none: ParseError)
  parseAdd : V → Option V                 -- typed addition (base.py:411-442)
  getter   : String → List V → Option V   -- property name → dependency values → what the getter returns (none: it raised)
  convert  : String → V → Option V        -- property name → getter result → converted to the declared return type (none: ParseError)
  deferred : String → Option V            -- `get_default(defer=True)` of a field (field.py:786-814)

/-- the instance: `dict` contents and `__dict__` -/
structure State (V : Type) where
  data  : Map V
  attrs : Map V
  deriving DecidableEq

inductive Exc | update | delete | parse | key | attr
  deriving Repr, DecidableEq

inductive Res (V : Type) where
  | ok (ret : Option V)
  | err (e : Exc)
  deriving DecidableEq

inductive Op (V : Type) where
  | setattr (a : String) (v : V)
  | delattr (a : String)
  | setitem (k : String) (v : V)
  | delitem (k : String)
  | update (kvs : List (String × V))
  | ior (kvs : List (String × V))
  | pop (k : String) (d : Option V)
  | popitem
  | setdefault (k : String) (v : V)
  | clear

variable {V : Type}

/-- the raw arguments an operation carries -/
def Op.args : Op V → List V
  | .setattr _ v => [v]
  | .setitem _ v => [v]
  | .setdefault _ v => [v]
  | .update kvs => kvs.map (·.2)
  | .ior kvs => kvs.map (·.2)
  | _ => []

/-- `parser.get_field(key)` (base.py:141-155) on a class whose alias sets are disjoint -/
def getField (C : Cls) (k : String) : Option Field := C.fields.find? (fun f => f.aliases.contains k)

def fieldByAtt (C : Cls) (a : String) : Option Field := C.fields.find? (fun f => f.attname == a)

/-- `Schema.__field_getter__` for a declared (non-property) field, schema.py:294-318 -/
def fieldGet (W : World V) (s : State V) (f : Field) : Option V :=
  match s.data.get f.name with
  | some v => some v
  | none =>
    match s.attrs.get f.attname with
    | some v => some v
    | none => W.deferred f.name

/-- the three ways `field.parse_output_value(field.property.fget(self))` can end -/
inductive Computed (V : Type) where
  | raised                 -- the getter raised (an unreadable dependency raises AttributeError inside it)
  | unconvertible          -- the getter's result does not convert to the declared return type
  | value (v : V)

/-- the getter reads its dependencies through the attribute view (schema.py:244, 257-259) -/
def compute3 (C : Cls) (W : World V) (s : State V) (p : Field) : Computed V :=
  match p.deps.mapM (fun d => (getField C d).bind (fieldGet W s)) with
  | none => .raised
  | some xs =>
    match W.getter p.name xs with
    | none => .raised
    | some raw =>
      match W.convert p.name raw with
      | none => .unconvertible
      | some v => .value v

/-- the value a property has now (none: reading it raises) -/
def compute (C : Cls) (W : World V) (s : State V) (p : Field) : Option V :=
  match compute3 C W s p with
  | .value v => some v
  | _ => none

/-- the attribute view `obj.<attname>`: `Schema.__field_getter__`, schema.py:294-318 (none: AttributeError) -/
def getattr (C : Cls) (W : World V) (s : State V) (f : Field) : Option V :=
  if f.isProp then
    match s.data.get f.name with
    | some v => some v
    | none =>
      match s.attrs.get f.attname with
      | some v => some v
      | none => compute C W s f
  else fieldGet W s f

/-- the early return of `__coerce_property__`, schema.py:232-241: some dependency is neither under the
keys nor (for a no_output dependency) in `__dict__` -/
def blocked (C : Cls) (s : State V) (p : Field) : Bool :=
  !(p.deps.all s.data.has) &&                                     -- :232
    p.deps.any (fun d => !s.data.has d && (match getField C d with      -- :235-241
      | none => true
      | some df => !s.attrs.has df.attname))

/-- `Schema.__coerce_property__`, schema.py:228-278 (after `fixes/C07-recompute-failure.patch`).  The flag says
that a ParseError left the function (the converted result is demanded on a `force_error` context; under
`collect_errors` it is collected and raised by the caller's `raise_error()`, schema.py:363).
Before the repair (`lg`) a stored value survived a raising getter. -/
def coerce (lg : Bool) (C : Cls) (W : World V) (s : State V) (p : Field) : State V × Bool :=
  if p.noOutput then (s, false)                                   -- :229-230
  else if blocked C s p then (s, false)                           -- :232-241
  else match compute3 C W s p with
    | .raised =>                                                  -- :243-255 getter failed: warn,
      (if lg then s else { s with data := s.data.del p.name }, false)   --   and drop the value it no longer matches
    | .unconvertible => (s, true)                                 -- :257-259 → field.py:1036 handle_error
    | .value v => ({ s with data := s.data.set p.name v }, false) -- :266-267

/-- the dependants loop, schema.py:357-362: the first escaping error ends it -/
def coerceList (lg : Bool) (C : Cls) (W : World V) : State V → List String → State V × Bool
  | s, [] => (s, false)
  | s, q :: qs =>
    match getField C q with
    | some p =>
      if p.isProp then
        match coerce lg C W s p with
        | (s', true) => (s', true)
        | (s', false) => coerceList lg C W s' qs
      else coerceList lg C W s qs
    | none => coerceList lg C W s qs

def coerceDependants (lg : Bool) (C : Cls) (W : World V) (s : State V) (f : Field) : State V × Bool :=
  coerceList lg C W s f.dependants

/-- `Schema.__field_setter__`, schema.py:327-369.  The context is made with `force_error` and `raise_error()`
follows the conversion (:334-336), so `Options.collect_errors` makes no difference.  Assignment and
recomputation take effect together or not at all (:338-369: the state is put back when anything raises);
before the repair (`lg`) the error left the field already assigned. -/
def fieldSetter (lg : Bool) (C : Cls) (W : World V) (s : State V) (f : Field) (v : V) : State V × Res V :=
  if C.opts.immutable || f.immutable then (s, .err .update)       -- :328-332
  else if f.isProp then
    -- a getter-only property has no input type (the value passes `parse_value` unchanged) and no
    -- setter: the assignment only forces a recomputation (:341-347)
    match coerce lg C W s f with
    | (s1, true) => (if lg then s1 else s, .err .parse)
    | (s1, false) =>
      match coerceDependants lg C W s1 f with
      | (s2, true) => (if lg then s2 else s, .err .parse)
      | (s2, false) => (s2, .ok none)
  else match W.parse f.name v with                                -- :334-336
    | none => (s, .err .parse)
    | some pv =>
      let s1 : State V :=
        if f.noOutput then { data := s.data.del f.name, attrs := s.attrs.set f.attname pv }   -- :349-353
        else { s with data := s.data.set f.name pv }                                          -- :355
      match coerceDependants lg C W s1 f with
      | (s2, true) => (if lg then s2 else s, .err .parse)         -- :363-369
      | (s2, false) => (s2, .ok none)

/-- `Schema.__setitem__`, schema.py:371-392 -/
def setitem (lg : Bool) (C : Cls) (W : World V) (s : State V) (k : String) (v : V) : State V × Res V :=
  if C.opts.immutable then (s, .err .update)
  else match getField C k with
    | some f => fieldSetter lg C W s f v
    | none =>
      if C.excluded.contains k then (s, .err .update)             -- :380-383
      else match C.opts.addition with
        | .forbid => (s, .err .parse)                             -- base.py:415-417 ExceedError
        | .ignore => (s, .ok none)                                -- base.py:418-420, schema.py:387-389
        | .allow => ({ s with data := s.data.set k v }, .ok none) -- base.py:424-425
        | .typed =>
          match W.parseAdd v with
          | none => (s, .err .parse)
          -- :390 stores the parsed addition (the unrepaired code stored the raw value)
          | some a => ({ s with data := s.data.set k (if lg then v else a) }, .ok none)

/-- `Schema.__field_deleter__`, schema.py:394-420 -/
def fieldDeleter (lg : Bool) (C : Cls) (s : State V) (f : Field) : State V × Res V :=
  if C.opts.immutable || f.immutable then (s, .err .delete)       -- :395-399
  else if f.required && !C.opts.ignoreRequired then (s, .err .delete)   -- :407-410
  else if !s.data.has f.name then
    (s, if C.opts.ignoreDeleteNonexistent then .ok none else .err .delete)   -- :411-416
  else
    let attrs := if lg then (if s.attrs.has f.name then s.attrs.del f.attname else s.attrs)
                 else s.attrs.del f.attname                       -- :419-420
    ({ data := s.data.del f.name, attrs := attrs }, .ok none)

/-- `Schema.__delitem__`, schema.py:422-431 -/
def delitem (lg : Bool) (C : Cls) (s : State V) (k : String) : State V × Res V :=
  if C.opts.immutable then (s, .err .delete)
  else match getField C k with
    | some f => fieldDeleter lg C s f
    | none => if s.data.has k then ({ s with data := s.data.del k }, .ok none) else (s, .err .key)

/-- `Schema.pop`, schema.py:443-466 -/
def pop (lg : Bool) (C : Cls) (s : State V) (k : String) (d : Option V) : State V × Res V :=
  if C.opts.immutable then (s, .err .delete)
  else match getField C k with
    | none =>                                                     -- :450-451 (the default is not passed on)
      match s.data.get k with
      | some v => ({ s with data := s.data.del k }, .ok (some v))
      | none => (s, .err .key)
    | some f =>
      if f.immutable then (s, .err .delete)
      else if f.required && !C.opts.ignoreRequired then (s, .err .delete)
      else match s.data.get f.name with
        | some v =>
          ({ data := s.data.del f.name, attrs := if lg then s.attrs else s.attrs.del f.attname }, .ok (some v))
        | none => match d with
          | some dv => (s, .ok (some dv))
          | none => (s, .err .key)

/-- `Schema.popitem`, schema.py:433-441 -/
def popitem (lg : Bool) (C : Cls) (s : State V) : State V × Res V :=
  if C.opts.immutable then (s, .err .delete)
  else if lg then
    match s.data.getLast? with                                    -- dict.popitem
    | none => (s, .err .key)
    | some (_, v) => ({ s with data := s.data.dropLast }, .ok (some v))
  else match s.data.lastKey with
    | none => (s, .err .key)
    | some k => pop lg C s k none

/-- the loop of `Schema.update`, schema.py:473-475: stops at the first key that raises -/
def setitems (lg : Bool) (C : Cls) (W : World V) : State V → List (String × V) → State V × Res V
  | s, [] => (s, .ok none)
  | s, (k, v) :: kvs =>
    match setitem lg C W s k v with
    | (s', .ok _) => setitems lg C W s' kvs
    | (s', .err e) => (s', .err e)

def update (lg : Bool) (C : Cls) (W : World V) (s : State V) (kvs : List (String × V)) : State V × Res V :=
  if C.opts.immutable then (s, .err .update) else setitems lg C W s kvs

/-- `key in self`, schema.py:288-292 -/
def contains (C : Cls) (s : State V) (k : String) : Bool :=
  match getField C k with
  | some f => s.data.has f.name
  | none => s.data.has k

/-- `self[key]`, schema.py:320-325 -/
def getitem (C : Cls) (s : State V) (k : String) : Option V :=
  match getField C k with
  | some f => s.data.get f.name
  | none => s.data.get k

/-- `Schema.setdefault`, schema.py:494-503 (before the repair: `dict.setdefault`) -/
def setdefault (lg : Bool) (C : Cls) (W : World V) (s : State V) (k : String) (v : V) : State V × Res V :=
  if lg then
    match s.data.get k with
    | some x => (s, .ok (some x))
    | none => ({ s with data := s.data.set k v }, .ok (some v))
  else if contains C s k then (s, .ok (getitem C s k))
  else match setitem lg C W s k v with
    | (s', .err e) => (s', .err e)
    | (s', .ok _) => (s', .ok (some ((getitem C s' k).getD v)))

/-- `Schema.clear`, schema.py:521-538 -/
def clear (lg : Bool) (C : Cls) (s : State V) : State V × Res V :=
  if C.opts.immutable then (s, .err .delete)
  else if C.fields.any (fun f => f.immutable || (f.required && !C.opts.ignoreRequired)) then (s, .err .delete)
  else
    let attrs := if lg then s.attrs
      else C.fields.foldl (fun a f => if s.data.has f.name then a.del f.attname else a) s.attrs
    ({ data := [], attrs := attrs }, .ok none)

/-- attribute assignment `obj.a = v`: a field's attribute is the property installed by
`assign_properties` (cls.py:328-359); any other name is a plain instance attribute -/
def setattr (lg : Bool) (C : Cls) (W : World V) (s : State V) (a : String) (v : V) : State V × Res V :=
  match fieldByAtt C a with
  | some f => if f.isProp then (s, .err .attr) else fieldSetter lg C W s f v    -- getter-only: no setter
  | none => ({ s with attrs := s.attrs.set a v }, .ok none)

def delattr (lg : Bool) (C : Cls) (s : State V) (a : String) : State V × Res V :=
  match fieldByAtt C a with
  | some f => if f.isProp then (s, .err .attr) else fieldDeleter lg C s f
  | none => if s.attrs.has a then ({ s with attrs := s.attrs.del a }, .ok none) else (s, .err .attr)

/-- one public mutating operation on a `Schema` instance -/
def step (lg : Bool) (C : Cls) (W : World V) (s : State V) : Op V → State V × Res V
  | .setattr a v => setattr lg C W s a v
  | .delattr a => delattr lg C s a
  | .setitem k v => setitem lg C W s k v
  | .delitem k => delitem lg C s k
  | .update kvs => update lg C W s kvs
  | .ior kvs =>
    if lg then (kvs.foldl (fun s kv => { s with data := s.data.set kv.1 kv.2 }) s, .ok none)   -- dict.__ior__
    else update lg C W s kvs                                       -- schema.py:505-508
  | .pop k d => pop lg C s k d
  | .popitem => popitem lg C s
  | .setdefault k v => setdefault lg C W s k v
  | .clear => clear lg C s

/-- `Schema.__post_init__`, schema.py:280-286: the properties are computed once, in field order; a result that
does not convert makes the constructor raise (none: no instance) -/
def postInitList (C : Cls) (W : World V) : State V → List Field → Option (State V)
  | s, [] => some s
  | s, p :: ps =>
    match coerce false C W s p with
    | (_, true) => none
    | (s', false) => postInitList C W s' ps

def postInit (C : Cls) (W : World V) (s : State V) : Option (State V) :=
  postInitList C W s (C.fields.filter (·.isProp))

/-! ### several instances: `copy()` (schema.py:513-519) gives an instance with its own `__dict__` -/

inductive HOp (V : Type) where
  | on (i : Nat) (op : Op V)
  | copy (i : Nat)

def hstep (lg : Bool) (C : Cls) (W : World V) (h : List (State V)) : HOp V → List (State V) × Res V
  | .on i op =>
    match h[i]? with
    | none => (h, .err .key)
    | some s => let r := step lg C W s op; (h.set i r.1, r.2)
  | .copy i =>
    match h[i]? with
    | none => (h, .err .key)
    | some s => (h ++ [s], .ok none)

def hrun (lg : Bool) (C : Cls) (W : World V) (h : List (State V)) (ops : List (HOp V)) : List (State V) :=
  ops.foldl (fun h op => (hstep lg C W h op).1) h

/-- the same, keeping every intermediate heap and result (what the driver prints) -/
def htrace (lg : Bool) (C : Cls) (W : World V) : List (State V) → List (HOp V) → List (List (State V) × Res V)
  | _, [] => []
  | h, op :: ops => let r := hstep lg C W h op; r :: htrace lg C W r.1 ops

/-! ### `DataClass` (attribute-based): only attribute assignment and deletion exist -/

/-- the setter built by `ClassParser.make_setter`, cls.py:275-290 (`raise_error()` at :285: `collect_errors`
makes no difference) -/
def dcSetattr (C : Cls) (W : World V) (s : State V) (a : String) (v : V) : State V × Res V :=
  match fieldByAtt C a with
  | none => ({ s with attrs := s.attrs.set a v }, .ok none)
  | some f =>
    if C.opts.immutable || f.immutable then (s, .err .update)
    else match W.parse f.name v with
      | none => (s, .err .parse)
      | some pv => ({ s with attrs := s.attrs.set f.attname pv }, .ok none)

/-- the deleter built by `ClassParser.make_deleter`, cls.py:292-316 -/
def dcDelattr (C : Cls) (s : State V) (a : String) : State V × Res V :=
  match fieldByAtt C a with
  | none => if s.attrs.has a then ({ s with attrs := s.attrs.del a }, .ok none) else (s, .err .attr)
  | some f =>
    if C.opts.immutable || f.immutable then (s, .err .delete)
    else if f.required && !C.opts.ignoreRequired then (s, .err .delete)
    else if !s.attrs.has f.attname then (s, .err .delete)
    else ({ s with attrs := s.attrs.del f.attname }, .ok none)

def dcStep (C : Cls) (W : World V) (s : State V) : Op V → State V × Res V
  | .setattr a v => dcSetattr C W s a v
  | .delattr a => dcDelattr C s a
  | _ => (s, .err .attr)          -- a DataClass has no mapping interface

def dcRun (C : Cls) (W : World V) (s : State V) (ops : List (Op V)) : State V :=
  ops.foldl (fun s op => (dcStep C W s op).1) s

/-- the getter built by `ClassParser.make_getter`, cls.py:318-326 -/
def dcGetattr (s : State V) (f : Field) : Option V := s.attrs.get f.attname

/-- `name in obj` made by `make_contains(output_only=True)`, cls.py:383-399 -/
def dcContains (C : Cls) (s : State V) (k : String) : Bool :=
  match getField C k with
  | none => false
  | some f => s.attrs.has f.attname && !f.noOutput

/-! ### inheritance: which accessor an attribute name reaches

`ClassParser.assign_properties` (cls.py:328-359) runs for every class (`__init_subclass__`, schema.py:74-91,
145-161) and installs, for *every* non-property field of that class — declared in its body or taken over from a
base by `generate_from_bases` (cls.py:223-257) — a property whose setter / deleter / getter close over that
class's own field object and (DataClass) that class's own options.  Python then finds the accessor along the
MRO, most derived class first. -/

structure Accessor where
  attname : String
  field   : Field
  opts    : Opts
  deriving Repr, DecidableEq

/-- the loop of `assign_properties`: no field is skipped except the `@property` ones (:337-339) -/
def assignProperties (C : Cls) : List Accessor :=
  (C.fields.filter (fun f => !f.isProp)).map (fun f => { attname := f.attname, field := f, opts := C.opts })

/-- attribute lookup along the MRO (own class first) -/
def resolveAccessor : List (List Accessor) → String → Option Accessor
  | [], _ => none
  | t :: ts, a =>
    match t.find? (fun x => x.attname == a) with
    | some x => some x
    | none => resolveAccessor ts a

/-- the body of the setter closure of `make_setter` (cls.py:276-290) for the accessor that was found -/
def accessorSet (W : World V) (s : State V) (x : Accessor) (v : V) : State V × Res V :=
  if x.opts.immutable || x.field.immutable then (s, .err .update)
  else match W.parse x.field.name v with
    | none => (s, .err .parse)
    | some pv => ({ s with attrs := s.attrs.set x.field.attname pv }, .ok none)

/-- the body of the deleter closure of `make_deleter` (cls.py:293-316) -/
def accessorDel (s : State V) (x : Accessor) : State V × Res V :=
  if x.opts.immutable || x.field.immutable then (s, .err .delete)
  else if x.field.required && !x.opts.ignoreRequired then (s, .err .delete)
  else if !s.attrs.has x.field.attname then (s, .err .delete)
  else ({ s with attrs := s.attrs.del x.field.attname }, .ok none)

/-- `obj.a = v` / `del obj.a` on an instance of a DataClass whose MRO carries the accessor tables `mro` -/
def dcSetattrVia (mro : List (List Accessor)) (W : World V) (s : State V) (a : String) (v : V) : State V × Res V :=
  match resolveAccessor mro a with
  | some x => accessorSet W s x v
  | none => ({ s with attrs := s.attrs.set a v }, .ok none)

def dcDelattrVia (mro : List (List Accessor)) (s : State V) (a : String) : State V × Res V :=
  match resolveAccessor mro a with
  | some x => accessorDel s x
  | none => if s.attrs.has a then ({ s with attrs := s.attrs.del a }, .ok none) else (s, .err .attr)

/-- `obj.a = v` on a Schema instance: the accessor is `partial(__field_setter__, field=…)` (cls.py:345-347);
the options are the instance's own (schema.py:328) -/
def setattrVia (mro : List (List Accessor)) (C : Cls) (W : World V) (s : State V) (a : String) (v : V) :
    State V × Res V :=
  match resolveAccessor mro a with
  | some x => fieldSetter false C W s x.field v
  | none => setattr false C W s a v

/-! ### which options an instance carries

An instance is built directly (`K(**data)`: no enclosing context) or as the value of a field of another data
class (at its construction or by a later assignment through the parent's setter / update): then
`transform_dataclass` (cls.py) calls `init_dataclass(cls, data, context=…)` with the enclosing context, and
`Options.make_context` (options.py:251-258) picks the options of the new context: the class's own, unless the
enclosing options say `override` and the own do not (documented: "otherwise the data class parses with its own
Options").  `Schema.__post_init__` keeps them as `self.__options__` (schema.py:282). -/

/-- `Options.make_context`, options.py:251-258 -/
def contextOptions (own : Opts) (enclosing : Option Opts) : Opts :=
  match enclosing with
  | none => own
  | some c => if !own.override && c.override then c else own

/-- what the mutators of a Schema instance consult: `self.__options__` for immutable / ignore_required /
ignore_delete_nonexistent (schema.py:328, 395, 407, 412, 434, 444, 469, 522), the class parser's own options
for additions (`self.__parser__.make_context`, schema.py:334, 384) -/
def instanceOpts (own : Opts) (enclosing : Option Opts) : Opts :=
  { contextOptions own enclosing with addition := own.addition }

/-- the declaration a (possibly nested) Schema instance is governed by -/
def instanceCls (C : Cls) (enclosing : Option Opts) : Cls := { C with opts := instanceOpts C.opts enclosing }

/-- a DataClass accessor closes over its class parser's options (cls.py:277, 294): nesting changes nothing -/
def dcInstanceCls (C : Cls) (_enclosing : Option Opts) : Cls := C

/-- the table the model above rests on: which `dict` mutators `Schema` defines itself (T1 table,
re-read from the source with `ast` on every run by harness/c07.py `extra_static`) -/
def overridden : List String :=
  ["__delitem__", "__ior__", "__setitem__", "clear", "copy", "pop", "popitem", "setdefault", "update"]

end Utv.C07
