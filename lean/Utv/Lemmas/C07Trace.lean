import Utv.Model.C07
import Utv.Lemmas.C07Map
/-!
C07 — every operation of the (repaired) model is a guarded sequence of a few primitive updates.

The invariants of Props/C07 are proved once per primitive; `step_trace` below is the only place where
the branch structure of the mutators is walked through.
-/
namespace Utv.C07
open Map
variable {V : Type}

/-! ### well-formed declarations (what the library's own class-creation checks guarantee) -/

structure WF (C : Cls) : Prop where
  nameMem    : ∀ f ∈ C.fields, f.name ∈ f.aliases
  attMem     : ∀ f ∈ C.fields, f.attname ∈ f.aliases
  /-- base.py:291-346 `generate_aliases`: a key resolves to at most one field -/
  disjoint   : ∀ f ∈ C.fields, ∀ g ∈ C.fields, ∀ k, k ∈ f.aliases → k ∈ g.aliases → f = g
  /-- fragment: getter-only properties (field.py:1239-1243) -/
  propPlain  : ∀ p ∈ C.fields, p.isProp = true →
                 p.required = false ∧ p.immutable = false ∧ p.noOutput = false ∧ p.dependants = []
  /-- fragment: properties are computed from declared non-property fields -/
  depsPlain  : ∀ p ∈ C.fields, p.isProp = true → ∀ d ∈ p.deps, ∃ f ∈ C.fields, f.name = d ∧ f.isProp = false
  /-- field.py:691-744 `apply_fields`: a dependency knows its dependants -/
  depsListed : ∀ p ∈ C.fields, p.isProp = true → ∀ f ∈ C.fields, f.name ∈ p.deps → p.name ∈ f.dependants
  /-- dependants are recorded by field name (field.py:686-689, 733) -/
  depNames   : ∀ f ∈ C.fields, ∀ q ∈ f.dependants, ∀ p, getField C q = some p → p.name = q

theorem getField_some {C : Cls} {k : String} {f : Field} (h : getField C k = some f) :
    f ∈ C.fields ∧ k ∈ f.aliases := by
  unfold getField at h
  refine ⟨List.mem_of_find?_eq_some h, ?_⟩
  have := List.find?_some h
  simpa using this

theorem getField_of_mem {C : Cls} (hwf : WF C) {k : String} {f : Field} (hf : f ∈ C.fields)
    (hk : k ∈ f.aliases) : getField C k = some f := by
  cases h : getField C k with
  | none =>
    unfold getField at h
    have := List.find?_eq_none.mp h f hf
    simp [hk] at this
  | some g =>
    obtain ⟨hg, hkg⟩ := getField_some h
    rw [hwf.disjoint g hg f hf k hkg hk]

theorem getField_name {C : Cls} (hwf : WF C) {f : Field} (hf : f ∈ C.fields) : getField C f.name = some f :=
  getField_of_mem hwf hf (hwf.nameMem f hf)

theorem name_inj {C : Cls} (hwf : WF C) {f g : Field} (hf : f ∈ C.fields) (hg : g ∈ C.fields)
    (h : f.name = g.name) : f = g :=
  hwf.disjoint f hf g hg f.name (hwf.nameMem f hf) (h ▸ hwf.nameMem g hg)

theorem att_inj {C : Cls} (hwf : WF C) {f g : Field} (hf : f ∈ C.fields) (hg : g ∈ C.fields)
    (h : f.attname = g.attname) : f = g :=
  hwf.disjoint f hf g hg f.attname (hwf.attMem f hf) (h ▸ hwf.attMem g hg)

theorem getField_none_ne {C : Cls} (hwf : WF C) {k : String} (h : getField C k = none) {f : Field}
    (hf : f ∈ C.fields) : f.name ≠ k := by
  intro e
  rw [← e, getField_name hwf hf] at h
  cases h

theorem getField_eq_name {C : Cls} (hwf : WF C) {k : String} {f g : Field} (h : getField C k = some f)
    (hg : g ∈ C.fields) (e : g.name = k) : f = g := by
  rw [← e, getField_name hwf hg] at h
  cases h
  rfl

theorem fieldByAtt_some {C : Cls} {a : String} {f : Field} (h : fieldByAtt C a = some f) :
    f ∈ C.fields ∧ f.attname = a := by
  unfold fieldByAtt at h
  refine ⟨List.mem_of_find?_eq_some h, ?_⟩
  have := List.find?_some h
  simpa using this

theorem fieldByAtt_none {C : Cls} {a : String} (h : fieldByAtt C a = none) {f : Field} (hf : f ∈ C.fields) :
    f.attname ≠ a := by
  unfold fieldByAtt at h
  have := List.find?_eq_none.mp h f hf
  simpa using this

/-! ### primitive updates -/

inductive Prim (V : Type) where
  | store (f : Field) (pv : V)         -- a converted value for a declared field, then its dependants
  | recompute (p : Field)              -- a property is computed again
  | setAdd (k : String) (v : V)        -- an accepted addition
  | remove (f : Field)                 -- a present, deletable field leaves both views
  | delKey (k : String)                -- an addition is removed
  | clear
  | setAttrOther (a : String) (v : V)  -- an instance attribute that is no field
  | delAttrOther (a : String)

def storeField (s : State V) (f : Field) (pv : V) : State V :=
  if f.noOutput then { data := s.data.del f.name, attrs := s.attrs.set f.attname pv }
  else { s with data := s.data.set f.name pv }

def clearAttrs (C : Cls) (s : State V) : Map V :=
  C.fields.foldl (fun a f => if s.data.has f.name then a.del f.attname else a) s.attrs

def Prim.apply (C : Cls) (W : World V) (s : State V) : Prim V → State V
  | .store f pv => (coerceDependants false C W (storeField s f pv) f).1
  | .recompute p => (coerce false C W s p).1
  | .setAdd k v => { s with data := s.data.set k v }
  | .remove f => { data := s.data.del f.name, attrs := s.attrs.del f.attname }
  | .delKey k => { s with data := s.data.del k }
  | .clear => { data := [], attrs := clearAttrs C s }
  | .setAttrOther a v => { s with attrs := s.attrs.set a v }
  | .delAttrOther a => { s with attrs := s.attrs.del a }

/-- side conditions under which the mutators perform a primitive.  `strict` additionally demands that
a removed field has no stored dependant (the region outside the known defect). -/
def Prim.ok (strict : Bool) (xs : List V) (C : Cls) (W : World V) (s : State V) : Prim V → Prop
  | .store f pv => f ∈ C.fields ∧ f.isProp = false ∧ f.immutable = false ∧ C.opts.immutable = false ∧
      (∃ x ∈ xs, W.parse f.name x = some pv) ∧
      (coerceDependants false C W (storeField s f pv) f).2 = false     -- every recomputed dependant converted
  | .recompute p => p ∈ C.fields ∧ p.isProp = true ∧ (coerce false C W s p).2 = false
  | .setAdd k v => getField C k = none ∧ C.opts.immutable = false ∧
      ((C.opts.addition = .allow ∧ v ∈ xs) ∨ (C.opts.addition = .typed ∧ ∃ x ∈ xs, W.parseAdd x = some v))
  | .remove f => f ∈ C.fields ∧ f.immutable = false ∧ C.opts.immutable = false ∧
      (f.required = false ∨ C.opts.ignoreRequired = true) ∧ s.data.has f.name = true ∧
      (strict = true → ∀ q ∈ f.dependants, s.data.has q = false)
  | .delKey k => getField C k = none
  | .clear => ∀ f ∈ C.fields, f.immutable = false ∧ (f.required = false ∨ C.opts.ignoreRequired = true)
  | .setAttrOther a v => fieldByAtt C a = none ∧ v ∈ xs
  | .delAttrOther a => fieldByAtt C a = none

inductive Trace (strict : Bool) (xs : List V) (C : Cls) (W : World V) : State V → State V → Prop where
  | refl (s : State V) : Trace strict xs C W s s
  | step {s s' : State V} (p : Prim V) : Prim.ok strict xs C W s p → Trace strict xs C W (p.apply C W s) s' →
      Trace strict xs C W s s'

theorem Trace.one {strict : Bool} {xs : List V} {C : Cls} {W : World V} {s : State V} (p : Prim V)
    (h : Prim.ok strict xs C W s p) : Trace strict xs C W s (p.apply C W s) :=
  .step p h (.refl _)

theorem Trace.trans {strict : Bool} {xs : List V} {C : Cls} {W : World V} {a b c : State V}
    (h1 : Trace strict xs C W a b) (h2 : Trace strict xs C W b c) : Trace strict xs C W a c := by
  induction h1 with
  | refl => exact h2
  | step p hp _ ih => exact .step p hp (ih h2)

/-- an invariant kept by every permitted primitive is kept along a trace -/
theorem Trace.preserves {strict : Bool} {xs : List V} {C : Cls} {W : World V} (P : State V → Prop)
    (hP : ∀ s p, P s → Prim.ok strict xs C W s p → P (p.apply C W s)) {a b : State V}
    (h : Trace strict xs C W a b) (ha : P a) : P b := by
  induction h with
  | refl => exact ha
  | step p hp _ ih => exact ih (hP _ p ha hp)

/-! ### the known defect as a decidable predicate on (state, operation) -/

/-- the field an operation removes when it succeeds -/
def removalTarget (C : Cls) (s : State V) : Op V → Option Field
  | .delattr a => fieldByAtt C a
  | .delitem k => getField C k
  | .pop k _ => getField C k
  | .popitem => s.data.lastKey.bind (getField C)
  | _ => none

/-- `KnownDefect`: the operation removes a present field while a property computed from it stays stored
(schema.py:394-420, 443-466 recompute nothing) -/
def knownDefect (C : Cls) (s : State V) (op : Op V) : Bool :=
  match removalTarget C s op with
  | some f =>
    -- the removal goes through (no immutability, not required) …
    !C.opts.immutable && !f.immutable && !(f.required && !C.opts.ignoreRequired) &&
      -- … of a present field, and a property computed from it stays stored
      s.data.has f.name && f.dependants.any s.data.has
  | none => false

/-! ### the operations as traces -/

section
variable {C : Cls} {W : World V} {strict : Bool} {xs : List V}

theorem fieldSetter_trace (hwf : WF C) (s : State V) {f : Field} (hf : f ∈ C.fields) (v : V) (hv : v ∈ xs) :
    Trace strict xs C W s (fieldSetter false C W s f v).1 := by
  unfold fieldSetter
  split
  · exact .refl _
  · rename_i him
    have him' : C.opts.immutable = false ∧ f.immutable = false := by
      cases h1 : C.opts.immutable <;> cases h2 : f.immutable <;> simp_all
    split
    · rename_i hp
      have hd : f.dependants = [] := (hwf.propPlain f hf hp).2.2.2
      cases hc : coerce false C W s f with
      | mk s1 b =>
        cases b with
        | true => exact .refl _
        | false =>
          simp only [coerceDependants, hd, coerceList]
          have h1 : (coerce false C W s f).1 = s1 := by rw [hc]
          rw [← h1]
          exact Trace.one (.recompute f) ⟨hf, hp, by rw [hc]⟩
    · rename_i hp
      split
      · exact .refl _
      · rename_i pv hpv
        cases hc : coerceDependants false C W (storeField s f pv) f with
        | mk s2 b =>
          have hc' : coerceDependants false C W
              (if f.noOutput = true then { data := s.data.del f.name, attrs := s.attrs.set f.attname pv }
               else { data := s.data.set f.name pv, attrs := s.attrs }) f = (s2, b) := hc
          simp only [hc']
          cases b with
          | true => exact .refl _
          | false =>
            have h1 : (coerceDependants false C W (storeField s f pv) f).1 = s2 := by rw [hc]
            rw [← h1]
            exact Trace.one (.store f pv) ⟨hf, by simpa using hp, him'.2, him'.1, ⟨v, hv, hpv⟩, by rw [hc]⟩

theorem setitem_trace (hwf : WF C) (s : State V) (k : String) (v : V) (hv : v ∈ xs) :
    Trace strict xs C W s (setitem false C W s k v).1 := by
  unfold setitem
  split
  · exact .refl _
  · rename_i him
    split
    · rename_i f hf
      exact fieldSetter_trace hwf s (getField_some hf).1 v hv
    · rename_i hf
      split
      · exact .refl _
      · split
        · exact .refl _
        · exact .refl _
        · rename_i ha
          exact Trace.one (.setAdd k v) ⟨hf, by simpa using him, Or.inl ⟨ha, hv⟩⟩
        · rename_i ha
          split
          · exact .refl _
          · rename_i a hpa
            exact Trace.one (.setAdd k a) ⟨hf, by simpa using him, Or.inr ⟨ha, v, hv, hpa⟩⟩

theorem setitems_trace (hwf : WF C) (kvs : List (String × V)) (hk : ∀ kv ∈ kvs, kv.2 ∈ xs) :
    ∀ s : State V, Trace strict xs C W s (setitems false C W s kvs).1 := by
  induction kvs with
  | nil => intro s; exact .refl _
  | cons kv kvs ih =>
    intro s
    obtain ⟨k, v⟩ := kv
    have h1 := setitem_trace (strict := strict) (W := W) hwf s k v (hk (k, v) (by simp))
    unfold setitems
    cases hr : setitem false C W s k v with
    | mk s' r =>
      rw [hr] at h1
      cases r with
      | ok _ => exact h1.trans (ih (fun kv h => hk kv (by simp [h])) s')
      | err e => exact h1

theorem update_trace (hwf : WF C) (s : State V) (kvs : List (String × V)) (hk : ∀ kv ∈ kvs, kv.2 ∈ xs) :
    Trace strict xs C W s (update false C W s kvs).1 := by
  unfold update
  split
  · exact .refl _
  · exact setitems_trace hwf kvs hk s

/-- the part of `knownDefect` that is left once the removal is known to go through -/
def staleAfter (s : State V) (f : Field) : Bool := s.data.has f.name && f.dependants.any s.data.has

theorem fieldDeleter_trace (s : State V) {f : Field} (hf : f ∈ C.fields)
    (hd : strict = true → (!C.opts.immutable && !f.immutable && !(f.required && !C.opts.ignoreRequired) &&
      s.data.has f.name && f.dependants.any s.data.has) = false) :
    Trace strict xs C W s (fieldDeleter false C s f).1 := by
  unfold fieldDeleter
  split
  · exact .refl _
  · rename_i him
    have him' : C.opts.immutable = false ∧ f.immutable = false := by
      cases h1 : C.opts.immutable <;> cases h2 : f.immutable <;> simp_all
    split
    · exact .refl _
    · rename_i hreq
      split
      · exact .refl _
      · rename_i hhas
        have hhas' : s.data.has f.name = true := by simpa using hhas
        have hreq' : (f.required && !C.opts.ignoreRequired) = false := by simpa using hreq
        refine Trace.one (.remove f) ⟨hf, him'.2, him'.1, ?_, hhas', ?_⟩
        · cases h1 : f.required <;> cases h2 : C.opts.ignoreRequired <;> simp_all
        · intro hs q hq
          have := hd hs
          simp only [him'.1, him'.2, hreq', hhas', Bool.not_false, Bool.true_and, List.any_eq_false] at this
          simpa using this q hq

theorem pop_trace (s : State V) (k : String) (d : Option V)
    (hd : strict = true → ∀ f, getField C k = some f →
      (!C.opts.immutable && !f.immutable && !(f.required && !C.opts.ignoreRequired) &&
        s.data.has f.name && f.dependants.any s.data.has) = false) :
    Trace strict xs C W s (pop false C s k d).1 := by
  unfold pop
  split
  · exact .refl _
  · rename_i him
    have him' : C.opts.immutable = false := by simpa using him
    split
    · rename_i hf
      split
      · exact Trace.one (.delKey k) hf
      · exact .refl _
    · rename_i f hf
      split
      · exact .refl _
      · rename_i hfi
        have hfi' : f.immutable = false := by simpa using hfi
        split
        · exact .refl _
        · rename_i hreq
          have hreq' : (f.required && !C.opts.ignoreRequired) = false := by simpa using hreq
          split
          · rename_i v hv
            have hhas : s.data.has f.name = true := (has_iff _ _).mpr ⟨v, hv⟩
            refine Trace.one (.remove f) ⟨(getField_some hf).1, hfi', him', ?_, hhas, ?_⟩
            · cases h1 : f.required <;> cases h2 : C.opts.ignoreRequired <;> simp_all
            · intro hs q hq
              have := hd hs f hf
              simp only [him', hfi', hreq', hhas, Bool.not_false, Bool.true_and, List.any_eq_false] at this
              simpa using this q hq
          · split <;> exact .refl _

theorem clear_trace (s : State V) : Trace strict xs C W s (clear false C s).1 := by
  unfold clear
  split
  · exact .refl _
  · split
    · exact .refl _
    · rename_i hany
      refine Trace.one .clear ?_
      intro f hf
      have hall : ∀ x ∈ C.fields, x.immutable = false ∧ (x.required = true → C.opts.ignoreRequired = true) := by
        simpa using hany
      obtain ⟨h1, h2⟩ := hall f hf
      refine ⟨h1, ?_⟩
      cases h : f.required with
      | false => exact Or.inl rfl
      | true => exact Or.inr (h2 h)

/-- Every operation of the repaired model is a guarded sequence of primitives whose converted values come from
the operation's own arguments; outside the known defect the sequence is strict. -/
theorem step_trace (hwf : WF C) (s : State V) (op : Op V)
    (hd : strict = true → knownDefect C s op = false) :
    Trace strict op.args C W s (step false C W s op).1 := by
  cases op with
  | setattr a v =>
    simp only [step, setattr]
    split
    · rename_i f hf
      split
      · exact .refl _
      · exact fieldSetter_trace hwf s (fieldByAtt_some hf).1 v (by simp [Op.args])
    · rename_i hf
      exact Trace.one (.setAttrOther a v) ⟨hf, by simp [Op.args]⟩
  | delattr a =>
    simp only [step, delattr]
    split
    · rename_i f hf
      split
      · exact .refl _
      · refine fieldDeleter_trace s (fieldByAtt_some hf).1 ?_
        intro hs
        have := hd hs
        simpa [knownDefect, removalTarget, hf] using this
    · rename_i hf
      split
      · exact Trace.one (.delAttrOther a) hf
      · exact .refl _
  | setitem k v => exact setitem_trace hwf s k v (by simp [Op.args])
  | delitem k =>
    simp only [step, delitem]
    split
    · exact .refl _
    · split
      · rename_i f hf
        refine fieldDeleter_trace s (getField_some hf).1 ?_
        intro hs
        have := hd hs
        simpa [knownDefect, removalTarget, hf] using this
      · rename_i hf
        split
        · exact Trace.one (.delKey k) hf
        · exact .refl _
  | update kvs => exact update_trace hwf s kvs (fun kv h => by simp only [Op.args, List.mem_map]; exact ⟨kv, h, rfl⟩)
  | ior kvs =>
    simp only [step, Bool.false_eq_true, if_false]
    exact update_trace hwf s kvs (fun kv h => by simp only [Op.args, List.mem_map]; exact ⟨kv, h, rfl⟩)
  | pop k d =>
    refine pop_trace s k d ?_
    intro hs f hf
    have := hd hs
    simpa [knownDefect, removalTarget, hf] using this
  | popitem =>
    simp only [step, popitem, Bool.false_eq_true, if_false]
    split
    · exact .refl _
    · split
      · exact .refl _
      · rename_i k hk
        refine pop_trace s k none ?_
        intro hs f hf
        have := hd hs
        simpa [knownDefect, removalTarget, hk, hf] using this
  | setdefault k v =>
    simp only [step, setdefault, Bool.false_eq_true, if_false]
    split
    · exact .refl _
    · have h1 := setitem_trace (strict := strict) (W := W) (xs := (Op.setdefault k v).args) hwf s k v (by simp [Op.args])
      cases hr : setitem false C W s k v with
      | mk s' r =>
        rw [hr] at h1
        cases r <;> exact h1
  | clear => exact clear_trace s

end

end Utv.C07
